/-
  C15 — Search algorithms recover their state from history at every crash point.
  Property theorems only (model: PgModel/Gen.lean; lemmas: PgProofs/Gen.lean; structural variant of
  the current source: PgGen/C15Quirks.lean, regenerated on every run by translate/t_c15.py).

  Reading guide. `runLive env a run` is the uninterrupted instance after the events `run`
  (`propose | feedback i r`, any order, any subset fed back) together with the history the backend
  has persisted (`.hist`: proposals in order, each DNA with the metadata the live algorithm wrote,
  and the reward if it arrived).  `recover env a (setup a) hist` is the fresh instance.  All theorems
  quantify over ALL runs; since every prefix of a run is a run (`C15_every_crash_point`), this is
  the "every crash point" quantifier.
-/
import PgGen.C15Quirks
import PgProofs.Gen
import PgProofs.GenEvo
import PgProofs.GenEvoPop
import PgProofs.GenDedupEvo
import PgProofs.GenEvoGen
import PgProofs.GenEvoChunk
import PgModel.GenOps
import PgModel.GenSched
namespace Pg.C15

/-- Generated obligation: the current source has the repaired shape of `Deduping.recover/_replay`
and `Evolution.recover` (fixes/C15-F22.patch, fixes/C15-F86.patch). -/
theorem C15_quirks_patched : currentQuirks = Quirks.patched := by decide

/-- Crash points are prefixes: the uninterrupted run passes through the state of its prefix of
length `k` (and continues from there with the remaining events). Every theorem below is stated for
all runs, hence holds for `run.take k`, for every `k` — see `C15_every_crash_point`. -/
theorem C15_prefix_state (env : Env) (a : Algo) (run : List Event) (k : Nat) :
    runLive env a run = (run.drop k).foldl (step env a) (runLive env a (run.take k)) := by
  unfold runLive
  rw [← List.foldl_append, List.take_append_drop]

/-! ### Sweeping and Random -/

/-- Sweeping: the recovered instance is in *exactly* the state of the uninterrupted one (counters
and last proposed DNA), for every run. -/
theorem C15_recover_sweeping (env : Env) (run : List Event) :
    recover env .sweeping (setup .sweeping) (runLive env .sweeping run).hist
      = .ok (runLive env .sweeping run).st := by
  rw [live_sweeping env run]
  simp only [recover, setup, baseRecover_sweeping, Nat.zero_add]

/-- Seeded Random: exactly the same state (counters and position in the PRNG stream). -/
theorem C15_recover_random_seeded (env : Env) (seed : Nat) (run : List Event) :
    recover env (.random seed true) (setup (.random seed true)) (runLive env (.random seed true) run).hist
      = .ok (runLive env (.random seed true) run).st := by
  rw [live_random env seed true run]
  simp only [recover, setup, baseRecover_random, Nat.zero_add, ↓reduceIte]

/-- Unseeded Random: the counters are recovered (the position in the process-wide PRNG is not part
of the history and is not claimed). -/
theorem C15_recover_random_unseeded (env : Env) (seed : Nat) (run : List Event) :
    ∃ s, recover env (.random seed false) (setup (.random seed false))
           (runLive env (.random seed false) run).hist = .ok s
      ∧ s.np = (runLive env (.random seed false) run).st.np
      ∧ s.nf = (runLive env (.random seed false) run).st.nf := by
  refine ⟨.random (runLive env (.random seed false) run).hist.length
      (fedCount (runLive env (.random seed false) run).hist) 0, ?_, ?_, ?_⟩
  · simp only [recover, setup, baseRecover_random, Nat.zero_add, Bool.false_eq_true, ↓reduceIte]
  · rw [live_random env seed false run]; rfl
  · rw [live_random env seed false run]; rfl

/-- Continuation, Sweeping: the next `m` proposals (and every later state) of the recovered
instance are those of the uninterrupted one. -/
theorem C15_continue_sweeping (env : Env) (run : List Event) (m : Nat) :
    (recover env .sweeping (setup .sweeping) (runLive env .sweeping run).hist).map
        (proposeN env .sweeping m)
      = .ok (proposeN env .sweeping m (runLive env .sweeping run).st) := by
  rw [C15_recover_sweeping]; rfl

/-- Continuation, seeded Random (same oracle tail). -/
theorem C15_continue_random_seeded (env : Env) (seed : Nat) (run : List Event) (m : Nat) :
    (recover env (.random seed true) (setup (.random seed true))
        (runLive env (.random seed true) run).hist).map (proposeN env (.random seed true) m)
      = .ok (proposeN env (.random seed true) m (runLive env (.random seed true) run).st) := by
  rw [C15_recover_random_seeded]; rfl

/-! ### Deduping -/

/-- The inner generator's `recover` never raises (holds for Sweeping and Random, below). -/
def RecoverTotal (env : Env) (inner : Algo) : Prop :=
  ∀ h : Hist, ∃ s, recover env inner (setup inner) h = .ok s

theorem recoverTotal_sweeping (env : Env) : RecoverTotal env .sweeping :=
  fun h => by simp only [recover, setup, baseRecover_sweeping]; exact ⟨_, rfl⟩

theorem recoverTotal_random (env : Env) (seed : Nat) (seeded : Bool) : RecoverTotal env (.random seed seeded) :=
  fun h => by simp only [recover, setup, baseRecover_random]; exact ⟨_, rfl⟩

/-- FULL statement one would like: for every inner generator, `Deduping(inner)` recovers its
counters and its de-duplication memory (the cache, as a dict in insertion order). -/
def C15_recover_dedup_Full (env : Env) : Prop :=
  ∀ (inner : Algo) (hid md ma : Nat) (au : Bool) (run : List Event),
    ∃ np nf si si' c,
      (runLive env (.deduping inner hid md ma au) run).st = .deduping np nf si c
      ∧ recover env (.deduping inner hid md ma au) (setup (.deduping inner hid md ma au))
          (runLive env (.deduping inner hid md ma au) run).hist = .ok (.deduping np nf si' c)

/-- PARTIAL (what holds of the repaired source): de-duplication over a generator that takes no
feedback and whose own `recover` is total (Sweeping, Random) recovers counters and cache exactly, for
every run — rejected duplicates, in-flight proposals and exhausted attempts included. -/
theorem C15_recover_dedup_partial (env : Env) (hq : env.q.dedupForwardsReplay = false)
    (inner : Algo) (hid md ma : Nat) (au : Bool)
    (hnf : needsFeedback inner = false) (hrec : RecoverTotal env inner) (run : List Event) :
    ∃ np nf si si' c,
      (runLive env (.deduping inner hid md ma au) run).st = .deduping np nf si c
      ∧ recover env (.deduping inner hid md ma au) (setup (.deduping inner hid md ma au))
          (runLive env (.deduping inner hid md ma au) run).hist = .ok (.deduping np nf si' c) := by
  obtain ⟨⟨si, hst⟩, hkeyed⟩ := live_dedup_nofb env inner hid md ma au hnf run
  obtain ⟨si', hsi'⟩ := hrec (runLive env (.deduping inner hid md ma au) run).hist
  refine ⟨_, _, si, si', _, hst, ?_⟩
  simp only [recover, hq, Bool.false_eq_true, ↓reduceIte, setup, hsi']
  rw [baseRecover_dedup_nofb env inner hid md ma au hq hnf _ hkeyed]
  simp only [Nat.zero_add]

/-- …instantiated for the current source (obligation `C15_quirks_patched`) and the two base
generators. -/
theorem C15_recover_dedup_sweeping (env : Env) (hq : env.q = currentQuirks) (hid md ma : Nat) (au : Bool)
    (run : List Event) :
    ∃ np nf si si' c,
      (runLive env (.deduping .sweeping hid md ma au) run).st = .deduping np nf si c
      ∧ recover env (.deduping .sweeping hid md ma au) (setup (.deduping .sweeping hid md ma au))
          (runLive env (.deduping .sweeping hid md ma au) run).hist = .ok (.deduping np nf si' c) :=
  C15_recover_dedup_partial env (by rw [hq, C15_quirks_patched]; rfl) .sweeping hid md ma au rfl
    (recoverTotal_sweeping env) run

theorem C15_recover_dedup_random (env : Env) (hq : env.q = currentQuirks) (seed : Nat) (seeded : Bool)
    (hid md ma : Nat) (au : Bool) (run : List Event) :
    ∃ np nf si si' c,
      (runLive env (.deduping (.random seed seeded) hid md ma au) run).st = .deduping np nf si c
      ∧ recover env (.deduping (.random seed seeded) hid md ma au)
          (setup (.deduping (.random seed seeded) hid md ma au))
          (runLive env (.deduping (.random seed seeded) hid md ma au) run).hist
        = .ok (.deduping np nf si' c) :=
  C15_recover_dedup_partial env (by rw [hq, C15_quirks_patched]; rfl) (.random seed seeded) hid md ma au rfl
    (recoverTotal_random env seed seeded) run

/-! ### Counterexamples (replayed on the real code by the findings witnesses) -/

/-- A small concrete world: 6 points, sweeping initialiser, reproduction = one child `step mod 6`. -/
def wEnv (q : Quirks) : Env :=
  { space := [0, 1, 2, 3, 4, 5], draw := fun _ pos => (pos * 5 + 3) % 6, hash := fun hid d => if hid = 0 then d else d % hid,
    repro := fun _ _ step => [step % 6], update := fun p _ => p, q := q }

def wDedupEvo : Algo := .deduping (.evolution .sweeping (some 2)) 6 1 3 false

/-- propose/feedback × 4, strictly sequential -/
def wRun8 : List Event :=
  [.propose, .feedback 0 1, .propose, .feedback 1 2, .propose, .feedback 2 3, .propose, .feedback 3 4]

def innerSummary : Except Err St → Option (Nat × Nat × Bool × Nat)
  | .ok (.deduping _ _ (.evolution np nf _ ini _ pop _) _) => some (np, nf, ini, pop.length)
  | _ => none

/-- F22 (pinned source): after `Deduping(Evolution)` recovers, the wrapped evolution has seen
0 proposals / 0 feedbacks and is still initialising, whereas the uninterrupted one has 4 / 4 and is
evolving.  Hence the FULL statement is false of the pinned source. -/
theorem C15_F22_counterexample_pinned :
    innerSummary (.ok (runLive (wEnv .pinned) wDedupEvo wRun8).st) = some (4, 4, true, 4)
    ∧ innerSummary (recover (wEnv .pinned) wDedupEvo (setup wDedupEvo) (runLive (wEnv .pinned) wDedupEvo wRun8).hist)
        = some (0, 0, false, 4) := by
  decide

def cacheSummary : Except Err St → Option Cache
  | .ok (.deduping _ _ _ c) => some c
  | _ => none

/-- F22b (pinned source): `_replay` caches a `None` reward for a proposal whose feedback never
arrived; the live path caches on feedback only. -/
theorem C15_F22b_counterexample_pinned :
    cacheSummary (.ok (runLive (wEnv .pinned) wDedupEvo [.propose]).st) = some []
    ∧ cacheSummary (recover (wEnv .pinned) wDedupEvo (setup wDedupEvo) (runLive (wEnv .pinned) wDedupEvo [.propose]).hist)
        = some [(0, [none])] := by
  decide

theorem C15_recover_dedup_Full_false_pinned : ¬ C15_recover_dedup_Full (wEnv .pinned) := by
  intro h
  obtain ⟨np, nf, si, si', c, h1, h2⟩ := h (.evolution .sweeping (some 2)) 6 1 3 false [.propose]
  have e1 := (C15_F22b_counterexample_pinned).1
  have e2 := (C15_F22b_counterexample_pinned).2
  unfold wDedupEvo at e1 e2
  rw [h1] at e1
  rw [h2] at e2
  simp only [cacheSummary, Option.some.injEq] at e1 e2
  rw [e1] at e2
  cases e2

/-- The same two runs on the repaired source: the wrapped evolution and the cache are recovered. -/
theorem C15_F22_fixed :
    innerSummary (recover (wEnv .patched) wDedupEvo (setup wDedupEvo) (runLive (wEnv .patched) wDedupEvo wRun8).hist)
        = innerSummary (.ok (runLive (wEnv .patched) wDedupEvo wRun8).st)
    ∧ cacheSummary (recover (wEnv .patched) wDedupEvo (setup wDedupEvo) (runLive (wEnv .patched) wDedupEvo [.propose]).hist)
        = cacheSummary (.ok (runLive (wEnv .patched) wDedupEvo [.propose]).st) := by
  decide

/-! Non-vacuity: the hypotheses of the partial theorem are satisfiable by the current source, and a
run with a rejected duplicate, an in-flight proposal and feedback exists. -/
example : (wEnv currentQuirks).q.dedupForwardsReplay = false := by decide
example : needsFeedback (.deduping .sweeping 2 1 3 false) = false := rfl
example : (runLive (wEnv .patched) (.deduping .sweeping 2 1 3 false) [.propose, .propose, .feedback 0 5, .propose]).hist.length = 2 := by
  decide

/-! ### Continuation of Deduping over Sweeping / seeded Random -/

/-- FULL statement of the property's second sentence for the wrappers: after recovery,
`Deduping(Sweeping)` and `Deduping(Random(seed))` continue with exactly the proposals the
uninterrupted instance makes. -/
def C15_continue_dedup_Full (env : Env) : Prop :=
  ∀ (inner : Algo), (inner = .sweeping ∨ ∃ seed, inner = .random seed true) →
    ∀ (hid md ma : Nat) (au : Bool) (run : List Event) (m : Nat),
      ∃ s', recover env (.deduping inner hid md ma au) (setup (.deduping inner hid md ma au))
              (runLive env (.deduping inner hid md ma au) run).hist = .ok s'
        ∧ (proposeN env (.deduping inner hid md ma au) m s').1
            = (proposeN env (.deduping inner hid md ma au) m (runLive env (.deduping inner hid md ma au) run).st).1

/-- Exclusion predicate (Sweeping): the sweep position of the live instance is the last persisted
proposal — true unless the last `propose` of the run raised StopIteration after skipping duplicates
(a failed `propose` moves the sweep but leaves no trace in the history). -/
def SweepAtLast (l : Live) : Prop :=
  ∃ np nf a b c, l.st = .deduping np nf (.sweeping a b (lastOr none l.hist)) c

/-- Exclusion predicate (Random): the live PRNG position equals the number of persisted proposals —
i.e. no attempt was ever rejected as a duplicate (finding F88 is exactly the other case). -/
def DrawsAtHistory (l : Live) : Prop :=
  ∃ np nf a b c, l.st = .deduping np nf (.random a b l.hist.length) c

theorem C15_continue_dedup_sweeping_partial (env : Env) (hq : env.q.dedupForwardsReplay = false)
    (hid md ma : Nat) (au : Bool) (run : List Event) (m : Nat)
    (hs : SweepAtLast (runLive env (.deduping .sweeping hid md ma au) run)) :
    ∃ s', recover env (.deduping .sweeping hid md ma au) (setup (.deduping .sweeping hid md ma au))
            (runLive env (.deduping .sweeping hid md ma au) run).hist = .ok s'
      ∧ (proposeN env (.deduping .sweeping hid md ma au) m s').1
          = (proposeN env (.deduping .sweeping hid md ma au) m (runLive env (.deduping .sweeping hid md ma au) run).st).1 := by
  obtain ⟨⟨si, hst⟩, hkeyed⟩ := live_dedup_nofb env .sweeping hid md ma au rfl run
  obtain ⟨np, nf, a, b, c, hs⟩ := hs
  rw [hs] at hst
  injection hst with h1 h2 h3 h4
  have hrec : recover env (.deduping .sweeping hid md ma au) (setup (.deduping .sweeping hid md ma au))
      (runLive env (.deduping .sweeping hid md ma au) run).hist
      = .ok (.deduping (0 + (runLive env (.deduping .sweeping hid md ma au) run).hist.length)
          (0 + fedCount (runLive env (.deduping .sweeping hid md ma au) run).hist)
          (.sweeping (0 + (runLive env (.deduping .sweeping hid md ma au) run).hist.length)
            (0 + fedCount (runLive env (.deduping .sweeping hid md ma au) run).hist)
            (lastOr none (runLive env (.deduping .sweeping hid md ma au) run).hist))
          (cacheOfKeys [] (keysOf (runLive env (.deduping .sweeping hid md ma au) run).hist))) := by
    simp only [recover, hq, Bool.false_eq_true, ↓reduceIte, setup, baseRecover_sweeping]
    rw [baseRecover_dedup_nofb env .sweeping hid md ma au hq rfl _ hkeyed]
  refine ⟨_, hrec, ?_⟩
  rw [hs, h1, h2, h4]
  simp only [Nat.zero_add]
  exact proposeN_dedup_sweeping_counters env hid md ma au m _ _ _ _ _ _ _ _

theorem C15_continue_dedup_random_partial (env : Env) (hq : env.q.dedupForwardsReplay = false)
    (seed hid md ma : Nat) (au : Bool) (run : List Event) (m : Nat)
    (hs : DrawsAtHistory (runLive env (.deduping (.random seed true) hid md ma au) run)) :
    ∃ s', recover env (.deduping (.random seed true) hid md ma au) (setup (.deduping (.random seed true) hid md ma au))
            (runLive env (.deduping (.random seed true) hid md ma au) run).hist = .ok s'
      ∧ (proposeN env (.deduping (.random seed true) hid md ma au) m s').1
          = (proposeN env (.deduping (.random seed true) hid md ma au) m
              (runLive env (.deduping (.random seed true) hid md ma au) run).st).1 := by
  obtain ⟨⟨si, hst⟩, hkeyed⟩ := live_dedup_nofb env (.random seed true) hid md ma au rfl run
  obtain ⟨np, nf, a, b, c, hs⟩ := hs
  rw [hs] at hst
  injection hst with h1 h2 h3 h4
  have hrec : recover env (.deduping (.random seed true) hid md ma au) (setup (.deduping (.random seed true) hid md ma au))
      (runLive env (.deduping (.random seed true) hid md ma au) run).hist
      = .ok (.deduping (0 + (runLive env (.deduping (.random seed true) hid md ma au) run).hist.length)
          (0 + fedCount (runLive env (.deduping (.random seed true) hid md ma au) run).hist)
          (.random (0 + (runLive env (.deduping (.random seed true) hid md ma au) run).hist.length)
            (0 + fedCount (runLive env (.deduping (.random seed true) hid md ma au) run).hist)
            (0 + (runLive env (.deduping (.random seed true) hid md ma au) run).hist.length))
          (cacheOfKeys [] (keysOf (runLive env (.deduping (.random seed true) hid md ma au) run).hist))) := by
    simp only [recover, hq, Bool.false_eq_true, ↓reduceIte, setup, baseRecover_random]
    rw [baseRecover_dedup_nofb env (.random seed true) hid md ma au hq rfl _ hkeyed]
  refine ⟨_, hrec, ?_⟩
  rw [hs, h1, h2, h4]
  simp only [Nat.zero_add]
  exact proposeN_dedup_random_counters env seed true hid md ma au m _ _ _ _ _ _ _ _

/-- F88 (also on the repaired source): the PRNG draws 0 0 1 0 2 …; the second proposal rejects one
duplicate, so the live stream is at position 3 and the recovered one at 2; with two attempts per
proposal the uninterrupted instance proposes 2 next while the recovered one raises StopIteration. -/
def f34Env : Env :=
  { space := [0, 1, 2, 3, 4, 5], draw := fun _ pos => [0, 0, 1, 0, 2, 3, 4, 5].getD pos 0,
    hash := fun _ d => d, repro := fun _ _ _ => [], update := fun p _ => p, q := .patched }

def f34Algo : Algo := .deduping (.random 7 true) 0 1 2 false

theorem C15_F88_counterexample :
    (proposeN f34Env f34Algo 1 (runLive f34Env f34Algo [.propose, .propose]).st).1
        = [.ok { dna := 2, key := some 2 }]
    ∧ (recover f34Env f34Algo (setup f34Algo) (runLive f34Env f34Algo [.propose, .propose]).hist).map
        (fun s => (proposeN f34Env f34Algo 1 s).1) = .ok [.error .stop] := by
  decide

theorem C15_continue_dedup_Full_false : ¬ C15_continue_dedup_Full f34Env := by
  intro h
  obtain ⟨s', h1, h2⟩ := h (.random 7 true) (Or.inr ⟨7, rfl⟩) 0 1 2 false [.propose, .propose] 1
  have e1 := C15_F88_counterexample.1
  have e2 := C15_F88_counterexample.2
  unfold f34Algo at e1 e2
  rw [h1] at e2
  simp only [Except.map, Except.ok.injEq] at e2
  rw [e1, e2] at h2
  cases h2

/-! Non-vacuity of the exclusion predicates: runs with rejected duplicates / feedback satisfying them. -/
def exEnv : Env := { wEnv .patched with hash := fun _ d => d / 2 }
/-- 0 accepted, 1 rejected (same key as 0), 2 accepted, feedback, 3 rejected, 4 accepted. -/
example : SweepAtLast (runLive exEnv (.deduping .sweeping 1 1 3 false)
    [.propose, .propose, .feedback 0 5, .propose]) :=
  ⟨3, 1, 5, 0, [(0, [none]), (1, [none]), (2, [none])], by decide⟩
example : DrawsAtHistory (runLive f34Env f34Algo [.propose, .feedback 0 3]) :=
  ⟨1, 1, 1, 0, [(0, [none])], by decide⟩

/-! ### Evolution -/

/-- Evolution over a Sweeping / Random initialiser (any initial size, ANY reproduction and population
update operations — they are parameters of `env`): on the repaired source `recover` never raises on a
persisted history (all metadata assertions hold) and restores `num_proposals`, `num_feedbacks` and the
POPULATION (every individual with its fitness and metadata, in order) exactly, for every run —
out-of-order feedback, in-flight proposals, several children per generation and failed proposals
included.  (The generation counter and the init-phase flag are tied by correspondence and oracle at
every crash point, with counterexamples F87/F89; they are not proved for all runs.) -/
theorem C15_recover_evolution (env : Env) (hq : env.q = Quirks.patched) (init : Algo) (hb : IsBase init)
    (initSize : Option Nat) (run : List Event) :
    ∃ np nf pop si ini g pend si' ini' g' pend',
      (runLive env (.evolution init initSize) run).st = .evolution np nf si ini g pop pend
      ∧ recover env (.evolution init initSize) (setup (.evolution init initSize))
          (runLive env (.evolution init initSize) run).hist = .ok (.evolution np nf si' ini' g' pop pend') := by
  obtain ⟨si, ini, g, pop, pend, hst, _, hent, hpop, _, _⟩ := live_evolution_pop env init hb initSize run
  have hg : env.q.evoInitGenBump = false := by rw [hq]; rfl
  have ho : env.q.evoProposalOrder = false := by rw [hq]; rfl
  obtain ⟨g', hloop⟩ := evoRecover_loop_pop env hg (.evolution init initSize)
    (sortByFeedback (runLive env (.evolution init initSize) run).hist)
    (fun e he => hent e ((mem_sortByFeedback e _).mp he)) 0 0 (setup init) false 0 [] []
  rw [hpop] at hloop
  have htot : RecoverTotal env init := by
    rcases hb with rfl | ⟨seed, sd, rfl⟩
    · exact recoverTotal_sweeping env
    · exact recoverTotal_random env seed sd
  obtain ⟨si', hsi'⟩ := htot ((runLive env (.evolution init initSize) run).hist.filter isInitFed)
  have hrec : ∃ ini' g'', recover env (.evolution init initSize) (setup (.evolution init initSize))
      (runLive env (.evolution init initSize) run).hist
      = .ok (.evolution (runLive env (.evolution init initSize) run).hist.length
          (fedCount (runLive env (.evolution init initSize) run).hist) si' ini' g'' pop []) := by
    simp only [recover, ho, setup, hloop, hsi', Bool.false_eq_true, ↓reduceIte, length_sortByFeedback,
      Nat.zero_add]
    exact ⟨_, _, rfl⟩
  obtain ⟨ini', g'', hrec⟩ := hrec
  exact ⟨_, _, pop, si, ini, g, pend, si', ini', g'', [], hst, hrec⟩

/-- Corollary in terms of the public counters. -/
theorem C15_recover_evolution_counts (env : Env) (hq : env.q = Quirks.patched) (init : Algo) (hb : IsBase init)
    (initSize : Option Nat) (run : List Event) :
    ∃ s', recover env (.evolution init initSize) (setup (.evolution init initSize))
            (runLive env (.evolution init initSize) run).hist = .ok s'
      ∧ s'.np = (runLive env (.evolution init initSize) run).st.np
      ∧ s'.nf = (runLive env (.evolution init initSize) run).st.nf := by
  obtain ⟨np, nf, pop, si, ini, g, pend, si', ini', g', pend', h1, h2⟩ :=
    C15_recover_evolution env hq init hb initSize run
  exact ⟨_, h2, by rw [h1]; rfl, by rw [h1]; rfl⟩

/-- F86 (pinned source): with out-of-order feedback and `population_update = Last(2)` the recovered
population contains a different individual than the uninterrupted one; the repaired source agrees. -/
def f35Env (q : Quirks) : Env :=
  { space := [0, 1, 2, 3], draw := fun _ _ => 0, hash := fun _ d => d,
    repro := fun _ _ step => [step % 4], update := fun p _ => p.drop (p.length - 2), q := q }

def f35Algo : Algo := .evolution .sweeping (some 1)

def f35Run : List Event :=
  [.propose, .feedback 0 4, .propose, .propose, .propose, .feedback 3 8, .feedback 2 3, .feedback 1 5]

def popSummary : Except Err St → Option (Nat × List (Nat × Option Int))
  | .ok (.evolution _ _ _ _ g pop _) => some (g, pop.map fun it => (it.dna, it.reward))
  | _ => none

theorem C15_F86_counterexample_pinned :
    popSummary (.ok (runLive (f35Env .pinned) f35Algo f35Run).st)
      ≠ popSummary (recover (f35Env .pinned) f35Algo (setup f35Algo) (runLive (f35Env .pinned) f35Algo f35Run).hist) := by
  decide

theorem C15_F86_fixed :
    popSummary (.ok (runLive (f35Env .patched) f35Algo f35Run).st)
      = popSummary (recover (f35Env .patched) f35Algo (setup f35Algo) (runLive (f35Env .patched) f35Algo f35Run).hist) := by
  decide

/-- F87 (pinned source): recovered while still initialising, `num_generations` is 1 instead of 0. -/
theorem C15_F87_counterexample_pinned :
    popSummary (.ok (runLive (f35Env .pinned) (.evolution .sweeping (some 3)) [.propose]).st) = some (0, [])
    ∧ popSummary (recover (f35Env .pinned) (.evolution .sweeping (some 3)) (setup (.evolution .sweeping (some 3)))
        (runLive (f35Env .pinned) (.evolution .sweeping (some 3)) [.propose]).hist) = some (1, [])
    ∧ popSummary (recover (f35Env .patched) (.evolution .sweeping (some 3)) (setup (.evolution .sweeping (some 3)))
        (runLive (f35Env .patched) (.evolution .sweeping (some 3)) [.propose]).hist) = some (0, []) := by
  decide

example : IsBase (.random 3 false) := Or.inr ⟨3, false, rfl⟩
example : (runLive (f35Env .patched) f35Algo f35Run).st.nf = 4 := by decide

/-- Exclusion predicate of the generation-counter theorem (finding F89): the live instance switched
to the evolving phase (`num_generations = 1`) although no evolved individual was ever proposed and the
history does not show a complete initial population — which happens only when `_evolve` raised inside
the `propose` that made the switch (a failed `propose` leaves no trace in the history). -/
def F89State (sz : Option Nat) (l : Live) : Prop :=
  ∃ np nf si pop pend, l.st = .evolution np nf si true 1 pop pend ∧ NoNonInit l.hist
    ∧ doneInit sz (fedCount l.hist) = false

/-- FULL statement: Evolution recovers counters, population AND generation counter. -/
def C15_recover_evolution_generations_Full (env : Env) : Prop :=
  ∀ (init : Algo), IsBase init → ∀ (sz : Option Nat), sz ≠ some 0 → ∀ (run : List Event),
    ∃ np nf g pop si ini pend si' ini' pend',
      (runLive env (.evolution init sz) run).st = .evolution np nf si ini g pop pend
      ∧ recover env (.evolution init sz) (setup (.evolution init sz)) (runLive env (.evolution init sz) run).hist
          = .ok (.evolution np nf si' ini' g pop pend')

/-- PARTIAL (repaired source; initial size ≥ 1 or none): for every run that does not end in the F89
state, the recovered instance has the counters, the population and the `num_generations` of the
uninterrupted one. -/
theorem C15_recover_evolution_generations_partial (env : Env) (hq : env.q = Quirks.patched) (init : Algo)
    (hb : IsBase init) (sz : Option Nat) (hsz : sz ≠ some 0) (run : List Event)
    (hex : ¬ F89State sz (runLive env (.evolution init sz) run)) :
    ∃ np nf g pop si ini pend si' ini' pend',
      (runLive env (.evolution init sz) run).st = .evolution np nf si ini g pop pend
      ∧ recover env (.evolution init sz) (setup (.evolution init sz)) (runLive env (.evolution init sz) run).hist
          = .ok (.evolution np nf si' ini' g pop pend') := by
  obtain ⟨si, ini, g, pop, pend, hst, _, hent, hpop, _, _⟩ := live_evolution_pop env init hb sz run
  obtain ⟨np2, si2, ini2, g2, pop2, pend2, hst2, _, _, hle, hb0, hb1⟩ := live_evolution_gen env init hb sz hsz run
  rw [hst] at hst2
  injection hst2 with _ _ _ hini hg _ _
  subst hini; subst hg
  have hg' : env.q.evoInitGenBump = false := by rw [hq]; rfl
  have ho : env.q.evoProposalOrder = false := by rw [hq]; rfl
  have hdc : env.q.evoInitDonePerCall = false := by rw [hq]; rfl
  obtain ⟨si', hrec⟩ := recover_evolution_full env hg' ho hdc init hb sz _ hent
  rw [hpop] at hrec
  refine ⟨_, _, g, pop, si, ini, pend, si', doneInit sz (fedCount (runLive env (.evolution init sz) run).hist), [], hst, ?_⟩
  rw [hrec]
  -- it remains to show that the recovered generation counter is `g`
  have hup := gFold_upper (sortByFeedback (runLive env (.evolution init sz) run).hist) 0
  have hat := gFold_attained (sortByFeedback (runLive env (.evolution init sz) run).hist) 0
  generalize (sortByFeedback (runLive env (.evolution init sz) run).hist).foldl gStep 0 = G at hup hat ⊢
  have hgeq : (if (doneInit sz (fedCount (runLive env (.evolution init sz) run).hist) && decide (G = 0)) = true then 1 else G) = g := by
    cases ini with
    | false =>
      obtain ⟨hg0, _, hno, hlt⟩ := hb0 rfl
      have hG : G = 0 := by
        rcases hat with h | ⟨e, he, hn, _⟩
        · exact h
        · exact absurd hn (hno e ((mem_sortByFeedback e _).mp he))
      have hdone : doneInit sz (fedCount (runLive env (.evolution init sz) run).hist) = false :=
        doneInit_false_of_lt sz _ hlt
      simp [hG, hdone, hg0]
    | true =>
      obtain ⟨hg1, hc⟩ := hb1 rfl
      rcases hc with ⟨e, he, hn, hge⟩ | ⟨h1, hno⟩
      · have h1 : g ≤ G := by
          rw [← hge]; exact hup e ((mem_sortByFeedback e _).mpr he) hn
        have h2 : G ≤ g := by
          rcases hat with h | ⟨e', he', hn', hg'⟩
          · omega
          · rw [← hg']; exact hle e' ((mem_sortByFeedback e' _).mp he') hn'
        have : G ≠ 0 := by omega
        simp [this]; omega
      · have hG : G = 0 := by
          rcases hat with h | ⟨e, he, hn, _⟩
          · exact h
          · exact absurd hn (hno e ((mem_sortByFeedback e _).mp he))
        have hdone : doneInit sz (fedCount (runLive env (.evolution init sz) run).hist) = true := by
          cases hd : doneInit sz (fedCount (runLive env (.evolution init sz) run).hist) with
          | true => rfl
          | false =>
            exfalso
            apply hex
            exact ⟨(runLive env (.evolution init sz) run).hist.length,
              fedCount (runLive env (.evolution init sz) run).hist, si, pop, pend, by rw [hst, h1], hno, hd⟩
        simp [hG, hdone, h1]
  rw [hgeq]

/-- F89 (also on the repaired source): the sweeping initialiser is exhausted after 3 proposals, the
4th `propose` switches to the evolving phase and then raises (empty population). -/
def f37Env : Env :=
  { space := [0, 1, 2], draw := fun _ _ => 0, hash := fun _ d => d,
    repro := fun pop _ step => if pop.isEmpty then [] else [step % 3], update := fun p _ => p, q := .patched }

theorem C15_F89_counterexample :
    popSummary (.ok (runLive f37Env (.evolution .sweeping none) [.propose, .propose, .propose, .propose]).st)
      = some (1, [])
    ∧ popSummary (recover f37Env (.evolution .sweeping none) (setup (.evolution .sweeping none))
        (runLive f37Env (.evolution .sweeping none) [.propose, .propose, .propose, .propose]).hist) = some (0, []) := by
  decide

theorem C15_recover_evolution_generations_Full_false : ¬ C15_recover_evolution_generations_Full f37Env := by
  intro h
  obtain ⟨np, nf, g, pop, si, ini, pend, si', ini', pend', h1, h2⟩ :=
    h .sweeping (Or.inl rfl) none (by simp) [.propose, .propose, .propose, .propose]
  have e1 := C15_F89_counterexample.1
  have e2 := C15_F89_counterexample.2
  rw [h1] at e1
  rw [h2] at e2
  simp only [popSummary, Option.some.injEq, Prod.mk.injEq] at e1 e2
  omega

/-- Non-vacuity: an ordinary run (two initial proposals, feedback, evolution, a child in flight) is
not in the excluded state. -/
example : ¬ F89State (some 1) (runLive (f35Env .patched) f35Algo f35Run) := by
  rintro ⟨np, nf, si, pop, pend, h, _, _⟩
  have : popSummary (.ok (runLive (f35Env .patched) f35Algo f35Run).st) = some (1, pop.map fun it => (it.dna, it.reward)) := by
    rw [h]; rfl
  revert this
  generalize pop.map (fun it => (it.dna, it.reward)) = x
  intro this
  have h2 : (popSummary (.ok (runLive (f35Env .patched) f35Algo f35Run).st)).map (·.1) = some 4 := by decide
  rw [this] at h2
  simp at h2

/-! ### Deduping over Evolution (the configuration of finding F22), repaired source -/

/-- `Deduping(Evolution(...))` with a Sweeping / Random initialiser, any hash function, duplicate
limit, attempt limit, automatic reward on or off, any reproduction / update operations: for EVERY run
the recovered instance has the outer counters, the wrapped evolution's feedback count and POPULATION
of the uninterrupted one, and the same de-duplication memory — for every key the same rewards
(as a multiset: the live cache lists them in feedback order, the recovered one in proposal order).
This is the universally quantified counterpart of `C15_F22_counterexample_pinned` /
`C15_F22b_counterexample_pinned` for the repaired source. (The wrapped evolution's *proposal* counter
is not recoverable when duplicates were dropped — they leave no trace in the history — and is not
claimed.) -/
theorem C15_recover_dedup_evolution (env : Env) (hq : env.q = Quirks.patched) (init : Algo) (hb : IsBase init)
    (sz : Option Nat) (hid md ma : Nat) (au : Bool) (run : List Event) :
    ∃ np nf pop c c' enp enp' si ini g pend si' ini' g' pend',
      (runLive env (.deduping (.evolution init sz) hid md ma au) run).st
        = .deduping np nf (.evolution enp nf si ini g pop pend) c
      ∧ recover env (.deduping (.evolution init sz) hid md ma au) (setup (.deduping (.evolution init sz) hid md ma au))
          (runLive env (.deduping (.evolution init sz) hid md ma au) run).hist
        = .ok (.deduping np nf (.evolution enp' nf si' ini' g' pop pend') c')
      ∧ ∀ k, (cacheGet c k).Perm (cacheGet c' k) := by
  obtain ⟨enp, si, ini, g, pop, pend, hst, _, hkeyed, hpop, _, _⟩ :=
    live_dedup_evolution env init hb sz hid md ma au run
  have hd : env.q.dedupForwardsReplay = false := by rw [hq]; rfl
  have hg : env.q.evoInitGenBump = false := by rw [hq]; rfl
  have ho : env.q.evoProposalOrder = false := by rw [hq]; rfl
  obtain ⟨si', ini', g', hrecE⟩ := recover_evolution_of_ok env hg ho init hb sz
    (runLive env (.deduping (.evolution init sz) hid md ma au) run).hist (fun e he => (hkeyed e he).1)
  rw [hpop] at hrecE
  refine ⟨_, _, pop, _,
    cacheOfEntries [] (fedOf (runLive env (.deduping (.evolution init sz) hid md ma au) run).hist),
    enp, (runLive env (.deduping (.evolution init sz) hid md ma au) run).hist.length,
    si, ini, g, pend, si', ini', g', [], hst, ?_, ?_⟩
  · rw [recover_dedup_patched env _ hid md ma au hd, hrecE]
    simp only
    rw [baseRecover_dedup_fb env _ hid md ma au hd rfl _ (fun e he => (hkeyed e he).2)]
    simp only [Nat.zero_add]
  · intro k
    exact cacheOfEntries_perm _ _ ((perm_sortByFeedback _).filter _) k

/-! ### Chunked recovery: the history may arrive in several `recover()` calls -/

/-- Sweeping, from ANY state: recovering `h₁ ++ h₂` in one call = recovering `h₁`, then `h₂`. -/
theorem C15_recover_append_sweeping (env : Env) (s : St) (h₁ h₂ : Hist) :
    recover env .sweeping s (h₁ ++ h₂) = match recover env .sweeping s h₁ with
      | .error e => .error e
      | .ok s' => recover env .sweeping s' h₂ := by
  simp only [recover]; exact baseRecover_append env .sweeping s h₁ h₂

/-- Random (seeded or not), from any state. -/
theorem C15_recover_append_random (env : Env) (seed : Nat) (sd : Bool) (s : St) (h₁ h₂ : Hist) :
    recover env (.random seed sd) s (h₁ ++ h₂) = match recover env (.random seed sd) s h₁ with
      | .error e => .error e
      | .ok s' => recover env (.random seed sd) s' h₂ := by
  simp only [recover]; exact baseRecover_append env (.random seed sd) s h₁ h₂

/-- Deduping over Sweeping (repaired source), from any well-shaped state, on histories whose DNAs carry
their `dedup_key` (as every persisted history does, `live_dedup_nofb`). -/
theorem C15_recover_append_dedup_sweeping (env : Env) (hq : env.q.dedupForwardsReplay = false)
    (hid md ma : Nat) (au : Bool) (np nf a b : Nat) (l : Option Nat) (c : Cache) (h₁ h₂ : Hist)
    (hk : AllKeyed (h₁ ++ h₂)) :
    recover env (.deduping .sweeping hid md ma au) (.deduping np nf (.sweeping a b l) c) (h₁ ++ h₂)
      = match recover env (.deduping .sweeping hid md ma au) (.deduping np nf (.sweeping a b l) c) h₁ with
        | .error e => .error e
        | .ok s' => recover env (.deduping .sweeping hid md ma au) s' h₂ := by
  obtain ⟨hk1, hk2⟩ := allKeyed_append hk
  rw [recover_dedup_sweeping env hq hid md ma au _ _ _ _ _ _ _ hk,
      recover_dedup_sweeping env hq hid md ma au _ _ _ _ _ _ _ hk1]
  simp only
  rw [recover_dedup_sweeping env hq hid md ma au _ _ _ _ _ _ _ hk2]
  simp only [List.length_append, fedCount_append, lastOr_append, keysOf_append, cacheOfKeys_append, Nat.add_assoc]

/-- Deduping over Random (repaired source). -/
theorem C15_recover_append_dedup_random (env : Env) (hq : env.q.dedupForwardsReplay = false) (seed : Nat) (sd : Bool)
    (hid md ma : Nat) (au : Bool) (np nf a b pos : Nat) (c : Cache) (h₁ h₂ : Hist)
    (hk : AllKeyed (h₁ ++ h₂)) :
    recover env (.deduping (.random seed sd) hid md ma au) (.deduping np nf (.random a b pos) c) (h₁ ++ h₂)
      = match recover env (.deduping (.random seed sd) hid md ma au) (.deduping np nf (.random a b pos) c) h₁ with
        | .error e => .error e
        | .ok s' => recover env (.deduping (.random seed sd) hid md ma au) s' h₂ := by
  obtain ⟨hk1, hk2⟩ := allKeyed_append hk
  rw [recover_dedup_random env hq seed sd hid md ma au _ _ _ _ _ _ _ hk,
      recover_dedup_random env hq seed sd hid md ma au _ _ _ _ _ _ _ hk1]
  simp only
  rw [recover_dedup_random env hq seed sd hid md ma au _ _ _ _ _ _ _ hk2]
  cases sd <;>
    simp only [List.length_append, fedCount_append, keysOf_append, cacheOfKeys_append, Nat.add_assoc,
      Bool.false_eq_true, ↓reduceIte]

/-- Any number of `recover()` calls: the chunking of the history is unobservable, for Sweeping and
Random from any state… -/
theorem C15_recover_chunks_sweeping (env : Env) (s : St) (hs : List Hist) :
    recoverChunks env .sweeping s hs = recover env .sweeping s hs.flatten := by
  induction hs generalizing s with
  | nil => simp [recoverChunks, recover, baseRecover, foldE]
  | cons h hs ih =>
    simp only [recoverChunks, List.flatten_cons, C15_recover_append_sweeping]
    cases recover env .sweeping s h with
    | error e => rfl
    | ok s' => exact ih s'

theorem C15_recover_chunks_random (env : Env) (seed : Nat) (sd : Bool) (s : St) (hs : List Hist) :
    recoverChunks env (.random seed sd) s hs = recover env (.random seed sd) s hs.flatten := by
  induction hs generalizing s with
  | nil => simp [recoverChunks, recover, baseRecover, foldE]
  | cons h hs ih =>
    simp only [recoverChunks, List.flatten_cons, C15_recover_append_random]
    cases recover env (.random seed sd) s h with
    | error e => rfl
    | ok s' => exact ih s'

/-- …and for Deduping over them (repaired source), on keyed histories. -/
theorem C15_recover_chunks_dedup_sweeping (env : Env) (hq : env.q.dedupForwardsReplay = false)
    (hid md ma : Nat) (au : Bool) (hs : List Hist) (hk : AllKeyed hs.flatten)
    (np nf a b : Nat) (l : Option Nat) (c : Cache) :
    recoverChunks env (.deduping .sweeping hid md ma au) (.deduping np nf (.sweeping a b l) c) hs
      = recover env (.deduping .sweeping hid md ma au) (.deduping np nf (.sweeping a b l) c) hs.flatten := by
  induction hs generalizing np nf a b l c with
  | nil =>
    rw [recover_dedup_sweeping env hq hid md ma au _ _ _ _ _ _ _ (fun e he => by simp at he)]
    simp [recoverChunks, fedCount, lastOr, keysOf, cacheOfKeys]
  | cons h hs ih =>
    rw [List.flatten_cons] at hk ⊢
    obtain ⟨hk1, hk2⟩ := allKeyed_append hk
    rw [C15_recover_append_dedup_sweeping env hq hid md ma au _ _ _ _ _ _ _ _ hk]
    simp only [recoverChunks]
    rw [recover_dedup_sweeping env hq hid md ma au _ _ _ _ _ _ _ hk1]
    exact ih hk2 _ _ _ _ _ _

theorem C15_recover_chunks_dedup_random (env : Env) (hq : env.q.dedupForwardsReplay = false) (seed : Nat) (sd : Bool)
    (hid md ma : Nat) (au : Bool) (hs : List Hist) (hk : AllKeyed hs.flatten)
    (np nf a b pos : Nat) (c : Cache) :
    recoverChunks env (.deduping (.random seed sd) hid md ma au) (.deduping np nf (.random a b pos) c) hs
      = recover env (.deduping (.random seed sd) hid md ma au) (.deduping np nf (.random a b pos) c) hs.flatten := by
  induction hs generalizing np nf a b pos c with
  | nil =>
    rw [recover_dedup_random env hq seed sd hid md ma au _ _ _ _ _ _ _ (fun e he => by simp at he)]
    cases sd <;> simp [recoverChunks, fedCount, keysOf, cacheOfKeys]
  | cons h hs ih =>
    rw [List.flatten_cons] at hk ⊢
    obtain ⟨hk1, hk2⟩ := allKeyed_append hk
    rw [C15_recover_append_dedup_random env hq seed sd hid md ma au _ _ _ _ _ _ _ _ hk]
    simp only [recoverChunks]
    rw [recover_dedup_random env hq seed sd hid md ma au _ _ _ _ _ _ _ hk1]
    exact ih hk2 _ _ _ _ _ _

/-- Headline for chunked recovery (current source): however the backend cuts the persisted history
of ANY run into consecutive `recover()` calls, a fresh Sweeping / Random / Deduping-over-them instance
reaches the state a single call reaches — hence (by `C15_recover`) the observable state of the
uninterrupted instance, and (by the continuation theorems) its future proposals. -/
theorem C15_recover_chunked (env : Env) (hq : env.q = currentQuirks) (a : Algo)
    (ha : IsBase a ∨ ∃ inner hid md ma au, IsBase inner ∧ a = .deduping inner hid md ma au)
    (run : List Event) (chunks : List Hist) (hc : chunks.flatten = (runLive env a run).hist) :
    recoverChunks env a (setup a) chunks = recover env a (setup a) (runLive env a run).hist := by
  have hq' : env.q.dedupForwardsReplay = false := by rw [hq, C15_quirks_patched]; rfl
  rcases ha with hb | ⟨inner, hid, md, ma, au, hb, rfl⟩
  · rcases hb with rfl | ⟨seed, sd, rfl⟩
    · rw [C15_recover_chunks_sweeping, hc]
    · rw [C15_recover_chunks_random, hc]
  · have hkeyed : AllKeyed chunks.flatten := by
      rw [hc]
      have hnf : needsFeedback inner = false := by rcases hb with rfl | ⟨seed, sd, rfl⟩ <;> rfl
      exact (live_dedup_nofb env inner hid md ma au hnf run).2
    rcases hb with rfl | ⟨seed, sd, rfl⟩
    · simp only [setup]
      rw [C15_recover_chunks_dedup_sweeping env hq' hid md ma au chunks hkeyed, hc]
    · simp only [setup]
      rw [C15_recover_chunks_dedup_random env hq' seed sd hid md ma au chunks hkeyed, hc]

/-- The same is FALSE for Evolution: feedbacks that arrive in an order crossing the boundary of two
`recover()` calls are replayed per call (finding F166) — two proposals, the second one fed back first. -/
theorem C15_recover_chunks_evolution_counterexample :
    popSummary (recoverChunks (f35Env .patched) f35Algo (setup f35Algo)
        [(runLive (f35Env .patched) f35Algo [.propose, .propose, .feedback 1 5, .feedback 0 3]).hist.take 1,
         (runLive (f35Env .patched) f35Algo [.propose, .propose, .feedback 1 5, .feedback 0 3]).hist.drop 1])
      ≠ popSummary (recover (f35Env .patched) f35Algo (setup f35Algo)
        (runLive (f35Env .patched) f35Algo [.propose, .propose, .feedback 1 5, .feedback 0 3]).hist) := by
  decide

/-! ### The headline statement: `observe (recover (setup a) (persist run)) = observe (runLive (setup a) run)` -/

/-- The observable state the property names: proposal and feedback counts, de-duplication memory,
population (each individual with its fitness and metadata). -/
structure Obs where
  np : Nat
  nf : Nat
  cache : Cache
  pop : List Item

def observe : St → Obs
  | .sweeping np nf _ => ⟨np, nf, [], []⟩
  | .random np nf _ => ⟨np, nf, [], []⟩
  | .deduping np nf _ c => ⟨np, nf, c, []⟩
  | .evolution np nf _ _ _ pop _ => ⟨np, nf, [], pop⟩

/-- The configurations covered by the theorem: Sweeping, Random (seeded or not), Deduping over them,
Evolution (any operations, any initial size) initialised by them. -/
inductive Supported : Algo → Prop
  | sweeping : Supported .sweeping
  | random (seed : Nat) (sd : Bool) : Supported (.random seed sd)
  | dedupBase (inner : Algo) (hid md ma : Nat) (au : Bool) : IsBase inner → Supported (.deduping inner hid md ma au)
  | evoBase (init : Algo) (sz : Option Nat) : IsBase init → Supported (.evolution init sz)

/-- C15, first sentence, for the current source: for every supported configuration and EVERY run
(hence at every crash point, with any subset of proposals in flight), the fresh instance that
replays the persisted history reaches the observable state of the uninterrupted one. -/
theorem C15_recover (env : Env) (hq : env.q = currentQuirks) (a : Algo) (hs : Supported a) (run : List Event) :
    (recover env a (setup a) (runLive env a run).hist).map observe = .ok (observe (runLive env a run).st) := by
  have hq' : env.q = Quirks.patched := by rw [hq, C15_quirks_patched]
  cases hs with
  | sweeping => rw [C15_recover_sweeping]; rfl
  | random seed sd =>
    cases sd with
    | true => rw [C15_recover_random_seeded]; rfl
    | false =>
      rw [live_random env seed false run]
      simp only [recover, setup, baseRecover_random, Nat.zero_add, Bool.false_eq_true, ↓reduceIte]
      rfl
  | dedupBase inner hid md ma au hb =>
    have hnf : needsFeedback inner = false := by
      rcases hb with rfl | ⟨seed, sd, rfl⟩ <;> rfl
    have htot : RecoverTotal env inner := by
      rcases hb with rfl | ⟨seed, sd, rfl⟩
      · exact recoverTotal_sweeping env
      · exact recoverTotal_random env seed sd
    obtain ⟨np, nf, si, si', c, h1, h2⟩ :=
      C15_recover_dedup_partial env (by rw [hq']; rfl) inner hid md ma au hnf htot run
    rw [h1, h2]; rfl
  | evoBase init sz hb =>
    obtain ⟨np, nf, pop, si, ini, g, pend, si', ini', g', pend', h1, h2⟩ :=
      C15_recover_evolution env hq' init hb sz run
    rw [h1, h2]; rfl

/-- …at every crash point `k` of every run. -/
theorem C15_every_crash_point (env : Env) (hq : env.q = currentQuirks) (a : Algo) (hs : Supported a)
    (run : List Event) (k : Nat) :
    (recover env a (setup a) (runLive env a (run.take k)).hist).map observe
      = .ok (observe (runLive env a (run.take k)).st) :=
  C15_recover env hq a hs (run.take k)

example : Supported (.deduping (.random 3 true) 0 1 4 false) := .dedupBase _ _ _ _ _ (Or.inr ⟨3, true, rfl⟩)
example : Supported (.evolution .sweeping none) := .evoBase _ _ (Or.inl rfl)
example : (f35Env currentQuirks).q = currentQuirks := rfl

/-! ### Chunked recovery of Evolution: positive theorem under the complement of F166's condition -/

/-- Evolution (repaired source; Sweeping / Random initialiser; ANY reproduction and population update,
also updates that are not equivalent to one batch application), from ANY evolution state: if the
chunked history is well labelled (`EntryOk`, as every persisted history is — `live_evolution`) and
`chunksOrdered` holds — for every two `recover()` calls, no proposal of the later call was fed back
before a proposal of the earlier call — then recovering chunk by chunk equals recovering the whole
history in one call: counters, population, generation counter, init-phase flag, initialiser. -/
theorem C15_recover_chunks_evolution (env : Env) (hq : env.q = Quirks.patched) (init : Algo) (hb : IsBase init)
    (sz : Option Nat) (h : Hist) (hs : List Hist) (hok : ∀ e ∈ (h :: hs).flatten, EntryOk e)
    (hord : chunksOrdered (h :: hs) = true)
    (np nf : Nat) (si : St) (ini : Bool) (g : Nat) (pop pend : List Item) :
    recoverChunks env (.evolution init sz) (.evolution np nf si ini g pop pend) (h :: hs)
      = recover env (.evolution init sz) (.evolution np nf si ini g pop pend) (h :: hs).flatten := by
  rw [List.flatten_cons] at hok ⊢
  exact recoverChunks_evolution env hq init hb sz hs h np nf si ini g pop pend hok hord

/-- …for the persisted history of ANY run, cut into any positive number of ordered chunks: the fresh
instance reaches the single-call state, hence (`C15_recover`) the observable state of the live one. -/
theorem C15_recover_chunked_evolution (env : Env) (hq : env.q = currentQuirks) (init : Algo) (hb : IsBase init)
    (sz : Option Nat) (run : List Event) (c : Hist) (cs : List Hist)
    (hc : (c :: cs).flatten = (runLive env (.evolution init sz) run).hist)
    (hord : chunksOrdered (c :: cs) = true) :
    (recoverChunks env (.evolution init sz) (setup (.evolution init sz)) (c :: cs)).map observe
      = .ok (observe (runLive env (.evolution init sz) run).st) := by
  have hq' : env.q = Quirks.patched := by rw [hq, C15_quirks_patched]
  have hent := (live_evolution env init hb sz run).2
  simp only [setup]
  rw [C15_recover_chunks_evolution env hq' init hb sz c cs (by rw [hc]; exact hent) hord, hc]
  exact C15_recover env hq (.evolution init sz) (.evoBase init sz hb) run

/-- The F166 counterexample lies exactly outside the side condition; cutting the same history after
the first proposal satisfies it (with out-of-order feedback *inside* the second chunk). -/
theorem C15_chunksOrdered_examples :
    chunksOrdered
        [(runLive (f35Env .patched) f35Algo [.propose, .propose, .feedback 1 5, .feedback 0 3]).hist.take 1,
         (runLive (f35Env .patched) f35Algo [.propose, .propose, .feedback 1 5, .feedback 0 3]).hist.drop 1] = false
    ∧ chunksOrdered [(runLive (f35Env .patched) f35Algo f35Run).hist.take 1,
                     (runLive (f35Env .patched) f35Algo f35Run).hist.drop 1] = true
    ∧ chunksOrdered [(runLive (f35Env .patched) f35Algo f35Run).hist.take 2,
                     (runLive (f35Env .patched) f35Algo f35Run).hist.drop 2] = false := by
  decide

/-! ### NSGA2: elites and population -/

def popComponent : Except Err St → Option (List Item)
  | .ok (.evolution _ _ _ _ _ pop _) => some pop
  | _ => none

/-- NSGA2 (`pg.evolution.nsga2`, Random initialiser of any size, ANY mutator): the model's population
component encodes `(global_state.elites, population)` (PgModel/Nsga2.lean), the population update is
`Nsga2.update` — non-dominated sorting, crowding distance, first `n`, stored as elites, population
emptied — and for every run, at every crash point, with any feedback order, the recovered instance has
the elites and the unprocessed population of the uninterrupted one.  (Instance of
`C15_recover_evolution`, which holds for any update function; that `Nsga2.update` is what nsga2.py
computes is tied by correspondence at every crash point and by the translator's pipeline facts.) -/
theorem C15_recover_nsga2 (env : Env) (hq : env.q = Quirks.patched) (seed : Nat) (sd : Bool) (sz : Option Nat)
    (facts : Nsga2.Facts) (n : Nat) (_hu : env.update = Nsga2.update facts n) (run : List Event) :
    ∃ enc, popComponent (.ok (runLive env (.evolution (.random seed sd) sz) run).st) = some enc
      ∧ popComponent (recover env (.evolution (.random seed sd) sz) (setup (.evolution (.random seed sd) sz))
          (runLive env (.evolution (.random seed sd) sz) run).hist) = some enc
      ∧ ∃ elites pop, Nsga2.decode enc = (elites, pop) := by
  obtain ⟨np, nf, pop, si, ini, g, pend, si', ini', g', pend', h1, h2⟩ :=
    C15_recover_evolution env hq (.random seed sd) (Or.inr ⟨seed, sd, rfl⟩) sz run
  exact ⟨pop, by rw [h1]; rfl, by rw [h2]; rfl, _, _, rfl⟩

/-! ### The algorithms pyglove/ext/evolution builds, with the C14 operator model as reproduction / update -/

/-- `regularized_evolution(mutators.Uniform(seed), population_size = n, tournament_size = t, seed)`:
reproduction `selectors.Random(t) >> selectors.Top(1) >> mutator` and update `selectors.Last(n)` are the
operator model of C14 (PgModel/Evo.lean) evaluated over the recorded PRNG draws `events` of every `_evolve`
call (PgModel/GenOps.lean; pipeline text checked by the translator).  For every run and every oracle
stream the recovered instance has the counters and the population of the uninterrupted one. -/
theorem C15_recover_regularized_evolution (base : Env) (hq : base.q = Quirks.patched) (dims : List Nat)
    (n t seed : Nat) (events : Nat → List Pg.C14.Ev) (run : List Event) :
    ∃ np nf pop si ini g pend si' ini' g' pend',
      (runLive (Ops.regEvoEnv base dims n t events) (.evolution (.random seed true) (some n)) run).st
        = .evolution np nf si ini g pop pend
      ∧ recover (Ops.regEvoEnv base dims n t events) (.evolution (.random seed true) (some n))
          (setup (.evolution (.random seed true) (some n)))
          (runLive (Ops.regEvoEnv base dims n t events) (.evolution (.random seed true) (some n)) run).hist
        = .ok (.evolution np nf si' ini' g' pop pend') :=
  C15_recover_evolution (Ops.regEvoEnv base dims n t events) hq (.random seed true) (Or.inr ⟨seed, true, rfl⟩)
    (some n) run

/-- `hill_climb(mutators.Uniform(seed), batch_size = b, init_population_size = k, seed)`:
reproduction `selectors.Top(1) >> (mutator * b)`, update `selectors.Top(1)`. -/
theorem C15_recover_hill_climb (base : Env) (hq : base.q = Quirks.patched) (dims : List Nat)
    (b k seed : Nat) (events : Nat → List Pg.C14.Ev) (run : List Event) :
    ∃ np nf pop si ini g pend si' ini' g' pend',
      (runLive (Ops.hillClimbEnv base dims b events) (.evolution (.random seed true) (some k)) run).st
        = .evolution np nf si ini g pop pend
      ∧ recover (Ops.hillClimbEnv base dims b events) (.evolution (.random seed true) (some k))
          (setup (.evolution (.random seed true) (some k)))
          (runLive (Ops.hillClimbEnv base dims b events) (.evolution (.random seed true) (some k)) run).hist
        = .ok (.evolution np nf si' ini' g' pop pend') :=
  C15_recover_evolution (Ops.hillClimbEnv base dims b events) hq (.random seed true) (Or.inr ⟨seed, true, rfl⟩)
    (some k) run

/-- Deduping over either of them (any hash function, duplicate and attempt limits): outer counters,
wrapped population and feedback count, de-duplication memory up to the order of rewards per key. -/
theorem C15_recover_dedup_regularized_evolution (base : Env) (hq : base.q = Quirks.patched) (dims : List Nat)
    (n t seed hid md ma : Nat) (au : Bool) (events : Nat → List Pg.C14.Ev) (run : List Event) :
    ∃ np nf pop c c' enp enp' si ini g pend si' ini' g' pend',
      (runLive (Ops.regEvoEnv base dims n t events)
          (.deduping (.evolution (.random seed true) (some n)) hid md ma au) run).st
        = .deduping np nf (.evolution enp nf si ini g pop pend) c
      ∧ recover (Ops.regEvoEnv base dims n t events) (.deduping (.evolution (.random seed true) (some n)) hid md ma au)
          (setup (.deduping (.evolution (.random seed true) (some n)) hid md ma au))
          (runLive (Ops.regEvoEnv base dims n t events)
            (.deduping (.evolution (.random seed true) (some n)) hid md ma au) run).hist
        = .ok (.deduping np nf (.evolution enp' nf si' ini' g' pop pend') c')
      ∧ ∀ k, (cacheGet c k).Perm (cacheGet c' k) :=
  C15_recover_dedup_evolution (Ops.regEvoEnv base dims n t events) hq (.random seed true)
    (Or.inr ⟨seed, true, rfl⟩) (some n) hid md ma au run

theorem C15_recover_dedup_hill_climb (base : Env) (hq : base.q = Quirks.patched) (dims : List Nat)
    (b k seed hid md ma : Nat) (au : Bool) (events : Nat → List Pg.C14.Ev) (run : List Event) :
    ∃ np nf pop c c' enp enp' si ini g pend si' ini' g' pend',
      (runLive (Ops.hillClimbEnv base dims b events)
          (.deduping (.evolution (.random seed true) (some k)) hid md ma au) run).st
        = .deduping np nf (.evolution enp nf si ini g pop pend) c
      ∧ recover (Ops.hillClimbEnv base dims b events) (.deduping (.evolution (.random seed true) (some k)) hid md ma au)
          (setup (.deduping (.evolution (.random seed true) (some k)) hid md ma au))
          (runLive (Ops.hillClimbEnv base dims b events)
            (.deduping (.evolution (.random seed true) (some k)) hid md ma au) run).hist
        = .ok (.deduping np nf (.evolution enp' nf si' ini' g' pop pend') c')
      ∧ ∀ k', (cacheGet c k').Perm (cacheGet c' k') :=
  C15_recover_dedup_evolution (Ops.hillClimbEnv base dims b events) hq (.random seed true)
    (Or.inr ⟨seed, true, rfl⟩) (some k) hid md ma au run

/-! (The operator instantiation is exercised by the correspondence run: every child of every `_evolve` call of
the real regularized_evolution / hill_climb is recomputed by `Ops.reproOf` from the recorded draws; `mergeSort`
in the C14 selectors does not reduce in the kernel, so no `decide` example is given here.) -/

/-! ### Scheduled hyper-parameters with internal state (`scalars.StepWise`, finding F240) -/

/-- Pinned `StepWise.call`: the schedule `[(3, 1), (4, 2)]` called at every step gives 2 at step 5; the
fresh schedule object of an instance recovered at step 5, first called at step 5, gives 1 — and stays in
its first phase forever. -/
theorem C15_F240_counterexample :
    (Sched.run true [(3, .const 1), (4, .const 2)] Sched.init [0, 1, 2, 3, 4, 5, 6]).drop 5 = [some 2, some 2]
    ∧ Sched.run true [(3, .const 1), (4, .const 2)] Sched.init [5, 6] = [some 1, some 1] := by
  decide

/-- Repaired `StepWise.call` (/repo df4963a): the value is a function of the step, so whatever
calls were or were not made before — a recovered instance, a reproduction that is only invoked every few
steps — every later call returns what the uninterrupted schedule returns. -/
theorem C15_stepwise_stateless (phases : List (Nat × Sched.PV)) (st : Sched.State) (steps : List Nat) :
    Sched.run false phases st steps = steps.map (Sched.callStateless phases) := by
  induction steps with
  | nil => rfl
  | cons s rest ih => simp only [Sched.run, Bool.false_eq_true, ↓reduceIte, ih, List.map_cons]

theorem C15_stepwise_recovers (phases : List (Nat × Sched.PV)) (before after : List Nat) :
    (Sched.run false phases Sched.init (before ++ after)).drop before.length
      = Sched.run false phases Sched.init after := by
  rw [C15_stepwise_stateless, C15_stepwise_stateless, List.map_append]
  simp

/-- …and on the example above the repaired schedule gives the values of the pinned one called at every
step (the repair does not change sequential use). -/
example : Sched.run false [(3, .const 1), (2, .step), (2, .const 7)] Sched.init [0, 1, 2, 3, 4, 5, 6, 7, 8]
    = Sched.run true [(3, .const 1), (2, .step), (2, .const 7)] Sched.init [0, 1, 2, 3, 4, 5, 6, 7, 8] := by
  decide

/-! ### NEAT: population and living species -/

/-- NEAT (`pg.evolution.neat`): the model's population component encodes
`(global_state.living_species, population)` (PgModel/Neat.lean); the update is `Neat.update` — latest
generation, then `speciate` with the userdata marks derived from the species table.  For every run, at
every crash point, the recovered instance has the species table (representatives, members with
multiplicity) and the population of the uninterrupted one: `DNA.userdata` is not persisted, but the replay
of `Evolution.recover` rebuilds the marks (established by experiment on the real code first: 1350 crash
points without a difference; then tied by correspondence).  Instance of `C15_recover_evolution`. -/
theorem C15_recover_neat (env : Env) (hq : env.q = Quirks.patched) (seed : Nat) (sd : Bool) (sz : Option Nat)
    (facts : Neat.Facts) (dims : List Nat) (_hu : env.update = Neat.update facts dims) (run : List Event) :
    ∃ enc, popComponent (.ok (runLive env (.evolution (.random seed sd) sz) run).st) = some enc
      ∧ popComponent (recover env (.evolution (.random seed sd) sz) (setup (.evolution (.random seed sd) sz))
          (runLive env (.evolution (.random seed sd) sz) run).hist) = some enc
      ∧ ∃ species pop, Neat.decode enc = (species, pop) := by
  obtain ⟨np, nf, pop, si, ini, g, pend, si', ini', g', pend', h1, h2⟩ :=
    C15_recover_evolution env hq (.random seed sd) (Or.inr ⟨seed, sd, rfl⟩) sz run
  exact ⟨pop, by rw [h1]; rfl, by rw [h2]; rfl, _, _, rfl⟩

end Pg.C15
