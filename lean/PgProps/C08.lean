/-
  C08 — Write protection. Property theorems only.
-/
import PgGen.C08Guards
namespace Pg.C08

/-- Generated obligation: every mutating entry point of the current source is guarded (directly
or through the entry points it delegates to). -/
theorem C08_table : AllGuarded genGuard := by
  intro ep; cases ep <;> decide

/-- Generated obligation: the delegation structure of the hand-written model bodies is the one
T-GUARD extracts from the source. -/
theorem C08_structure : structureMatches genGuard = true := by decide

end Pg.C08
