/-
  C09 — Change notification contract and freshness of derived state. Property theorems only.
-/
import PgGen.C09Facts
namespace Pg.C09

/-- Inside `notify_on_change(False)` nothing is delivered. -/
theorem C09_silent_off (ros : Bool) (root : T) (recv : Path) (op : Op) :
    (step ros root recv false op).events = [] := by
  cases op <;> simp only [step, finish, Bool.false_and, Bool.false_eq_true, if_false] <;> (repeat' split) <;> rfl

end Pg.C09
