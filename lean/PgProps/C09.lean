/-
  C09 — Change notification contract and freshness of derived state.
  Property theorems only (model: PgModel/Notify.lean; lemmas: PgProofs/Notify.lean; facts of the
  current source: PgGen/C09Facts.lean, regenerated on every run).

  `step ros root recv notifyOn op` is one public call on the node at path `recv`, inside
  `notify_on_change(notifyOn)`; it returns the new tree (with its memoised values), and the events
  delivered, in delivery order. `ros` = "sym_rebind resets the memoised facts when it skips the
  notification" (extracted from the source: `genResetOnSkip`).
-/
import PgGen.C09Facts
import PgProofs.Notify
namespace Pg.C09
open T
open Pg.C08 (Atom Key NotifyKind)

/-! ## Generated obligations -/

/-- Which entry points notify, and how, is what the model assumes: accessor writes and `append`
under the flag, `rebind` as the caller says, `update` never, `clear`/`reverse`/`popitem` nobody. -/
theorem C09_table :
    genNotify .setKey = [.flag, .flag] ∧ genNotify .delKey = [.flag] ∧ genNotify .append = [.flag] ∧
    genNotify .rebind = [.param, .param, .param] ∧ genNotify .update = [.skip] ∧
    genNotify .clear = [.none, .none] ∧ genNotify .reverse = [.none] ∧ genNotify .popitem = [.none] := by
  decide

/-- A rebind that skips the notification still resets the memoised facts (fix of F18). -/
theorem C09_reset_table : genResetOnSkip = true := by decide

/-! ## Silence -/

/-- Inside `notify_on_change(False)` nothing is delivered, whatever the call. -/
theorem C09_silent_off (ros : Bool) (root : T) (recv : Path) (op : Op) :
    (step ros root recv false op).events = [] := by
  cases op <;> simp only [step, finish, Bool.false_and, Bool.false_eq_true, if_false] <;> (repeat' split) <;> rfl

/-- `Dict.update` (skip_notification=True) and the mutators that notify nobody deliver nothing
even when notification is enabled. -/
theorem C09_silent_skip (ros n : Bool) (root : T) (recv : Path) (op : Op)
    (h : op.kind = .update ∨ op.kind = .clear ∨ op.kind = .reverse ∨ op.kind = .popitem) :
    (step ros root recv n op).events = [] := by
  cases op <;> simp [Op.kind] at h <;>
    simp only [step, finish, Bool.false_and, Bool.false_eq_true, if_false] <;> (repeat' split) <;> rfl

/-! ## Freshness of the memoised derived state -/

/-- The values a call inserts carry no stale cache (they are fresh plain values). -/
def OpFresh : Op → Prop
  | .setKey _ v => Fresh v
  | .append v => Fresh v
  | .rebind pairs => ∀ pv ∈ pairs, Fresh pv.2
  | .update kvs => ∀ kv ∈ kvs, Fresh kv.2
  | _ => True

/-- The calls for which freshness is proved: accessor writes / `del` / `append` with
notification on; `rebind` and `update` with at most one pair (notification on, or off/skipped
when `sym_rebind` resets on skip). Batches of several pairs are covered by correspondence only. -/
def covered (ros n : Bool) : Op → Bool
  | .setKey _ _ | .delKey _ | .append _ => n
  | .rebind pairs => decide (pairs.length ≤ 1) && (n || ros)
  | .update kvs => decide (kvs.length ≤ 1) && ros
  | _ => false

private theorem finish_single_fresh (r' : T) (u : Update) (p : Path) (n rs : Bool)
    (hreset : Fresh (resetChain r' p)) (hkeep : n = false → rs = false → Fresh r') :
    Fresh (finish r' [(u, p)] n rs).tree := by
  unfold finish
  cases n <;> cases rs <;> simp [resetAll, hreset, hkeep]

/-- FULL STATEMENT (false on the current source, see `C09_fresh_counterexample`): after any
ordinary mutation at any depth every memoised fact equals a fresh computation. -/
def C09_fresh_Full : Prop :=
  ∀ (ros n : Bool) (root : T) (recv : Path) (op : Op),
    Fresh root → OpFresh op → Fresh (step ros root recv n op).tree

/-- PROVED PART: for the covered calls, at any depth and for every tree, `Fresh` is preserved
(the reset walks the whole chain from the root to the written node). -/
theorem C09_fresh_partial (ros n : Bool) (root : T) (recv : Path) (op : Op)
    (hc : covered ros n op = true) (hf : Fresh root) (hv : OpFresh op) :
    Fresh (step ros root recv n op).tree := by
  cases op with
  | setKey k v =>
    simp only [covered] at hc; subst hc
    simp only [step]
    cases hw : writeAt root [] recv k (some v) with
    | none => exact hf
    | some r =>
      obtain ⟨r', u⟩ := r
      cases u with
      | none => simp only []; rw [writeAt_none_unchanged recv root [] k (some v) r' hw]; exact hf
      | some u =>
        exact finish_single_fresh r' u recv true false
          (writeAt_resetChain_fresh recv root [] k (some v) r' (some u) hf (fun nv h => by cases h; exact hv) hw)
          (fun h => by cases h)
  | delKey k =>
    simp only [covered] at hc; subst hc
    simp only [step]
    cases hw : writeAt root [] recv k none with
    | none => exact hf
    | some r =>
      obtain ⟨r', u⟩ := r
      cases u with
      | none => simp only []; rw [writeAt_none_unchanged recv root [] k none r' hw]; exact hf
      | some u =>
        exact finish_single_fresh r' u recv true false
          (writeAt_resetChain_fresh recv root [] k none r' (some u) hf (fun nv h => by cases h) hw)
          (fun h => by cases h)
  | append v =>
    simp only [covered] at hc; subst hc
    simp only [step]
    split
    · next m items hg =>
      cases hw : writeAt root [] recv (Key.i items.length) (some v) with
      | none => exact hf
      | some r =>
        obtain ⟨r', u⟩ := r
        cases u with
        | none => exact hf
        | some u =>
          exact finish_single_fresh r' u recv true false
            (writeAt_resetChain_fresh recv root [] _ (some v) r' (some u) hf (fun nv h => by cases h; exact hv) hw)
            (fun h => by cases h)
    · exact hf
  | rebind pairs =>
    simp only [covered, Bool.and_eq_true, decide_eq_true_eq, Bool.or_eq_true] at hc
    obtain ⟨hlen, hnr⟩ := hc
    have key : ∀ ps : List (Path × T), ps.length ≤ 1 → (∀ pv ∈ ps, Fresh pv.2) →
        ∀ r' ups, writeAll root recv ps [] = some (r', ups) →
          Fresh (finish r' ups n ros).tree ∧ Fresh (finish r' ups.reverse n ros).tree := by
      intro ps hl hvs r' ups hw
      match ps, hl with
      | [], _ =>
        simp [writeAll] at hw; obtain ⟨h1, h2⟩ := hw; subst h1; subst h2
        unfold finish; cases n <;> cases ros <;> simp [resetAll, hf]
      | [(p, v)], _ =>
        simp only [writeAll] at hw
        cases hp : p.reverse with
        | nil => simp [hp] at hw
        | cons k revParent =>
          simp only [hp] at hw
          cases hwa : writeAt root [] (recv ++ revParent.reverse) k (some v) with
          | none => simp [hwa] at hw
          | some r =>
            obtain ⟨r1, u⟩ := r
            have hvv : Fresh v := hvs (p, v) (by simp)
            cases u with
            | none =>
              simp [hwa, writeAll] at hw; obtain ⟨h1, h2⟩ := hw; subst h1; subst h2
              rw [writeAt_none_unchanged _ root [] k (some v) r1 hwa]
              unfold finish; cases n <;> cases ros <;> simp [resetAll, hf]
            | some u =>
              simp [hwa, writeAll] at hw; obtain ⟨h1, h2⟩ := hw; subst h1; subst h2
              have hr := writeAt_resetChain_fresh _ root [] k (some v) r1 (some u) hf
                (fun nv h => by cases h; exact hvv) hwa
              have hk : n = false → ros = false → Fresh r1 := by
                intro h1 h2; rcases hnr with h | h <;> simp_all
              exact ⟨finish_single_fresh r1 u _ n ros hr hk, by
                simpa using finish_single_fresh r1 u _ n ros hr hk⟩
    simp only [step]
    have hrev : pairs.reverse.length ≤ 1 := by simpa using hlen
    have hvr : ∀ pv ∈ pairs.reverse, Fresh pv.2 := fun pv h => hv pv (by simpa using h)
    split
    · cases hw : writeAll root recv pairs.reverse [] with
      | none => exact hf
      | some r => exact (key pairs.reverse hrev hvr r.1 r.2 (by simp [hw])).2
    · cases hw : writeAll root recv pairs [] with
      | none => exact hf
      | some r => exact (key pairs hlen hv r.1 r.2 (by simp [hw])).1
  | update kvs =>
    simp only [covered, Bool.and_eq_true, decide_eq_true_eq] at hc
    obtain ⟨hlen, hros⟩ := hc
    subst hros
    simp only [step]
    cases hw : writeAll root recv (kvs.map fun (k, v) => ([k], v)) [] with
    | none => exact hf
    | some r =>
      obtain ⟨r', ups⟩ := r
      match kvs, hlen with
      | [], _ =>
        simp [writeAll] at hw; obtain ⟨h1, h2⟩ := hw; subst h1; subst h2
        simp [finish, resetAll, hf]
      | [(k, v)], _ =>
        have hvv : Fresh v := hv (k, v) (by simp)
        simp only [List.map, writeAll, List.reverse_cons, List.reverse_nil, List.nil_append,
          List.append_nil] at hw
        cases hwa : writeAt root [] recv k (some v) with
        | none => simp [hwa] at hw
        | some r =>
          obtain ⟨r1, u⟩ := r
          cases u with
          | none =>
            simp [hwa, writeAll] at hw; obtain ⟨h1, h2⟩ := hw; subst h1; subst h2
            rw [writeAt_none_unchanged _ root [] k (some v) r1 hwa]
            simp [finish, resetAll, hf]
          | some u =>
            simp [hwa, writeAll] at hw; obtain ⟨h1, h2⟩ := hw; subst h1; subst h2
            exact finish_single_fresh r1 u _ false true
              (writeAt_resetChain_fresh _ root [] k (some v) r1 (some u) hf (fun nv h => by cases h; exact hvv) hwa)
              (fun _ h => by cases h)
  | clear => simp [covered] at hc
  | reverse => simp [covered] at hc
  | popitem => simp [covered] at hc

/-- A root dict whose cache is filled, holding one leaf. -/
def exRoot : T :=
  .node { id := 1, sub := true, cache := some [([Key.s "k"], Atom.int 1)] } .dict [(Key.s "k", .leaf (.int 1))]

/-- COUNTEREXAMPLE (known findings F55 / F54): `clear()` — and an accessor write inside
`notify_on_change(False)` — leave the memoised value of the container stale. Replayed on the real
code by the witnesses of findings/C09.json. -/
theorem C09_fresh_counterexample : ¬ C09_fresh_Full := by
  intro h
  have := h true true exRoot [] .clear (by simp [exRoot, Fresh, FreshItems, deriveItems]) trivial
  simp [step, mapAt, rawClear, exRoot, Fresh, FreshItems, deriveItems] at this

theorem C09_fresh_counterexample_accessor_off :
    ¬ Fresh (step true exRoot [] false (.setKey (Key.s "k") (.leaf (.int 2)))).tree := by
  simp [step, writeAt, exRoot, lookup, atomEq, setKv, finish, Fresh, FreshItems, deriveItems]

/-- Before the fix of F18 (`ros = false`) `Dict.update` had the same effect; with the reset it
is fresh (instance of `C09_fresh_partial`). -/
theorem C09_update_stale_without_reset :
    ¬ Fresh (step false exRoot [] true (.update [(Key.s "k", .leaf (.int 2))])).tree := by
  simp [step, writeAll, writeAt, exRoot, lookup, atomEq, setKv, finish, Fresh, FreshItems, deriveItems]

/-! Non-vacuity -/
example : Fresh exRoot := by simp [exRoot, Fresh, FreshItems, deriveItems]
example : covered true false (.update [(Key.s "k", .leaf (.int 2))]) = true := by decide
example : (step true exRoot [] true (.setKey (Key.s "k") (.leaf (.int 2)))).events.length = 1 := by
  simp [step, writeAt, exRoot, lookup, atomEq, setKv, finish, notifications, groupAll, chainSubs, addToGroups,
    sortDesc, insertDesc, relPath]

end Pg.C09
