/-
  C09 — Change notification contract and freshness of derived state.
  Property theorems only (model: PgModel/Notify.lean; lemmas: PgProofs/Notify*.lean; facts of the
  current source: PgGen/C09Facts.lean, regenerated on every run).

  `step root recv notifyOn op` is one public call on the node at path `recv`, inside
  `notify_on_change(notifyOn)`; it returns the new tree (with its memoised values) and the events
  delivered, in delivery order.
-/
import PgGen.C09Facts
import PgGen.C08Guards
import PgProofs.Notify
import PgProofs.NotifySpec
import PgProofs.NotifyOrder
import PgProofs.NotifyEdit
import PgProofs.NotifyBatch
import PgProofs.NotifyRead
import PgProofs.NotifyReentrant
import PgProofs.NotifyThreads
import PgProofs.NotifyReject
namespace Pg.C09
open T
open Pg.C08 (Atom Key NotifyKind)

/-! ## Generated obligations -/

/-- Which entry points notify, and how, is what the model assumes: accessor writes and `append`
under the flag, `rebind` as the caller says, `update` never; `clear` / `popitem` / `sort` / `reverse`
under the flag (THE TREE WITH fixes/C09-F55.patch; on the tree without it this obligation breaks and the
oracle reports the known finding F55). -/
theorem C09_table :
    genNotify .setKey = [.flag, .flag] ∧ genNotify .delKey = [.flag] ∧ genNotify .append = [.flag] ∧
    genNotify .extend = [.flag, .none, .none] ∧
    genNotify .rebind = [.param, .param, .param] ∧ genNotify .update = [.skip] ∧
    -- with fixes/C09-F55.patch: clear / popitem / sort / reverse notify under the flag
    genNotify .clear = [.flag, .flag] ∧ genNotify .reverse = [.flag] ∧ genNotify .popitem = [.flag] ∧
    genNotify .sort = [.flag] ∧ genDelIndexNormalized = true ∧
    -- the position-shifting list calls: `insert`, `__delitem__` (index and slice) and `__setitem__` (slice)
    -- notify under the flag; `pop` / `remove` have no notification of their own and delegate to `del self[i]`,
    -- `*=` to `clear` / `extend`
    genNotify .insert = [.flag] ∧ genNotify .delIdx = [.flag, .none] ∧ genNotify .remove = [.none] ∧
    genNotify .setSlice = [.flag] ∧ genNotify .delSlice = [.flag] ∧ genNotify .imul = [.none] ∧
    (Pg.C08.genGuard .l_pop).delegates = [.l_delitem] ∧ (Pg.C08.genGuard .l_remove).delegates = [.l_delitem] ∧
    (Pg.C08.genGuard .l_imul).delegates = [.l_clear, .l_extend] := by
  decide

/-- Every site that changes the contents of a node (both write primitives, `del` on lists,
`clear`, `sort`, `reverse`, `popitem`) invalidates the memoised facts of the node and of all its
ancestors, whether or not a notification is sent (fix of F18 / F54 / F55-stale). -/
theorem C09_invalidate_table : genInvalidateOnWrite = true ∧ genResetOnSkip = true := by decide

/-! ## Silence -/

/-- Inside `notify_on_change(False)` nothing is delivered, whatever the call. -/
theorem C09_silent_off (root : T) (recv : Path) (op : Op) :
    (step root recv false op).events = [] := by
  cases op <;> simp only [step, finish, Bool.false_and, Bool.false_eq_true, if_false, applyEdit_events_off,
    applyKeyEdit_events_off] <;> (repeat' split) <;> first | rfl | exact applyEdit_events_off _ _ _ | exact applyKeyEdit_events_off _ _ _

/-- `Dict.update` (skip_notification=True) delivers nothing even when notification is enabled. -/
theorem C09_silent_skip (n : Bool) (root : T) (recv : Path) (kvs : List (Key × T)) :
    (step root recv n (.update kvs)).events = [] := by
  simp only [step, finish, Bool.false_and, Bool.false_eq_true, if_false]
  (repeat' split) <;> rfl

/-! ## The notification contract

`specNotifs root ups` (PgProofs/NotifySpec.lean) is stated without reference to the grouping /
sorting algorithm: for a batch `ups` of changed locations (each with the path of the node that owns
it, and its old and new value) every *subscribing* node whose path is a prefix of the owner's path
-- i.e. every subscribing ancestor-or-self -- gets exactly one event, carrying exactly the changed
locations at or below it, relative to it, with their old / new values; nobody else gets one. -/

/-- CONTRACT (multiset part), for every well-formed tree, every depth and every batch of updates
(single accessor writes and batched rebinds alike): the events delivered by the model of
`_notify_field_updates` are, as a multiset, exactly the specified ones — each affected subscribing
ancestor once, no other receiver, exact relative locations, old and new values as recorded. -/
theorem C09_contract (root : T) (hwf : WF root) (ups : List (Update × Path)) :
    (notifications root ups).Perm (specNotifs root ups) :=
  contract_perm hwf ups

/-- Every notifying call ends in `finish r' ups notifyOn` where `r'` is the tree after the writes
and `ups` the updates the write primitive produced; with notification on, its events satisfy the
contract. -/
theorem C09_contract_finish (r' : T) (hwf : WF r') (ups : List (Update × Path)) :
    (finish r' ups true).events.Perm (specNotifs r' ups) := by
  unfold finish
  cases ups with
  | nil => simp [specNotifs, entriesFor]
  | cons x rest => simpa using contract_perm hwf (x :: rest)

/-- Instance: a batched `rebind` on a dict / object receiver. -/
theorem C09_contract_rebind (root r' : T) (recv : Path) (pairs : List (Path × T)) (ups : List (Update × Path))
    (hrecv : ∀ m items, getAt root recv ≠ some (.node m .list items))
    (hnm : pairs.any (fun pv => isMissingLeaf pv.2) = false)
    (hw : writeAll root recv pairs [] = some (r', ups)) (hwf : WF r') :
    (step root recv true (.rebind pairs)).events.Perm (specNotifs r' ups) := by
  have hfin := C09_contract_finish r' hwf ups
  simp only [step, hnm, Bool.false_eq_true, if_false]
  cases hg : getAt root recv with
  | none => simpa only [hw] using hfin
  | some t =>
    cases t with
    | leaf a => simpa only [hw] using hfin
    | node m kd items =>
      cases kd with
      | list => exact absurd hg (hrecv m items)
      | dict => simpa only [hw] using hfin
      | obj => simpa only [hw] using hfin

/-- Exactly once: no receiver occurs twice among the delivered events. -/
theorem C09_exactly_once (root : T) (hwf : WF root) (ups : List (Update × Path)) :
    ((notifications root ups).map Event.recv).Nodup := by
  have h := (contract_perm hwf ups).map Event.recv
  rw [h.nodup_iff]
  exact (filterMap_recv_sublist (fun r => (entriesFor r.1 ups).isEmpty)
    (fun r => { recv := r.2, entries := entriesFor r.1 ups }) (fun _ => rfl) _).nodup hwf.2

/-- ORDER ("children before parents"), for every tree, every batch of updates, with no hypothesis
on the key types of siblings (KeyPath order is a strict total order since fix 49638f7: ints sort
before strs; `PgProofs/NotifyOrder.lean`): if the receiver of the `j`-th delivered event lives
strictly below the receiver of the `i`-th one, it was notified earlier (`j < i`). Receivers are
identified with their nodes through `allSubs` (identities of subscribing nodes are distinct, `WF`). -/
theorem C09_order (root : T) (hwf : WF root) (ups : List (Update × Path)) (i j : Nat) (ei ej : Event)
    (pi pj : Path)
    (hi : (notifications root ups)[i]? = some ei) (hj : (notifications root ups)[j]? = some ej)
    (hpi : (pi, ei.recv) ∈ allSubs root []) (hpj : (pj, ej.recv) ∈ allSubs root [])
    (k : Key) (r : Path) (hbelow : pj = pi ++ k :: r) : j < i := by
  rw [notifications_eq, List.getElem?_map] at hi hj
  cases hgi : (delivered root ups)[i]? with
  | none => simp [hgi] at hi
  | some gi =>
    cases hgj : (delivered root ups)[j]? with
    | none => simp [hgj] at hj
    | some gj =>
      simp only [hgi, hgj, Option.map_some, Option.some.injEq] at hi hj
      subst hi; subst hj
      have hmi := delivered_mem_allSubs hwf ups gi (List.mem_of_getElem? hgi)
      have hmj := delivered_mem_allSubs hwf ups gj (List.mem_of_getElem? hgj)
      have e1 : (gi.1, gi.2.1) = (pi, gi.2.1) := eq_of_nodup_map_snd _ hwf.2 _ hmi _ hpi rfl
      have e2 : (gj.1, gj.2.1) = (pj, gj.2.1) := eq_of_nodup_map_snd _ hwf.2 _ hmj _ hpj rfl
      have e1' : gi.1 = pi := (Prod.mk.inj e1).1
      have e2' : gj.1 = pj := (Prod.mk.inj e2).1
      exact order_delivered hwf ups i j gi gj hgi hgj k r (by rw [e1', e2']; exact hbelow)

/-- The dispatch sequence is descending in KeyPath order (what `sorted(..., reverse=True)` yields). -/
theorem C09_dispatch_sorted (root : T) (ups : List (Update × Path)) :
    (delivered root ups).Pairwise fun a b => Pg.C08.pathLt a.1 b.1 = false :=
  sortDesc_pairwise _

/-- KeyPath order on the model's paths is a strict total order, and an ancestor sorts before
everything below it. -/
theorem C09_path_order (p q r : Path) (k : Key) :
    Pg.C08.pathLt p p = false ∧
    (Pg.C08.pathLt p q = true → Pg.C08.pathLt q p = false) ∧
    (Pg.C08.pathLt p q = true → Pg.C08.pathLt q r = true → Pg.C08.pathLt p r = true) ∧
    (p ≠ q → Pg.C08.pathLt p q = true ∨ Pg.C08.pathLt q p = true) ∧
    Pg.C08.pathLt p (p ++ k :: r) = true :=
  ⟨pathLt_irrefl p, pathLt_asymm p q, pathLt_trans p q r, pathLt_total p q, pathLt_prefix p k r⟩

/-- Instance: the position-shifting list calls (`insert`, `del l[i]` / `pop` / `remove`, slice
assignment, `del` slice, `*=`) end in `finish` with the updates of their edit, all owned by the
list itself; with notification on their events satisfy the contract. -/
theorem C09_contract_edit (root : T) (recv : Path) (f : List T → Option Edit) (m : Meta)
    (items : List (Key × T)) (e : Edit)
    (hg : getAt root recv = some (.node m .list items)) (he : f (items.map (·.2)) = some e)
    (hwf : WF (resetChain (mapAt (setVals e.vals) root recv) recv)) :
    (applyEdit root recv true f).events.Perm
      (specNotifs (resetChain (mapAt (setVals e.vals) root recv) recv)
        (e.ents.map fun x => ({ path := recv ++ [Key.i x.1], old := x.2.1, new := x.2.2 }, recv))) := by
  unfold applyEdit
  simp only [hg, he]
  exact C09_contract_finish _ hwf _

/-- BULK OPERATIONS (`clear`, `sort`, `reverse`, `insert`, `del` / `pop` / `remove`, slice assignment,
`del` slice, `*=` on a List anywhere in a tree — typed or not, below objects that override
`_on_change` at any number of levels): the events are exactly one per subscribing node on the path
from the root to the list (the list included), each carrying *all* the entries of the operation
relative to the receiver, nobody else hears anything (`bulkSpec`, a closed form of the contract);
and the delivered sequence is `notifications r' ups`, so `C09_order` (children before parents) and
`C09_exactly_once` apply to it; old / new of the entries: `C09_truthful_edit_old/new`. -/
theorem C09_bulk_edit (root : T) (recv : Path) (f : List T → Option Edit) (m : Meta)
    (items : List (Key × T)) (e : Edit)
    (hg : getAt root recv = some (.node m .list items)) (he : f (items.map (·.2)) = some e)
    (hne : e.ents ≠ [])
    (hwf : WF (resetChain (mapAt (setVals e.vals) root recv) recv)) :
    let r' := resetChain (mapAt (setVals e.vals) root recv) recv
    let ents := e.ents.map fun x => (Key.i x.1, x.2.1, x.2.2)
    (applyEdit root recv true f).events = notifications r' (ownedUps recv ents) ∧
      (applyEdit root recv true f).events.Perm (bulkSpec r' recv ents) := by
  intro r' ents
  have hups : (e.ents.map fun x => (({ path := recv ++ [Key.i x.1], old := x.2.1, new := x.2.2 } : Update), recv))
      = ownedUps recv ents := by
    simp [ownedUps, ents, List.map_map, Function.comp_def]
  have hents : ents ≠ [] := by
    intro h; apply hne; simpa [ents] using h
  have hev : (applyEdit root recv true f).events = notifications r' (ownedUps recv ents) := by
    unfold applyEdit
    simp only [hg, he, hups, finish]
    have : (ownedUps recv ents).isEmpty = false := by
      cases hx : ents with
      | nil => exact absurd hx hents
      | cons _ _ => simp [ownedUps]
    simp [this, r']
  refine ⟨hev, ?_⟩
  rw [hev, ← specNotifs_owned r' recv ents hents]
  exact C09_contract r' hwf _

/-- The same for `Dict.clear()` / `Dict.popitem()`. -/
theorem C09_bulk_keyedit (root : T) (recv : Path)
    (f : List (Key × T) → Option (List (Key × T) × List (Key × Option T × Option T))) (m : Meta)
    (items items' : List (Key × T)) (ents : List (Key × Option T × Option T))
    (hg : getAt root recv = some (.node m .dict items)) (he : f items = some (items', ents)) (hne : ents ≠ [])
    (r' : T) (hr : r' = resetChain (mapAt (setItems items') root recv) recv) (hwf : WF r') :
    (applyKeyEdit root recv true f).events = notifications r' (ownedUps recv ents) ∧
      (applyKeyEdit root recv true f).events.Perm (bulkSpec r' recv ents) := by
  have hev : (applyKeyEdit root recv true f).events = notifications r' (ownedUps recv ents) := by
    rw [hr]
    unfold applyKeyEdit
    simp only [hg, he, finish]
    have : (ownedUps recv ents).isEmpty = false := by
      cases hx : ents with
      | nil => exact absurd hx hne
      | cons _ _ => simp [ownedUps]
    have h2 : (ents.map fun x => (({ path := recv ++ [x.1], old := x.2.1, new := x.2.2 } : Update), recv))
        = ownedUps recv ents := rfl
    rw [h2]
    simp [this]
  refine ⟨hev, ?_⟩
  rw [hev, ← specNotifs_owned r' recv ents hne]
  exact C09_contract r' hwf _

/-! ## Truthfulness of the recorded old / new values -/

/-- One write at any depth (accessor write, `del`, `append`, each pair of a `rebind` / `extend` /
`update`): the FieldUpdate names the written location (`recv ++ [k']`, `k'` = the key, or the new
last position for a list index past the end), its `old` is the value at that location before the
write and its `new` the value there after it (`none` = MISSING_VALUE: nothing there). -/
theorem C09_truthful_write (root r' : T) (parent : Path) (k : Key) (v : Option T) (u : Update)
    (hk : KeysNodup root) (hl : ListIndexed root)
    (hw : writeAt root [] parent k v = some (r', some u)) :
    ∃ k', u.path = parent ++ [k'] ∧ getAt root u.path = u.old ∧ getAt r' u.path = u.new := by
  obtain ⟨k', hp, ho, hn⟩ := writeAt_truthful parent root [] k v r' u hk hl hw
  simp only [List.nil_append] at hp
  exact ⟨k', hp, by rw [hp]; exact ho, by rw [hp]; exact hn⟩

/-- A whole batch (`rebind` with any number of pairs, `extend`, `update`: the write loop `writeAll`),
on a well-formed tree (distinct keys, lists indexed `0..n-1`) with well-formed values: when the
reported locations are pairwise unrelated (none at or below another), every recorded `old` is the
value at that location *before the call* and every `new` the value there *after the call* … -/
theorem C09_truthful_batch (root r' : T) (recv : Path) (pairs : List (Path × T)) (ups : List (Update × Path))
    (hw : WFK root) (hv : ∀ pv ∈ pairs, WFK pv.2) (h : writeAll root recv pairs [] = some (r', ups))
    (hun : (ups.map (·.1.path)).Pairwise Unrelated) :
    ∀ x ∈ ups, getAt root x.1.path = x.1.old ∧ getAt r' x.1.path = x.1.new :=
  (writeAll_truthful recv pairs root r' ups hw hv h).2.2 hun

/-- … and nothing else changes: every location unrelated to all reported ones holds after the
call what it held before (so the reported locations are *exactly* the changed ones). -/
theorem C09_batch_frame (root r' : T) (recv : Path) (pairs : List (Path × T)) (ups : List (Update × Path))
    (hw : WFK root) (hv : ∀ pv ∈ pairs, WFK pv.2) (h : writeAll root recv pairs [] = some (r', ups))
    (L : Path) (hL : ∀ x ∈ ups, Unrelated x.1.path L) : getAt r' L = getAt root L :=
  (writeAll_truthful recv pairs root r' ups hw hv h).2.1 L hL

/-- Why the locations must be unrelated: in the dependent batch `rebind({'n': {'k': 0}, 'n.k': 1})`
the second update records `old = 0`, the value the *first pair of the same call* put there; before
the call there was nothing at `n.k`. (The real code records the same; the oracle only demands
truthful values for batches of unrelated locations.) -/
theorem C09_truthful_needs_unrelated :
    ∃ (root r' : T) (pairs : List (Path × T)) (ups : List (Update × Path)),
      writeAll root [] pairs [] = some (r', ups) ∧ ∃ x ∈ ups, getAt root x.1.path ≠ x.1.old := by
  refine ⟨.node { id := 1, sub := false, cache := none } .dict [],
    _, [([Key.s "n"], .node { id := 0, sub := false, cache := none } .dict [(Key.s "k", .leaf (.int 0))]), ([Key.s "n", Key.s "k"], .leaf (.int 1))],
    _, rfl, ?_⟩
  refine ⟨_, List.mem_cons_of_mem _ (List.mem_singleton.2 rfl), ?_⟩
  simp [getAt, child, lookup]

/-- The edits of the position-shifting list calls: every reported `old` is the item that was at
that position before the call (deletions: the removed item at the position it had; replacements: the
replaced item), insertions report MISSING as `old`. -/
theorem C09_truthful_edit_old (notifyOn : Bool) (op : Op) (xs : List T) (e : Edit)
    (h : (match op with
      | .insert i v => editInsert i v xs | .delIdx i => editDelIdx i xs | .remove a => editRemove a xs
      | .delSlice a b st => editDelSlice a b st xs | .setSlice a b st vs => editSetSlice notifyOn a b st vs xs
      | .imul k => editIMul k xs | .clear => editClear xs | .reverse => editReverse xs | .sort => editSort xs
      | _ => none) = some e) :
    ∀ x ∈ e.ents, x.2.1 = none ∨ x.2.1 = xs[x.1]? := by
  cases op <;> simp only [] at h <;> try (cases h; done)
  case insert i v => simp only [editInsert, Option.some.injEq] at h; subst h; simp
  case delIdx i =>
    simp only [editDelIdx] at h; split at h
    · cases h
    · simp only [Option.some.injEq] at h; subst h; simp
  case remove a =>
    simp only [editRemove] at h; split at h
    · cases h
    · simp only [Option.some.injEq] at h; subst h; simp
  case delSlice a b st =>
    simp only [editDelSlice] at h; split at h
    · cases h
    · simp only [Option.some.injEq] at h; subst h
      intro x hx
      simp only [List.mem_map] at hx
      obtain ⟨p, _, rfl⟩ := hx
      exact Or.inr rfl
  case imul k =>
    simp only [editIMul] at h; split at h
    · simp only [editClear, Option.some.injEq] at h; subst h
      intro x hx; exact Or.inr (by simpa using clearEnts_old 0 xs x hx)
    · simp only [Option.some.injEq] at h; subst h
      intro x hx
      exact Or.inl (appendEnts_old _ _ x hx)
  case clear =>
    simp only [editClear, Option.some.injEq] at h; subst h
    intro x hx; exact Or.inr (by simpa using clearEnts_old 0 xs x hx)
  case reverse =>
    simp only [editReverse, Option.some.injEq] at h; subst h
    exact fun x hx => Or.inr (movedEnts_old _ _ _ _ x hx)
  case sort =>
    simp only [editSort] at h; split at h
    · simp only [Option.some.injEq] at h; subst h
      exact fun x hx => Or.inr (movedEnts_old _ _ _ _ x hx)
    · split at h
      · simp only [Option.some.injEq] at h; subst h; simp
      · cases h
  case setSlice a b st vs =>
    simp only [editSetSlice] at h; split at h
    · cases h
    · split at h
      · split at h
        · cases h
        · simp only [Option.some.injEq] at h; subst h
          exact sliceEnts_old _ _ _ _ _
      · split at h
        · cases h
        · simp only [Option.some.injEq] at h; subst h
          exact replEnts_old _ _ _

/-- … and every reported `new` is the item found at that position after the call (insertions,
moves, appended copies); removals report MISSING. (Slice assignment: `C09_truthful_edit_old` and the
correspondence; its `new` side is not proved.) -/
theorem C09_truthful_edit_new (op : Op) (xs : List T) (e : Edit)
    (h : (match op with
      | .insert i v => editInsert i v xs | .delIdx i => editDelIdx i xs | .remove a => editRemove a xs
      | .delSlice a b st => editDelSlice a b st xs | .imul k => editIMul k xs
      | .clear => editClear xs | .reverse => editReverse xs | .sort => editSort xs
      | _ => none) = some e) :
    ∀ x ∈ e.ents, x.2.2 = none ∨ x.2.2 = e.vals[x.1]? := by
  cases op <;> simp only [] at h <;> try (cases h; done)
  case insert i v =>
    simp only [editInsert, Option.some.injEq] at h; subst h
    intro x hx
    simp only [List.mem_singleton] at hx; subst hx
    right
    simp only []
    rw [insertAt_get]
    unfold Pg.C08.insertPos
    split <;> omega
  case delIdx i =>
    simp only [editDelIdx] at h; split at h
    · cases h
    · simp only [Option.some.injEq] at h; subst h; simp
  case remove a =>
    simp only [editRemove] at h; split at h
    · cases h
    · simp only [Option.some.injEq] at h; subst h; simp
  case delSlice a b st =>
    simp only [editDelSlice] at h; split at h
    · cases h
    · simp only [Option.some.injEq] at h; subst h
      intro x hx
      simp only [List.mem_map] at hx
      obtain ⟨p, _, rfl⟩ := hx
      exact Or.inl rfl
  case imul k =>
    simp only [editIMul] at h; split at h
    · simp only [editClear, Option.some.injEq] at h; subst h
      exact fun x hx => Or.inl (clearEnts_new 0 xs x hx)
    · simp only [Option.some.injEq] at h; subst h
      intro x hx
      obtain ⟨h1, h2⟩ := appendEnts_new _ _ x hx
      right
      rw [h2, List.getElem?_append_right h1]
  case clear =>
    simp only [editClear, Option.some.injEq] at h; subst h
    exact fun x hx => Or.inl (clearEnts_new 0 xs x hx)
  case reverse =>
    simp only [editReverse, Option.some.injEq] at h; subst h
    exact fun x hx => Or.inr (movedEnts_new _ _ _ _ x hx)
  case sort =>
    simp only [editSort] at h; split at h
    · simp only [Option.some.injEq] at h; subst h
      exact fun x hx => Or.inr (movedEnts_new _ _ _ _ x hx)
    · split at h
      · simp only [Option.some.injEq] at h; subst h; simp
      · cases h

/-- Instance: `Dict.clear()` / `Dict.popitem()` (fix C09-F55) end in `finish` with one update per
removed key; with notification on their events satisfy the contract. -/
theorem C09_contract_keyedit (root : T) (recv : Path)
    (f : List (Key × T) → Option (List (Key × T) × List (Key × Option T × Option T))) (m : Meta)
    (items items' : List (Key × T)) (ents : List (Key × Option T × Option T))
    (hg : getAt root recv = some (.node m .dict items)) (he : f items = some (items', ents))
    (r' : T) (hr : r' = resetChain (mapAt (setItems items') root recv) recv) (hwf : WF r') :
    (applyKeyEdit root recv true f).events.Perm
      (specNotifs r' (ents.map fun x => ({ path := recv ++ [x.1], old := x.2.1, new := x.2.2 }, recv))) := by
  subst hr
  unfold applyKeyEdit
  simp only [hg, he]
  exact C09_contract_finish _ hwf _

/-! ## Freshness of the memoised derived state -/

/-- The values a call inserts carry no stale cache (they are fresh plain values). -/
def OpFresh : Op → Prop
  | .setKey _ v => Fresh v
  | .append v => Fresh v
  | .extend vs => ∀ v ∈ vs, Fresh v
  | .rebind pairs => ∀ pv ∈ pairs, Fresh pv.2
  | .update kvs => ∀ kv ∈ kvs, Fresh kv.2
  | .insert _ v => Fresh v
  | .setSlice _ _ _ vs => ∀ v ∈ vs, Fresh v
  | _ => True

private theorem finish_fresh (r' : T) (ups : List (Update × Path)) (n : Bool) (h : Fresh r') :
    Fresh (finish r' ups n).tree := by
  exact finish_fresh' r' ups n h

/-- FRESHNESS, full strength: after any modelled call — accessor write, `del`, `append`, batched
`rebind` with any number of pairs, `update`, `clear`, `reverse`, `sort`, `popitem`, `insert`, `pop` / `remove`,
slice assignment, `del` slice, `*=` — at any depth, with
notification on or off, every memoised fact of every node is either not computed or equal to a
fresh computation on the current contents. -/
theorem C09_fresh (n : Bool) (root : T) (recv : Path) (op : Op) (hf : Fresh root) (hv : OpFresh op) :
    Fresh (step root recv n op).tree := by
  cases op with
  | setKey k v =>
    simp only [step]
    cases hw : writeReset root recv k (some v) with
    | none => exact hf
    | some r =>
      obtain ⟨r', u⟩ := r
      have h1 : Fresh r' := writeReset_fresh hf (fun nv h => by cases h; exact hv) hw
      cases u with
      | none => exact h1
      | some u => exact finish_fresh _ _ _ h1
  | delKey k =>
    simp only [step]
    cases hw : writeReset root recv k none with
    | none => exact hf
    | some r =>
      obtain ⟨r', u⟩ := r
      have h1 : Fresh r' := writeReset_fresh hf (fun nv h => by cases h) hw
      cases u with
      | none => exact h1
      | some u => exact finish_fresh _ _ _ h1
  | append v =>
    simp only [step]
    split
    · next m items hg =>
      cases hw : writeReset root recv (Key.i items.length) (some v) with
      | none => exact hf
      | some r =>
        obtain ⟨r', u⟩ := r
        have h1 : Fresh r' := writeReset_fresh hf (fun nv h => by cases h; exact hv) hw
        cases u with
        | none => exact hf
        | some u => exact finish_fresh _ _ _ h1
    · exact hf
  | extend vs =>
    simp only [step]
    split
    · next m items hg =>
      cases hw : writeAll root recv ((List.range vs.length).zip vs |>.map fun (i, v) => ([Key.i (items.length + i)], v)) [] with
      | none => exact hf
      | some r =>
        obtain ⟨r', ups⟩ := r
        refine finish_fresh _ _ _ (writeAll_fresh recv _ root [] r' ups hf ?_ hw)
        intro pv h
        obtain ⟨iv, hiv, rfl⟩ := List.mem_map.1 h
        exact hv iv.2 (List.of_mem_zip hiv).2
    · exact hf
  | rebind pairs =>
    simp only [step]
    split
    · -- some pairs delete
      split
      · cases hw : writeAllM root recv pairs.reverse [] with
        | none => exact hf
        | some r =>
          exact finish_fresh _ _ _ (writeAllM_fresh recv pairs.reverse root [] r.1 r.2 hf
            (fun pv h => hv pv (by simpa using h)) (by simp [hw]))
      · cases hw : writeAllM root recv pairs [] with
        | none => exact hf
        | some r => exact finish_fresh _ _ _ (writeAllM_fresh recv pairs root [] r.1 r.2 hf hv (by simp [hw]))
    split
    · cases hw : writeAll root recv pairs.reverse [] with
      | none => exact hf
      | some r =>
        exact finish_fresh _ _ _ (writeAll_fresh recv pairs.reverse root [] r.1 r.2 hf
          (fun pv h => hv pv (by simpa using h)) (by simp [hw]))
    · cases hw : writeAll root recv pairs [] with
      | none => exact hf
      | some r => exact finish_fresh _ _ _ (writeAll_fresh recv pairs root [] r.1 r.2 hf hv (by simp [hw]))
  | update kvs =>
    simp only [step]
    cases hw : writeAll root recv (kvs.map fun (k, v) => ([k], v)) [] with
    | none => exact hf
    | some r =>
      obtain ⟨r', ups⟩ := r
      refine finish_fresh _ _ _ (writeAll_fresh recv _ root [] r' ups hf ?_ hw)
      intro pv h
      obtain ⟨kv, hkv, rfl⟩ := List.mem_map.1 h
      exact hv kv hkv
  | clear =>
    simp only [step]
    split
    · exact applyEdit_fresh root recv n _ hf (fun xs e hxs he y hy => by
        simp only [editClear, Option.some.injEq] at he; subst he; simp at hy)
    · exact applyKeyEdit_fresh root recv n _ hf (fun items r hfi he => by
        simp only [dictClear, Option.some.injEq] at he; subst he; simp [FreshItems])
  | reverse =>
    exact applyEdit_fresh root recv n _ hf (fun xs e hxs he y hy => by
      simp only [editReverse, Option.some.injEq] at he; subst he
      exact hxs y (by simpa using hy))
  | sort =>
    exact applyEdit_fresh root recv n _ hf (fun xs e hxs he y hy => by
      simp only [editSort] at he
      split at he
      · simp only [Option.some.injEq] at he; subst he
        simp only [List.mem_map] at hy
        obtain ⟨i, _, rfl⟩ := hy
        simp [Fresh]
      · split at he
        · simp only [Option.some.injEq] at he; subst he; exact hxs y hy
        · cases he)
  | popitem =>
    exact applyKeyEdit_fresh root recv n _ hf (fun items r hfi he => by
      simp only [dictPopitem] at he
      split at he
      · cases he
      · simp only [Option.some.injEq] at he; subst he
        exact freshItems_dropLast _ hfi)
  | insert i v =>
    refine applyEdit_fresh root recv n _ hf (fun xs e hxs he y hy => ?_)
    rcases editInsert_vals i v he y hy with h | h
    · exact hxs y h
    · rw [h]; exact hv
  | delIdx i =>
    exact applyEdit_fresh root recv n _ hf (fun xs e hxs he y hy => hxs y (editDelIdx_vals i he y hy))
  | remove a =>
    exact applyEdit_fresh root recv n _ hf (fun xs e hxs he y hy => hxs y (editRemove_vals a he y hy))
  | setSlice a b st vs =>
    refine applyEdit_fresh root recv n _ hf (fun xs e hxs he y hy => ?_)
    rcases editSetSlice_vals n a b st vs he y hy with h | h
    · exact hxs y h
    · exact hv y h
  | delSlice a b st =>
    exact applyEdit_fresh root recv n _ hf (fun xs e hxs he y hy => hxs y (editDelSlice_vals a b st he y hy))
  | imul k =>
    exact applyEdit_fresh root recv n _ hf (fun xs e hxs he y hy => hxs y (editIMul_vals k he y hy))

/-! ## Reads of the derived facts, at chosen nodes and moments -/

/-- A read at any node of a fresh tree answers exactly what a fresh computation on the current
contents of that node gives (whether it comes from the node's memo or is recomputed from the
children's answers), and the tree — with whatever the read memoised in the subtree — stays fresh. -/
theorem C09_read (root : T) (p : Path) (f : Facts) (hf : Fresh root) :
    (readAt root p f).2 = (getAt root p).map (fun n =>
        (if f.nd then derive n else [], if f.miss then deriveMiss n else [])) ∧
      Fresh (readAt root p f).1 :=
  readAt_spec root p f hf

/-- WHERE a read memoises: `sym_nondefault()` of a schema-bound node (an object, a typed Dict)
whose memo is empty diffs the contents against the defaults and memoises the answer at that node
only — its items, with whatever they memoise or not, are left exactly as they are (so the nodes
between it and a later write may memoise nothing: every write therefore has to walk the whole chain
to the root, `C09_invalidate_table`); a memo hit touches nothing at all. -/
theorem C09_read_typed_memo (id : Nat) (sub : Bool) (miss : Option (List Path)) (cls : Nat) (sch : Schema)
    (kd : Kind) (items : List (Key × T)) (d : LeafMap) :
    (readND (.node ⟨id, sub, none, miss, cls, some sch⟩ kd items)).1
        = .node ⟨id, sub, some (typedItems sch (T.svItems items)), miss, cls, some sch⟩ kd items ∧
      (readND (.node ⟨id, sub, some d, miss, cls, some sch⟩ kd items))
        = (.node ⟨id, sub, some d, miss, cls, some sch⟩ kd items, d) := by
  simp [readND]

/-- FRESHNESS over histories that interleave calls (notified or silent, at any depth) with reads at
chosen nodes: the tree is fresh after every history … -/
theorem C09_fresh_history : (hs : List HStep) → (root : T) → Fresh root → (∀ s ∈ hs, s.Admissible OpFresh) →
    Fresh (runH root hs)
  | [], root, hf, _ => hf
  | .call recv n op :: rest, root, hf, hv =>
    C09_fresh_history rest _ (C09_fresh n root recv op hf (hv (.call recv n op) (by simp)))
      (fun s hs => hv s (List.mem_cons_of_mem _ hs))
  | .read p f :: rest, root, hf, hv =>
    C09_fresh_history rest _ (readAt_spec root p f hf).2 (fun s hs => hv s (List.mem_cons_of_mem _ hs))

/-- … hence a read made at any node after any such history answers the fresh computation on the
contents of that moment — whichever nodes were read (memoised) before and whichever were not. -/
theorem C09_read_after_history (hs : List HStep) (root : T) (p : Path) (f : Facts) (hf : Fresh root)
    (hv : ∀ s ∈ hs, s.Admissible OpFresh) :
    (readAt (runH root hs) p f).2 = (getAt (runH root hs) p).map (fun n =>
        (if f.nd then derive n else [], if f.miss then deriveMiss n else [])) :=
  (readAt_spec _ p f (C09_fresh_history hs root hf hv)).1

/-- `rebind(path -> MISSING_VALUE)` on a List item leaves a placeholder that the list's change handler
drops: after a NOTIFIED call every List on the way to an updated node (the handler of each of them
runs) holds no placeholder; after a silent call nobody's handler runs — `C09_silent_off`: no event,
not even an empty one — and the placeholder stays (known finding C02-F03). -/
theorem C09_placeholders_dropped (paths : List Path) (hne : paths.isEmpty = false) (m : Meta)
    (items : List (Key × T)) :
    ∃ m' items', purgeSet paths (.node m .list items) = .node m' .list items' ∧
      ∀ kv ∈ items', isMissingLeaf kv.2 = false :=
  purgeSet_list_clean paths hne m items

/-! ## Handlers that mutate during notification (depth-bounded re-entrancy)

`stepR react fuel root recv op` is one notified call whose receivers' handlers may each issue a
call of their own (`react id`), those calls' receivers again, ... to at most `fuel` levels; it
returns the tree afterwards and the log of all deliveries in the order in which handlers ran. -/

/-- Without nesting left the call is the plain notified call. -/
theorem C09_reentrant_depth0 (react : React) (t : T) (recv : Path) (op : Op) :
    stepR react 0 t recv op = ((step t recv true op).tree, (step t recv true op).events) := rfl

/-- NESTED DISPATCH, unfolded at the first receiver: the log is the first event of the call,
then the COMPLETE log of the call which that receiver's handler issues (run on the tree as the outer
call left it, with one level of nesting less), then the deliveries to the remaining receivers — the
outer dispatch goes on only after the nested call has been dispatched completely. -/
theorem C09_reentrant_unfold (react : React) (f : Nat) (t : T) (recv : Path) (op : Op) (e : Event) (rest : List Event)
    (he : (step t recv true op).events = e :: rest) :
    (stepR react (f + 1) t recv op).2 =
      e :: (nestedCall react f (step t recv true op).tree e.recv).2 ++
        (dispatchWith (nestedCall react f) (nestedCall react f (step t recv true op).tree e.recv).1 rest).2 := by
  rw [stepR_succ, he]; rfl

/-- NOTHING IS SUPPRESSED: at every level the events of a call — the outer one or one issued by a
handler, `C09_contract`: one for every subscribing ancestor-or-self of what that call wrote, hence
also for the node whose handler issued it when it is one of them — all appear in the log, in their
own (children before parents, `C09_order`) order. -/
theorem C09_reentrant_complete (react : React) (f : Nat) (t : T) (recv : Path) (op : Op) :
    (step t recv true op).events.Sublist (stepR react f t recv op).2 :=
  stepR_outer_sublist react f t recv op

/-- … in particular for the nested call of the first receiver: all of its own events are in the
log of the outer call. -/
theorem C09_reentrant_nested_complete (react : React) (f : Nat) (t : T) (recv : Path) (op : Op)
    (e : Event) (rest : List Event) (rp : Path) (rop : Op)
    (he : (step t recv true op).events = e :: rest) (hr : react e.recv = some (rp, rop)) :
    ∀ x ∈ (step (step t recv true op).tree rp true rop).events, x ∈ (stepR react (f + 1) t recv op).2 := by
  intro x hx
  rw [C09_reentrant_unfold react f t recv op e rest he]
  have h1 : (nestedCall react f (step t recv true op).tree e.recv) = stepR react f (step t recv true op).tree rp rop := by
    simp [nestedCall, hr]
  rw [h1]
  have := (stepR_outer_sublist react f (step t recv true op).tree rp rop).subset hx
  simp [this]

/-- FRESHNESS with re-entrant handlers, for every nesting bound: if the outer operation and the
operations the handlers issue hand in values without stale memos, the tree is fresh afterwards. -/
theorem C09_reentrant_fresh (react : React) (hreact : ∀ id rp rop, react id = some (rp, rop) → OpFresh rop) :
    (f : Nat) → (t : T) → (recv : Path) → (op : Op) → Fresh t → OpFresh op → Fresh (stepR react f t recv op).1
  | 0, t, recv, op, hf, hv => by rw [stepR_zero]; exact C09_fresh true t recv op hf hv
  | f + 1, t, recv, op, hf, hv => by
    rw [stepR_succ]
    refine dispatchWith_fresh _ ?_ _ _ (C09_fresh true t recv op hf hv)
    intro t' id ht'
    unfold nestedCall
    cases hr : react id with
    | none => exact ht'
    | some x =>
      obtain ⟨rp, rop⟩ := x
      exact C09_reentrant_fresh react hreact f t' rp rop ht' (hreact id rp rop hr)

/-! ## Writes that a value spec refuses (KeyError by a nested schema, TypeError, ValueError) -/

/-- A refused write — whatever the error class, whatever the field rules — delivers no event and
leaves the tree (contents and memos) exactly as it was. -/
theorem C09_rejected_write_no_trace (rules : Rules) (root : T) (recv : Path) (n : Bool) (op : Op)
    (e : RejErr) (h : rejection rules root recv op = some e) :
    (stepV rules root recv n op).tree = root ∧ (stepV rules root recv n op).ok = false ∧
      (stepV rules root recv n op).events = [] := by
  rw [stepV_rejected rules root recv n op e h]; exact ⟨rfl, rfl, rfl⟩

/-- … so whatever is called next — in particular a mutation inside the old value that stayed in
place — behaves exactly as if the refused write had never been attempted: an accepted call is the
very `step root recv' n' op'` of the theorems above (events to every subscribing ancestor:
`C09_contract`, `C09_bulk_*`; memos: `C09_fresh`). -/
theorem C09_after_rejected_write (rules : Rules) (root : T) (recv : Path) (n : Bool) (op : Op)
    (e : RejErr) (h : rejection rules root recv op = some e) (recv' : Path) (n' : Bool) (op' : Op) :
    stepV rules (stepV rules root recv n op).tree recv' n' op' = stepV rules root recv' n' op' ∧
    (rejection rules root recv' op' = none →
      stepV rules (stepV rules root recv n op).tree recv' n' op' = step root recv' n' op') := by
  rw [stepV_rejected rules root recv n op e h]
  exact ⟨rfl, fun h' => stepV_accepted rules root recv' n' op' h'⟩

/-- Freshness through refused writes: whether the call is refused or not, the memoised facts stay
fresh. -/
theorem C09_fresh_with_specs (rules : Rules) (n : Bool) (root : T) (recv : Path) (op : Op)
    (hf : Fresh root) (hv : OpFresh op) : Fresh (stepV rules root recv n op).tree := by
  cases h : rejection rules root recv op with
  | some e => rw [stepV_rejected rules root recv n op e h]; exact hf
  | none => rw [stepV_accepted rules root recv n op h]; exact C09_fresh n root recv op hf hv

/-- Histories: dropping every call that was refused when its turn came changes nothing. -/
theorem C09_history_rejected_invisible (rules : Rules) (hist : List VCall) (t : T) :
    runV rules t hist = runV rules t (keepAccepted rules t hist) :=
  runV_keepAccepted rules hist t

/-- The three error classes, on an owner of class 5 whose field `opt` is a Dict with the schema
{lr: any, n: Int(min_value=0)}: an unknown key, a str where an int is due, a negative int. -/
example :
    let rules : Rules := fun c k => if c == 5 && k == Key.s "opt" then
      .dict [(Key.s "lr", .any), (Key.s "n", .int (some 0))] else .leaf .any
    let d (items : List (Key × T)) : T := .node { id := 0, sub := false, cache := none } .dict items
    let root : T := .node { id := 1, sub := true, cache := none, cls := 5 } .obj
      [(Key.s "opt", d [(Key.s "lr", .leaf (.int 1)), (Key.s "n", .leaf (.int 0))])]
    rejection rules root [] (.setKey (Key.s "opt") (d [(Key.s "lr", .leaf (.int 2)), (Key.s "stepz", .leaf (.int 5))])) = some .key ∧
    rejection rules root [] (.setKey (Key.s "opt") (d [(Key.s "lr", .leaf (.int 2)), (Key.s "n", .leaf (.str "p"))])) = some .type ∧
    rejection rules root [] (.rebind [([Key.s "opt"], d [(Key.s "lr", .leaf (.int 2)), (Key.s "n", .leaf (.int (-1)))])]) = some .value ∧
    rejection rules root [] (.setKey (Key.s "opt") (d [(Key.s "lr", .leaf (.int 2)), (Key.s "n", .leaf (.int 3))])) = none := by
  decide

/-! ## Threads: the switch `notify_on_change` is local to the thread that set it -/

/-- After ANY history of scope entries / exits and calls by any number of threads over the two
trees, the stack of scopes of thread `t` is its initial stack with its own scope actions applied:
what other threads enter or leave never shows in it. -/
theorem C09_switch_thread_local (t : Nat) (hist : List NStep) (s : NState) :
    (runN s hist).stacks t = (ownNActs t hist).foldl NAct.apply (s.stacks t) :=
  runN_stacks t hist s

/-- … so a thread that is inside no `notify_on_change` scope of its own makes fully notified calls,
whatever scopes other threads have opened in the meantime: its call on a node of the first tree is
`step _ recv true op` on the current tree — the call every contract theorem above speaks about
(`C09_contract`, `C09_bulk_*`, `C09_fresh`, …) — and likewise on the second tree. -/
theorem C09_other_threads_do_not_silence (t : Nat) (hist : List NStep) (s : NState)
    (h0 : s.stacks t = []) (hown : ownNActs t hist = []) (recv : Path) (op : Op) :
    (stepN (runN s hist) (.call t false recv true op)).2 = step (runN s hist).tree recv true op ∧
    (stepN (runN s hist) (.call t true recv true op)).2 = step (runN s hist).ext recv true op := by
  have hs : (runN s hist).stacks t = [] := by rw [runN_stacks, hown, h0]; rfl
  simp [stepN, hs, switchOn]

/-- … and a thread inside its own `notify_on_change(False)` is silent, whatever the others do. -/
theorem C09_own_scope_silences (t : Nat) (s : NState) (rest : List Bool) (hs : s.stacks t = false :: rest)
    (inExt w : Bool) (recv : Path) (op : Op) :
    (stepN s (.call t inExt recv w op)).2 = step (if inExt then s.ext else s.tree) recv false op := by
  cases inExt <;> simp [stepN, hs, switchOn]

/-- A call on a node of one tree leaves the other tree exactly as it was (contents and memos). -/
theorem C09_call_stays_in_its_tree (s : NState) (t : Nat) (recv : Path) (w : Bool) (op : Op) :
    (stepN s (.call t true recv w op)).1.tree = s.tree ∧
    (stepN s (.call t false recv w op)).1.ext = s.ext := by
  simp [stepN]

/-- A root dict whose cache is filled, holding one leaf. -/
def exRoot : T :=
  .node { id := 1, sub := true, cache := some [([Key.s "k"], Val.atom (Atom.int 1))] } .dict [(Key.s "k", .leaf (.int 1))]

/-- Why the invalidation matters (the state of the code before the fixes): a write that does not
reset the chain leaves the memoised value of the container stale. -/
theorem C09_stale_without_invalidation :
    ∃ r u, writeAt exRoot [] [] (Key.s "k") (some (.leaf (.int 2))) = some (r, some u) ∧ ¬ Fresh r := by
  refine ⟨_, _, rfl, ?_⟩
  simp [Fresh, FreshItems, derive, T.sv, T.svItems, deriveS, deriveItemsS, setKv]

/-! Non-vacuity -/
example : WFK exRoot := by
  simp [WFK, exRoot, KeysNodup, KeysNodupItems, ListIndexed, ListIndexedItems]
example : Unrelated [Key.s "a", Key.i 0] [Key.s "b"] := by simp [Unrelated]
example : Fresh exRoot := by simp [exRoot, Fresh, FreshItems, derive, T.sv, T.svItems, deriveS, deriveItemsS]
example : WF exRoot := by simp [WF, exRoot, KeysNodup, KeysNodupItems, allSubs, allSubsItems]
example : (step exRoot [] true (.setKey (Key.s "k") (.leaf (.int 2)))).events.length = 1 := by
  decide

/-- A typed tree: an object of a class with the fields `k` (default 1) and `d` (a schema-bound Dict
with default `{u: 2}`), holding `k = 1`, `d = {u: 5}`: `sym_nondefault()` is `{d.u: 5}`. -/
def exTyped : T :=
  .node { id := 1, sub := false, cache := none, cls := 7,
          sch := some [(Key.s "k", some (.atom (.int 1))),
                       (Key.s "d", some (.node .dict 0 [(Key.s "u", .atom (.int 2))]))] } .obj
    [(Key.s "k", .leaf (.int 1)),
     (Key.s "d", .node { id := 2, sub := false, cache := none, sch := some [(Key.s "u", some (.atom (.int 2)))] } .dict
        [(Key.s "u", .leaf (.int 5))])]

example : derive exTyped = [([Key.s "d", Key.s "u"], .atom (.int 5))] := by rfl
/-- the read memoises at the object only: the Dict between it and the leaf memoises nothing. -/
example : (match (readAt exTyped [] ⟨true, false⟩).1 with
    | .node m _ [_, (_, .node m2 _ _)] => m.cache.isSome && m2.cache.isNone
    | _ => false) = true := by decide

end Pg.C09
