/-
  C06 — Symbolic equality, hashing and ordering obey their algebraic laws.
-/
import PgGen.C06Order
namespace Pg.C06

/-- Generated obligation: the type-order strings of the builtin rows are strictly increasing in
the documented order (missing < None < numbers < str < list < tuple < set < dict). -/
theorem C06_rank_strict_mono :
    List.Pairwise (fun a b => lexLt (Gen.rankOf a) (Gen.rankOf b) = true) TypeKind.all := by
  decide

end Pg.C06
