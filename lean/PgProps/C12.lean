/-
  C12 — DNA views are lossless and stay aligned with the specification.
  Property theorems only (model: PgModel/Geno/Views.lean; lemmas: PgProofs/GenoViews.lean).

  What is proved here for all DNAs: the nested-number form and the compact JSON value parse back
  (`DNA(nested)`) to the DNA they were exported from, under the explicit decidable condition
  `viewNorm` (the DNA is in constructor normal form and only `None` / numeric nodes have
  children); and `from_numbers ∘ to_numbers = id` on every valid DNA of every spec without custom
  decision points (`C12_numbers`, with the counterexample when the condition is dropped); binding
  a valid DNA succeeds, keeps the numbers and is aligned (`C12_bound_aligned`). What is carried by the correspondence run instead of a theorem (labelled as such in
  the evidence): the 30
  `to_dict` option triples verbatim, the node bindings after every producer
  (`next_dna`, `random_dna`, `from_numbers`, `from_dict`, parse + `use_spec`, `clone`, `Swap`);
  `from_dict`, verbose JSON and `dna[...]` lookups are checked by the oracle on the real code only.
-/
import PgProofs.GenoViews
import PgProofs.GenoNumbers
import PgProofs.GenoAlign
import PgProofs.GenoDict
import PgProofs.GenoDict2
import PgProofs.GenoDictB
import PgProofs.GenoLookup
import PgGen.C12Tables
import PgModel.Geno.Valid
namespace Pg.Geno

/-- `DNA(d.to_numbers(flatten=False)) == d`. -/
theorem C12_nested_roundtrip (d : DNA) (h : viewNorm d = true) : parse (toNested d) = some d :=
  parse_toNested d h

/-- `DNA.parse(value of d.to_json(compact=True)) == d`, for the compact form exactly as the code
recurses (`toCompactDeep`: a childless node is its bare value at every depth). -/
theorem C12_compact_roundtrip (d : DNA) (h : viewNorm d = true) : parse (toCompactDeep d) = some d :=
  parse_toCompactDeep d h

/-- `from_json(d.to_json(compact=False)) == d`: the verbose JSON form (value and children of the
root, every child in its compact form) is parsed back by parsing the children and normalising
`DNA(value, children)`. -/
theorem C12_verbose_roundtrip (d : DNA) (h : viewNorm d = true) : parseVerbose (toVerbose d) = some d :=
  parseVerbose_toVerbose d h

/-- The flat-number view reconstructs, together with the spec, the DNA it was exported from:
`DNA.from_numbers(d.to_numbers(), spec) == d` for every valid `d` of every spec without custom
decision points (all spaces, single / multi choices in every mode, conditional sub-spaces, floats). -/
theorem C12_numbers (g : Spec) (hc : g.noCustom = true) (d : DNA) (h : Valid g d) :
    g.fromNumbers (flat d) = some d :=
  fromNumbers_flat g hc d h

/-- The same without the condition on custom points. -/
def C12_numbers_Full : Prop :=
  ∀ (g : Spec) (d : DNA), g.wf = true → Valid g d → g.fromNumbers (flat d) = some d

/-- Dropping `noCustom` fails: the children of a custom decision point's DNA are user defined
(`validate` and binding accept them), `to_numbers` exports them, `from_numbers` reads one value.
Replayed on the code: `DNA.from_numbers(DNA('abc', [DNA(0)]).to_numbers(), pg.geno.custom())`
raises 'too long'. -/
theorem C12_numbers_counterexample : ¬ C12_numbers_Full := by
  intro h
  have := h (.point (.custom {})) (.mk (.str "abc") [.mk (.int 0) []]) (by decide) (by decide)
  revert this
  decide

/-- Binding a valid DNA (`use_spec`, for every spec: floats and custom points included) always
succeeds, leaves the raw numbers unchanged, and gives every node the decision point of its own
position: the bound DNA is `Aligned`. Every producer of the library returns `raw numbers +
use_spec` (`next_dna`, `random_dna`, `from_numbers`, `from_dict`, parse; `clone` copies the
bindings; `Swap` re-binds since fix C12-F21) — that the real producers do so is what the
correspondence compares node by node. -/
theorem C12_bound_aligned (g : Spec) (d : DNA) (h : Valid g d) :
    ∃ b, g.annot d = some b ∧ b.erase = d ∧ Aligned g b := by
  obtain ⟨b, hb, he⟩ := annot_erase g d h
  exact ⟨b, hb, he, by unfold Aligned; rw [he]; exact hb⟩

/-- Corollary (the alignment clause of the property): an aligned DNA with valid numbers has exactly
the bindings — hence exactly the exported views (`toDict o` for every option triple, lookups) — of
the DNA freshly rebuilt from its raw numbers with `from_numbers` + `use_spec`. -/
theorem C12_views_of_rebuilt (g : Spec) (hc : g.noCustom = true) (b : BDNA)
    (hv : Valid g b.erase) (ha : Aligned g b) :
    ∃ d', g.fromNumbers (flat b.erase) = some d' ∧ g.annot d' = some b ∧
      ∀ o, (g.annot d').map (toDict o) = some (toDict o b) := by
  refine ⟨b.erase, C12_numbers g hc b.erase hv, ha, fun o => ?_⟩
  unfold Aligned at ha
  rw [ha]; rfl

/-! ### from_dict -/

/-- `DNA.from_dict(D, spec, use_ints_as_literals)` rebuilds a valid DNA `d` from ANY dictionary `D`
that holds the decisions of `d` (`Good D o useInts b`, `b` = the bound `d`): for every decision
point `d` passes through, the decision in the value style of `o`, readable by `candidate_index`,
sits under the point's id, or — when the id is no key of `D` — under its name (`key_type='id'` and
`key_type='name_or_id'`), or, with `multi_choice_key='parent'`, in the list under the id of the
multi-choice. Every spec without custom points, 5 value styles × 3 multi-choice modes × both key
types, as long as a name holds ONE decision; a name shared by several active decisions (a named
point inside the candidates of a multi-choice: the values accumulate in a list that `from_dict`
pops) is modelled (`getDecision`) and compared on every run, not covered by this theorem. That
`to_dict` produces such a dictionary (no two decision points render to the same key) is likewise
compared on every run (`from_dict(to_dict(…))`, model and code, all 30 option triples). -/
theorem C12_from_dict (g : Spec) (hc : g.noCustom = true) (d : DNA) (b : BDNA) (o : Opts) (useInts : Bool)
    (D : List (String × DE)) (hv : Valid g d) (hb : g.annot d = some b) (hD : Good D o useInts b) :
    g.fromDict useInts D = some d :=
  fromDict_of_good D o useInts g hc d b hv hb hD

/-- END TO END for the default options: `DNA.from_dict(d.to_dict(), spec) == d` for every valid `d` of
every spec without custom points, under the explicit decidable condition that the decisions of
`d` are stored under pairwise different keys (`puts0 b`: the `_put` calls of `to_dict()`; their
keys are the rendered ids of the decision points `d` passes through). -/
theorem C12_dict_default_roundtrip (g : Spec) (hc : g.noCustom = true) (d : DNA) (b : BDNA)
    (hv : Valid g d) (hb : g.annot d = some b) (hkeys : ((puts0 b).map (·.1)).Nodup) :
    g.fromDict false (toDict {} b) = some d :=
  fromDict_toDict_default g hc d b hv hb hkeys

/-- TO_DICT, EVERY OPTION TRIPLE (`key_type` × `value_type` × `multi_choice_key`): the entry under
any key is the list of the decisions `_dump_node` puts under it, in depth-first order — a single
value if there is one, a list if there are several, absent if there is none. -/
theorem C12_to_dict_lookup (o : Opts) (b : BDNA) (k : String) :
    dictGet (toDict o b) k = toDE (collectVals k (puts o b)) :=
  dictGet_toDict o b k

/-- FROM_DICT WITH THE DICTIONARY THREADED THROUGH: `_get_decision` pops the lists it finds under a
NAME, so the dictionary changes while it is read.  `Reads o useInts b D D'`: reading the decisions
of the bound tree `b` off `D` in depth-first order finds, at every node, the decision of that node
(by id; else by name, popping; else in the parent's list) and ends with `D'`.  Then `from_dict`
rebuilds the DNA.  (`C12_from_dict` is the special case where nothing is popped.) -/
theorem C12_from_dict_popping (g : Spec) (hc : g.noCustom = true) (d : DNA) (b : BDNA) (o : Opts)
    (useInts : Bool) (D D' : List (String × DE)) (hv : Valid g d) (hb : g.annot d = some b)
    (hD : Reads o useInts b D D') :
    g.fromDict useInts D = some d :=
  fromDict_of_reads o useInts g hc d b D D' hv hb hD

/-- END TO END, EVERY OPTION TRIPLE (the 29 non-default ones and the default):
`DNA.from_dict(d.to_dict(key_type, value_type, multi_choice_key), spec, use_ints_as_literals) == d`
for every valid `d` of every spec without custom points, under the decidable condition
`dictCond o useInts b` on the keys (`PgModel/Geno/DictCond.lean`, evaluated by the driver on every
run and compared with the code): a decision stored under its name has an id that is no key; a
decision stored under its id is alone under that key; a sub-choice stored in its parent's list
finds neither its id nor its name as a key and the parent's list holds exactly the decisions of
that multi-choice; the value style is readable; with `value_type='dna'` nothing below a choice
sits under a popped name.  Names that accumulate several decisions (the sub-choices of a named
multi-choice; a named decision point reached through several sub-choices) are INSIDE the theorem:
their list is popped in the order it was written. -/
theorem C12_dict_roundtrip (o : Opts) (useInts : Bool) (g : Spec) (hc : g.noCustom = true) (d : DNA) (b : BDNA)
    (hv : Valid g d) (hb : g.annot d = some b) (hcond : dictCond o useInts b = true) :
    g.fromDict useInts (toDict o b) = some d :=
  fromDict_toDict_B o useInts g hc d b hv hb hcond

/-- The same with the conditions as propositions and ANY choice `rn` of the names considered popped. -/
theorem C12_dict_roundtrip_cond (o : Opts) (useInts : Bool) (rn : List String) (g : Spec) (hc : g.noCustom = true)
    (d : DNA) (b : BDNA) (hv : Valid g d) (hb : g.annot d = some b) (hcond : Cond o useInts (puts o b) rn b) :
    g.fromDict useInts (toDict o b) = some d :=
  fromDict_toDict o useInts rn g hc d b hv hb hcond

/-! ### the look-up structures and their caches -/

/-- THE CACHE DISCIPLINE: whatever sequence of construction (`__init__`), rebinding (`_on_bound`
fires after every change of value / children / metadata — every mutator and recombinator goes
through it), cloning (`_sym_clone`) and looking up produced a DNA object, a filled
`_decision_by_id_cache` / `_named_decisions` holds the tables of its CURRENT tree. -/
theorem C12_lookup_caches_coherent (o : Obj) (h : Produced o) : o.Coherent :=
  produced_coherent h

/-- LOOK-UPS EQUAL THOSE OF THE REBUILT DNA: on every produced object with a valid tree,
`_decision_by_id` and `named_decisions` (hence `dna[dp]`, `dna[id]`, `dna[name]`, which are
functions of the two — `getItem`, `getItemDp`) are the ones of `DNA.from_numbers(d.to_numbers(), spec)`. -/
theorem C12_lookups_of_rebuilt (o : Obj) (h : Produced o) (hc : o.spec.noCustom = true)
    (hv : Valid o.spec o.tree) :
    ∃ d', o.spec.fromNumbers (flat o.tree) = some d' ∧
      o.readById.1 = (Obj.init o.spec d').readById.1 ∧
      o.readNamed.1 = (Obj.init o.spec d').readNamed.1 :=
  lookups_eq_rebuilt h hc hv

/-- The discipline matters: a copy that keeps the caches of the original and is then given another
tree (what `_sym_clone` must not do) answers look-ups with the OLD tree. -/
theorem C12_clone_keeping_caches_incoherent :
    let g := Spec.point (.choices 1 [[], []] true false { loc := [.s "a"] })
    let o := (Obj.init g (.mk (.int 0) [])).readById.2
    ¬ (o.cloneKeepingCaches (.mk (.int 1) [])).Coherent := by
  intro g o h
  have := h.1 _ rfl
  revert this
  decide

/-- TRANSLATOR OBLIGATION (T-CACHE): the only writes to the two caches in pyglove/core/geno are the
resets in `__init__` and `_on_bound` and the guarded fills of the two lazy properties (with these
`to_dict` arguments); `_sym_clone` creates the copy through the constructor and writes no cache. -/
theorem C12_shape_cache_writes :
    Pg.C12Gen.cacheWrites =
      [("DNA.__init__", "self._decision_by_id_cache", "", "None"),
       ("DNA.__init__", "self._named_decisions", "", "None"),
       ("DNA._on_bound", "self._decision_by_id_cache", "", "None"),
       ("DNA._on_bound", "self._named_decisions", "", "None"),
       ("DNA._decision_by_id", "self._decision_by_id_cache", "self._decision_by_id_cache is None",
        "self.to_dict(key_type='id', value_type='dna', include_inactive_decisions=True, multi_choice_key='both')"),
       ("DNA.named_decisions", "self._named_decisions", "self._named_decisions is None", "named_decisions")] ∧
    Pg.C12Gen.cloneCreates = "other = super()._sym_clone(deep, memo)" ∧
    Pg.C12Gen.otherFiles = [] := by
  refine ⟨by rfl, by rfl, by rfl⟩

/-- TRANSLATOR OBLIGATION: the accumulation loop of `named_decisions` and the dispatch of
`__getitem__` are the ones `namedDecisions` / `getItem` were written from — `__getitem__` either as
it is (a name whose decision is `None` falls through to the id table: finding F400, `getItem`) or
with fix C12-F400 applied (`getItemFixed`). -/
theorem C12_shape_lookups :
    Pg.C12Gen.namedLoop =
      ["for (spec, dna) in self.to_dict(key_type='dna_spec', value_type='dna', multi_choice_key='parent', include_inactive_decisions=True).items()",
       "if spec.name is not None: ; v = named_decisions.get(spec.name, None) ; if v is None: ; v = dna ; else: ; if not isinstance(dna, list): ; dna = [dna] ; if isinstance(v, list): ; v.extend(dna) ; else: ; v = [v] + dna ; named_decisions[spec.name] = v"] ∧
    (Pg.C12Gen.getItemStmts =
      ["if isinstance(key, (int, slice)): ; return self.children[key]",
       "if isinstance(key, DNASpec): ; key = key.id ; return self._decision_by_id[key] ; else: ; v = self.named_decisions.get(key, None) ; if v is None: ; v = self._decision_by_id[key] ; return v"] ∨
     Pg.C12Gen.getItemStmts =
      ["if isinstance(key, (int, slice)): ; return self.children[key]",
       "if isinstance(key, DNASpec): ; key = key.id ; return self._decision_by_id[key] ; else: ; named_decisions = self.named_decisions ; if key in named_decisions: ; return named_decisions[key] ; return self._decision_by_id[key]"]) := by
  refine ⟨by rfl, ?_⟩
  first
    | exact Or.inl (by rfl)
    | exact Or.inr (by rfl)

/-- Dropping the condition: two decision points at the same location share one key, `to_dict()`
turns their decisions into a list, and `from_dict` cannot read it back (replayed on the code:
`space([oneof(.., location='a'), oneof(.., location='a')])`, `DNA([0, 1]).to_dict() == {'a': [0, 1]}`). -/
theorem C12_dict_same_key_counterexample :
    let g := Spec.space [.choices 1 [[], []] true false { loc := [.s "a"] },
                         .choices 1 [[], []] true false { loc := [.s "a"] }]
    let d := DNA.mk .none [.mk (.int 0) [], .mk (.int 1) []]
    Valid g d ∧ (match g.annot d with
      | some b => decide (g.fromDict false (toDict {} b) = none)
      | none => false) = true := by decide

/-- The readability half of `Good` follows from the explicit conditions `styleOk` on the literal
values: plain values need `use_ints_as_literals=False`; the literal style needs pairwise different
literals, integer literals only with `use_ints_as_literals=True`, and no string literal shaped
like `i/n` / `i/n (…)`; the other styles need nothing. -/
theorem C12_value_style_readable (o : Opts) (useInts : Bool) (dp : Dp) (i : Int) (self : DNA)
    (hi : inRange dp.n i = true) (hok : styleOk o useInts dp.lits) :
    o.valueType = 1 ∨ choiceIndex useInts dp.lits dp.n (fmtChoice o dp i self) = some i.toNat :=
  choiceIndex_fmt o useInts dp i self hi hok

/-- Dropping the condition on string literals: with literal values `['1/2', 'x']` the literal
view of `DNA(0)` is `'1/2'`, which `from_dict` reads as "candidate 1 of 2" (replayed on the code:
`DNA.from_dict(DNA(0, spec=s).to_dict(value_type='literal'), s) == DNA(1)`). -/
def litSpec (ls : List Lit) : Spec := .point (.choices 1 [[], []] true false { lits := some ls })

theorem C12_dict_literal_shape_counterexample :
    (match (litSpec [.s "1/2", .s "x"]).annot (.mk (.int 0) []) with
     | some b => decide ((litSpec [.s "1/2", .s "x"]).fromDict true (toDict { valueType := 3 } b) =
         some (.mk (.int 1) []))
     | none => false) = true := by decide

/-- Dropping `use_ints_as_literals=True` for integer literals: the literal view `10` of `DNA(0)`
is read as a candidate index and rejected. -/
theorem C12_dict_int_literal_counterexample :
    (match (litSpec [.i 10, .i 11]).annot (.mk (.int 0) []) with
     | some b => decide ((litSpec [.i 10, .i 11]).fromDict false (toDict { valueType := 3 } b) = none) &&
         decide ((litSpec [.i 10, .i 11]).fromDict true (toDict { valueType := 3 } b) = some (.mk (.int 0) []))
     | none => false) = true := by decide

/-! ### Non-vacuity: a valid DNA with conditional and multi-choice parts satisfies `viewNorm` -/

def exampleSpec12 : Spec :=
  .space [.choices 1 [[], [.choices 1 [[.choices 1 [[], []] true false {}], []] true false {}]] true false {},
          .choices 2 [[], [], []] true false {}]

def exampleDna12 : DNA :=
  .mk .none [.mk (.int 1) [.mk (.int 0) [.mk (.int 1) []]], .mk .none [.mk (.int 2) [], .mk (.int 0) []]]

example : Valid exampleSpec12 exampleDna12 ∧ viewNorm exampleDna12 = true := by decide
example : exampleSpec12.fromNumbers (flat exampleDna12) = some exampleDna12 := by decide
example : exampleSpec12.noCustom = true := by decide
/-- A named choice under `key_type='name_or_id'` is read back through its name. -/
example : (match (Spec.point (.choices 1 [[], [.choices 1 [[], []] true false { name := some "inner", loc := [.s "b"] }]]
      true false { name := some "outer", loc := [.s "a"] })).annot (.mk (.int 1) [.mk (.int 0) []]) with
    | some b => decide ((Spec.point (.choices 1 [[], [.choices 1 [[], []] true false { name := some "inner", loc := [.s "b"] }]]
        true false { name := some "outer", loc := [.s "a"] })).fromDict false
        (toDict { keyType := 1 } b) = some (.mk (.int 1) [.mk (.int 0) []]))
    | none => false) = true := by decide
example : (match exampleSpec12.annot exampleDna12 with
    | some b => decide (((puts0 b).map (·.1)).Nodup)
    | none => false) = true := by decide
/-- A named multi-choice whose candidate holds a named choice: under `name_or_id` keys both names
accumulate two decisions. -/
def exampleSpecNames : Spec :=
  .point (.choices 2 [[.choices 1 [[], []] true false { name := some "y", loc := [.s "q"] }], []] false false
    { name := some "m", loc := [.s "a"] })

def exampleDnaNames : DNA := .mk .none [.mk (.int 0) [.mk (.int 1) []], .mk (.int 0) [.mk (.int 0) []]]

def exampleGrid : List Opts :=
  [0, 1].flatMap fun kt => [0, 1, 2, 3, 4].flatMap fun vt => [0, 1, 2].map fun mk =>
    { keyType := kt, valueType := vt, multi := mk }

example : Valid exampleSpecNames exampleDnaNames := by decide
/-- The lists that `from_dict` pops really occur … -/
example : (match exampleSpecNames.annot exampleDnaNames with
    | some b => decide (dictGet (toDict { keyType := 1, multi := 1 } b) "y" =
        some (.many [.val (.int 1), .val (.int 0)]) ∧
        dictGet (toDict { keyType := 1, multi := 1 } b) "m" = some (.many [.val (.int 0), .val (.int 0)]))
    | none => false) = true := by decide
/-- … and the condition of `C12_dict_roundtrip` holds for ALL 30 option triples on this DNA. -/
example : (match exampleSpecNames.annot exampleDnaNames with
    | some b => exampleGrid.all fun o => dictCond o (o.valueType == 3) b
    | none => false) = true := by decide
/-- `Good` is satisfiable: the default dictionary view of the example DNA holds its decisions. -/
example : (match exampleSpec12.annot exampleDna12 with
    | some b => decide (exampleSpec12.fromDict false (toDict {} b) = some exampleDna12)
    | none => false) = true := by decide
/-- The hypotheses of `C12_views_of_rebuilt` are satisfiable (by the binding of the example DNA). -/
example : ∃ b, Aligned exampleSpec12 b ∧ Valid exampleSpec12 b.erase := by
  obtain ⟨b, _, he, ha⟩ := C12_bound_aligned exampleSpec12 exampleDna12 (by decide)
  exact ⟨b, ha, by rw [he]; decide⟩

/-! ### F21b (fixed): what `to_numbers(flatten=False)` did before the fix -/

/-- The old rule: a single child whose nested form is a tuple was turned into a list. -/
def nestNodeOld (v : Val) (ks : List Nest) : Nest :=
  match v, ks with
  | .none, ks => .list ks
  | v, [] => .v v
  | v, [.tuple xs] => .tuple [.v v, .list xs]
  | v, [k] => .tuple [.v v, k]
  | v, ks => .tuple [.v v, .list ks]

/-- With the old rule the chain `DNA(0, [DNA(0, [DNA(1)])])` was exported as `(0, [0, 1])`, which
parses as a different DNA: the nested-number view was lossy. -/
theorem C12_nested_old_rule_lossy :
    let d := DNA.mk (.int 0) [.mk (.int 0) [.mk (.int 1) []]]
    let old := nestNodeOld (.int 0) [toNested (.mk (.int 0) [.mk (.int 1) []])]
    viewNorm d = true ∧ parse old ≠ some d := by decide

/-! ### F21 (fixed): Swap without re-binding leaves the DNA misaligned -/

def swapSpec : Spec :=
  .point (.choices 2 [[], [.choices 1 [[], []] true false { loc := [.i 5] }], []] true false { loc := [.i 7] })

def swapDna : DNA := .mk .none [.mk (.int 2) [], .mk (.int 1) [.mk (.int 1) []]]

/- The sequence of decision-point ids / sub-choice indexes the nodes believe in. -/
mutual
  def beliefIds : BDNA → List (Option (List Tok × Option Nat))
    | .mk _ b cs => b.map (fun dp => (dp.id, dp.sub)) :: beliefIdsList cs
  def beliefIdsList : List BDNA → List (Option (List Tok × Option Nat))
    | [] => []
    | c :: cs => beliefIds c ++ beliefIdsList cs
end

/-- Exchanging two sub-choices while keeping their old bindings (the behaviour before fix
C12-F21) yields a DNA whose nodes are not bound to the decision points of their positions: its
beliefs differ from those of the same raw numbers bound afresh. -/
theorem C12_swap_without_rebind_misaligned :
    (match swapSpec.annot swapDna, swapSpec.annot (swapAt [] 0 1 swapDna) with
     | some b, some fresh =>
       decide ((swapStale 0 1 b).erase = fresh.erase) && decide (beliefIds (swapStale 0 1 b) ≠ beliefIds fresh)
     | _, _ => false) = true := by decide

end Pg.Geno
