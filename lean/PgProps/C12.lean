/-
  C12 — DNA views are lossless and stay aligned with the specification. Property theorems only.
-/
import PgModel.Geno.Views
import PgModel.Geno.Valid
namespace Pg.Geno

theorem C12_placeholder : toCompact DNA.empty = .v .none := rfl

end Pg.Geno
