/-
  C01 — Symbolic tree integrity. Property theorems only (model: PgModel/Sym*.lean,
  lemmas: PgProofs/Sym*.lean).
-/
import PgModel.SymWF
namespace Pg.Sym

example : (Forest.empty).wf = true := by decide

end Pg.Sym
