/-
  C01 — Symbolic tree integrity. Property theorems only (model: PgModel/Sym*.lean,
  lemmas: PgProofs/Sym*.lean).
-/
import PgProofs.SymFree
namespace Pg.Sym

example : (Forest.empty).wf = true := by decide

/-! ## Preservation of the parent/path invariant by a step -/

/-- the operations that offer no value (used by `C01_removed_detached`). -/
def ValueFree : Op → Bool
  | .lReverse _ | .lSort _ _ _ | .lClear _ | .dClear _ | .dPopItem _ | .delItem _ _ | .lPop _ _
  | .lRemove _ _ | .dPop _ _ | .lDelSlice _ _ _ _ | .setSeal _ _ => true
  | _ => false

/-- **C01, step theorem**: on every tree that has the four fixes the beliefs depend on (F02, F03,
F78, F79; `Cfg.fixedWith`: the clone-flag fix, the bulk notifications and an ambient
`pg.allow_partial` scope are arbitrary) *every* operation of the surface — for every
forest, target, key / index / slice / rank list, offered value (plain nested values, existing
nodes that are moved or copied, Refs), notification on or off — maps a forest in which every
non-root node believes its actual parent and path to such a forest. (No admissibility hypothesis
is needed for this half of the invariant; uniqueness of node objects is the other half.) -/
theorem C01_step_cfg {lcs nb : Bool} {scp : Option Bool} {sat : Bool} (f : Forest) (n : Bool) (op : Op) (hf : f.ok = true) :
    (stepA (Cfg.fixedWith lcs nb scp sat) f n op).forest.ok = true := by
  unfold stepA
  split
  · exact hf
  unfold stepN
  apply normalizeRoots_ok
  cases op with
  | new v =>
    cases v with
    | node kind sl aw pt items =>
      simp only [step]
      have hv := evalVE_spec (Cfg.fixedWith lcs nb scp sat) none (.node kind sl aw pt items) f none false false [] hf
      exact addRoot_ok _ _ (ok_of_subset hf hv.2) (okRoot_of_okAt hv.1)
    | atom a => simp only [step]; exact hf
    | fresh => simp only [step]; exact hf
    | freshTuple k => simp only [step]; exact hf
    | mkRef tg => simp only [step]; exact hf
    | typedList items => simp only [step]; exact hf
    | ref id => simp only [step]; exact hf
  | clone t deep =>
    cases hfind : f.find? t with
    | none => simp only [step, hfind]; exact hf
    | some tr =>
      simp only [step, hfind]
      rw [Forest.ok_iff] at hf ⊢
      intro r hr
      simp only [List.mem_append, List.mem_singleton] at hr
      rcases hr with hr | rfl
      · exact hf r hr
      · exact okRoot_of_okAt (clone_okAt _ _ _ _ _ _)
  | setItem t k v =>
    cases hfind : f.find? t with
    | none => simp only [step, hfind]; exact hf
    | some tr =>
      cases tr with
      | leaf a => simp only [step, hfind]; exact hf
      | node m its =>
        have hits := Forest.find?_node_ok f hf t m its hfind
        simp only [step, hfind]
        exact setItem_ok f n m its k v hf hits
  | lAppend t v =>
    cases hfind : f.find? t with
    | none => simp only [step, hfind]; exact hf
    | some tr =>
      cases tr with
      | leaf a => simp only [step, hfind]; exact hf
      | node m its =>
        have hits := Forest.find?_node_ok f hf t m its hfind
        simp only [step, hfind]
        split
        · exact hf
        · exact finish_ok f n _ _ hf (rawSetList_ok f m its _ false v hf hits)
  | lInsert t idx v =>
    cases hfind : f.find? t with
    | none => simp only [step, hfind]; exact hf
    | some tr =>
      cases tr with
      | leaf a => simp only [step, hfind]; exact hf
      | node m its =>
        have hits := Forest.find?_node_ok f hf t m its hfind
        simp only [step, hfind]
        split
        · exact hf
        · exact finish_ok f n _ _ hf (rawSetList_ok f m its _ true v hf hits)
  | lExtend t vs =>
    cases hfind : f.find? t with
    | none => simp only [step, hfind]; exact hf
    | some tr =>
      cases tr with
      | leaf a => simp only [step, hfind]; exact hf
      | node m its =>
        have hits := Forest.find?_node_ok f hf t m its hfind
        simp only [step, hfind]
        split
        · exact hf
        · exact finish_ok f n _ _ hf (extendLoop_ok t vs f false hf)
  | lIMul t k =>
    cases hfind : f.find? t with
    | none => simp only [step, hfind]; exact hf
    | some tr =>
      cases tr with
      | leaf a => simp only [step, hfind]; exact hf
      | node m its =>
        have hits := Forest.find?_node_ok f hf t m its hfind
        simp only [step, hfind]
        split
        · split
          · exact hf
          · exact clearAndNotify_ok f n t m its hf hits
        · split
          · exact hf
          · exact finish_ok f n _ _ hf (extendLoop_ok t _ f false hf)
  | lSetSlice t a b c vs =>
    cases hfind : f.find? t with
    | none => simp only [step, hfind]; exact hf
    | some tr =>
      cases tr with
      | leaf a => simp only [step, hfind]; exact hf
      | node m its =>
        have hits := Forest.find?_node_ok f hf t m its hfind
        simp only [step, hfind]
        split
        · exact hf
        · split
          · exact hf
          · split
            · exact hf
            · next start stop stp hidx =>
              split
              · exact hf
              have hp0 := slicePrepare_ok (lcs := lcs) (nb := nb) (sp := scp) (sat := sat) m
                (sliceIx (Cfg.fixedWith lcs nb scp sat) start stp) vs f 0 hf
              have run_ok : ∀ (st sp : Int) (repl : List (Bool × VE)),
                  (match sliceLoop (Cfg.fixedWith lcs nb scp sat) t st sp (slicePrepare (Cfg.fixedWith lcs nb scp sat) m (sliceIx (Cfg.fixedWith lcs nb scp sat) start stp) f 0 vs).1 0 repl false with
                    | .error e => (⟨(slicePrepare (Cfg.fixedWith lcs nb scp sat) m (sliceIx (Cfg.fixedWith lcs nb scp sat) start stp) f 0 vs).1, .err e⟩ : Res)
                    | .ok (f', upd) => ⟨if (n && upd) = true then notify f' [m.id] else f', .ok⟩).forest.ok = true := by
                intro st sp repl
                split
                · exact hp0
                · next f' upd heq =>
                  have := sliceLoop_ok t st sp repl _ 0 false hp0 (f', upd) heq
                  simp only
                  split
                  · exact notify_ok _ _ this
                  · exact this
              split
              · exact run_ok _ _ _
              · split
                · exact hp0
                · split
                  · exact run_ok _ _ _
                  · exact run_ok _ _ _
  | dSetDefault t k v =>
    cases hfind : f.find? t with
    | none => simp only [step, hfind]; exact hf
    | some tr =>
      cases tr with
      | leaf a => simp only [step, hfind]; exact hf
      | node m its =>
        have hits := Forest.find?_node_ok f hf t m its hfind
        simp only [step, hfind]
        split
        · exact hf
        · exact setItem_ok f n m its k v hf hits
  | dUpdate t kvs =>
    cases hfind : f.find? t with
    | none => simp only [step, hfind]; exact hf
    | some tr =>
      cases tr with
      | leaf a => simp only [step, hfind]; exact hf
      | node m its =>
        have hits := Forest.find?_node_ok f hf t m its hfind
        simp only [step, hfind]
        exact doRebind_ok f n t m _ _ _ hf
  | rebind t pairs skip =>
    cases hfind : f.find? t with
    | none => simp only [step, hfind]; exact hf
    | some tr =>
      cases tr with
      | leaf a => simp only [step, hfind]; exact hf
      | node m its =>
        have hits := Forest.find?_node_ok f hf t m its hfind
        simp only [step, hfind]
        exact doRebind_ok f n t m _ _ _ hf
  | lDelSlice t a b c =>
    cases hfind : f.find? t with
    | none => simp only [step, hfind]; exact hf
    | some tr =>
      cases tr with
      | leaf a => simp only [step, hfind]; exact hf
      | node m its =>
        have hits := Forest.find?_node_ok f hf t m its hfind
        simp only [step, hfind]
        split
        · exact hf
        · split
          · exact hf
          · split
            · exact hf
            · split
              · exact hf
              · split
                · exact notify_ok _ _ (rawDelMany_ok f m its _ hf hits)
                · exact rawDelMany_ok f m its _ hf hits
  | setSeal t flag =>
    cases hfind : f.find? t with
    | none => simp only [step, hfind]; exact hf
    | some tr =>
      cases tr with
      | leaf a => simp only [step, hfind]; exact hf
      | node m its =>
        have hits := Forest.find?_node_ok f hf t m its hfind
        simp only [step, hfind]
        rw [Forest.ok_iff] at hf ⊢
        intro r hr
        simp only [List.mem_map] at hr
        obtain ⟨r0, hr0, rfl⟩ := hr
        exact mapSubtree_seal_okRoot t flag r0 (hf r0 hr0)
  | delItem t k =>
    cases hfind : f.find? t with
    | none => simp only [step, hfind]; exact hf
    | some tr =>
      cases tr with
      | leaf a => simp only [step, hfind]; exact hf
      | node m its =>
        have hits := Forest.find?_node_ok f hf t m its hfind
        simp only [step, hfind]
        cases hk : m.kind with
        | dict => exact delItemDict_ok f n m its k false hf hits hk
        | list =>
          cases k with
          | s _ => exact hf
          | i idx => exact delItemList_ok f n m its idx false hf hits
        | obj c => exact hf
  | lPop t idx =>
    cases hfind : f.find? t with
    | none => simp only [step, hfind]; exact hf
    | some tr =>
      cases tr with
      | leaf a => simp only [step, hfind]; exact hf
      | node m its =>
        have hits := Forest.find?_node_ok f hf t m its hfind
        simp only [step, hfind]
        split
        · exact hf
        · exact delItemList_ok f n m its _ true hf hits
  | lRemove t a =>
    cases hfind : f.find? t with
    | none => simp only [step, hfind]; exact hf
    | some tr =>
      cases tr with
      | leaf a => simp only [step, hfind]; exact hf
      | node m its =>
        have hits := Forest.find?_node_ok f hf t m its hfind
        simp only [step, hfind]
        split
        · exact delItemList_ok f n m its _ false hf hits
        · exact hf
  | lClear t =>
    cases hfind : f.find? t with
    | none => simp only [step, hfind]; exact hf
    | some tr =>
      cases tr with
      | leaf a => simp only [step, hfind]; exact hf
      | node m its =>
        have hits := Forest.find?_node_ok f hf t m its hfind
        simp only [step, hfind]
        split
        · exact hf
        · exact clearAndNotify_ok f n t m its hf hits
  | lSort t ranks rev =>
    cases hfind : f.find? t with
    | none => simp only [step, hfind]; exact hf
    | some tr =>
      cases tr with
      | leaf a => simp only [step, hfind]; exact hf
      | node m its =>
        have hits := Forest.find?_node_ok f hf t m its hfind
        simp only [step, hfind]
        split
        · exact hf
        · exact permuteAndNotify_ok f n t its _ (noNew_pySort ranks rev) hf
  | lReverse t =>
    cases hfind : f.find? t with
    | none => simp only [step, hfind]; exact hf
    | some tr =>
      cases tr with
      | leaf a => simp only [step, hfind]; exact hf
      | node m its =>
        have hits := Forest.find?_node_ok f hf t m its hfind
        simp only [step, hfind]
        split
        · exact hf
        · exact permuteAndNotify_ok f n t its _ noNew_reverse hf
  | dPop t k =>
    cases hfind : f.find? t with
    | none => simp only [step, hfind]; exact hf
    | some tr =>
      cases tr with
      | leaf a => simp only [step, hfind]; exact hf
      | node m its =>
        have hits := Forest.find?_node_ok f hf t m its hfind
        simp only [step, hfind]
        split
        · next hk =>
          split
          · exact delItemDict_ok f n m its k true hf hits hk
          · exact hf
        · exact hf
  | dPopItem t =>
    cases hfind : f.find? t with
    | none => simp only [step, hfind]; exact hf
    | some tr =>
      cases tr with
      | leaf a => simp only [step, hfind]; exact hf
      | node m its =>
        have hits := Forest.find?_node_ok f hf t m its hfind
        simp only [step, hfind]
        split
        · exact hf
        split
        · exact hf
        · split
          · exact hf
          · next k c hlast =>
            have h1 : ((f.mapAt t (fun _ xs => eraseKey k xs)).addRoot
                (if (Cfg.fixedWith lcs nb scp sat).detachOnRemove = true then detachFrom .dict c else c)).ok = true := by
              apply addRoot_ok _ _ (mapAt_ok f t _ (erase_local t k) hf)
              simp only [Cfg.fixedWith, if_true]
              have hmem : (k, c) ∈ its := List.mem_of_getLast? hlast
              rw [okItems_mem] at hits
              exact detachFrom_ok .dict (hits (k, c) hmem)
            simp only
            split
            · exact notify_ok _ _ h1
            · exact h1
  | dClear t =>
    cases hfind : f.find? t with
    | none => simp only [step, hfind]; exact hf
    | some tr =>
      cases tr with
      | leaf a => simp only [step, hfind]; exact hf
      | node m its =>
        have hits := Forest.find?_node_ok f hf t m its hfind
        simp only [step, hfind]
        split
        · exact hf
        · exact clearAndNotify_ok f n t m its hf hits

/-- … in particular on the patched tree … -/
theorem C01_step (f : Forest) (n : Bool) (op : Op) (hf : f.ok = true) :
    (stepA Cfg.patched f n op).forest.ok = true :=
  C01_step_cfg (lcs := true) (nb := true) (scp := none) (sat := true) f n op hf

/-- … and for a call that runs inside `with pg.allow_partial(b):` (configurations with a scope). -/
theorem C01_step_scoped (b : Bool) (f : Forest) (n : Bool) (op : Op) (hf : f.ok = true) :
    (stepA { Cfg.patched with scopePartial := some b } f n op).forest.ok = true :=
  C01_step_cfg (lcs := true) (nb := true) (scp := some b) (sat := true) f n op hf

/-- **No aliasing**: from a well-formed forest, no call on a tree with the belief fixes ever has
to put one node object in two places (the model's mark `aliased` stays false). The only way to
set the mark is to offer an existing non-root node that already believes to be at the
destination; in a well-formed forest that node *is* the occupant of the destination slot, and
every write primitive catches that case first: the identity test `old_value is value`
(replacement, dict store), the copy of an own element (insertion, F79), the absence of an
occupant (append), "returned as it is" (first pass of a slice assignment). -/
theorem C01_no_alias {lcs nb : Bool} {scp : Option Bool} {sat : Bool} (f : Forest) (n : Bool) (op : Op) (hf : f.wf = true)
    (hk : wellKeyed op = true) : (stepA (Cfg.fixedWith lcs nb scp sat) f n op).forest.aliased = false :=
  stepA_unal f n op hf hk

/-- **C01, full step theorem**: on every tree with the belief fixes (in particular the patched
tree) every operation maps a well-formed forest (beliefs agree with positions, node ids distinct
and below the counter, list keys are the positions, dict / object keys distinct, no node object in
two places, nothing in flight) to a well-formed forest. The only hypothesis besides `wf` is that
the call is a well-formed *encoding* (`wellKeyed`: a dict literal has distinct keys — Python
cannot write anything else). No admissibility hypothesis: a diverging call (F30) has no
after-state (`stepA` leaves the forest alone). -/
theorem C01_step_Full_cfg {lcs nb : Bool} {scp : Option Bool} {sat : Bool} (f : Forest) (n : Bool) (op : Op) (hf : f.wf = true)
    (hk : wellKeyed op = true) : (stepA (Cfg.fixedWith lcs nb scp sat) f n op).forest.wf = true := by
  have hal := C01_no_alias (lcs := lcs) (nb := nb) (scp := scp) (sat := sat) f n op hf hk
  rw [wf_iff] at hf ⊢
  exact ⟨C01_step_cfg f n op hf.1, stepA_inv _ f n op hf.2.1 hk hal, hal, stepA_pool _ f n op hf.2.2.2⟩

theorem C01_step_Full (f : Forest) (n : Bool) (op : Op) (hf : f.wf = true) (hk : wellKeyed op = true) :
    (stepA Cfg.patched f n op).forest.wf = true :=
  C01_step_Full_cfg (lcs := true) (nb := true) (scp := none) (sat := true) f n op hf hk

/-- the full invariant for a call inside `with pg.allow_partial(b):`. -/
theorem C01_step_Full_scoped (b : Bool) (f : Forest) (n : Bool) (op : Op) (hf : f.wf = true) (hk : wellKeyed op = true) :
    (stepA { Cfg.patched with scopePartial := some b } f n op).forest.wf = true :=
  C01_step_Full_cfg (lcs := true) (nb := true) (scp := some b) (sat := true) f n op hf hk

/-- the representation half (ids distinct and bounded, key shapes) needs none of the fixes: it is
preserved by every operation on *every* configuration of the tree — the defects F02 / F03 / F78 /
F17 only ever damage beliefs and flags, never the identity of nodes or the keys of payloads. -/
theorem C01_step_rep (cfg : Cfg) (f : Forest) (n : Bool) (op : Op) (hf : f.repOk = true) (hk : wellKeyed op = true)
    (hal : (stepA cfg f n op).forest.aliased = false) : (stepA cfg f n op).forest.repOk = true := by
  rw [repOk_iff] at hf ⊢
  exact ⟨stepA_inv cfg f n op hf.1 hk hal, stepA_pool cfg f n op hf.2⟩

/-- a dict literal with a repeated key is not a call anybody can write; the model would store
both items (why `wellKeyed` is a hypothesis of `C01_step_Full`). -/
theorem C01_wellKeyed_needed :
    (stepA Cfg.patched Forest.empty true
      (.new (.node .dict false true false [(.s 0, .atom .none), (.s 0, .atom .none)]))).forest.wf = false := by decide

/-- **Removed / replaced nodes are detached**: if no tree held by the program claims a parent, the
same holds after every operation of `ValueFree` — in particular the values that `del`, `pop`,
`remove`, `clear`, `popitem` and slice deletion take out of a container become roots of the
forest whose believed parent is none (and they are gone from the payload: `dropAll`,
`rawDelList`, `rawDelMany`, `eraseKey`). -/
theorem C01_removed_detached_cfg {lcs nb : Bool} {scp : Option Bool} {sat : Bool} (f : Forest) (n : Bool) (op : Op) (hf : f.rootsFree = true) (hp : ValueFree op = true) :
    (stepA (Cfg.fixedWith lcs nb scp sat) f n op).forest.rootsFree = true := by
  unfold stepA
  split
  · exact hf
  unfold stepN
  apply normalizeRoots_free
  cases op with
  | new v => simp [ValueFree] at hp
  | clone t deep => simp [ValueFree] at hp
  | setItem t k v => simp [ValueFree] at hp
  | lAppend t v => simp [ValueFree] at hp
  | lInsert t idx v => simp [ValueFree] at hp
  | lExtend t vs => simp [ValueFree] at hp
  | lIMul t k => simp [ValueFree] at hp
  | lSetSlice t a b c vs => simp [ValueFree] at hp
  | dSetDefault t k v => simp [ValueFree] at hp
  | dUpdate t kvs => simp [ValueFree] at hp
  | rebind t pairs skip => simp [ValueFree] at hp
  | lDelSlice t a b c =>
    cases hfind : f.find? t with
    | none => simp only [step, hfind]; exact hf
    | some tr =>
      cases tr with
      | leaf a => simp only [step, hfind]; exact hf
      | node m its =>
        simp only [step, hfind]
        split
        · exact hf
        · split
          · exact hf
          · split
            · exact hf
            · split
              · exact hf
              · split
                · exact notify_free _ _ (rawDelMany_free f m its _ hf)
                · exact rawDelMany_free f m its _ hf
  | setSeal t flag =>
    cases hfind : f.find? t with
    | none => simp only [step, hfind]; exact hf
    | some tr =>
      cases tr with
      | leaf a => simp only [step, hfind]; exact hf
      | node m its =>
        simp only [step, hfind]
        rw [Forest.rootsFree_iff] at hf ⊢
        intro r hr
        simp only [List.mem_map] at hr
        obtain ⟨r0, hr0, rfl⟩ := hr
        rw [mapSubtree_seal_parentless]; exact hf r0 hr0
  | delItem t k =>
    cases hfind : f.find? t with
    | none => simp only [step, hfind]; exact hf
    | some tr =>
      cases tr with
      | leaf a => simp only [step, hfind]; exact hf
      | node m its =>
        simp only [step, hfind]
        cases hk : m.kind with
        | dict => exact delItemDict_free f n m its k false hf hk
        | list =>
          cases k with
          | s _ => exact hf
          | i idx => exact delItemList_free f n m its idx false hf
        | obj c => exact hf
  | lPop t idx =>
    cases hfind : f.find? t with
    | none => simp only [step, hfind]; exact hf
    | some tr =>
      cases tr with
      | leaf a => simp only [step, hfind]; exact hf
      | node m its =>
        simp only [step, hfind]
        split
        · exact hf
        · exact delItemList_free f n m its _ true hf
  | lRemove t a =>
    cases hfind : f.find? t with
    | none => simp only [step, hfind]; exact hf
    | some tr =>
      cases tr with
      | leaf a => simp only [step, hfind]; exact hf
      | node m its =>
        simp only [step, hfind]
        split
        · exact delItemList_free f n m its _ false hf
        · exact hf
  | lClear t =>
    cases hfind : f.find? t with
    | none => simp only [step, hfind]; exact hf
    | some tr =>
      cases tr with
      | leaf a => simp only [step, hfind]; exact hf
      | node m its =>
        simp only [step, hfind]
        split
        · exact hf
        · exact clearAndNotify_free f n t m its hf
  | lSort t ranks rev =>
    cases hfind : f.find? t with
    | none => simp only [step, hfind]; exact hf
    | some tr =>
      cases tr with
      | leaf a => simp only [step, hfind]; exact hf
      | node m its =>
        simp only [step, hfind]
        split
        · exact hf
        · exact permuteAndNotify_free f n t its _ hf
  | lReverse t =>
    cases hfind : f.find? t with
    | none => simp only [step, hfind]; exact hf
    | some tr =>
      cases tr with
      | leaf a => simp only [step, hfind]; exact hf
      | node m its =>
        simp only [step, hfind]
        split
        · exact hf
        · exact permuteAndNotify_free f n t its _ hf
  | dPop t k =>
    cases hfind : f.find? t with
    | none => simp only [step, hfind]; exact hf
    | some tr =>
      cases tr with
      | leaf a => simp only [step, hfind]; exact hf
      | node m its =>
        simp only [step, hfind]
        split
        · next hk =>
          split
          · exact delItemDict_free f n m its k true hf hk
          · exact hf
        · exact hf
  | dPopItem t =>
    cases hfind : f.find? t with
    | none => simp only [step, hfind]; exact hf
    | some tr =>
      cases tr with
      | leaf a => simp only [step, hfind]; exact hf
      | node m its =>
        simp only [step, hfind]
        split
        · exact hf
        split
        · exact hf
        · split
          · exact hf
          · next k c hlast =>
            have h1 : ((f.mapAt t (fun _ xs => eraseKey k xs)).addRoot
                (if (Cfg.fixedWith lcs nb scp sat).detachOnRemove = true then detachFrom .dict c else c)).rootsFree = true := by
              apply addRoot_free _ _ (mapAt_free f t _ hf)
              simp only [Cfg.fixedWith, if_true]
              exact detachFrom_parentless _ _
            simp only
            split
            · exact notify_free _ _ h1
            · exact h1
  | dClear t =>
    cases hfind : f.find? t with
    | none => simp only [step, hfind]; exact hf
    | some tr =>
      cases tr with
      | leaf a => simp only [step, hfind]; exact hf
      | node m its =>
        simp only [step, hfind]
        split
        · exact hf
        · exact clearAndNotify_free f n t m its hf


theorem C01_removed_detached (f : Forest) (n : Bool) (op : Op) (hf : f.rootsFree = true) (hp : ValueFree op = true) :
    (stepA Cfg.patched f n op).forest.rootsFree = true :=
  C01_removed_detached_cfg (lcs := true) (nb := true) (scp := none) (sat := true) f n op hf hp

/-- a slice assignment `l[a:b:c] = values`. -/
def IsSliceAssign : Op → Bool
  | .lSetSlice _ _ _ _ _ => true
  | _ => false

/-- **No tree outside claims to be inside** — for the whole surface but one entry point: if no
root reports a parent before a call, none does after it, for every operation (value-free or
value-offering, successful or rejected) except a slice assignment, on every tree with the belief
fixes. The exception is real: F225 (`C01_counterexample_F225`), repaired by
fixes/C01-F225.patch (`C01_fixed_F225`). -/
theorem C01_roots_parentless {lcs nb : Bool} {scp : Option Bool} {sat : Bool} (f : Forest) (n : Bool) (op : Op)
    (hf : f.rootsFree = true) (hs : IsSliceAssign op = false) :
    (stepA (Cfg.fixedWith lcs nb scp sat) f n op).forest.rootsFree = true := by
  by_cases hv : ValueFree op = true
  · exact C01_removed_detached_cfg f n op hf hv
  · have ho : Offering op = true := by
      cases op <;> simp [ValueFree] at hv <;> simp [IsSliceAssign] at hs <;> rfl
    unfold stepA
    split
    · exact hf
    · unfold stepN
      exact normalizeRoots_free _ _ _ (step_free_offering f n op hf ho)

/-! ## Histories -/

theorem C01_history_final (hist : List (Bool × Op)) : ∀ (f : Forest), f.ok = true →
    (runHist Cfg.patched f hist).ok = true := by
  induction hist with
  | nil => intro f hf; exact hf
  | cons s rest ih =>
    intro f hf
    obtain ⟨n, op⟩ := s
    exact ih _ (C01_step f n op hf)

/-- **C01 over histories**: the invariant holds after every step of every history ("checked after
every step" = in every prefix), from every well-formed start — in particular from the empty
forest, i.e. for everything a program can build. -/
theorem C01_history (f : Forest) (hist : List (Bool × Op)) (hf : f.ok = true) (k : Nat) :
    (runHist Cfg.patched f (hist.take k)).ok = true :=
  C01_history_final (hist.take k) f hf

theorem C01_reachable (hist : List (Bool × Op)) : (runHist Cfg.patched Forest.empty hist).ok = true :=
  C01_history_final hist Forest.empty (by decide)

theorem C01_history_Full_final (hist : List (Bool × Op)) : ∀ (f : Forest), f.wf = true →
    (∀ s ∈ hist, wellKeyed s.2 = true) → (runHist Cfg.patched f hist).wf = true := by
  induction hist with
  | nil => intro f hf _; exact hf
  | cons s rest ih =>
    intro f hf hk
    obtain ⟨n, op⟩ := s
    simp only [runHist]
    exact ih _ (C01_step_Full f n op hf (hk (n, op) (by simp))) (fun s hs => hk s (by simp [hs]))

/-- **C01 over histories, full invariant**: every state on the way — every prefix of every
history of (well-keyed) calls — is well-formed, from every well-formed start. -/
theorem C01_history_Full (f : Forest) (hist : List (Bool × Op)) (hf : f.wf = true)
    (hk : ∀ s ∈ hist, wellKeyed s.2 = true) (k : Nat) :
    (runHist Cfg.patched f (hist.take k)).wf = true :=
  C01_history_Full_final (hist.take k) f hf (fun s hs => hk s (List.mem_of_mem_take hs))

/-- … in particular everything a program can build from nothing. -/
theorem C01_reachable_Full (hist : List (Bool × Op)) (hk : ∀ s ∈ hist, wellKeyed s.2 = true) :
    (runHist Cfg.patched Forest.empty hist).wf = true :=
  C01_history_Full_final hist Forest.empty (by decide) hk

/-- the empty forest is well-formed (base case). -/
theorem C01_empty : Forest.empty.wf = true := by decide

/-! ## What the invariant says, unfolded: every node stored under a holder at a key believes
exactly that holder and that path. -/

theorem C01_child_beliefs (h : Nat) (p : List Key) (its : Items) (hok : okItems h p its = true)
    (k : Key) (cm : Meta) (cits : Items) (hmem : (k, Tree.node cm cits) ∈ its) :
    cm.parent = some h ∧ cm.path = p ++ [k] := by
  rw [okItems_mem] at hok
  exact (okSub_node.mp (hok _ hmem)).1

/-- relocate-or-copy, move case: a parentless well-formed root that is re-pathed and given a
parent is well-formed at its destination (used by every value-offering operation). -/
theorem C01_relocate (h : Nat) (p : List Key) (t : Tree) (hok : t.okRoot = true) :
    ((t.setPath p).setParent (some h)).okSub h p = true := relocate_ok h p t hok

/-- a removed / replaced value is a well-formed tree of its own. -/
theorem C01_detached (kind : Kind) (h : Nat) (p : List Key) (t : Tree) (hok : t.okSub h p = true) :
    (detachFrom kind t).okRoot = true := detachFrom_ok kind hok

/-- **Lookup**: in a well-formed tree (beliefs agree with positions, list keys are positions,
dict keys are distinct), looking the believed path of any node — relative to the root's own
believed path — up from the root returns that very node. -/
theorem C01_lookup (rm : Meta) (rits : Items) (hok : (Tree.node rm rits).okRoot = true)
    (hsh : (Tree.node rm rits).shapeOk = true) (s : Tree) (hs : s ∈ (Tree.node rm rits).subnodes) :
    (Tree.node rm rits).query (s.pathOf.drop rm.path.length) = some s := by
  have hat : (Tree.node rm rits).okAt rm.parent rm.path = true := by
    rw [okAt_node]; exact ⟨⟨rfl, rfl⟩, hok⟩
  obtain ⟨rest, hp, hq⟩ := lookup_sub rm.parent rm.path _ hat hsh s hs
  rw [hp, List.drop_left]
  exact hq

/-- … in particular two different nodes of a well-formed tree never report the same path. -/
theorem C01_paths_distinct (rm : Meta) (rits : Items) (hok : (Tree.node rm rits).okRoot = true)
    (hsh : (Tree.node rm rits).shapeOk = true) (s s' : Tree) (hs : s ∈ (Tree.node rm rits).subnodes)
    (hs' : s' ∈ (Tree.node rm rits).subnodes) (hpath : s.pathOf = s'.pathOf) : s = s' := by
  have h1 := C01_lookup rm rits hok hsh s hs
  have h2 := C01_lookup rm rits hok hsh s' hs'
  rw [hpath] at h1
  rw [h1] at h2
  exact Option.some.inj h2

/-! ## Counterexamples: the defective entry points of the pinned tree (each replayed on the
real code by the findings witnesses of findings/C01.json). -/

def F : Bool × Bool × Bool := (false, true, false)
def veDict (items : List (Key × VE)) : VE := .node .dict false true false items
def veList (items : List VE) : VE := .node .list false true false (items.zipIdx.map fun vi => (Key.i vi.2, vi.1))

/-- `l = pg.List([pg.Dict(), 1])`. -/
def fList : Forest := (stepA Cfg.pinned Forest.empty true (.new (veList [veDict [], .atom (.int 1)]))).forest

def C01_step_pinned_Full : Prop :=
  ∀ (f : Forest) (n : Bool) (op : Op), f.ok = true → divergent f op = false →
    (stepA Cfg.pinned f n op).forest.ok = true

/-- F02: `l.reverse()` on the unpatched tree leaves the dict at index 1 believing path `[0]`. -/
theorem C01_counterexample_F02 : (stepA Cfg.pinned fList true (.lReverse 0)).forest.ok = false := by decide

theorem C01_counterexample_F02_sort :
    (stepA Cfg.pinned fList true (.lSort 0 [1, 0] false)).forest.ok = false := by decide

/-- F03: `l.insert(0, 5)` under `notify_on_change(False)` leaves the shifted dict with path `[0]`. -/
theorem C01_counterexample_F03 :
    (stepA Cfg.pinned fList false (.lInsert 0 0 (.atom (.int 5)))).forest.ok = false := by decide

/-- F03: `l[-1] = pg.Dict()` under `notify_on_change(False)` stores the child with path `[-1]`. -/
theorem C01_counterexample_F03_negative :
    (stepA Cfg.pinned fList false (.setItem 0 (.i (-1)) (veDict []))).forest.ok = false := by decide

theorem C01_step_pinned_counterexample : ¬ C01_step_pinned_Full := by
  intro h
  have := h fList true (.lReverse 0) (by decide) (by decide)
  rw [C01_counterexample_F02] at this
  cases this

/-- … and the same calls are fine on the patched tree. -/
theorem C01_fixed_F02 : (stepA Cfg.patched fList true (.lReverse 0)).forest.wf = true := by decide
theorem C01_fixed_F03 : (stepA Cfg.patched fList false (.lInsert 0 0 (.atom (.int 5)))).forest.wf = true := by decide
theorem C01_fixed_F03_negative :
    (stepA Cfg.patched fList false (.setItem 0 (.i (-1)) (veDict []))).forest.wf = true := by decide

/-- F78: on the unpatched tree the dict removed by `del l[0]` still believes that `l` is its
parent, so offering `l` to it is flagged as diverging (the real call never returns); on the
patched tree the removed dict is detached and the same call is admissible and well-formed. -/
theorem C01_counterexample_F78 :
    divergent (stepA Cfg.pinned fList true (.delItem 0 (.i 0))).forest (.setItem 1 (.s 0) (.ref 0)) = true := by
  decide

theorem C01_fixed_F78 :
    let f := (stepA Cfg.patched fList true (.delItem 0 (.i 0))).forest
    divergent f (.setItem 1 (.s 0) (.ref 0)) = false ∧
      (stepA Cfg.patched f true (.setItem 1 (.s 0) (.ref 0))).forest.wf = true := by decide

/-- F225: `l = pg.List([1, 2]); x = pg.Dict(); l[1:2] = [x]`. On the tree before the fix the value is
formalized for index 0 and then stored at position 1: a copy goes into the list, and `x` stays a
root that claims `l` as its parent (the state is still `wf`: nothing is demanded of the beliefs
of a root — which is why `rootsFree` is a separate theorem, and why it is false here). With the
fix (`sliceAtTarget`) `x` itself is stored and no root claims a parent. -/
def fSlice : Forest :=
  (stepA Cfg.patched (stepA Cfg.patched Forest.empty true (.new (veList [.atom (.int 1), .atom (.int 2)]))).forest
    true (.new (veDict []))).forest

/-- the tree with every fix but the one for F225. -/
def cfgF225 : Cfg := Cfg.fixedWith true true none false

theorem C01_counterexample_F225 :
    fSlice.rootsFree = true ∧
    (stepA cfgF225 fSlice true (.lSetSlice 0 (some 1) (some 2) none [.ref 1])).forest.rootsFree = false ∧
    ((stepA cfgF225 fSlice true (.lSetSlice 0 (some 1) (some 2) none [.ref 1])).forest.roots.length = 2) := by
  decide

/-- … also a rejected extended-slice assignment (`l[0:2:2] = [x, 3]`, ValueError) leaves `x` in
that state. -/
theorem C01_counterexample_F225_rejected :
    (stepA cfgF225 fSlice true (.lSetSlice 0 (some 0) (some 2) (some 2) [.ref 1, .atom (.int 3)])).out = .err .value ∧
    (stepA cfgF225 fSlice true (.lSetSlice 0 (some 0) (some 2) (some 2) [.ref 1, .atom (.int 3)])).forest.rootsFree = false := by
  decide

theorem C01_fixed_F225 :
    (stepA Cfg.patched fSlice true (.lSetSlice 0 (some 1) (some 2) none [.ref 1])).forest.rootsFree = true ∧
    (stepA Cfg.patched fSlice true (.lSetSlice 0 (some 1) (some 2) none [.ref 1])).forest.roots.length = 1 ∧
    (stepA Cfg.patched fSlice true (.lSetSlice 0 (some 1) (some 2) none [.ref 1])).forest.wf = true ∧
    (stepA Cfg.patched fSlice true (.lSetSlice 0 (some 0) (some 2) (some 2) [.ref 1, .atom (.int 3)])).forest.rootsFree = true := by
  decide

/-- F30 (known): `d = pg.Dict(k0=pg.Dict()); d.k0.k1 = d` — the model has no after-state. -/
def fNest : Forest := (stepA Cfg.patched Forest.empty true (.new (veDict [(.s 0, veDict [])]))).forest

theorem C01_counterexample_F30 :
    (stepA Cfg.patched fNest true (.setItem 1 (.s 1) (.ref 0))).out = .diverges := by decide

/-- the tree with every fix but the one for F79. -/
def cfgBeforeF79 : Cfg := { Cfg.patched with insertCopiesOwn := false }

/-- F79: without the fix `l.insert(0, l[0])` puts one node object in two places … -/
theorem C01_counterexample_F79 :
    Admissible cfgBeforeF79 fList true (.lInsert 0 0 (.ref 1)) = false ∧
      (stepA cfgBeforeF79 fList true (.lInsert 0 0 (.ref 1))).forest.aliased = true := by decide

/-- … with it the element is copied and the forest stays well-formed (ids distinct included). -/
theorem C01_fixed_F79 :
    Admissible Cfg.patched fList true (.lInsert 0 0 (.ref 1)) = true ∧
      (stepA Cfg.patched fList true (.lInsert 0 0 (.ref 1))).forest.wf = true := by decide

/-! Non-vacuity: well-formed non-trivial forests exist and the hypotheses are satisfiable. -/
example : fList.wf = true ∧ fList.ids.length = 2 := by decide
example : ValueFree (.lReverse 0) = true ∧ Admissible Cfg.patched fList true (.lReverse 0) = true := by decide
example : (runHist Cfg.patched fList [(true, .lReverse 0), (false, .lPop 0 (-1)), (true, .lClear 0)]).wf = true := by
  decide

end Pg.Sym
