/-
  C03 — schema invariant of typed `pg.List`, `pg.Dict`, `pg.Object` (model: PgModel/SymTyped.lean on
  top of the C04 value-spec model; lemmas: PgProofs/SymTyped.lean).  The model mirrors /repo with
  fixes/C03-F08.patch, C03-F60.patch and C03-F61.patch applied.

  The theorems are parametric in the element / field specs and assume only that `apply` is
  idempotent on them (`Idem`, the C04 theorem; `idem_of_frag` discharges it for the C04 fragment).
-/
import PgProofs.SymTyped
namespace Pg.C03
open Pg.Typing

def envT : Env := ⟨fun a b => a == b, fun _ _ => true⟩
def F0 : Flags := ⟨false, .missing, false⟩

/-! ## Typed list -/

/-- Construction yields a conforming list (`pg.List(items, value_spec=List(elem, mn, mx))`). -/
theorem C03_list_construct (env : Env) (elem : Spec) (mn : Nat) (mx : Option Nat) (items : List Val)
    (l : TList) (hI : Idem env false elem) (h : construct env elem mn mx items = .ok l) : Conforms env l := by
  unfold construct at h
  cases ha : apply env (.list elem mn mx ⟨false, .missing, false⟩) false (.list items) with
  | error e => simp [ha] at h
  | ok r =>
    simp only [ha] at h
    cases r with
    | list ys =>
      simp only [Except.ok.injEq] at h
      subst h
      simp only [apply, gate, Val.isMissing, Val.isNone, Bool.false_eq_true, if_false, bind, Except.bind,
        typeCheck, instOf, Val.ty, Ty.sub, List.any_cons, List.any_nil, Bool.or_false, beq_self_eq_true, if_true] at ha
      cases hm : items.mapM (fun x => apply env elem false x) with
      | error e => simp [hm] at ha
      | ok zs =>
        simp only [hm] at ha
        cases hsz : sizeOk zs.length mn mx <;> simp [hsz] at ha
        subst ha
        refine ⟨?_, hsz⟩
        intro x hx
        have hmi := mapM_idem (fun x => apply env elem false x) items zs (fun a _ b hab => hI a b hab) hm
        -- every member of a list that `mapM` maps to itself is a fixed point
        clear hm hsz
        induction zs with
        | nil => cases hx
        | cons z zs ih =>
          rw [List.mapM_cons] at hmi
          cases hz : apply env elem false z with
          | error e => simp [hz, bind, Except.bind] at hmi
          | ok z' =>
            cases hzs : zs.mapM (fun x => apply env elem false x) with
            | error e => simp [hz, hzs, bind, Except.bind] at hmi
            | ok zs' =>
              simp [hz, hzs, bind, Except.bind, pure, Except.pure] at hmi
              obtain ⟨h1, h2⟩ := hmi
              subst h1; subst h2
              simp only [List.mem_cons] at hx
              rcases hx with hx | hx
              · subst hx; exact hz
              · exact ih hx hzs
    | _ => simp at h

/-- EVERY modelled list mutator preserves the invariant, whether the call succeeds or fails
(a failed batch — slice assignment, extend, `+=`, `*=`, rebind — ends in the state after its
successful prefix, which conforms as well).  15 write paths, any element spec with idempotent
`apply`, every list, every argument. -/
theorem C03_list_preserve' (env : Env) (l : TList) (op : ListOp) (hI : Idem env false l.elem)
    (hc : Conforms env l) :
    Conforms env (listStep env l op).1 ∧ (listStep env l op).1.elem = l.elem := by
  cases op with
  | append v =>
    simp only [listStep]
    split
    · exact ⟨hc, rfl⟩
    · exact listPrim_preserves env l hI _ _ v hc
  | insert i v =>
    simp only [listStep]
    split
    · exact ⟨hc, rfl⟩
    · exact listPrim_preserves env l hI _ _ v hc
  | setitem i v =>
    simp only [listStep]
    split
    · exact ⟨hc, rfl⟩
    · exact listPrim_preserves env l hI _ _ v hc
  | setslice start stop step vs =>
    simp only [listStep]
    cases hm : vs.mapM (formalize env l) with
    | error e => exact ⟨hc, rfl⟩
    | ok reps =>
      simp only []
      split
      · exact primLoop_preserves env _ l _ _ hI hc
      · split
        · exact ⟨hc, rfl⟩
        · split
          · exact primLoop_preserves env _ l _ _ hI hc
          · exact primLoop_preserves env _ l _ _ hI hc
  | delitem i =>
    simp only [listStep]
    cases hn : normIndex l.items.length i with
    | none => exact ⟨hc, rfl⟩
    | some k =>
      simp only []
      cases hb : belowMin l 1
      · exact ⟨erase_conforms env l k (normIndex_lt _ _ _ hn) hc hb, rfl⟩
      · exact ⟨hc, rfl⟩
  | pop i =>
    simp only [listStep]
    cases hn : normIndex l.items.length i with
    | none => exact ⟨hc, rfl⟩
    | some k =>
      simp only []
      cases hb : belowMin l 1
      · exact ⟨erase_conforms env l k (normIndex_lt _ _ _ hn) hc hb, rfl⟩
      · exact ⟨hc, rfl⟩
  | remove v =>
    simp only [listStep]
    cases hn : findEq v l.items with
    | none => exact ⟨hc, rfl⟩
    | some k =>
      simp only []
      cases hb : belowMin l 1
      · exact ⟨erase_conforms env l k (findEq_lt _ _ _ hn) hc hb, rfl⟩
      · exact ⟨hc, rfl⟩
  | delslice start stop step =>
    simp only [listStep]
    split
    · exact ⟨hc, rfl⟩
    · rename_i hb
      obtain ⟨h1, h2, h3⟩ := eraseIdxs_facts l.items
        (rangeIdx (sliceAdjust l.items.length start stop step).1 step
          (rangeLen (sliceAdjust l.items.length start stop step).1 (sliceAdjust l.items.length start stop step).2 step))
      refine ⟨⟨fun x hx => hc.1 x (h1 x hx), ?_⟩, rfl⟩
      simp only [belowMin, decide_eq_true_eq, Nat.not_lt] at hb
      simp only []
      exact sizeOk_shrink _ _ _ _ hc.2 (by omega) h2
  | extend vs =>
    simp only [listStep]
    split
    · exact ⟨hc, rfl⟩
    · exact extendLoop_preserves env vs l hI hc
  | imul n =>
    simp only [listStep]
    split
    · split
      · exact ⟨hc, rfl⟩
      · rename_i hmn
        refine ⟨⟨(by intro x hx; cases hx), ?_⟩, rfl⟩
        have := hc.2
        unfold sizeOk at this ⊢
        cases l.mx <;> simp at this ⊢ <;> omega
    · split
      · exact ⟨hc, rfl⟩
      · exact extendLoop_preserves env _ l hI hc
  | clear =>
    simp only [listStep]
    split
    · exact ⟨hc, rfl⟩
    · rename_i hmn
      refine ⟨⟨(by intro x hx; cases hx), ?_⟩, rfl⟩
      have := hc.2
      unfold sizeOk at this ⊢
      cases l.mx <;> simp at this ⊢ <;> omega
  | sort =>
    simp only [listStep]
    split
    · obtain ⟨h1, h2⟩ := sortVals_facts l.items
      exact ⟨⟨fun x hx => hc.1 x ((h1 x).1 hx), by simp only [h2]; exact hc.2⟩, rfl⟩
    · exact ⟨hc, rfl⟩
  | reverse =>
    simp only [listStep]
    exact ⟨⟨fun x hx => hc.1 x (List.mem_reverse.1 hx), by simp only [List.length_reverse]; exact hc.2⟩, by first | rfl | trivial⟩
  | rebind kvs =>
    simp only [listStep]
    exact primAt_preserves env _ l hI hc

theorem C03_list_preserve (env : Env) (l : TList) (op : ListOp) (hI : Idem env false l.elem)
    (hc : Conforms env l) : Conforms env (listStep env l op).1 :=
  (C03_list_preserve' env l op hI hc).1

/-- A rejected single-value list write (append / insert / item assignment / item deletion / pop /
remove / clear / sort) raises and stores nothing: the list is exactly what it was. -/
def ListOp.single : ListOp → Bool
  | .append _ | .insert _ _ | .setitem _ _ | .delitem _ | .delslice _ _ _ | .pop _ | .remove _ | .clear | .sort
  | .reverse => true
  | _ => false

theorem C03_list_reject_unchanged (env : Env) (l : TList) (op : ListOp) (e : E) (hs : op.single = true)
    (h : (listStep env l op).2 = some e) : (listStep env l op).1 = l := by
  cases op <;> simp only [ListOp.single] at hs <;> simp only [listStep] at h ⊢
  all_goals (try cases hs)
  · split
    · rfl
    · rename_i hm; simp only [hm] at h; exact listPrim_reject env l _ _ _ e h
  · split
    · rfl
    · rename_i hm; simp only [hm] at h; exact listPrim_reject env l _ _ _ e h
  · split
    · rfl
    · rename_i k hn; simp only [hn] at h; exact listPrim_reject env l _ _ _ e h
  · cases hn : normIndex l.items.length _ with
    | none => rfl
    | some k => simp only [hn] at h ⊢; cases hb : belowMin l 1 <;> simp [hb] at h ⊢
  · split
    · rfl
    · rename_i hb; simp [hb] at h
  · cases hn : normIndex l.items.length _ with
    | none => rfl
    | some k => simp only [hn] at h ⊢; cases hb : belowMin l 1 <;> simp [hb] at h ⊢
  · cases hn : findEq _ l.items with
    | none => rfl
    | some k => simp only [hn] at h ⊢; cases hb : belowMin l 1 <;> simp [hb] at h ⊢
  · split
    · rfl
    · rename_i hb; simp [hb] at h
  · split
    · rename_i hb; simp [hb] at h
    · rfl
  · simp at h

/-- The invariant holds along every history of list mutations. -/
def runList (env : Env) (l : TList) : List ListOp → TList
  | [] => l
  | op :: ops => runList env (listStep env l op).1 ops

/-- … for all operation lists (induction over the history). -/
theorem C03_list_history (env : Env) (ops : List ListOp) : ∀ (l : TList), Idem env false l.elem →
    Conforms env l → Conforms env (runList env l ops) := by
  induction ops with
  | nil => intro l _ hc; exact hc
  | cons op ops ih =>
    intro l hI hc
    obtain ⟨h1, h2⟩ := C03_list_preserve' env l op hI hc
    exact ih _ (by rw [h2]; exact hI) h1

/-- F08 is repaired: `del l[0]` on a list of length `min_size` is refused. -/
example : (listStep envT ⟨.int none none F0, 2, none, [.int 1, .int 2]⟩ (.delitem 0)).2 = some .value := by rfl
example : (listStep envT ⟨.int none none F0, 0, some 2, [.int 1, .int 2]⟩ (.rebind [(0, true, .int 9)])).2 = some .value := by rfl

end Pg.C03
