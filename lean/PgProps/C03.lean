/-
  C03 — schema invariant of typed `pg.List`, `pg.Dict`, `pg.Object` (model: PgModel/SymTyped.lean on
  top of the C04 value-spec model; lemmas: PgProofs/SymTyped.lean).  The model mirrors /repo with
  fixes/C03-F08.patch, C03-F73.patch and C03-F74.patch applied.

  The theorems are parametric in the element / field specs and assume only that `apply` is
  idempotent on them (`Idem`, the C04 theorem; `idem_of_frag` discharges it for the C04 fragment).
-/
import PgProofs.SymTyped
import PgProofs.SymTypedSchema
import PgProofs.SymTypedNested
import PgGen.C03Tables
namespace Pg.C03
open Pg.Typing

def envT : Env := ⟨fun a b => a == b, fun _ _ => true⟩
def F0 : Flags := ⟨false, .missing, false⟩

/-! ## Typed list -/

/-- Construction yields a conforming list (`pg.List(items, value_spec=List(elem, mn, mx))`). -/
theorem C03_list_construct (env : Env) (elem : Spec) (mn : Nat) (mx : Option Nat) (items : List Val)
    (l : TList) (hI : Idem env false elem) (h : construct env elem mn mx items = .ok l) : Conforms env l := by
  unfold construct at h
  cases ha : apply env (.list elem mn mx ⟨false, .missing, false⟩) false (.list items) with
  | error e => simp [ha] at h
  | ok r =>
    simp only [ha] at h
    cases r with
    | list ys =>
      simp only [Except.ok.injEq] at h
      subst h
      simp only [apply, gate, Val.isMissing, Val.isNone, Bool.false_eq_true, if_false, bind, Except.bind,
        typeCheck, instOf, Val.ty, Ty.sub, List.any_cons, List.any_nil, Bool.or_false, beq_self_eq_true, if_true] at ha
      cases hm : items.mapM (fun x => apply env elem false x) with
      | error e => simp [hm] at ha
      | ok zs =>
        simp only [hm] at ha
        cases hsz : sizeOk zs.length mn mx <;> simp [hsz] at ha
        subst ha
        refine ⟨?_, hsz⟩
        intro x hx
        have hmi := mapM_idem (fun x => apply env elem false x) items zs (fun a _ b hab => hI a b hab) hm
        -- every member of a list that `mapM` maps to itself is a fixed point
        clear hm hsz
        induction zs with
        | nil => cases hx
        | cons z zs ih =>
          rw [List.mapM_cons] at hmi
          cases hz : apply env elem false z with
          | error e => simp [hz, bind, Except.bind] at hmi
          | ok z' =>
            cases hzs : zs.mapM (fun x => apply env elem false x) with
            | error e => simp [hz, hzs, bind, Except.bind] at hmi
            | ok zs' =>
              simp [hz, hzs, bind, Except.bind, pure, Except.pure] at hmi
              obtain ⟨h1, h2⟩ := hmi
              subst h1; subst h2
              simp only [List.mem_cons] at hx
              rcases hx with hx | hx
              · subst hx; exact hz
              · exact ih hx hzs
    | _ => simp at h

/-- EVERY modelled list mutator preserves the invariant, whether the call succeeds or fails
(a failed batch — slice assignment, extend, `+=`, `*=`, rebind — ends in the state after its
successful prefix, which conforms as well).  15 write paths, any element spec with idempotent
`apply`, every list, every argument. -/
theorem C03_list_preserve' (env : Env) (l : TList) (op : ListOp) (hI : Idem env false l.elem)
    (hc : Conforms env l) :
    Conforms env (listStep env l op).1 ∧ (listStep env l op).1.elem = l.elem := by
  cases op with
  | append v =>
    simp only [listStep]
    split
    · exact ⟨hc, rfl⟩
    · exact listPrim_preserves env l hI _ _ v hc
  | insert i v =>
    simp only [listStep]
    split
    · exact ⟨hc, rfl⟩
    · exact listPrim_preserves env l hI _ _ v hc
  | setitem i v =>
    simp only [listStep]
    split
    · exact ⟨hc, rfl⟩
    · exact listPrim_preserves env l hI _ _ v hc
  | setslice start stop step vs =>
    simp only [listStep]
    split
    · exact ⟨hc, rfl⟩
    · cases hm : vs.mapM (formalize env l) with
      | error e => exact ⟨hc, rfl⟩
      | ok reps =>
        simp only []
        split
        · exact primLoop_preserves env _ l _ _ hI hc
        · split
          · exact ⟨hc, rfl⟩
          · split
            · exact primLoop_preserves env _ l _ _ hI hc
            · exact primLoop_preserves env _ l _ _ hI hc
  | delitem i =>
    simp only [listStep]
    cases hn : normIndex l.items.length i with
    | none => exact ⟨hc, rfl⟩
    | some k =>
      simp only []
      cases hb : belowMin l 1
      · exact ⟨erase_conforms env l k (normIndex_lt _ _ _ hn) hc hb, rfl⟩
      · exact ⟨hc, rfl⟩
  | pop i =>
    simp only [listStep]
    cases hn : normIndex l.items.length i with
    | none => exact ⟨hc, rfl⟩
    | some k =>
      simp only []
      cases hb : belowMin l 1
      · exact ⟨erase_conforms env l k (normIndex_lt _ _ _ hn) hc hb, rfl⟩
      · exact ⟨hc, rfl⟩
  | remove v =>
    simp only [listStep]
    cases hn : findEq v l.items with
    | none => exact ⟨hc, rfl⟩
    | some k =>
      simp only []
      cases hb : belowMin l 1
      · exact ⟨erase_conforms env l k (findEq_lt _ _ _ hn) hc hb, rfl⟩
      · exact ⟨hc, rfl⟩
  | delslice start stop step =>
    simp only [listStep]
    split
    · exact ⟨hc, rfl⟩
    · rename_i hb
      obtain ⟨h1, h2, h3⟩ := eraseIdxs_facts l.items
        (rangeIdx (sliceAdjust l.items.length start stop step).1 step
          (rangeLen (sliceAdjust l.items.length start stop step).1 (sliceAdjust l.items.length start stop step).2 step))
      refine ⟨⟨fun x hx => hc.1 x (h1 x hx), ?_⟩, rfl⟩
      simp only [belowMin, decide_eq_true_eq, Nat.not_lt] at hb
      simp only []
      exact sizeOk_shrink _ _ _ _ hc.2 (by omega) h2
  | extend vs =>
    simp only [listStep]
    split
    · exact ⟨hc, rfl⟩
    · exact extendLoop_preserves env vs l hI hc
  | imul n =>
    simp only [listStep]
    split
    · split
      · exact ⟨hc, rfl⟩
      · rename_i hmn
        refine ⟨⟨(by intro x hx; cases hx), ?_⟩, rfl⟩
        have := hc.2
        unfold sizeOk at this ⊢
        cases l.mx <;> simp at this ⊢ <;> omega
    · split
      · exact ⟨hc, rfl⟩
      · exact extendLoop_preserves env _ l hI hc
  | clear =>
    simp only [listStep]
    split
    · exact ⟨hc, rfl⟩
    · rename_i hmn
      refine ⟨⟨(by intro x hx; cases hx), ?_⟩, rfl⟩
      have := hc.2
      unfold sizeOk at this ⊢
      cases l.mx <;> simp at this ⊢ <;> omega
  | sort =>
    simp only [listStep]
    split
    · obtain ⟨h1, h2⟩ := sortVals_facts l.items
      exact ⟨⟨fun x hx => hc.1 x ((h1 x).1 hx), by simp only [h2]; exact hc.2⟩, rfl⟩
    · exact ⟨hc, rfl⟩
  | reverse =>
    simp only [listStep]
    exact ⟨⟨fun x hx => hc.1 x (List.mem_reverse.1 hx), by simp only [List.length_reverse]; exact hc.2⟩, by first | rfl | trivial⟩
  | rebind kvs =>
    simp only [listStep]
    exact primAt_preserves env _ l hI hc

theorem C03_list_preserve (env : Env) (l : TList) (op : ListOp) (hI : Idem env false l.elem)
    (hc : Conforms env l) : Conforms env (listStep env l op).1 :=
  (C03_list_preserve' env l op hI hc).1

/-- A rejected single-value list write (append / insert / item assignment / item deletion / pop /
remove / clear / sort) raises and stores nothing: the list is exactly what it was. -/
def ListOp.single : ListOp → Bool
  | .append _ | .insert _ _ | .setitem _ _ | .delitem _ | .delslice _ _ _ | .pop _ | .remove _ | .clear | .sort
  | .reverse => true
  | _ => false

theorem C03_list_reject_unchanged (env : Env) (l : TList) (op : ListOp) (e : E) (hs : op.single = true)
    (h : (listStep env l op).2 = some e) : (listStep env l op).1 = l := by
  cases op <;> simp only [ListOp.single] at hs <;> simp only [listStep] at h ⊢
  all_goals (try cases hs)
  · split
    · rfl
    · rename_i hm; simp only [hm] at h; exact listPrim_reject env l _ _ _ e h
  · split
    · rfl
    · rename_i hm; simp only [hm] at h; exact listPrim_reject env l _ _ _ e h
  · split
    · rfl
    · rename_i k hn; simp only [hn] at h; exact listPrim_reject env l _ _ _ e h
  · cases hn : normIndex l.items.length _ with
    | none => rfl
    | some k => simp only [hn] at h ⊢; cases hb : belowMin l 1 <;> simp [hb] at h ⊢
  · split
    · rfl
    · rename_i hb; simp [hb] at h
  · cases hn : normIndex l.items.length _ with
    | none => rfl
    | some k => simp only [hn] at h ⊢; cases hb : belowMin l 1 <;> simp [hb] at h ⊢
  · cases hn : findEq _ l.items with
    | none => rfl
    | some k => simp only [hn] at h ⊢; cases hb : belowMin l 1 <;> simp [hb] at h ⊢
  · split
    · rfl
    · rename_i hb; simp [hb] at h
  · split
    · rename_i hb; simp [hb] at h
    · rfl
  · simp at h

/-- The invariant holds along every history of list mutations. -/
def runList (env : Env) (l : TList) : List ListOp → TList
  | [] => l
  | op :: ops => runList env (listStep env l op).1 ops

/-- … for all operation lists (induction over the history). -/
theorem C03_list_history (env : Env) (ops : List ListOp) : ∀ (l : TList), Idem env false l.elem →
    Conforms env l → Conforms env (runList env l ops) := by
  induction ops with
  | nil => intro l _ hc; exact hc
  | cons op ops ih =>
    intro l hI hc
    obtain ⟨h1, h2⟩ := C03_list_preserve' env l op hI hc
    exact ih _ (by rw [h2]; exact hI) h1

/-- F08 is repaired: `del l[0]` on a list of length `min_size` is refused. -/
example : (listStep envT ⟨.int none none F0, 2, none, [.int 1, .int 2]⟩ (.delitem 0)).2 = some .value := by rfl
example : (listStep envT ⟨.int none none F0, 0, some 2, [.int 1, .int 2]⟩ (.rebind [(0, true, .int 9)])).2 = some .value := by rfl


/-! ## Typed dict / object -/

/-- The trust placed in an already typed container argument: it conforms to the spec it is bound
to, and the destination's compatibility verdict is sound for it.  (For plain values nothing is
assumed.)  This is where the C04 compatibility findings (F09, F09b, F40–F43) reach C03: see
`C03_dict_typed_counterexample`. -/
def ArgTrusted (env : Env) (fields : List Field) (p : Bool) (k : String) : Arg → Prop
  | .plain _ => True
  | .typed _ _ v => ∀ f, getField env fields k = some f → apply env f.value p v = .ok v

theorem unionTyped_ok (env : Env) (p : Bool) (src : Spec) (v w : Val) (cands : List Spec)
    (h : unionTyped env p src v cands = some (.ok w)) : w = v := by
  induction cands with
  | nil => simp [unionTyped] at h
  | cons c cs ih =>
    simp only [unionTyped] at h
    split at h
    · split at h
      · split at h
        · cases h
        · injection h with h
          split at h
          · cases h
          · injection h with h; exact h.symm
      · exact ih h
    · exact ih h

theorem applyArg_fixed (env : Env) (fields : List Field) (p : Bool) (pb : Val → Bool) (k : String)
    (f : Field) (hf : getField env fields k = some f) (hI : Idem env p f.value) (a : Arg)
    (ht : ArgTrusted env fields p k a) (w : Val) (h : applyArg env f.value p pb a = .ok w) :
    apply env f.value p w = .ok w := by
  cases a with
  | plain v => exact hI v w h
  | typed src sp v =>
    have hv := ht f hf
    -- whatever route the argument takes, the result is `v` itself (trusted) or `apply … v`
    have e : apply env f.value p v = .ok w → w = v := by
      intro h1; rw [hv] at h1; injection h1 with h1; exact h1.symm
    have hw : w = v := by
      simp only [applyArg] at h
      split at h
      · exact e h
      · split at h
        · cases h
        · split at h
          · injection h with h; exact h.symm
          · split at h
            · cases h
            · split at h
              · split at h
                · rename_i r hr
                  subst h
                  exact unionTyped_ok env p src v w _ hr
                · exact e h
              · exact e h
    subst hw
    exact hv

/-- The dict write primitive (`d[k] = v`, `__setattr__`, one entry of update / rebind, `del`)
preserves the invariant, successful or failed — any schema whose field specs have idempotent
`apply`, plain or trusted typed arguments, either `allow_partial` mode. -/
theorem C03_dict_prim_preserve (env : Env) (p : Bool) (pb : Val → Bool) (d : TDict) (k : String) (a : Arg)
    (hI : ∀ f ∈ d.fields, Idem env p f.value) (ht : ArgTrusted env d.fields p k a)
    (hc : ConformsD env p d) :
    ConformsD env p (dictPrim env p pb d k a).1 ∧ (dictPrim env p pb d k a).1.fields = d.fields := by
  unfold dictPrim
  cases hg : getField env d.fields k with
  | none => exact ⟨hc, rfl⟩
  | some f =>
    obtain ⟨ks, spec⟩ := f
    have hmem : Field.mk ks spec ∈ d.fields := by
      unfold getField at hg
      cases h1 : d.fields.find? (fun f => f.key == KeySpec.const k) with
      | some g => simp only [h1] at hg; injection hg with hg; subst hg; exact List.mem_of_find?_eq_some h1
      | none => simp only [h1] at hg; exact List.mem_of_find?_eq_some hg
    simp only []
    split
    · rename_i hdel
      simp only [Bool.and_eq_true, Bool.not_eq_true'] at hdel
      refine ⟨⟨?_, ?_⟩, rfl⟩
      · intro kv hkv
        simp only [eraseKey, List.mem_filter] at hkv
        exact hc.1 kv hkv.1
      · intro k' hk'
        have hne : k' ≠ k := by
          intro heq; subst heq
          exact not_const_of_getField env d.fields k' _ hg (by simpa [Field.key] using hdel.2) hk'
        exact lookup_eraseKey_isSome _ _ _ hne (hc.2 k' hk')
    · cases hap : applyArg env spec p pb (if a.val.isMissing = true then Arg.plain spec.flags.default else a) with
      | error e => exact ⟨hc, rfl⟩
      | ok w =>
        refine ⟨⟨?_, ?_⟩, rfl⟩
        · intro kv hkv
          rcases mem_setKey _ _ _ _ hkv with h | h
          · exact hc.1 kv h
          · subst h
            refine ⟨.mk ks spec, hg, ?_⟩
            refine applyArg_fixed env d.fields p pb k (.mk ks spec) hg (hI _ hmem) _ ?_ w hap
            split
            · trivial
            · exact ht
        · intro k' hk'
          exact lookup_setKey_isSome _ _ _ _ (hc.2 k' hk')

/-- A rejected dict write stores nothing. -/
theorem C03_dict_prim_reject (env : Env) (p : Bool) (pb : Val → Bool) (d : TDict) (k : String) (a : Arg) (e : E)
    (h : (dictPrim env p pb d k a).2 = some e) : (dictPrim env p pb d k a).1 = d := by
  unfold dictPrim at h ⊢
  cases hg : getField env d.fields k with
  | none => rfl
  | some f =>
    obtain ⟨ks, spec⟩ := f
    simp only [hg] at h ⊢
    split
    · rename_i hdel; simp [hdel] at h
    · rename_i hdel
      simp only [hdel] at h
      cases hap : applyArg env spec p pb (if a.val.isMissing = true then Arg.plain spec.flags.default else a) with
      | error e' => rfl
      | ok w => simp [hap] at h

/-- Batched writes (`update`, `|=`, `rebind`): the invariant holds after the batch, complete or
stopped at its first rejected entry (the state is then the one after the successful prefix). -/
theorem C03_dict_batch_preserve (env : Env) (p : Bool) (pb : Val → Bool) (kvs : List (String × Arg)) :
    ∀ (d : TDict), (∀ f ∈ d.fields, Idem env p f.value) →
      (∀ kv ∈ kvs, ArgTrusted env d.fields p kv.1 kv.2) → ConformsD env p d →
      ConformsD env p (dictBatch env p pb d kvs).1 ∧ (dictBatch env p pb d kvs).1.fields = d.fields := by
  induction kvs with
  | nil => intro d _ _ hc; exact ⟨hc, rfl⟩
  | cons kv kvs ih =>
    intro d hI ht hc
    obtain ⟨k, a⟩ := kv
    have h1 := C03_dict_prim_preserve env p pb d k a hI (ht (k, a) List.mem_cons_self) hc
    simp only [dictBatch]
    cases hp : dictPrim env p pb d k a with
    | mk d' e =>
      rw [hp] at h1
      cases e with
      | some e => exact h1
      | none =>
        simp only []
        have := ih d' (by rw [h1.2]; exact hI)
          (fun kv hkv => by rw [h1.2]; exact ht kv (List.mem_cons_of_mem _ hkv)) h1.1
        exact ⟨this.1, by rw [this.2, h1.2]⟩

def DictOp.trusted (env : Env) (fields : List Field) (p : Bool) : DictOp → Prop
  | .setitem k a => ArgTrusted env fields p k a
  | .setdefault k a => ArgTrusted env fields p k a
  | .update kvs => ∀ kv ∈ kvs, ArgTrusted env fields p kv.1 kv.2
  | _ => True

/-- EVERY modelled dict / object mutator preserves the invariant, successful or failed, and keeps
the schema.  `clear` re-applies the schema to the empty dict (defaults restored); that its result
conforms is proved (`schemaApply_conforms`), not assumed.  `hd`: the schema's keys are distinct
(what `Schema` enforces: its fields are a dict keyed by key spec). -/
theorem C03_dict_preserve' (env : Env) (p : Bool) (pb : Val → Bool) (d : TDict) (op : DictOp)
    (hd : distinctKeys (fieldKeySpecs d.fields) = true)
    (hI : ∀ f ∈ d.fields, Idem env p f.value) (ht : op.trusted env d.fields p)
    (hc : ConformsD env p d) :
    ConformsD env p (dictStep env p pb d op).1 ∧ (dictStep env p pb d op).1.fields = d.fields := by
  cases op with
  | setitem k a => exact C03_dict_prim_preserve env p pb d k a hI ht hc
  | delitem k =>
    simp only [dictStep]
    split
    · exact ⟨hc, rfl⟩
    · exact C03_dict_prim_preserve env p pb d k (.plain .missing) hI trivial hc
  | setdefault k a =>
    simp only [dictStep]
    split
    · split
      · exact C03_dict_prim_preserve env p pb d k a hI ht hc
      · exact ⟨hc, rfl⟩
    · exact C03_dict_prim_preserve env p pb d k a hI ht hc
  | update kvs => exact C03_dict_batch_preserve env p pb kvs d hI ht hc
  | clear =>
    simp only [dictStep]
    cases hs : schemaApply env d.fields p [] with
    | ok kvs => exact ⟨schemaApply_conforms env p d.fields hd hI [] kvs (by simp) hs, rfl⟩
    | error e => exact ⟨hc, rfl⟩
  | popitem => exact ⟨hc, rfl⟩

theorem C03_dict_preserve (env : Env) (p : Bool) (pb : Val → Bool) (d : TDict) (op : DictOp)
    (hd : distinctKeys (fieldKeySpecs d.fields) = true)
    (hI : ∀ f ∈ d.fields, Idem env p f.value) (ht : op.trusted env d.fields p)
    (hc : ConformsD env p d) : ConformsD env p (dictStep env p pb d op).1 :=
  (C03_dict_preserve' env p pb d op hd hI ht hc).1

/-- Construction yields a conforming dict: `pg.Dict(value, value_spec=Dict(fields), allow_partial=p)`
(`kvs`: a Python dict, i.e. distinct keys). -/
theorem C03_dict_construct (env : Env) (p : Bool) (fields : List Field) (kvs : List (String × Val)) (d : TDict)
    (hd : distinctKeys (fieldKeySpecs fields) = true) (hI : ∀ f ∈ fields, Idem env p f.value)
    (hnd : (kvs.map (·.1)).Nodup) (h : constructDict env p fields kvs = .ok d) :
    ConformsD env p d ∧ d.fields = fields := by
  unfold constructDict at h
  cases hs : schemaApply env fields p kvs with
  | error e => simp [hs] at h
  | ok out =>
    simp only [hs, Except.ok.injEq] at h
    subst h
    exact ⟨schemaApply_conforms env p fields hd hI kvs out hnd hs, rfl⟩

/-- … and a conforming object: `Object.__init__(**kwargs)`. -/
theorem C03_object_construct (env : Env) (p : Bool) (fields : List Field) (kwargs : List (String × Val)) (d : TDict)
    (hd : distinctKeys (fieldKeySpecs fields) = true) (hI : ∀ f ∈ fields, Idem env p f.value)
    (hnd : (kwargs.map (·.1)).Nodup) (h : constructObject env p fields kwargs = .ok d) :
    ConformsD env p d ∧ d.fields = fields := by
  unfold constructObject at h
  split at h
  · cases h
  · split at h
    · cases h
    · exact C03_dict_construct env p fields kwargs d hd hI hnd h

/-- The invariant holds along every history of dict / object mutations after construction — no
assumed premise about any operation is left (typed-container arguments apart, see `ArgTrusted`). -/
def runDictOps (env : Env) (p : Bool) (pb : Val → Bool) (d : TDict) : List DictOp → TDict
  | [] => d
  | op :: ops => runDictOps env p pb (dictStep env p pb d op).1 ops

theorem C03_dict_history (env : Env) (p : Bool) (pb : Val → Bool) (ops : List DictOp) :
    ∀ (d : TDict), distinctKeys (fieldKeySpecs d.fields) = true → (∀ f ∈ d.fields, Idem env p f.value) →
      (∀ op ∈ ops, op.trusted env d.fields p) → ConformsD env p d →
      ConformsD env p (runDictOps env p pb d ops) := by
  induction ops with
  | nil => intro d _ _ _ hc; exact hc
  | cons op ops ih =>
    intro d hd hI ht hc
    obtain ⟨h1, h2⟩ := C03_dict_preserve' env p pb d op hd hI (ht op List.mem_cons_self) hc
    exact ih _ (by rw [h2]; exact hd) (by rw [h2]; exact hI)
      (fun o ho => by rw [h2]; exact ht o (List.mem_cons_of_mem _ ho)) h1

/-- FULL STATEMENT without the trust hypothesis on typed arguments. -/
def C03_dict_preserve_Full : Prop :=
  ∀ (env : Env) (p : Bool) (pb : Val → Bool) (d : TDict) (k : String) (a : Arg),
    (∀ f ∈ d.fields, Idem env p f.value) → ConformsD env p d → ConformsD env p (dictPrim env p pb d k a).1

/-- F76 (replayed on the real code): a `pg.List([], value_spec=List(Int()))` assigned to a field
declared `List(Int(), min_size=2)` is stored without validation, because
`List(min_size=2).is_compatible(List())` is True (C04 F09b). -/
theorem C03_dict_typed_counterexample : ¬ C03_dict_preserve_Full := by
  intro h
  let fields := [Field.mk (.const "w") (.list (.int none none F0) 2 none F0)]
  have hI : ∀ f ∈ fields, Idem envT false f.value := by
    intro f hf
    simp only [fields, List.mem_singleton] at hf
    subst hf
    exact idem_of_frag envT false _ (by rfl)
  have hc : ConformsD envT false ⟨fields, [("w", .list [.int 1, .int 2])]⟩ := by
    refine ⟨?_, ?_⟩
    · intro kv hkv
      simp only [List.mem_singleton] at hkv
      subst hkv
      exact ⟨_, rfl, rfl⟩
    · intro k hk
      simp only [fields, constKeys, List.mem_singleton] at hk
      subst hk; rfl
  have hres : (dictPrim envT false (fun _ => false) ⟨fields, [("w", .list [.int 1, .int 2])]⟩ "w"
      (.typed (.list (.int none none F0) 0 none F0) false (.list []))).1.kvs = [("w", .list [])] := by rfl
  have := (h envT false (fun _ => false) ⟨fields, [("w", .list [.int 1, .int 2])]⟩ "w"
    (.typed (.list (.int none none F0) 0 none F0) false (.list [])) hI hc).1 ("w", .list []) (by
      rw [hres]; exact List.mem_singleton.2 rfl)
  obtain ⟨f, hf, hap⟩ := this
  simp only [getField, fields, List.find?_cons, Field.key, beq_self_eq_true] at hf
  injection hf with hf
  subst hf
  have e : apply envT (Field.mk (KeySpec.const "w") ((Spec.int none none F0).list 2 none F0)).value false
      ("w", Val.list []).snd = .error .value := by rfl
  rw [e] at hap
  cases hap

/-- Non-vacuity. -/
example : ConformsD envT false ⟨[Field.mk (.const "x") (.int (some 0) none F0)], [("x", .int 1)]⟩ :=
  ⟨by intro kv hkv; simp at hkv; subst hkv; exact ⟨_, rfl, rfl⟩,
   by intro k hk; simp [constKeys] at hk; subst hk; rfl⟩
example : (dictPrim envT false (fun _ => false) ⟨[Field.mk (.const "x") (.int (some 0) none F0)], [("x", .int 1)]⟩ "x"
    (.plain (.int (-1)))).2 = some .value := by rfl
example : (dictPrim envT false (fun _ => false) ⟨[Field.mk (.const "x") (.int (some 0) none F0)], [("x", .int 1)]⟩ "q"
    (.plain (.int 1))).2 = some .key := by rfl

/-! ## Nested key paths (`rebind({'z.y': v, 'w[0]': v})`) -/

/-- A write through a key path of any length preserves the invariant of the root (and of every
container on the way), whether it succeeds or is rejected: only the typed descendant that is
written to validates the value, the ancestors are not re-validated — they stay fixed points of their
specs nevertheless.  `hp`: the containers along the path satisfy `PathOK` (typed dicts / lists,
not frozen — F185 —, idempotent field specs). -/
theorem path_write0_preserve (env : Env) (pb : Val → Bool) (d : TDict) (k : String) (rest : List PKey)
    (ins : Bool) (a : Val)
    (hI : ∀ f ∈ d.fields, Idem env false f.value) (hM : ∀ f ∈ d.fields, MissingOK env false f.value)
    (hp : rest ≠ [] → ∀ c fld, lookup d.kvs k = some c → getField env d.fields k = some fld →
      PathOK env fld.value c rest)
    (hc : ConformsD env false d) (hs : NoStaleMissing env false d) :
    ConformsD env false (pathWrite0 env pb d k rest ins a).1 ∧
      NoStaleMissing env false (pathWrite0 env pb d k rest ins a).1 ∧
      (pathWrite0 env pb d k rest ins a).1.fields = d.fields := by
  cases rest with
  | nil =>
    simp only [pathWrite0]
    have h1 := C03_dict_prim_preserve_aux env pb d k a hI hc
    exact ⟨h1.1, dictPrim_nostale env pb d k a hM hs, h1.2⟩
  | cons t ts =>
    simp only [pathWrite0]
    cases hl : lookup d.kvs k with
    | none => exact ⟨hc, hs, rfl⟩
    | some c =>
      cases hg : getField env d.fields k with
      | none => exact ⟨hc, hs, rfl⟩
      | some fld =>
        simp only []
        cases hn : nestedSet env pb fld.value c (t :: ts) ins a with
        | error e => exact ⟨hc, hs, rfl⟩
        | ok c' =>
          simp only []
          have hcfix : apply env fld.value false c = .ok c := by
            obtain ⟨f', hf', hx⟩ := hc.1 (k, c) (lookup_mem d.kvs k c hl)
            simp only at hf' hx
            rw [hg] at hf'; injection hf' with hf'; subst hf'; exact hx
          have hfix' := nestedSet_fix env pb (t :: ts) fld.value c ins a c' (hp (by simp) c fld hl hg) hcfix hn
          have hnm := nestedSet_container env pb (t :: ts) fld.value c ins a c' hn
          obtain ⟨h1, h2⟩ := replace_entry_conforms env d.fields d.kvs k fld c' hg hfix' hnm hc hs
          exact ⟨h1, h2, by first | rfl | trivial⟩

/-- A rejected path write stores nothing. -/
theorem path_write0_reject (env : Env) (pb : Val → Bool) (d : TDict) (k : String) (rest : List PKey)
    (ins : Bool) (a : Val) (e : E) (h : (pathWrite0 env pb d k rest ins a).2 = some e) :
    (pathWrite0 env pb d k rest ins a).1 = d := by
  cases rest with
  | nil =>
    simp only [pathWrite0] at h ⊢
    exact C03_dict_prim_reject env false pb d k (.plain a) e h
  | cons t ts =>
    simp only [pathWrite0] at h ⊢
    cases hl : lookup d.kvs k with
    | none => rfl
    | some c =>
      cases hg : getField env d.fields k with
      | none => rfl
      | some fld =>
        simp only [hl, hg] at h ⊢
        cases hn : nestedSet env pb fld.value c (t :: ts) ins a with
        | error e' => rfl
        | ok c' => simp [hn] at h

theorem C03_path_write_preserve (env : Env) (pb : Val → Bool) (d : TDict) (k : String) (rest : List PKey)
    (ins : Bool) (a : Val)
    (hI : ∀ f ∈ d.fields, Idem env false f.value) (hM : ∀ f ∈ d.fields, MissingOK env false f.value)
    (hp : rest ≠ [] → ∀ c fld, lookup d.kvs k = some c → getField env d.fields k = some fld →
      PathOK env fld.value c rest)
    (hc : ConformsD env false d) (hs : NoStaleMissing env false d) :
    ConformsD env false (pathWrite env pb d k rest ins a).1 ∧
      NoStaleMissing env false (pathWrite env pb d k rest ins a).1 ∧
      (pathWrite env pb d k rest ins a).1.fields = d.fields := by
  unfold pathWrite
  split
  · exact ⟨hc, hs, rfl⟩
  · exact path_write0_preserve env pb d k rest ins a hI hM hp hc hs

/-- A rejected path write (schema rejection, missing path, or a sealed target) stores nothing. -/
theorem C03_path_write_reject (env : Env) (pb : Val → Bool) (d : TDict) (k : String) (rest : List PKey)
    (ins : Bool) (a : Val) (e : E) (h : (pathWrite env pb d k rest ins a).2 = some e) :
    (pathWrite env pb d k rest ins a).1 = d := by
  unfold pathWrite at h ⊢
  split
  · rfl
  · rename_i hse
    simp only [hse] at h
    exact path_write0_reject env pb d k rest ins a e h

/-- F185 is repaired (fixes/C03-F185.patch): the content of a frozen container field is sealed — the
write through the child is refused with WritePermissionError and nothing changes. -/
theorem C03_F185_repaired :
    pathWrite envT (fun _ => false)
      ⟨[Field.mk (.const "fl") (.list (.int none none F0) 0 none ⟨false, .list [.int 1, .int 2], true⟩)],
       [("fl", .list [.int 1, .int 2])]⟩ "fl" [.idx 0] false (.int 7)
    = (⟨[Field.mk (.const "fl") (.list (.int none none F0) 0 none ⟨false, .list [.int 1, .int 2], true⟩)],
        [("fl", .list [.int 1, .int 2])]⟩, some .perm) := by rfl

example : PathOK envT (.list (.int (some 0) none F0) 0 (some 3) F0) (.list [.int 1]) [.idx 0] :=
  ⟨trivial, rfl, idem_of_frag envT false _ (by rfl), fun h => absurd rfl h⟩

/-- … and a Union-typed descendant: the write goes to the candidate the value is bound to. -/
example : PathOK envT (.union [.int none none F0, .list (.int (some 0) none F0) 0 (some 3) F0] F0)
    (.list [.int 1]) [.idx 0] :=
  ⟨⟨rfl, _, rfl⟩, rfl, idem_of_frag envT false _ (by rfl), fun h => absurd rfl h⟩

example : nestedSet envT (fun _ => false)
    (.union [.int none none F0, .list (.int (some 0) none F0) 0 (some 3) F0] F0)
    (.list [.int 1]) [.idx 0] false (.int (-1)) = .error .value := by rfl

/-! ### Batched path writes and histories with path operations -/

/-- What `path_write0_preserve` asks of one entry `(k, rest, ins, a)` in the state it runs in. -/
def EntryOK (env : Env) (d : TDict) (w : String × List PKey × Bool × Val) : Prop :=
  w.2.1 ≠ [] → ∀ c fld, lookup d.kvs w.1 = some c → getField env d.fields w.1 = some fld →
    PathOK env fld.value c w.2.1

/-- … of every entry of a batch, each in the state left by the entries before it. -/
def LoopOK (env : Env) (pb : Val → Bool) : TDict → List (String × List PKey × Bool × Val) → Prop
  | _, [] => True
  | d, w :: ws => EntryOK env d w ∧ LoopOK env pb (pathWrite env pb d w.1 w.2.1 w.2.2.1 w.2.2.2).1 ws

theorem path_loop_preserve (env : Env) (pb : Val → Bool) (ws : List (String × List PKey × Bool × Val)) :
    ∀ (d : TDict), (∀ f ∈ d.fields, Idem env false f.value) → (∀ f ∈ d.fields, MissingOK env false f.value) →
      LoopOK env pb d ws → ConformsD env false d → NoStaleMissing env false d →
      ConformsD env false (pathLoop env pb d ws).1 ∧ NoStaleMissing env false (pathLoop env pb d ws).1 ∧
        (pathLoop env pb d ws).1.fields = d.fields := by
  induction ws with
  | nil => intro d _ _ _ hc hs; exact ⟨hc, hs, rfl⟩
  | cons w ws ih =>
    intro d hI hM hok hc hs
    obtain ⟨k, rest, ins, a⟩ := w
    obtain ⟨h1, h2⟩ := hok
    have hw := C03_path_write_preserve env pb d k rest ins a hI hM h1 hc hs
    simp only [pathLoop]
    cases hpw : pathWrite env pb d k rest ins a with
    | mk d' e =>
      rw [hpw] at hw
      simp only [hpw] at h2
      cases e with
      | some e => exact hw
      | none =>
        simp only []
        have := ih d' (by rw [hw.2.2]; exact hI) (by rw [hw.2.2]; exact hM) h2 hw.1 hw.2.1
        exact ⟨this.1, this.2.1, by rw [this.2.2, hw.2.2]⟩

/-- A batched `rebind` with key paths preserves the invariant, whether it runs to the end, stops at a
rejected entry (the applied prefix stays), or is refused as a whole by the sealed-target pre-check. -/
theorem C03_path_batch_preserve (env : Env) (pb : Val → Bool) (d : TDict)
    (ws : List (String × List PKey × Bool × Val))
    (hI : ∀ f ∈ d.fields, Idem env false f.value) (hM : ∀ f ∈ d.fields, MissingOK env false f.value)
    (hok : LoopOK env pb d ws) (hc : ConformsD env false d) (hs : NoStaleMissing env false d) :
    ConformsD env false (pathBatch env pb d ws).1 ∧ NoStaleMissing env false (pathBatch env pb d ws).1 ∧
      (pathBatch env pb d ws).1.fields = d.fields := by
  unfold pathBatch
  split
  · exact ⟨hc, hs, rfl⟩
  · exact path_loop_preserve env pb ws d hI hM hok hc hs

/-- A batch with a sealed target anywhere is refused before anything is written. -/
theorem C03_path_batch_sealed (env : Env) (pb : Val → Bool) (d : TDict)
    (ws : List (String × List PKey × Bool × Val)) (w : String × List PKey × Bool × Val) (hw : w ∈ ws)
    (e : E) (he : entryPre env d w.1 w.2.1 = some e) :
    (pathBatch env pb d ws).1 = d ∧ (pathBatch env pb d ws).2.isSome = true := by
  unfold pathBatch
  cases hf : ws.findSome? (fun w => entryPre env d w.1 w.2.1) with
  | some e' => exact ⟨rfl, rfl⟩
  | none =>
    rw [List.findSome?_eq_none_iff] at hf
    have := hf w hw
    rw [he] at this
    cases this

/-- A write argument that comes back as `MISSING_VALUE` without being it was mapped there by the
field's own `apply` (a typed container is stored as it is, or validated by `apply`). -/
theorem applyArg_missing (env : Env) (spec : Spec) (pb : Val → Bool) (a : Arg)
    (h : applyArg env spec false pb a = .ok .missing) (hm : a.val.isMissing = false) :
    apply env spec false a.val = .ok .missing := by
  cases a with
  | plain v => exact h
  | typed src sp v =>
    simp only [Arg.val] at hm ⊢
    have hv : ∀ w, (Except.ok w : R Val) = .ok .missing → w = v → False := by
      intro w h1 h2
      injection h1 with h1
      subst h2; rw [h1] at hm; cases hm
    simp only [applyArg] at h
    split at h
    · exact h
    · split at h
      · cases h
      · split at h
        · exact (hv v h rfl).elim
        · split at h
          · cases h
          · split at h
            · split at h
              · rename_i r hr
                rw [h] at hr
                exact (hv _ rfl (unionTyped_ok env false src v .missing _ hr)).elim
              · exact h
            · exact h

/-- The dict write primitive keeps "no stale MISSING" for every kind of argument. -/
theorem dictPrim_nostale_arg (env : Env) (pb : Val → Bool) (d : TDict) (k : String) (a : Arg)
    (hM : ∀ fld ∈ d.fields, MissingOK env false fld.value)
    (hs : NoStaleMissing env false d) : NoStaleMissing env false (dictPrim env false pb d k a).1 := by
  cases a with
  | plain v => exact dictPrim_nostale env pb d k v hM hs
  | typed src sp v =>
    unfold dictPrim
    cases hg : getField env d.fields k with
    | none => exact hs
    | some f =>
      obtain ⟨ks, spec⟩ := f
      have hmem : Field.mk ks spec ∈ d.fields := getField_mem env d.fields k _ hg
      simp only []
      split
      · intro kv hkv
        simp only [eraseKey, List.mem_filter] at hkv
        exact hs kv hkv.1
      · cases hap : applyArg env spec false pb (if (Arg.typed src sp v).val.isMissing = true
            then Arg.plain spec.flags.default else Arg.typed src sp v) with
        | error e => exact hs
        | ok w =>
          intro kv hkv hm f' hf'
          rcases mem_setKey _ _ _ _ hkv with h | h
          · exact hs kv h hm f' hf'
          · subst h
            simp only at hm hf'
            rw [hg] at hf'
            injection hf' with hf'
            subst hf'
            simp only [Field.value]
            rw [isMissing_eq _ hm] at hap
            by_cases ham : v.isMissing = true
            · simp only [Arg.val, ham, if_true, applyArg] at hap
              exact hap
            · simp only [Arg.val, ham] at hap
              have h1 := applyArg_missing env spec pb (.typed src sp v) hap (by simpa [Arg.val] using ham)
              have := hM _ hmem
              simp only [Field.value] at this
              exact this v h1 (by simpa using ham)

theorem dictBatch_nostale (env : Env) (pb : Val → Bool) (kvs : List (String × Arg)) :
    ∀ (d : TDict), (∀ f ∈ d.fields, Idem env false f.value) → (∀ f ∈ d.fields, MissingOK env false f.value) →
      (∀ kv ∈ kvs, ArgTrusted env d.fields false kv.1 kv.2) → ConformsD env false d →
      NoStaleMissing env false d → NoStaleMissing env false (dictBatch env false pb d kvs).1 := by
  induction kvs with
  | nil => intro d _ _ _ _ hs; exact hs
  | cons kv kvs ih =>
    intro d hI hM ht hc hs
    obtain ⟨k, a⟩ := kv
    have h1 := C03_dict_prim_preserve env false pb d k a hI (ht (k, a) List.mem_cons_self) hc
    have h2 := dictPrim_nostale_arg env pb d k a hM hs
    simp only [dictBatch]
    cases hp : dictPrim env false pb d k a with
    | mk d' e =>
      rw [hp] at h1 h2
      cases e with
      | some e => exact h2
      | none =>
        simp only []
        exact ih d' (by rw [h1.2]; exact hI) (by rw [h1.2]; exact hM)
          (fun kv hkv => by rw [h1.2]; exact ht kv (List.mem_cons_of_mem _ hkv)) h1.1 h2

/-- Every dict / object mutator keeps "no stale MISSING" (complete mode). -/
theorem dictStep_nostale (env : Env) (pb : Val → Bool) (d : TDict) (op : DictOp)
    (hd : distinctKeys (fieldKeySpecs d.fields) = true)
    (hI : ∀ f ∈ d.fields, Idem env false f.value) (hM : ∀ f ∈ d.fields, MissingOK env false f.value)
    (ht : op.trusted env d.fields false) (hc : ConformsD env false d) (hs : NoStaleMissing env false d) :
    NoStaleMissing env false (dictStep env false pb d op).1 := by
  cases op with
  | setitem k a => exact dictPrim_nostale_arg env pb d k a hM hs
  | delitem k =>
    simp only [dictStep]
    split
    · exact hs
    · exact dictPrim_nostale_arg env pb d k _ hM hs
  | setdefault k a =>
    simp only [dictStep]
    split
    · split
      · exact dictPrim_nostale_arg env pb d k a hM hs
      · exact hs
    · exact dictPrim_nostale_arg env pb d k a hM hs
  | update kvs => exact dictBatch_nostale env pb kvs d hI hM ht hc hs
  | clear =>
    simp only [dictStep]
    cases hsa : schemaApply env d.fields false [] with
    | ok kvs => exact schemaApply_nostale env false d.fields hd hI hM [] kvs (by simp) hsa
    | error e => exact hs
  | popitem => exact hs

/-- The side conditions of one history step, in the state it runs in. -/
def TOp.ok (env : Env) (pb : Val → Bool) (d : TDict) : TOp → Prop
  | .plain o => o.trusted env d.fields false
  | .paths ws => LoopOK env pb d ws

def HistOK (env : Env) (pb : Val → Bool) : TDict → List TOp → Prop
  | _, [] => True
  | d, op :: ops => op.ok env pb d ∧ HistOK env pb (tStep env false pb d op).1 ops

def runOps (env : Env) (pb : Val → Bool) (d : TDict) : List TOp → TDict
  | [] => d
  | op :: ops => runOps env pb (tStep env false pb d op).1 ops

/-- One step of a mixed history — a mutator call or a `rebind` with key paths of any length —
preserves the invariant, successful, rejected, or refused. -/
theorem C03_step_preserve (env : Env) (pb : Val → Bool) (d : TDict) (op : TOp)
    (hd : distinctKeys (fieldKeySpecs d.fields) = true)
    (hI : ∀ f ∈ d.fields, Idem env false f.value) (hM : ∀ f ∈ d.fields, MissingOK env false f.value)
    (hok : op.ok env pb d) (hc : ConformsD env false d) (hs : NoStaleMissing env false d) :
    ConformsD env false (tStep env false pb d op).1 ∧ NoStaleMissing env false (tStep env false pb d op).1 ∧
      (tStep env false pb d op).1.fields = d.fields := by
  cases op with
  | plain o =>
    have h1 := C03_dict_preserve' env false pb d o hd hI hok hc
    exact ⟨h1.1, dictStep_nostale env pb d o hd hI hM hok hc hs, h1.2⟩
  | paths ws => exact C03_path_batch_preserve env pb d ws hI hM hok hc hs

/-- The invariant holds along every history of mutator calls AND path rebinds. -/
theorem C03_dict_history_paths (env : Env) (pb : Val → Bool) (ops : List TOp) :
    ∀ (d : TDict), distinctKeys (fieldKeySpecs d.fields) = true →
      (∀ f ∈ d.fields, Idem env false f.value) → (∀ f ∈ d.fields, MissingOK env false f.value) →
      HistOK env pb d ops → ConformsD env false d → NoStaleMissing env false d →
      ConformsD env false (runOps env pb d ops) ∧ NoStaleMissing env false (runOps env pb d ops) := by
  induction ops with
  | nil => intro d _ _ _ _ hc hs; exact ⟨hc, hs⟩
  | cons op ops ih =>
    intro d hd hI hM hok hc hs
    obtain ⟨h1, h2, h3⟩ := C03_step_preserve env pb d op hd hI hM hok.1 hc hs
    exact ih _ (by rw [h3]; exact hd) (by rw [h3]; exact hI) (by rw [h3]; exact hM) hok.2 h1 h2

/-- … from construction on: nothing is assumed about the state, only about the schema (distinct
keys, idempotent field specs) and the steps (`HistOK`). -/
theorem C03_history_from_construct (env : Env) (pb : Val → Bool) (fields : List Field)
    (kvs : List (String × Val)) (d : TDict) (ops : List TOp)
    (hd : distinctKeys (fieldKeySpecs fields) = true)
    (hI : ∀ f ∈ fields, Idem env false f.value) (hM : ∀ f ∈ fields, MissingOK env false f.value)
    (hnd : (kvs.map (·.1)).Nodup) (h : constructDict env false fields kvs = .ok d)
    (hok : HistOK env pb d ops) : ConformsD env false (runOps env pb d ops) := by
  obtain ⟨hc, hf⟩ := C03_dict_construct env false fields kvs d hd hI hnd h
  have hs : NoStaleMissing env false d := by
    unfold constructDict at h
    cases hsa : schemaApply env fields false kvs with
    | error e => simp [hsa] at h
    | ok out =>
      simp only [hsa, Except.ok.injEq] at h
      subst h
      exact schemaApply_nostale env false fields hd hI hM kvs out hnd hsa
  exact (C03_dict_history_paths env pb ops d (by rw [hf]; exact hd) (by rw [hf]; exact hI)
    (by rw [hf]; exact hM) hok hc hs).1

/-! ## What a conforming member looks like -/

/-- "Frozen fields equal their frozen value": a member that its frozen field spec maps to itself IS
the frozen value — for every spec class, also a noneable one (None is not exempt). -/
theorem C03_frozen_holds (env : Env) (s : Spec) (p : Bool) (v : Val) (hf : s.flags.frozen = true)
    (h : apply env s p v = .ok v) : v = s.flags.default := by
  have key : ∀ (f : Flags) (k : Val → R Val), f.frozen = true → gate f p v k = .ok v → v = f.default := by
    intro f k hfz hg
    unfold gate at hg
    simp only [hfz, if_true] at hg
    split at hg
    · cases hg
    · injection hg with hg; exact hg.symm
  cases s with
  | dict fields f =>
    cases fields <;> simp only [Spec.flags] at hf ⊢ <;> simp only [apply] at h <;> exact key _ _ hf h
  | _ => simp only [Spec.flags] at hf ⊢; simp only [apply] at h; exact key _ _ hf h

/-- "Required fields are present unless the value was explicitly made partial", at depth: a member
accepted by an Object-typed field of a non-partial container is not a partial object. -/
theorem C03_object_member_complete (env : Env) (c : Nat) (f : Flags) (c' u : Nat) (part : Bool)
    (hf : f.frozen = false) (h : apply env (.obj c f) false (.obj c' u part) = .ok (.obj c' u part)) :
    part = false := by
  simp only [apply, gate, hf, Val.isMissing, Val.isNone, Bool.false_eq_true, if_false, bind, Except.bind] at h
  cases ht : typeCheck env (some [Ty.obj c]) (Val.obj c' u part) with
  | error e => simp [ht] at h
  | ok w =>
    simp only [ht] at h
    cases w with
    | obj c2 u2 p2 =>
      simp only [Bool.not_false, Bool.true_and] at h
      cases hp : p2
      · simp [hp] at h; exact h.2.2
      · simp [hp] at h
    | _ => simp at h

/-! ## Generated obligations (T-GUARD facts of the current source, lean/PgGen/C03Tables.lean)

The model routes every list growth through `listPrim` (which checks `max_size` and formalizes) and
every shrink through a `min_size` check; every dict write through `dictPrim`.  These obligations
tie those modelling decisions to the source text: they stop compiling, naming the entry point, when
a mutator loses its size check or bypasses the write primitive. -/

theorem C03_table_list_prim :
    Gen.listPrimChecksMax = true ∧ Gen.listPrimFormalizes = true ∧ Gen.listFormalizeApplies = true := by decide

/-- Every growing entry point stores only what the write primitive returned. -/
theorem C03_table_list_growers : ∀ m ∈ Gen.listGrowers, m.2.1 = true ∧ m.2.2 = false := by decide

/-- Every shrinking entry point consults `min_size`. -/
theorem C03_table_list_shrinkers : ∀ m ∈ Gen.listShrinkers, m.2 = true := by decide

/-- The model refuses writes below a frozen field (`sealedAt`) and answers a key of the wrong kind
with KeyError: both are facts of the current source. -/
theorem C03_table_frozen_sealed : Gen.frozenChildSealed = true ∧ Gen.listPrimBadKeyIsKeyError = true := by decide

/-- `listStep (.setslice …)` refuses an extended slice of the wrong size before it formalizes the
values (C01-F225 repair, list.py `__setitem__`): a fact of the current source. -/
theorem C03_table_slice_order : Gen.sliceSizeCheckedFirst = true := by decide

theorem C03_table_dict :
    Gen.dictPrimFormalizes = true ∧ Gen.dictFormalizeApplies = true ∧
    ∀ m ∈ Gen.dictWriters, m.2.1 = true ∧ m.2.2 = false := by decide

end Pg.C03
