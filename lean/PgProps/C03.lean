/-
  C03 — schema invariant of a typed `pg.List` (model: PgModel/SymTyped.lean on top of the C04
  value-spec model; idempotence of `apply` from PgProofs/Typing.lean).
-/
import PgModel.SymTyped
import PgProofs.Typing
namespace Pg.C03
open Pg.Typing

def envT : Env := ⟨fun a b => a == b, fun _ _ => true⟩
def F0 : Flags := ⟨false, .missing, false⟩

/-- A single-value mutator (everything except the batch `extend`). -/
def Op.single : Op → Bool
  | .extend _ => false
  | _ => true

/-- A rejected write is not stored: whenever a single-value mutator raises (type, value, key or
index error) the list is exactly what it was — for every element spec, list and argument. -/
theorem C03_reject_unchanged (env : Env) (l l' : TList) (op : Op) (e : E) (hs : op.single = true)
    (h : step env l op = (l', some e)) : l' = l := by
  cases op with
  | extend vs => simp [Op.single] at hs
  | append v =>
    simp only [step] at h
    split at h
    · injection h with h1 _; exact h1.symm
    · split at h
      · injection h with h1 _; exact h1.symm
      · injection h with _ h2; cases h2
  | insert i v =>
    simp only [step] at h
    split at h
    · injection h with h1 _; exact h1.symm
    · split at h
      · injection h with h1 _; exact h1.symm
      · injection h with _ h2; cases h2
  | setitem i v =>
    simp only [step] at h
    split at h
    · injection h with h1 _; exact h1.symm
    · split at h
      · injection h with h1 _; exact h1.symm
      · injection h with _ h2; cases h2
  | delitem i =>
    simp only [step] at h
    split at h
    · injection h with h1 _; exact h1.symm
    · injection h with _ h2; cases h2
  | pop i =>
    simp only [step] at h
    split at h
    · injection h with h1 _; exact h1.symm
    · injection h with _ h2; cases h2
  | remove v =>
    simp only [step] at h
    split at h
    · injection h with h1 _; exact h1.symm
    · split at h
      · injection h with h1 _; exact h1.symm
      · injection h with _ h2; cases h2
  | clear =>
    simp only [step] at h
    split at h
    · injection h with h1 _; exact h1.symm
    · injection h with _ h2; cases h2

/-- `append` preserves the invariant, successful or failed, for every element spec of the C04
fragment (uses idempotence of `apply`: the stored value is the *applied* value). -/
theorem C03_append_preserves (env : Env) (l : TList) (v : Val) (hf : frag l.elem = true)
    (hc : Conforms env l) : Conforms env (step env l (.append v)).1 := by
  simp only [step]
  split
  · exact hc
  · rename_i hmax
    cases hfz : formalize env l v with
    | error e => simp only []; exact hc
    | ok v' =>
      simp only []
      unfold formalize at hfz
      cases ha : apply env l.elem false v with
      | error e => simp [ha] at hfz
      | ok w =>
        simp [ha] at hfz; subst hfz
        constructor
        · intro x hx
          simp only [List.mem_append, List.mem_singleton] at hx
          rcases hx with hx | hx
          · exact hc.1 x hx
          · subst hx; exact apply_idem_frag env l.elem hf false v _ ha
        · have h2 := hc.2
          unfold atMax at hmax
          unfold sizeOk at h2 ⊢
          simp only [List.length_append, List.length_singleton]
          cases hm : l.mx with
          | none => simp [hm] at h2 ⊢; omega
          | some m => simp [hm] at h2 hmax ⊢; omega

/-- FULL STATEMENT: every mutating call preserves the invariant. -/
def C03_preserve_Full : Prop :=
  ∀ (env : Env) (l : TList) (op : Op), Conforms env l → Conforms env (step env l op).1

/-- F08 (replayed on the real code): `del l[0]` on a list bound to `List(Int(), min_size=2)` of
length 2 succeeds and leaves a list of length 1. -/
theorem C03_preserve_counterexample : ¬ C03_preserve_Full := by
  intro h
  have hc : Conforms envT ⟨.int none none F0, 2, none, [.int 1, .int 2]⟩ := by
    refine ⟨?_, by rfl⟩
    intro x hx
    simp only [List.mem_cons, List.mem_nil_iff, or_false] at hx
    rcases hx with hx | hx <;> subst hx <;> rfl
  have := (h envT _ (.delitem 0) hc).2
  revert this
  decide

/-! Non-vacuity. -/
example : Conforms envT ⟨.int (some 0) (some 5) F0, 1, some 3, [.int 1]⟩ :=
  ⟨by intro x hx; simp at hx; subst hx; rfl, by rfl⟩
example : (step envT ⟨.int (some 0) (some 5) F0, 1, some 3, [.int 1]⟩ (.append (.int 9))).2 = some .value := by rfl
example : frag (.int (some 0) (some 5) F0) = true := by rfl

end Pg.C03
