import PgModel.SymTyped
namespace Pg.C03
theorem C03_placeholder : (1 : Nat) = 1 := rfl
end Pg.C03
