/-
  C11 — Search-space enumeration is exact. Property theorems only.
-/
import PgModel.Geno.Spec
import PgModel.Geno.Enum
import PgModel.Geno.Valid
namespace Pg.Geno

theorem C11_placeholder : (Spec.space []).all = [DNA.mk .none []] := by decide

end Pg.Geno
