/-
  C11 — Search-space enumeration is exact: every valid DNA once, nothing else.
  Property theorems only (model: PgModel/Geno/{Spec,Enum,Valid}.lean; lemmas: PgProofs/Geno*.lean).

  Vocabulary: `g.all` is the SPECIFICATION of the enumeration (`allValid`: lexicographic, by
  structural recursion, PgModel/Geno/Valid.lean), `Valid g d` the specification of membership;
  `g.first / g.next / g.iter / g.size / g.validate / g.bind / g.random` are the implementation
  model (PgModel/Geno/Enum.lean). `succIn l d` is the element following `d` in `l`.

  Every clause of the property is stated in full as `def …_Full : Prop` and PROVED for every finite
  well-formed spec (spaces, single and multi choices in all four distinct × sorted modes,
  conditional sub-spaces of any depth and width): first / next / iteration / no repetition /
  strictly increasing / the iterated set is the valid set / `space_size` = number of members;
  `validate`, binding and `random_dna` for every spec (floats and custom points included). The one
  statement that is NOT a theorem is `C11_bind_Full`: binding a float ignores the node's children
  (known finding F20c); it is refuted by `C11_bind_counterexample` and replaced by
  `C11_bind_partial`, whose exclusion `floatLeaves` is exactly the signature of that finding.
-/
import PgProofs.GenoIter
import PgProofs.GenoValid
import PgProofs.GenoValidate
import PgProofs.GenoBind
import PgProofs.GenoRandom
import PgProofs.GenoOdo3
import PgProofs.GenoIncr
import PgProofs.GenoCount
import PgProofs.GenoInf
import PgProofs.GenoRandomPrev
import PgProofs.GenoAttach
import PgProofs.GenoHooks
import PgGen.C11Tables
namespace Pg.Geno

/-! ### Full statements -/

/-- `first_dna()` is the least member. -/
def C11_first_Full : Prop :=
  ∀ g : Spec, g.finite = true → g.wf = true → g.all.head? = some g.first

/-- `next_dna(d)` is the successor of `d` in the enumeration of all members (`None` after the
last one), and never raises on a member. -/
def C11_next_Full : Prop :=
  ∀ g : Spec, g.finite = true → g.wf = true → ∀ d ∈ g.all, g.next d = some (succIn g.all d)

/-- `list(iter_dna())` is exactly the enumeration of all members and ends by itself. -/
def C11_iter_Full : Prop :=
  ∀ g : Spec, g.finite = true → g.wf = true →
    ∀ fuel, g.all.length < fuel → g.iter fuel = some (g.all, true)

/-- `space_size` is the number of members. -/
def C11_size_Full : Prop :=
  ∀ g : Spec, g.finite = true → g.wf = true → g.size = some g.all.length

/-- The enumeration is strictly increasing w.r.t. `DNA.__lt__` (and `__cmp__` never raises
between two members). -/
def C11_increasing_Full : Prop :=
  ∀ g : Spec, g.finite = true → g.wf = true → g.all.Pairwise (fun a b => DNA.lt a b = true)

/-- Binding accepts exactly the members. -/
def C11_bind_Full : Prop :=
  ∀ (g : Spec) (d : DNA), g.wf = true → (g.bind d = true ↔ Valid g d)

/-! ### Proved for every finite spec (multi-choices in all four modes included) -/

/-- The enumeration `g.all` is sound and complete for the constraints: it lists exactly the DNAs
that satisfy arity, index range, distinctness, sortedness and validity of the children in the
chosen candidates. -/
theorem C11_spec_sound_complete (g : Spec) (hf : g.finite = true) (d : DNA) :
    d ∈ g.all ↔ Valid g d :=
  mem_all_iff g hf d

/-- `spec.validate(d)` returns normally iff `d` satisfies the constraints — for every
well-formed spec (floats, custom points and multi-choices included) and every DNA the constructor
can build (`hnorm`: hereditarily normalised). In particular every one-step corruption of a member
that is not itself a member is rejected. -/
theorem C11_validate (g : Spec) (hw : g.wf = true) (d : DNA) (hd : hnorm d = true) :
    g.validate d = true ↔ Valid g d := by
  unfold Valid
  rw [validate_eq_valid g hw d hd]

/-- Binding (`DNA(..., spec=g)` / `use_spec`) accepts exactly the members, for every spec, on
every DNA outside the known defect F20c (`floatLeaves`: no float-valued node has children). The
full statement `C11_bind_Full` is refuted below by exactly such a DNA. -/
theorem C11_bind_partial (g : Spec) (d : DNA) (hd : floatLeaves d = true) :
    g.bind d = true ↔ Valid g d := by
  unfold Valid
  rw [bind_eq_valid g d hd]

/-- Random generation always returns a member: for every spec and EVERY oracle stream (recorded
results of `sample` / `randint` / `uniform`) on which the model's `random_dna` returns at all —
i.e. whose draws respect the contract of `random.Random` — the result satisfies the constraints. -/
theorem C11_random (g : Spec) (o : List Draw) (d : DNA) (rest : List Draw)
    (h : g.random o = some (d, rest)) : Valid g d :=
  random_valid g o d rest h

/-- `space_size == -1` propagates through every combinator: a spec (of any shape) reports an
infinite size exactly when it contains a float or a custom decision point. -/
theorem C11_size_infinite (g : Spec) : g.size = none ↔ g.finite = false :=
  size_none_iff g

/-- `random_dna(rng, previous_dna=p)` returns a member for EVERY oracle stream and EVERY `p`
(member or not, bound or malformed): whenever the call returns at all it returns exactly what
the call without `previous_dna` returns on the same draws. -/
theorem C11_random_previous (g : Spec) (prev : Option DNA) (o : List Draw) (d : DNA) (rest : List Draw)
    (h : g.randomPrev prev o = some (d, rest)) : g.random o = some (d, rest) ∧ Valid g d :=
  ⟨randomPrev_some g prev o (d, rest) h, random_valid g o d rest (randomPrev_some g prev o (d, rest) h)⟩

/-! ### Proved in full: the odometer theorem for every finite well-formed spec -/

/-- `first_dna()` is the first member. -/
theorem C11_first : C11_first_Full :=
  fun g hf hw => (specOk_all g hf hw).head

/-- THE ODOMETER THEOREM: `next_dna(d)` is the successor of `d` in the lexicographic enumeration of
all members (`None` after the last one) — right-to-left search for the right-most advanceable
position, `next_value_for_choice` and `min_remaining_choices` (with the monotone-feasibility
lemma) included, in every distinct × sorted mode and under any nesting of conditional spaces. -/
theorem C11_next : C11_next_Full :=
  fun g hf hw => (specOk_all g hf hw).next

/-- `attach_spec`: `first_dna` / `next_dna` / `iter_dna` compute the raw tree (`Spec.first`,
`Spec.next` — what `attach_spec=False` returns, so `C11_first`, `C11_next`, `C11_iter` ARE the
statements for `attach_spec=False`) and with `attach_spec=True` bind it (`use_spec`); on a finite
well-formed spec that binding never fails, for the first DNA and for every successor of a member. -/
theorem C11_attach_spec (g : Spec) (hf : g.finite = true) (hw : g.wf = true) :
    (g.all ≠ [] → g.bind g.first = true) ∧
    ∀ d ∈ g.all, ∀ d', g.next d = some (some d') → g.bind d' = true :=
  ⟨first_binds g hf hw, fun d hd d' h => next_binds g hf hw d hd d' h⟩

/-! ### Custom decision points: the user hooks as parameters -/

/-- CONSERVATIVITY: on a spec without custom decision points `first_dna`, `next_dna` and `iter_dna`
do not depend on the hooks at all (so every theorem of this file holds verbatim for the hooked
functions on such specs). -/
theorem C11_hooks_conservative (hk : Hooks) (g : Spec) (hc : g.noCustom = true) :
    g.firstH hk = g.first ∧ (∀ d, g.nextH hk d = g.next d) ∧ ∀ fuel, g.iterH hk fuel = g.iter fuel :=
  ⟨Spec.firstH_eq hk g hc, Spec.nextH_eq hk g hc, Spec.iterH_eq hk g hc⟩

/-- THE CONTRACT IS SATISFIABLE: the hooks the harness installs (`next_dna_fn` walking a list of
pairwise different strings) meet `HookContract`. -/
theorem C11_list_hooks_contract (tbl : Info → Option (List String)) (info : Info) (L : List String)
    (ht : tbl info = some L) (hne : L ≠ []) (hnd : L.Nodup) : HookContract (listHooks tbl) info L :=
  listHooks_contract tbl info L ht hne hnd

/-- EXACT ENUMERATION THROUGH A HOOK: a custom decision point whose hook meets the contract for the
list `L` iterates exactly `L` — every element once, in order — and then ends. (Custom points
inside spaces and conditional candidates go through the same `Space._next_dna` / odometer code as
any other element; those compositions are compared with the code on every run.) -/
theorem C11_custom_point_iter (hk : Hooks) (info : Info) (L : List String) (hc : HookContract hk info L)
    (fuel : Nat) (hf : L.length < fuel) :
    (Spec.point (.custom info)).iterH hk fuel = some (L.map fun t => .mk (.str t) [], true) :=
  iterH_custom hk info L hc fuel hf

/-- The enumeration has no repetition. -/
theorem C11_all_nodup (g : Spec) (hf : g.finite = true) (hw : g.wf = true) : g.all.Nodup :=
  (specOk_all g hf hw).nodup

/-- Iteration yields exactly the members, each once, in the order of the specification, and then
stops (`next_dna` of the last one is `None`). -/
theorem C11_iter : C11_iter_Full :=
  fun g hf hw fuel h => iter_eq_all (specOk_all g hf hw) fuel h

/-- The members are enumerated (hence iterated, by `C11_iter`) in strictly increasing order of
`DNA.__lt__`. -/
theorem C11_increasing : C11_increasing_Full :=
  fun g hf _ => all_increasing g hf

/-- … hence the iterated DNAs are pairwise different and form precisely the set of DNAs that
satisfy the constraints. -/
theorem C11_iter_exact (g : Spec) (hf : g.finite = true) (hw : g.wf = true)
    (fuel : Nat) (hfuel : g.all.length < fuel) :
    ∃ l, g.iter fuel = some (l, true) ∧ l.Nodup ∧ ∀ d, d ∈ l ↔ Valid g d :=
  ⟨g.all, C11_iter g hf hw fuel hfuel, C11_all_nodup g hf hw, fun d => C11_spec_sound_complete g hf d⟩

/-- The counting recurrences of `Choices.space_size` (all four distinct × sorted cases) and the
product of `Space.space_size` are correct: `space_size` is the number of members. -/
theorem C11_size : C11_size_Full :=
  fun g hf _ => size_eq_all g hf

/-- Hence: iteration yields exactly `space_size` DNAs, pairwise different, and ends with no
successor. -/
theorem C11_iter_count (g : Spec) (hf : g.finite = true) (hw : g.wf = true) :
    ∃ n l, g.size = some n ∧ g.iter (n + 1) = some (l, true) ∧ l.length = n ∧ l.Nodup ∧ l = g.all :=
  ⟨g.all.length, g.all, C11_size g hf hw,
   C11_iter g hf hw _ (Nat.lt_succ_self _), rfl, C11_all_nodup g hf hw, rfl⟩

theorem sweepPropose_none (g : Spec) : sweepPropose g none = some (some g.first) := rfl

theorem sweepPropose_some (g : Spec) (d : DNA) : sweepPropose g (some d) = g.next d := by
  unfold sweepPropose sweepStep
  dsimp only
  cases g.next d with
  | none => rfl
  | some o => cases o <;> rfl

/-- The Sweeping generator proposes the same sequence as `iter_dna` (for every spec: it is the
same loop over `next_dna`). -/
theorem C11_sweep (g : Spec) (fuel : Nat) : sweepRun g fuel none = g.iter fuel := by
  have h : ∀ f d, sweepRun g f (some d) = iterFrom g f d := by
    intro f
    induction f with
    | zero => intro d; rfl
    | succ f ih =>
      intro d
      simp only [sweepRun, sweepPropose_some, iterFrom]
      cases g.next d with
      | none => rfl
      | some o =>
        cases o with
        | none => rfl
        | some d' => simp [ih d']
  cases fuel with
  | zero => rfl
  | succ f => simp [sweepRun, sweepPropose_none, Spec.iter, h]

/-- The end of a sweep is absorbing: once `propose()` raised StopIteration, the state is unchanged
and every further `propose()` raises StopIteration again (no second pass over the space). -/
theorem C11_sweep_end_absorbing (g : Spec) (last st : Option DNA)
    (h : sweepStep g last = some (none, st)) :
    st = last ∧ ∀ n, sweepMore g n st = some (List.replicate n none) := by
  have hst : st = last := by
    unfold sweepStep at h
    split at h <;> simp at h
    exact h.symm
  subst hst
  refine ⟨rfl, ?_⟩
  intro n
  induction n with
  | zero => rfl
  | succ n ih => simp [sweepMore, h, ih, List.replicate_succ]

/-! ### Shape obligations: the source the model was written from (tables regenerated from /repo on
every run by translate/t_c11.py; an edit of these functions breaks the named obligation) -/

/-- `_space_size(s, k)` as mirrored by `sizeK` (PgModel/Geno/Enum.lean), branch by branch. -/
def expectedSizeCases : List (String × String) := [
  ("k == 0", "return 1"),
  ("k == 1", "return sum(s)"),
  ("k > len(s) and self.distinct", "return 0"),
  ("len(s) == 1", "assert not self.distinct ; return s[0] ** k"),
  ("self.distinct and self.sorted", "return s[0] * _space_size(s[1:], k - 1) + _space_size(s[1:], k)"),
  ("self.distinct", "return s[0] * k * _space_size(s[1:], k - 1) + _space_size(s[1:], k)"),
  ("self.sorted", "size = 0 ; for i in range(k + 1): ; size += s[0] ** i * _space_size(s[1:], k - i) ; return size"),
  ("else", "return _space_size(s, 1) ** k")
]

/-- `next_value_for_choice` as mirrored by `nextValueForChoice`. -/
def expectedNextValue : List String := [
  "n = len(self.candidates)",
  "next_value = current_choice + 1",
  "if self.distinct: ; possible_choices = set(range(next_value, n)) ; possible_choices -= set(prior_choices) ; next_value = min(possible_choices) if possible_choices else n",
  "return next_value if next_value < n else None"
]

/-- `min_remaining_choices` as mirrored by `minRemainingChoices` / `minRemLoop`. -/
def expectedMinRemaining : List String := [
  "if self.sorted and prior_choices: ; possible_choices = set(range(prior_choices[-1], len(self.candidates))) ; else: ; possible_choices = set(range(len(self.candidates)))",
  "if self.distinct: ; possible_choices -= set(prior_choices)",
  "remaining_choices = []",
  "for _ in range(self.num_choices - len(prior_choices)): ; if not possible_choices: ; return None ; next_choice = min(possible_choices) ; if self.distinct: ; possible_choices.remove(next_choice) ; remaining_choices.append(next_choice)",
  "return remaining_choices"
]

/-- The loop of `Choices._next_dna` as mirrored by `odoLoop`. -/
def expectedOdoLoop : List String := [
  "for choice_id in reversed(range(self.num_choices))",
  "choice_dna = choice_dna_list[choice_id]",
  "if not isinstance(choice_dna.value, int) or choice_dna.value < 0 or choice_dna.value >= len(self.candidates): ; raise ValueError",
  "subspace_dna = DNA(None, choice_dna.children)",
  "subspace_next_dna = self.candidates[choice_dna.value].next_dna(subspace_dna, attach_spec=False)",
  "updated_current_choice = False",
  "prior_choices = [choice_dna_list[i].value for i in range(choice_id)]",
  "if subspace_next_dna is not None: ; new_choice_dna = DNA(choice_dna.value, [subspace_next_dna]) ; updated_current_choice = True ; else: ; new_choice_value = next_value_for_choice(prior_choices, choice_dna.value) ; if new_choice_value is not None: ; new_choice_dna = DNA(new_choice_value, [self.candidates[new_choice_value].first_dna(attach_spec=False)]) ; updated_current_choice = True",
  "if updated_current_choice: ; remaining_choices = min_remaining_choices(prior_choices + [new_choice_dna.value]) ; if remaining_choices is not None: ; subdna_list = choice_dna_list[:choice_id] + [new_choice_dna] + [DNA(v, [self.candidates[v].first_dna(attach_spec=False)]) for v in remaining_choices] ; return DNA(parent_choice_value, subdna_list)",
  "after the loop: return None"
]

theorem C11_shape_space_size : Pg.C11Gen.sizeCases = expectedSizeCases := by rfl
theorem C11_shape_next_value_for_choice : Pg.C11Gen.nextValueStmts = expectedNextValue := by rfl
theorem C11_shape_min_remaining_choices : Pg.C11Gen.minRemainingStmts = expectedMinRemaining := by rfl
theorem C11_shape_next_dna_loop : Pg.C11Gen.odoLoopStmts = expectedOdoLoop := by rfl

/-! ### Known defect F20c: binding a float ignores the children of the node -/

theorem C11_bind_counterexample : ¬ C11_bind_Full := by
  intro h
  have := h (.point (.float 0 1 1 1 {})) (.mk (.flt 1 2) [.mk (.int 0) []]) (by decide)
  revert this
  decide

/-! ### Non-vacuity and instances -/

/-- A spec with a conditional sub-space that satisfies the hypotheses of the theorems. -/
def exampleSpec : Spec :=
  .space [.choices 1 [[], [.choices 1 [[], []] true false {}, .choices 1 [[], [], []] true false {}]] true false {},
          .choices 1 [[], []] true false {}]

example : exampleSpec.finite = true ∧ exampleSpec.wf = true := by decide
example : exampleSpec.all.length = 14 := by decide
example : ∀ d ∈ exampleSpec.all, hnorm d = true ∧ floatLeaves d = true := by decide
example : exampleSpec.iter 15 = some (exampleSpec.all, true) := by decide

/-- Multi-choices in all four `distinct × sorted` modes with a conditional candidate satisfy the
hypotheses (and, as instances, the conclusions) of the theorems. -/
def exampleMulti (d s : Bool) : Spec :=
  .point (.choices 2 [[], [.choices 1 [[], []] true false {}], []] d s {})

example : ∀ d s, (exampleMulti d s).finite = true ∧ (exampleMulti d s).wf = true := by decide
example : ∀ d s, (exampleMulti d s).iter 40 = some ((exampleMulti d s).all, true) := by decide
example : ∀ d s, (exampleMulti d s).size = some (exampleMulti d s).all.length := by decide
example : ((exampleMulti true true).random [.sample [2, 1], .sample [0]]).isSome = true := by decide
example : ((exampleMulti true true).randomPrev (some (exampleMulti true true).first) [.sample [2, 1], .sample [0]]).isSome = true := by decide
example : ((exampleMulti false true).random [.randint 1, .randint 1, .sample [1], .sample [0]]).isSome = true := by decide
example : (exampleMulti true true).all.length = 5 ∧ (exampleMulti false false).all.length = 16 := by decide

end Pg.Geno
