/-
  C11 — Search-space enumeration is exact: every valid DNA once, nothing else.
  Property theorems only (model: PgModel/Geno/{Spec,Enum,Valid}.lean; lemmas: PgProofs/Geno*.lean).

  Vocabulary: `g.all` is the SPECIFICATION of the enumeration (`allValid`: lexicographic, by
  structural recursion, PgModel/Geno/Valid.lean), `Valid g d` the specification of membership;
  `g.first / g.next / g.iter / g.size / g.validate / g.bind / g.random` are the implementation
  model (PgModel/Geno/Enum.lean). `succIn l d` is the element following `d` in `l`.

  Staging (DESIGN §6 C11): each clause is stated in full as `def …_Full : Prop`; what is proved is
  the `…_partial` theorem with the explicit decidable exclusion `g.noMulti` (no `num_choices > 1`
  anywhere). For multi-choices the same equalities (`g.iter = g.all`, `g.size = |g.all|`) are
  checked by the driver on every enumerated spec of the correspondence run, including the
  exhaustive small-scope family — labelled as such in the evidence, not claimed as theorems.
-/
import PgProofs.GenoIter
import PgProofs.GenoValid
import PgProofs.GenoValidate
import PgProofs.GenoBind
import PgProofs.GenoRandom
namespace Pg.Geno

/-! ### Full statements -/

/-- `first_dna()` is the least member. -/
def C11_first_Full : Prop :=
  ∀ g : Spec, g.finite = true → g.wf = true → g.all.head? = some g.first

/-- `next_dna(d)` is the successor of `d` in the enumeration of all members (`None` after the
last one), and never raises on a member. -/
def C11_next_Full : Prop :=
  ∀ g : Spec, g.finite = true → g.wf = true → ∀ d ∈ g.all, g.next d = some (succIn g.all d)

/-- `list(iter_dna())` is exactly the enumeration of all members and ends by itself. -/
def C11_iter_Full : Prop :=
  ∀ g : Spec, g.finite = true → g.wf = true →
    ∀ fuel, g.all.length < fuel → g.iter fuel = some (g.all, true)

/-- `space_size` is the number of members. -/
def C11_size_Full : Prop :=
  ∀ g : Spec, g.finite = true → g.wf = true → g.size = some g.all.length

/-- Binding accepts exactly the members. -/
def C11_bind_Full : Prop :=
  ∀ (g : Spec) (d : DNA), g.wf = true → (g.bind d = true ↔ Valid g d)

/-! ### Proved for every finite spec (multi-choices in all four modes included) -/

/-- The enumeration `g.all` is sound and complete for the constraints: it lists exactly the DNAs
that satisfy arity, index range, distinctness, sortedness and validity of the children in the
chosen candidates. -/
theorem C11_spec_sound_complete (g : Spec) (hf : g.finite = true) (d : DNA) :
    d ∈ g.all ↔ Valid g d :=
  mem_all_iff g hf d

/-- `spec.validate(d)` returns normally iff `d` satisfies the constraints — for every
well-formed spec (floats, custom points and multi-choices included) and every DNA the constructor
can build (`hnorm`: hereditarily normalised). In particular every one-step corruption of a member
that is not itself a member is rejected. -/
theorem C11_validate (g : Spec) (hw : g.wf = true) (d : DNA) (hd : hnorm d = true) :
    g.validate d = true ↔ Valid g d := by
  unfold Valid
  rw [validate_eq_valid g hw d hd]

/-- Binding (`DNA(..., spec=g)` / `use_spec`) accepts exactly the members, for every spec, on
every DNA outside the known defect F20c (`floatLeaves`: no float-valued node has children). The
full statement `C11_bind_Full` is refuted below by exactly such a DNA. -/
theorem C11_bind_partial (g : Spec) (d : DNA) (hd : floatLeaves d = true) :
    g.bind d = true ↔ Valid g d := by
  unfold Valid
  rw [bind_eq_valid g d hd]

/-- Random generation always returns a member: for every spec and EVERY oracle stream (recorded
results of `sample` / `randint` / `uniform`) on which the model's `random_dna` returns at all —
i.e. whose draws respect the contract of `random.Random` — the result satisfies the constraints. -/
theorem C11_random (g : Spec) (o : List Draw) (d : DNA) (rest : List Draw)
    (h : g.random o = some (d, rest)) : Valid g d :=
  random_valid g o d rest h

/-! ### Proved: specs without multi-choices (spaces, single choices, conditional sub-spaces of any
depth and width) -/

theorem C11_first_partial (g : Spec) (hf : g.finite = true) (hw : g.wf = true) (hm : g.noMulti = true) :
    g.all.head? = some g.first :=
  (specOk g hf hw hm).head

/-- The odometer lemma: right-to-left search for the right-most advanceable position equals the
recursive successor. -/
theorem C11_next_partial (g : Spec) (hf : g.finite = true) (hw : g.wf = true) (hm : g.noMulti = true) :
    ∀ d ∈ g.all, g.next d = some (succIn g.all d) :=
  (specOk g hf hw hm).next

/-- The enumeration of all members has no duplicates. -/
theorem C11_all_nodup_partial (g : Spec) (hf : g.finite = true) (hw : g.wf = true) (hm : g.noMulti = true) :
    g.all.Nodup :=
  (specOk g hf hw hm).nodup

/-- Iteration yields exactly the members, each once, in the order of the specification, and
then stops: with any fuel above the number of members the result is `(g.all, ended = true)`. -/
theorem C11_iter_partial (g : Spec) (hf : g.finite = true) (hw : g.wf = true) (hm : g.noMulti = true)
    (fuel : Nat) (hfuel : g.all.length < fuel) : g.iter fuel = some (g.all, true) :=
  iter_eq_all (specOk g hf hw hm) fuel hfuel

/-- The counting recurrences (sum over candidates, product over elements) are correct. -/
theorem C11_size_partial (g : Spec) (hf : g.finite = true) (hw : g.wf = true) (hm : g.noMulti = true) :
    g.size = some g.all.length :=
  size_eq g hf hw hm

/-- Hence: iteration yields exactly `space_size` DNAs, pairwise different, and ends with no
successor. -/
theorem C11_iter_count_partial (g : Spec) (hf : g.finite = true) (hw : g.wf = true) (hm : g.noMulti = true) :
    ∃ n l, g.size = some n ∧ g.iter (n + 1) = some (l, true) ∧ l.length = n ∧ l.Nodup ∧ l = g.all :=
  ⟨g.all.length, g.all, C11_size_partial g hf hw hm,
   C11_iter_partial g hf hw hm _ (Nat.lt_succ_self _), rfl, C11_all_nodup_partial g hf hw hm, rfl⟩

/-- … and the iterated set is precisely the set of DNAs that satisfy the constraints. -/
theorem C11_iter_exact_partial (g : Spec) (hf : g.finite = true) (hw : g.wf = true) (hm : g.noMulti = true)
    (fuel : Nat) (hfuel : g.all.length < fuel) :
    ∃ l, g.iter fuel = some (l, true) ∧ l.Nodup ∧ ∀ d, d ∈ l ↔ Valid g d :=
  ⟨g.all, C11_iter_partial g hf hw hm fuel hfuel, C11_all_nodup_partial g hf hw hm,
   fun d => C11_spec_sound_complete g hf d⟩

/-- The Sweeping generator proposes the same sequence as `iter_dna` (for every spec: it is the
same loop over `next_dna`). -/
theorem C11_sweep (g : Spec) (fuel : Nat) : sweepRun g fuel none = g.iter fuel := by
  have h : ∀ f d, sweepRun g f (some d) = iterFrom g f d := by
    intro f
    induction f with
    | zero => intro d; rfl
    | succ f ih =>
      intro d
      simp only [sweepRun, sweepPropose, iterFrom]
      cases g.next d with
      | none => rfl
      | some o =>
        cases o with
        | none => rfl
        | some d' => simp [ih d']
  cases fuel with
  | zero => rfl
  | succ f => simp [sweepRun, sweepPropose, Spec.iter, h]

/-! ### Known defect F20c: binding a float ignores the children of the node -/

theorem C11_bind_counterexample : ¬ C11_bind_Full := by
  intro h
  have := h (.point (.float 0 1 1 1 {})) (.mk (.flt 1 2) [.mk (.int 0) []]) (by decide)
  revert this
  decide

/-! ### Non-vacuity and instances -/

/-- A spec with a conditional sub-space that satisfies the hypotheses of the partial theorems. -/
def exampleSpec : Spec :=
  .space [.choices 1 [[], [.choices 1 [[], []] true false {}, .choices 1 [[], [], []] true false {}]] true false {},
          .choices 1 [[], []] true false {}]

example : exampleSpec.finite = true ∧ exampleSpec.wf = true ∧ exampleSpec.noMulti = true := by decide
example : exampleSpec.all.length = 14 := by decide
example : ∀ d ∈ exampleSpec.all, hnorm d = true ∧ floatLeaves d = true := by decide
example : exampleSpec.iter 15 = some (exampleSpec.all, true) := by decide

/-- Instances of the full statements on multi-choices (all four `distinct × sorted` modes, with a
conditional candidate): evidence that the staged statements are the right ones, not a proof. -/
def exampleMulti (d s : Bool) : Spec :=
  .point (.choices 2 [[], [.choices 1 [[], []] true false {}], []] d s {})

example : ∀ d s, (exampleMulti d s).iter 40 = some ((exampleMulti d s).all, true) := by decide
example : ∀ d s, (exampleMulti d s).size = some (exampleMulti d s).all.length := by decide
example : ((exampleMulti true true).random [.sample [2, 1], .sample [0]]).isSome = true := by decide
example : ((exampleMulti false true).random [.randint 1, .randint 1, .sample [1], .sample [0]]).isSome = true := by decide
example : (exampleMulti true true).all.length = 5 ∧ (exampleMulti false false).all.length = 16 := by decide

end Pg.Geno
