/-
  C13 — Hyper values: decode and encode are mutually inverse and side-effect free.
  Property theorems only (model: PgModel/Hyper.lean; lemmas: PgProofs/Hyper.lean).
-/
import PgModel.Hyper
namespace Pg.C13

/-- Decoding is a function of template, filter and DNA (pure model): two decodes agree. -/
theorem C13_deterministic (W : Nat → Bool) (t : Tmpl) (d : DNA) (v₁ v₂ : Tmpl)
    (h₁ : decode W t d = .ok v₁) (h₂ : decode W t d = .ok v₂) : v₁ = v₂ := by
  rw [h₁] at h₂; cases h₂; rfl

end Pg.C13
