/-
  C13 — Hyper values: decode and encode are mutually inverse and side-effect free.
  Property theorems only (model: PgModel/Hyper.lean, specification predicates:
  PgModel/HyperSpec.lean, lemmas: PgProofs/Hyper.lean).

  Reading guide. `W : Cfg` bundles the `where` filter (`W tag`, a predicate on placeholder tags;
  `noFilter` selects everything) with the *user hooks* of custom hyper primitives (`W.dec cid` =
  `custom_decode`, `W.enc cid` = `custom_encode`, `W.dom cid` = the genomes the hooks call their
  own). The hooks are parameters; what is assumed about them is an explicit hypothesis:
  `HooksLawful W` (on `dom`: decode succeeds, returns a placeholder-free value, encode maps it back),
  `HooksPlain W` (decode never returns placeholders), `HooksEncSound W` (encode ∘ decode on arbitrary
  values). Templates without custom hypers satisfy all three for the trivial hooks (`noHooks`).
  A value is a template without selected placeholders. `validG dom g d`: `dom = fun _ _ => true` is
  exactly what `DNASpec.validate` accepts (any str-valued DNA for a custom decision point);
  `validG W.dom` additionally keeps custom genomes within the hooks' range. `nfD d`: `d` is a DNA
  object. `wfT t`: what the constructors of `OneOf` / `ManyOf` / `geno.Choices` enforce.
-/
import PgModel.HyperSpec
import PgProofs.Hyper
import PgProofs.HyperEnum
import PgProofs.HyperDist
import PgProofs.HyperSound
import PgProofs.HyperBound
import PgProofs.HyperChoice
namespace Pg.C13

/-! ## Hooks -/

/-- No custom hooks (for templates without custom hyper primitives), filter `f`. -/
def noHooks (f : Nat → Bool) : Cfg := ⟨f, fun _ _ => none, fun _ _ => none, fun _ _ => false⟩

def noFilter : Cfg := noHooks (fun _ => true)

theorem noHooks_lawful (f : Nat → Bool) :
    HooksLawful (noHooks f) ∧ HooksPlain (noHooks f) ∧ HooksEncSound (noHooks f) :=
  ⟨fun _ _ h => by simp [noHooks] at h, fun _ _ _ h => by simp [noHooks] at h,
   fun _ _ _ h => by simp [noHooks] at h⟩

/-- A well-behaved custom hyper (the harness's `StrId`): the decoded value *is* the genome string. -/
def strHooks (f : Nat → Bool) : Cfg where
  sel := f
  dec := fun _ d => match d with
    | .mk (some (.str g)) [] => some (.const (.str g))
    | _ => none
  enc := fun _ v => match v with
    | .const (.str g) => some (.mk (some (.str g)) [])
    | _ => none
  dom := fun _ d => match d with
    | .mk (some (.str _)) [] => true
    | _ => false

/-- The hypotheses are satisfiable by a non-trivial hook. -/
theorem strHooks_lawful (f : Nat → Bool) :
    HooksLawful (strHooks f) ∧ HooksPlain (strHooks f) ∧ HooksEncSound (strHooks f) := by
  refine ⟨?_, ?_, ?_⟩
  · intro cid d h
    match d, h with
    | .mk (some (.str g)) [], _ => exact ⟨.const (.str g), rfl, rfl, rfl⟩
  · intro cid d v h
    match d, h with
    | .mk (some (.str g)) [], h =>
      simp only [strHooks, Option.some.injEq] at h
      subst h; rfl
  · intro cid v d h
    match v, h with
    | .const (.str g), h =>
      simp only [strHooks, Option.some.injEq] at h
      subst h
      exact ⟨by simp [nfD, nfL], ⟨g, rfl⟩, .const (.str g), rfl, by simp [eqvT, Atom.pyEq]⟩

/-! ## Decode -/

/-- For every template, every filter and every DNA that `validate` accepts: decoding succeeds,
the result has no selected placeholder left, and it has the shape the template prescribes. -/
theorem C13_decode_total (W : Cfg) (t : Tmpl) (d : DNA)
    (hL : HooksLawful W) (hP : HooksPlain W)
    (hwf : wfT t = true) (hv : validG W.dom (dnaSpec W t) d = true) :
    ∃ v, decode W t d = .ok v ∧ detT W v = true ∧ shapeT W t v = true := by
  obtain ⟨v, hdec, _⟩ := StD_all W hL t d hv
  exact ⟨v, hdec, DsD_all W hP t hwf d v hdec⟩

/-- The same two facts for *any* successful decode (also of a DNA `validate` would reject). -/
theorem C13_decode_shape (W : Cfg) (t : Tmpl) (d : DNA) (v : Tmpl)
    (hP : HooksPlain W) (hwf : wfT t = true) (hdec : decode W t d = .ok v) :
    detT W v = true ∧ shapeT W t v = true :=
  DsD_all W hP t hwf d v hdec

/-- Without a filter the decoded value contains no placeholder at all (`pg.is_deterministic`). -/
theorem C13_decode_deterministic_value (W : Cfg) (hP : HooksPlain W) (hall : ∀ tag, W tag = true)
    (t : Tmpl) (d : DNA) (v : Tmpl) (hwf : wfT t = true) (hdec : decode W t d = .ok v) :
    detT W v = true ∧ ∀ tag, W tag = true :=
  ⟨(DsD_all W hP t hwf d v hdec).1, hall⟩

/-- Decoding is a function: two decodes of the same DNA give the same value. In the pure model
`decode` / `encode` cannot modify the template; on the code this part of the property is carried
by the correspondence run (template JSON before / after every call). -/
theorem C13_deterministic (W : Cfg) (t : Tmpl) (d : DNA) (v₁ v₂ : Tmpl)
    (h₁ : decode W t d = .ok v₁) (h₂ : decode W t d = .ok v₂) : v₁ = v₂ := by
  rw [h₁] at h₂; cases h₂; rfl

/-! ## Purity: histories of calls -/

theorem runOps_append (W : Cfg) (t : Tmpl) (a b : List Op) :
    runOps W t (a ++ b) = runOps W t a ++ runOps W t b := by
  induction a with
  | nil => rfl
  | cons o os ih => cases o <;> simp [runOps, ih]

/-- decode is a function of (template, filter / hooks, DNA): whatever calls came before — other
decodes, encodes, of any DNAs and values — the result of decoding `d` is `decode W t d`. On the code
this is checked by three-step histories on one DNA (decode; `random_dna` / `next_dna` of every custom
/ evolvable placeholder with that DNA as parent and an in-place edit of another decoded value; decode
again, compared with a snapshot), which also check that results share no mutable state with the
template or with each other. -/
theorem C13_history_independent (W : Cfg) (t : Tmpl) (pre : List Op) (d : DNA) :
    (runOps W t (pre ++ [.decode d])).getLast? = some (.value (decode W t d)) := by
  rw [runOps_append]
  simp [runOps]

/-! ## Encode after decode -/

/-- The property at full strength: for a distinguishable template, every DNA object accepted by
`validate` is recovered by encoding its decoded value. Placeholders may be nested in containers
and in candidates of other placeholders to any depth; all four `distinct` × `sorted` modes; any
filter. (Until finding F85 was repaired in `validate` this needed an exclusion: a stray value on
the root of a multi-element space / on a multi-choice node was accepted and lost.) -/
theorem C13_inverse (W : Cfg) (t : Tmpl) (d : DNA) (v : Tmpl)
    (hL : HooksLawful W)
    (hwf : wfT t = true) (hdist : DistT W t) (hnf : nfD d = true)
    (hv : validG W.dom (dnaSpec W t) d = true) (hdec : decode W t d = .ok v) :
    encode W t v = .ok d := by
  obtain ⟨v', hdec', henc⟩ := StD_all W hL t d hv
  rw [hdec] at hdec'
  cases hdec'
  exact henc hwf hdist hnf

/-- The same as an existence statement: a valid DNA object of a distinguishable template
decodes, and the decoded value encodes back to it. -/
theorem C13_inverse_exists (W : Cfg) (t : Tmpl) (d : DNA)
    (hL : HooksLawful W)
    (hwf : wfT t = true) (hdist : DistT W t) (hnf : nfD d = true)
    (hv : validG W.dom (dnaSpec W t) d = true) :
    ∃ v, decode W t d = .ok v ∧ encode W t v = .ok d := by
  obtain ⟨v', hdec', henc⟩ := StD_all W hL t d hv
  exact ⟨v', hdec', henc hwf hdist hnf⟩

/-! ### Witnesses -/


/-- `pg.Dict(a=pg.floatv(0, 1), b=pg.floatv(0, 1))`. -/
def tTwoFloats : Tmpl :=
  .node (.dict ["a", "b"]) [.floatv 1 ⟨0, 0⟩ ⟨1, 0⟩, .floatv 2 ⟨0, 0⟩ ⟨1, 0⟩]

/-- `DNA(5, [0.0, 1.0])`: decode ignores the value 5, encode returns `DNA([0.0, 1.0])`. -/
def dStray : DNA := .mk (some (.idx 5)) [.mk (some (.flt ⟨0, 0⟩)) [], .mk (some (.flt ⟨1, 0⟩)) []]

/-- The former counterexample (finding F85) is a DNA object that decodes but does not encode back;
`validate` now rejects it, which is why `C13_inverse` needs no exclusion. Its witness is replayed on
the code on every run (a `fixed` finding). -/
theorem C13_stray_value_rejected :
    nfD dStray = true ∧ validG noFilter.dom (dnaSpec noFilter tTwoFloats) dStray = false ∧
    (∃ v, decode noFilter tTwoFloats dStray = .ok v ∧
      encode noFilter tTwoFloats v = .ok (.mk none [.mk (some (.flt ⟨0, 0⟩)) [], .mk (some (.flt ⟨1, 0⟩)) []])) :=
  ⟨by decide, by decide, _, rfl, rfl⟩

/-- `pg.oneof([1, 1])`: the later candidate decodes to what the earlier one encodes. -/
def tAmbiguous : Tmpl := .choice 1 true 1 [.const (.int 1), .const (.int 1)] true false

/-- "Whenever the candidates are distinguishable" cannot be dropped: `oneof([1, 1])` decodes
`DNA(1)` to `1` and encodes `1` to `DNA(0)` (first matching candidate wins). -/
theorem C13_inverse_needs_distinguishable :
    ¬ (∀ (W : Cfg) (t : Tmpl) (d : DNA) (v : Tmpl), HooksLawful W →
        wfT t = true → nfD d = true → validG W.dom (dnaSpec W t) d = true →
        decode W t d = .ok v → encode W t v = .ok d) := by
  intro h
  have hd : decode noFilter tAmbiguous (.mk (some (.idx 1)) []) = .ok (.const (.int 1)) := by rfl
  have h1 := h noFilter tAmbiguous (.mk (some (.idx 1)) []) _ (noHooks_lawful _).1 (by decide) (by decide) (by decide) hd
  have h2 : encode noFilter tAmbiguous (.const (.int 1)) = .ok (.mk (some (.idx 0)) []) := by rfl
  rw [h2] at h1
  cases h1

/-! ## Custom hyper primitives (`CustomHyper` subclasses, `pg.evolve`) -/

/-- `pg.Dict(x=pg.oneof([StrId(), 5]), y=StrId())` with `StrId` the custom hyper of `strHooks`. -/
def tCustom : Tmpl :=
  .node (.dict ["x", "y"]) [.choice 1 true 1 [.custom 2 0, .const (.int 5)] true false, .custom 3 0]

/-- The inverse law for a template with custom hypers nested in a choice, under the hooks' contract
(an instance of `C13_inverse`; spelled out with all hypotheses discharged for the lawful `strHooks`).
`DistT` is proved by hand here: a custom hyper may encode anything, so the head-level check
`headDistinct` never certifies a choice that has a custom candidate. -/
theorem C13_custom_inverse (d : DNA) (v : Tmpl)
    (hdist : DistT (strHooks fun _ => true) tCustom) (hnf : nfD d = true)
    (hv : validG (strHooks fun _ => true).dom (dnaSpec (strHooks fun _ => true) tCustom) d = true)
    (hdec : decode (strHooks fun _ => true) tCustom d = .ok v) :
    encode (strHooks fun _ => true) tCustom v = .ok d :=
  C13_inverse _ tCustom d v (strHooks_lawful _).1 (by decide) hdist hnf hv hdec

example : validG (strHooks fun _ => true).dom (dnaSpec (strHooks fun _ => true) tCustom)
    (.mk none [.mk (some (.idx 0)) [.mk (some (.str "ab")) []], .mk (some (.str "c")) []]) = true := by decide
example : decode (strHooks fun _ => true) tCustom
    (.mk none [.mk (some (.idx 0)) [.mk (some (.str "ab")) []], .mk (some (.str "c")) []]) =
    .ok (.node (.dict ["x", "y"]) [.const (.str "ab"), .const (.str "c")]) := by rfl

/-- An ill-behaved hook: `custom_encode` always answers the genome "b". -/
def badHooks : Cfg :=
  { strHooks (fun _ => true) with enc := fun _ _ => some (.mk (some (.str "b")) []) }

/-- The hooks' contract cannot be dropped: with `badHooks` the DNA `"a"` is valid, decodes, and is
encoded to `"b"`. (The harness reports such hooks as *hypothesis-violating*, not as a defect.) -/
theorem C13_inverse_needs_lawful_hooks :
    ¬ (∀ (W : Cfg) (t : Tmpl) (d : DNA) (v : Tmpl),
        wfT t = true → DistT W t → nfD d = true → validG W.dom (dnaSpec W t) d = true →
        decode W t d = .ok v → encode W t v = .ok d) := by
  intro h
  have h1 := h badHooks (.custom 1 0) (.mk (some (.str "a")) []) (.const (.str "a")) (by decide)
    (by simp [DistT]) (by decide) (by decide) (by rfl)
  have h2 : encode badHooks (.custom 1 0) (.const (.str "a")) = .ok (.mk (some (.str "b")) []) := by rfl
  rw [h2] at h1
  simp at h1

/-! ## ManyOf constraints and the first-match rule -/

/-- Every DNA that the spec of a selected `manyof` (any `distinct` × `sorted` mode, nested candidates
allowed) accepts is decoded, and the decoded value encodes back to that DNA (instance of
`C13_inverse` at a root `manyof`, stated for reference). -/
theorem C13_manyof_roundtrip (W : Cfg) (hL : HooksLawful W) (tag k : Nat) (cands : List Tmpl) (dst so : Bool)
    (d : DNA) (hwf : wfT (.choice tag false k cands dst so) = true)
    (hdist : DistT W (.choice tag false k cands dst so)) (hnf : nfD d = true)
    (hv : validG W.dom (dnaSpec W (.choice tag false k cands dst so)) d = true) :
    ∃ v, decode W (.choice tag false k cands dst so) d = .ok v ∧
      encode W (.choice tag false k cands dst so) v = .ok d :=
  C13_inverse_exists W _ d hL hwf hdist hnf hv

/-- `Choices._decode` rejects every DNA outside the constrained space: if a selected multi-choice
(`k ≠ 1`) decodes a DNA at all, the DNA has exactly `k` integer sub-choices and their index sequence
satisfies the `distinct` / `sorted` constraints that `dna_spec` hands to `geno.Choices`. -/
theorem C13_manyof_decode_constrained (W : Cfg) (tag k : Nat) (one : Bool) (cands : List Tmpl) (dst so : Bool)
    (d : DNA) (v : Tmpl) (hW : W tag = true) (hk : k ≠ 1)
    (h : decode W (.choice tag one k cands dst so) d = .ok v) :
    d.children.length = k ∧ ∃ is, allIdx d.children = some is ∧ constraintOk dst so is = true :=
  manyof_decode_constrained W tag k one cands dst so d v hW hk h

/-- The `distinct` / `sorted` flags and `k` reach `geno.Choices` unchanged through `dna_spec`. -/
theorem C13_manyof_spec (W : Cfg) (tag k : Nat) (one : Bool) (cands : List Tmpl) (dst so : Bool)
    (hW : W tag = true) :
    dnaSpec W (.choice tag one k cands dst so) = .space [.choices k (cands.map (dnaSpec W)) dst so] := by
  simp [dnaSpec, specT, hW, candSpecs_eq]

example : decode noFilter (.choice 1 false 2 [.const (.int 1), .const (.int 2), .const (.int 3)] true true)
    (.mk none [.mk (some (.idx 1)) [], .mk (some (.idx 0)) []]) = .error .value := by rfl   -- not sorted
example : decode noFilter (.choice 1 false 2 [.const (.int 1), .const (.int 2), .const (.int 3)] true false)
    (.mk none [.mk (some (.idx 1)) [], .mk (some (.idx 1)) []]) = .error .value := by rfl   -- not distinct

/-- The sweep of a multi-choice (what `pg.iter` walks through) only produces index sequences of
length `k` that satisfy the `distinct` / `sorted` constraints: iteration never leaves the
constrained space that `validate` / `decode` accept. -/
theorem C13_manyof_sweep_constrained (subs : List (List DNA)) (dst so : Bool) (k : Nat) :
    ∀ ds ∈ enumMulti subs dst so k [],
      ∃ is, allIdx ds = some is ∧ is.length = k ∧ constraintOk dst so is = true := by
  intro ds hds
  obtain ⟨is, h1, h2, h3⟩ := enumMulti_constrained subs dst so k [] (by simp [constraintOk, nodupNat, sortedNat]) ds hds
  exact ⟨is, h1, h2, by simpa using h3⟩

/-- **First-match rule of `encode`.** A value that several candidates of a selected `oneof` can
encode is attributed to the *first* of them: the DNA carries the least matching index. -/
theorem C13_first_match (W : Cfg) (tag k : Nat) (cands : List Tmpl) (dst so : Bool) (v : Tmpl) (d : DNA)
    (hW : W tag = true) (h : encode W (.choice tag true k cands dst so) v = .ok d) :
    ∃ i c child, cands[i]? = some c ∧ encode W c v = .ok child ∧
      (∀ j cj, j < i → cands[j]? = some cj → ∀ d', encode W cj v ≠ .ok d') ∧
      d = DNA.norm none [DNA.norm none [DNA.norm (some (.idx i)) [child]]] :=
  oneof_encode_first_match W tag k cands dst so v d hW h

/-- Class hierarchies: a candidate matches a value only if the classes are *exactly* the same
(`type(input) is type(template)`, object_template.py), not when the value is an instance of a
subclass with the same field keys. With `class D(A)` (class numbers 3 and 0, same fields) the value
decoded from the `D` candidate is encoded to the `D` candidate, also when the `A` candidate comes first. -/
example : encode noFilter
    (.choice 1 true 1 [.node (.obj 0 ["x", "y"]) [.const (.int 8), .const (.int 9)],
                       .node (.obj 3 ["x", "y"]) [.const (.int 8), .const (.int 9)]] true false)
    (.node (.obj 3 ["x", "y"]) [.const (.int 8), .const (.int 9)]) = .ok (.mk (some (.idx 1)) []) := by rfl
example : headDistinct noFilter
    (.choice 1 true 1 [.node (.obj 0 ["x", "y"]) [.const (.int 8), .const (.int 9)],
                       .node (.obj 3 ["x", "y"]) [.const (.int 8), .const (.int 9)]] true false) = true := by decide

/-! ## Dynamic evaluation (`pg.hyper.trace` / `DynamicEvaluationContext`) -/

/-- A function that requests the placeholders `ps` one after the other is modelled as the template
`[p₁, …, pₙ]`: the decision points are collected in call order, each with its own sub-space, and the
`where` filter drops exactly the unselected ones (a filtered-out choice is still searched for
selected placeholders inside its candidates). On the code, `pg.hyper.trace(fn, where).dna_spec` and
`ctx.apply(dna)` are compared with this model on every generated case. -/
theorem C13_trace_collection (W : Cfg) (ps : List Tmpl) :
    dnaSpec W (.node .list ps) = .space (ps.flatMap (specT W)) := by
  simp only [dnaSpec, specT]
  congr 1
  induction ps with
  | nil => simp [specL]
  | cons p ps ih => simp [specL, ih]

/-! ## A decidable sufficient condition for "distinguishable" -/

/-- If, in every selected choice, no earlier candidate matches the outermost shape (atom, container
kind and size, float range, filtered-out placeholder) of anything a later candidate decodes to,
the candidates are distinguishable. This is the condition the harness evaluates
(`head_distinct`) before it demands `encode(decode(d)) == d` of the real code. -/
theorem C13_headDistinct_sufficient (W : Cfg) (t : Tmpl)
    (hP : HooksPlain W) (hwf : wfT t = true) (h : headDistinct W t = true) : DistT W t :=
  headDistinct_sound W hP t hwf h

/-- The inverse law with decidable hypotheses only. -/
theorem C13_inverse_decidable (W : Cfg) (t : Tmpl) (d : DNA) (v : Tmpl)
    (hL : HooksLawful W) (hP : HooksPlain W)
    (hwf : wfT t = true) (hhd : headDistinct W t = true) (hnf : nfD d = true)
    (hv : validG W.dom (dnaSpec W t) d = true) (hdec : decode W t d = .ok v) :
    encode W t v = .ok d :=
  C13_inverse W t d v hL hwf (headDistinct_sound W hP t hwf hhd) hnf hv hdec

/-- Decoding is injective on strictly valid DNA objects of a distinguishable template: different
DNAs give different values. -/
theorem C13_decode_injective (W : Cfg) (t : Tmpl) (d₁ d₂ : DNA) (v : Tmpl) (hL : HooksLawful W)
    (hwf : wfT t = true) (hdist : DistT W t)
    (hnf₁ : nfD d₁ = true) (hv₁ : validG W.dom (dnaSpec W t) d₁ = true) (h₁ : decode W t d₁ = .ok v)
    (hnf₂ : nfD d₂ = true) (hv₂ : validG W.dom (dnaSpec W t) d₂ = true) (h₂ : decode W t d₂ = .ok v) :
    d₁ = d₂ := by
  have e₁ := C13_inverse W t d₁ v hL hwf hdist hnf₁ hv₁ h₁
  have e₂ := C13_inverse W t d₂ v hL hwf hdist hnf₂ hv₂ h₂
  rw [e₁] at e₂
  cases e₂
  rfl

/-! ## Iteration -/

/-- For a finite space, `pg.iter` (sweeping) yields exactly `space_size` values. (`enumG` is the
model of the sweep, `sizeG` of `space_size`; both are tied to the code by the correspondence
run. That the swept DNAs are pairwise different valid DNA objects is C11's theorem; together with
`C13_decode_injective` it gives pairwise different values.) -/
theorem C13_iter_count (W : Cfg) (t : Tmpl) (n : Nat)
    (h : sizeG (dnaSpec W t) = some n) : (iter W t).length = n := by
  simp [iter, enumG_length _ n h]

/-! ## Encode of arbitrary values (beyond the property text) -/

/-- `pg.List([2, pg.oneof([6, 7])])`; the value `[2.0, 7]` is encoded (2 == 2.0) to `DNA(1)`. -/
def tNestedSound : Tmpl :=
  .node .list [.const (.int 2), .choice 1 true 1 [.const (.int 6), .const (.int 7)] true false]


/-- `encode t v = ok d → d` is valid — not demanded by the property, and false on the code:
`Choices.encode` does not check the `distinct` / `sorted` constraints. -/
def C13_encode_sound_Full : Prop :=
  ∀ (W : Cfg) (t v : Tmpl) (d : DNA),
    wfT t = true → encode W t v = .ok d → validG W.dom (dnaSpec W t) d = true

/-- `pg.manyof(2, [1, 2, 3])` (distinct) encodes `[1, 1]` to `DNA([0, 0])`, which `validate` rejects. -/
theorem C13_encode_sound_counterexample : ¬ C13_encode_sound_Full := by
  intro h
  have := h noFilter
    (.choice 1 false 2 [.const (.int 1), .const (.int 2), .const (.int 3)] true false)
    (.node .list [.const (.int 1), .const (.int 1)])
    (.mk none [.mk (some (.idx 0)) [], .mk (some (.idx 0)) []]) (by decide) (by rfl)
  revert this
  decide

/-- The positive part (every template, filter and value, no distinguishability needed): whatever
`encode` returns is a DNA object, and **if it is valid** it decodes to a value equal (Python `==`:
structural, `1 == 1.0` at the leaves) to the encoded one. The excluded case is exactly the one of the
counterexample above (`validG … d = false`, decidable). -/
theorem C13_encode_sound_partial (W : Cfg) (t v : Tmpl) (d : DNA) (hE : HooksEncSound W)
    (henc : encode W t v = .ok d) :
    nfD d = true ∧
    (validG W.dom (dnaSpec W t) d = true → ∃ v', decode W t d = .ok v' ∧ eqvT v' v = true) :=
  EsD_all W hE t v d henc

example : encode noFilter tTwoFloats (.node (.dict ["a", "b"]) [.const (.flt ⟨1, 1⟩), .const (.int 1)]) =
    .error .value := by rfl      -- the int 1 is not a float: rejected, as `Float.encode` does
example : ∃ d, encode noFilter tNestedSound (.node .list [.const (.flt ⟨2, 0⟩), .const (.int 7)]) = .ok d ∧
    validG noFilter.dom (dnaSpec noFilter tNestedSound) d = true := ⟨_, rfl, by decide⟩

/-! ## Bound value specs -/

/-- "Accepted by any value spec the placeholders were bound to", for bounded numeric field specs
(`pg.typing.Float / Int (min_value, max_value)`, either bound optional, bounds of 0 included): if the
field accepted the template at binding time (`okB`: a number within the bounds, a `floatv` whose
range is within the bounds, a `oneof` of accepted candidates), it accepts every decoded value —
for every filter (a filtered-out placeholder left in place is still accepted). -/
theorem C13_bound_spec_accepts (W : Cfg) (b : Bound) (t : Tmpl) (d : DNA) (v : Tmpl)
    (hP : HooksPlain W)
    (hwf : wfT t = true) (hok : okB b t = true) (hdec : decode W t d = .ok v) : okB b v = true :=
  okB_shape W b t v hok (DsD_all W hP t hwf d v hdec).2

/-- Without a filter the accepted decoded value is a number within the bounds. -/
theorem C13_bound_spec_number (b : Bound) (t : Tmpl) (d : DNA) (v : Tmpl)
    (hwf : wfT t = true) (hok : okB b t = true) (hdec : decode noFilter t d = .ok v) :
    ∃ a x, v = .const a ∧ a.num? = some x ∧ b.has x = true := by
  have h1 := okB_shape noFilter b t v hok (DsD_all noFilter (noHooks_lawful _).2.1 t hwf d v hdec).2
  have h2 := (DsD_all noFilter (noHooks_lawful _).2.1 t hwf d v hdec).1
  cases v with
  | const a =>
    simp only [okB] at h1
    cases ha : a.num? with
    | none => simp [ha] at h1
    | some x => exact ⟨a, x, rfl, ha, by simpa [ha] using h1⟩
  | node l vs => simp [okB] at h1
  | choice tag one k cs ds so => simp [detT, noFilter, noHooks] at h2
  | floatv tag lo hi => simp [detT, noFilter, noHooks] at h2
  | custom tag cid => simp [okB] at h1

/-- A `floatv` that straddles a zero bound is *not* accepted (what `Float.custom_apply` must refuse;
the seeded regression `if float_spec.min_value and …` accepts it). -/
example : okB ⟨some ⟨0, 0⟩, none⟩ (.floatv 1 ⟨-1, 0⟩ ⟨1, 0⟩) = false := by decide
example : okB ⟨some ⟨0, 0⟩, none⟩ (.choice 2 true 1 [.floatv 1 ⟨0, 0⟩ ⟨1, 0⟩, .const (.flt ⟨3, 1⟩)] true false) = true := by
  decide

/-! ## Two-stage decoding -/

/-- A value decoded under a filter is a well-formed template again, and decoding *it* (no filter)
with any DNA valid for its own spec succeeds, leaves no placeholder, and stays within the shape of
the **original** template. (On the code this requires that the partially decoded value carries
no state computed from the placeholders it no longer contains; the harness compares the dna_spec
of the partial value with the model's and with an equal value constructed from scratch.) -/
theorem C13_two_stage (W : Cfg) (t : Tmpl) (d₁ d₂ : DNA) (v : Tmpl)
    (hL : HooksLawful W) (hP : HooksPlain W)
    (hwf : wfT t = true) (h₁ : decode W t d₁ = .ok v)
    (hv₂ : validG W.dom (dnaSpec (allOf W) v) d₂ = true) :
    wfT v = true ∧ ∃ v₂, decode (allOf W) v d₂ = .ok v₂ ∧ detT (allOf W) v₂ = true ∧
      shapeT (allOf W) v v₂ = true ∧ shapeT (allOf W) t v₂ = true := by
  have hs := (DsD_all W hP t hwf d₁ v h₁).2
  have hwfv := wfT_shape W t v hwf hs
  obtain ⟨v₂, hdec₂, hdet, hsh⟩ := C13_decode_total (allOf W) v d₂ hL hP hwfv hv₂
  exact ⟨hwfv, v₂, hdec₂, hdet, hsh, shape_comp W t v v₂ hs hsh⟩

/-- `Dict(x=oneof([oneof([1, 2], tag 2), 3], tag 1))`, first stage selects the inner choice only:
the partial value is `oneof([2, 3])` with a space of 2 points (the seeded regression kept 3). -/
example : decode (noHooks (fun tag => tag == 2))
      (.choice 1 true 1 [.choice 2 true 1 [.const (.int 1), .const (.int 2)] true false, .const (.int 3)] true false)
      (.mk (some (.idx 1)) []) =
    .ok (.choice 1 true 1 [.const (.int 2), .const (.int 3)] true false) := by rfl
example : sizeG (dnaSpec noFilter (.choice 1 true 1 [.const (.int 2), .const (.int 3)] true false)) = some 2 := by
  decide

/-! ## Non-vacuity -/

/-- `pg.Dict(x=pg.oneof([pg.manyof(2, [pg.oneof([4, 5]), 6, 7]), 'bar', pg.floatv(0, 1)]), y=pg.floatv(2, 3))`:
placeholders nested in candidates of placeholders. -/
def tNested : Tmpl :=
  .node (.dict ["x", "y"])
    [.choice 1 true 1
      [.choice 2 false 2 [.choice 3 true 1 [.const (.int 4), .const (.int 5)] true false,
                          .const (.int 6), .const (.int 7)] true false,
       .const (.str "bar"),
       .floatv 4 ⟨0, 0⟩ ⟨1, 0⟩] true false,
     .floatv 5 ⟨2, 0⟩ ⟨3, 0⟩]

/-- `DNA([(0, [(0, 1), 2]), 2.5])`. -/
def dNested : DNA :=
  .mk none [.mk (some (.idx 0)) [.mk (some (.idx 0)) [.mk (some (.idx 1)) []], .mk (some (.idx 2)) []],
            .mk (some (.flt ⟨5, 1⟩)) []]

example : wfT tNested = true := by decide
example : headDistinct noFilter tNested = true := by decide
example : nfD dNested = true := by decide
example : validG noFilter.dom (dnaSpec noFilter tNested) dNested = true := by decide
example : decode noFilter tNested dNested =
    .ok (.node (.dict ["x", "y"]) [.node .list [.const (.int 5), .const (.int 7)], .const (.flt ⟨5, 1⟩)]) := by rfl
/-- with a filter that selects the outer choice and `y` only (the inner placeholders stay) -/
example : headDistinct (noHooks (fun tag => tag == 1 || tag == 5)) tNested = true := by decide
example : validG (fun _ _ => true) (dnaSpec (noHooks (fun tag => tag == 1 || tag == 5)) tNested)
    (.mk none [.mk (some (.idx 0)) [], .mk (some (.flt ⟨5, 1⟩)) []]) = true := by decide
example : sizeG (dnaSpec noFilter (.choice 1 false 2 [.const (.int 1), .const (.int 2), .const (.int 3)] true true)) = some 3 := by
  decide

end Pg.C13
