/- C02 — property theorems (work in progress). -/
import PgModel.Container
namespace Pg.C02

theorem C02_stub : specL [] ⟨.len, true⟩ = implL [] ⟨.len, true⟩ := rfl

end Pg.C02
