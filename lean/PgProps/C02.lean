/-
  C02 — pg.List / pg.Dict behave as Python list / dict under every mutation history.
  Property theorems only. Model: PgModel/Container.lean (Spec layer `specL`/`specD` = Python's own
  containers + the documented extensions; Impl model `implL`/`implD` = what pg.List / pg.Dict do on
  the tree with fixes/C02-F04, -F06, -F07 applied). Helper lemmas: PgProofs/Container*.lean.

  Vocabulary
  * `Good xs` / `GoodD kvs` — state invariant: no stored value is `MISSING` or contains one.
  * `admissibleL xs st` / `admissibleD st` (PgProofs/ContainerMain.lean, ContainerDict.lean) — the
    explicit decidable domain of the refinement: arguments without *nested* `MISSING`; with change
    notification off, no step that leaves a `MISSING` placeholder (finding F03); non-negative
    `rebind` indices.
  * `LOut` / `DOut` — state after the step and `Except Err Val` (result or error *class*).
-/
import PgProofs.ContainerConv
namespace Pg.C02

/-! ## Histories -/

/-- Everything observable along a history: state and result (or error class) after every step. -/
def traceL (step : List Val → LStep → LOut) (xs : List Val) : List LStep → List LOut
  | [] => []
  | s :: rest => step xs s :: traceL step (step xs s).st rest

def traceD (step : List (Key × Val) → DStep → DOut) (kvs : List (Key × Val)) : List DStep → List DOut
  | [] => []
  | s :: rest => step kvs s :: traceD step (step kvs s).st rest

/-- Admissibility of a whole history, evaluated along the *reference* run. -/
def admissibleHistL : List Val → List LStep → Bool
  | _, [] => true
  | xs, s :: rest => admissibleL xs s && admissibleHistL (specL xs s).st rest

def admissibleHistD : List (Key × Val) → List DStep → Bool
  | _, [] => true
  | kvs, s :: rest => admissibleD s && admissibleHistD (specD kvs s).st rest

/-! ## Lists -/

/-- FULL STATEMENT (not provable, see the counterexamples): every step of `pg.List` is the step of a
Python list, from every good state. -/
def C02_list_refines_Full : Prop :=
  ∀ (xs : List Val) (st : LStep), Good xs → implL xs st = specL xs st

/-- One step, all 28 list operations, every index / slice / step / value: on an admissible step from a
good state `pg.List` ends in the same contents and order, returns the same result and raises the
same error class as the Python list (+ extensions). -/
theorem C02_list_refines_partial (xs : List Val) (st : LStep) (hg : Good xs)
    (ha : admissibleL xs st = true) : implL xs st = specL xs st :=
  step_list xs st hg ha

/-- The invariant is kept, so the step theorem applies along a whole history. -/
theorem C02_list_invariant (xs : List Val) (st : LStep) (hg : Good xs) (ha : admissibleL xs st = true) :
    Good (specL xs st).st :=
  specL_good xs st hg ha

/-- Construction from a plain list: same contents as the reference, and a good state. -/
theorem C02_list_construct (init : List Val) (h : ∀ v ∈ init, missingFree v = true) :
    PgList.construct init = purge init ∧ Good (purge init) := by
  refine ⟨?_, good_purge h⟩
  unfold PgList.construct
  rw [extendRaw_eq [] false init h]
  simp

/-- All histories: the complete traces (contents, order, result, error class after every
operation) of `pg.List` and of the Python list coincide. By induction on the history. -/
theorem C02_list_history (xs : List Val) (ops : List LStep) (hg : Good xs)
    (ha : admissibleHistL xs ops = true) : traceL implL xs ops = traceL specL xs ops := by
  induction ops generalizing xs with
  | nil => rfl
  | cons s rest ih =>
    simp only [admissibleHistL, Bool.and_eq_true] at ha
    have hs := step_list xs s hg ha.1
    simp only [traceL, hs]
    rw [ih _ (specL_good xs s hg ha.1) ha.2]

/-- … in particular the final contents. -/
theorem C02_list_final (xs : List Val) (ops : List LStep) (hg : Good xs)
    (ha : admissibleHistL xs ops = true) :
    runL implL xs ops = runL specL xs ops ∧ Good (runL specL xs ops) := by
  induction ops generalizing xs with
  | nil => exact ⟨rfl, hg⟩
  | cons s rest ih =>
    simp only [admissibleHistL, Bool.and_eq_true] at ha
    simp only [runL, step_list xs s hg ha.1]
    exact ih _ (specL_good xs s hg ha.1) ha.2

/-! ### Arbitrary arguments (nested `MISSING` included): extension 4 made explicit

`convStep` replaces every *stored* argument by its symbolic form `conv v` (what `base.from_json`
makes of a plain value: nested containers become symbolic, and their constructors drop nested
`MISSING`). With it the `missingFree` restriction on arguments disappears; what remains excluded is
finding F03 (`admissibleConvL`). -/

def admissibleHistConvL : List Val → List LStep → Bool
  | _, [] => true
  | xs, s :: rest => admissibleConvL xs s && admissibleHistConvL (specL xs (convStep s)).st rest

/-- One step, *every* argument value: `pg.List` does what the Python list does with the converted
arguments (contents, order, result, error class). -/
theorem C02_list_refines_conv (xs : List Val) (st : LStep) (hg : Good xs)
    (ha : admissibleConvL xs st = true) : implL xs st = specL xs (convStep st) := by
  rw [← implL_conv]
  exact step_list xs _ hg (admissible_of_conv ha)

theorem C02_list_invariant_conv (xs : List Val) (st : LStep) (hg : Good xs)
    (ha : admissibleConvL xs st = true) : Good (specL xs (convStep st)).st :=
  specL_good xs _ hg (admissible_of_conv ha)

/-- All histories with arbitrary arguments. -/
theorem C02_list_history_conv (xs : List Val) (ops : List LStep) (hg : Good xs)
    (ha : admissibleHistConvL xs ops = true) :
    traceL implL xs ops = traceL specL xs (ops.map convStep) := by
  induction ops generalizing xs with
  | nil => rfl
  | cons s rest ih =>
    simp only [admissibleHistConvL, Bool.and_eq_true] at ha
    have hs := C02_list_refines_conv xs s hg ha.1
    simp only [traceL, List.map_cons, hs]
    rw [ih _ (C02_list_invariant_conv xs s hg ha.1) ha.2]

/-! ### Read-back after any history (each is Python's own function on the reference contents) -/

theorem C02_readback_getitem (xs : List Val) (ops : List LStep) (hg : Good xs)
    (ha : admissibleHistL xs ops = true) (i : Int) (nt : Bool) :
    (implL (runL implL xs ops) ⟨.get i, nt⟩).res = PyList.getItem (runL specL xs ops) i := by
  rw [(C02_list_final xs ops hg ha).1]
  simp only [implL, getItem_eq]

theorem C02_readback_slice (xs : List Val) (ops : List LStep) (hg : Good xs)
    (ha : admissibleHistL xs ops = true) (s : Slice) (nt : Bool) :
    (implL (runL implL xs ops) ⟨.getSlice s, nt⟩).res = (PyList.getSlice (runL specL xs ops) s).map Val.list := by
  rw [(C02_list_final xs ops hg ha).1]
  simp only [implL, getSlice_eq]

/-- `len`, `in`, `index`, `count`, iteration / `==` (the contents themselves), `copy`, `+`, `*`. -/
theorem C02_readback_other (xs : List Val) (ops : List LStep) (hg : Good xs)
    (ha : admissibleHistL xs ops = true) (nt : Bool) (v : Val) (vs : List Val) (n : Int)
    (hv : ∀ w ∈ vs, missingFree w = true) :
    let ys := runL implL xs ops
    let ps := runL specL xs ops
    ys = ps ∧
    (implL ys ⟨.len, nt⟩).res = .ok (.int ps.length) ∧
    (implL ys ⟨.contains v, nt⟩).res = .ok (.bool (findIdx v ps).isSome) ∧
    (implL ys ⟨.count v, nt⟩).res = .ok (.int (countEq v ps)) ∧
    (implL ys ⟨.copy, nt⟩).res = .ok (.list ps) ∧
    (implL ys ⟨.add vs, nt⟩).res = .ok (.list (purge (ps ++ vs))) ∧
    (implL ys ⟨.mul n, nt⟩).res = .ok (.list (PyList.mul ps n)) := by
  obtain ⟨h1, h2⟩ := C02_list_final xs ops hg ha
  simp only [h1]
  refine ⟨trivial, rfl, rfl, rfl, ?_, ?_, ?_⟩
  · rw [step_copy _ nt h2]; rfl
  · rw [step_add _ vs nt h2 hv]; rfl
  · rw [step_mul _ n nt h2]; rfl

/-! ### The Spec layer itself (sanity of the reference semantics) -/

/-- `slice.indices` never produces a position outside the list (all `start/stop/step`, all lengths). -/
theorem C02_slice_positions_in_range (s : Slice) (n : Nat) (a b c : Int)
    (h : sliceIndices s n = .ok (a, b, c)) : ∀ x ∈ pyRange a b c, 0 ≤ x ∧ x < n :=
  pyRange_inrange h

/-- The totalised read of the Spec drops nothing: `len(l[s]) = len(range(*s.indices(len(l))))`. -/
theorem C02_slice_length (xs : List Val) (s : Slice) (a b c : Int) (ys : List Val)
    (h : sliceIndices s xs.length = .ok (a, b, c)) (hy : PyList.getSlice xs s = .ok ys) :
    ys.length = (pyRange a b c).length :=
  getSlice_length h hy

/-- The slice size used by both sides, `len(range(start, stop, step))`, is CPython's closed form
`(stop - start - 1) / step + 1` resp. `(start - stop - 1) / (-step) + 1` (`PySlice_AdjustIndices`). -/
theorem C02_slice_length_closed_form (a b c : Int) (hc : c ≠ 0) :
    ((pyRange a b c).length : Int) = sliceLen a b c :=
  pyRange_length_closed a b c hc

/-- A zero step is a `ValueError` for read, assignment and deletion alike, on both sides. -/
theorem C02_slice_zero_step (xs vs : List Val) (a b : Option Int) (nt : Bool) :
    (implL xs ⟨.getSlice ⟨a, b, some 0⟩, nt⟩).res = .error .value ∧
    (implL xs ⟨.setSlice ⟨a, b, some 0⟩ vs, nt⟩).res = .error .value ∧
    (implL xs ⟨.delSlice ⟨a, b, some 0⟩, nt⟩).res = .error .value := by
  simp [implL, PgList.getSlice, sliceIndices, fail, Except.map]

/-! ### Exclusions: each has a counterexample (replayed on the real code by harness/c02.py) -/

def ints (xs : List Int) : List Val := xs.map Val.int

/-- F03 (known finding): with change notification off a shrinking slice assignment leaves
placeholders: `l = [1,2,3,4,5]; l[1:4] = [9]` has 5 elements instead of 3. -/
theorem C02_list_counterexample_F03 : ¬ C02_list_refines_Full := by
  intro h
  have := congrArg (fun o => o.st.length)
    (h (ints [1, 2, 3, 4, 5]) ⟨.setSlice ⟨some 1, some 4, none⟩ [.int 9], false⟩ (good_of_goodB (by decide)))
  revert this
  decide

/-- F03, second shape: a `MISSING` argument with notification off (`l.insert(0, MISSING)`). -/
theorem C02_list_counterexample_F03_insert : ¬ C02_list_refines_Full := by
  intro h
  have := congrArg (fun o => o.st.length)
    (h (ints [7]) ⟨.insert 0 .missing, false⟩ (good_of_goodB (by decide)))
  revert this
  decide

def innerLen : Val → Nat
  | .list xs => xs.length
  | .dict kvs => kvs.length
  | _ => 0

/-- Nested `MISSING`: `l.append([MISSING])` stores `[]` where a Python list stores `[MISSING]`
(also with notification on). -/
theorem C02_list_counterexample_nested_missing : ¬ C02_list_refines_Full := by
  intro h
  have := congrArg (fun o => o.st.map innerLen)
    (h [] ⟨.append (.list [.missing]), true⟩ Good.nil)
  revert this
  decide

/-- Without the restriction to non-negative `rebind` indices the invariant is not kept: a failing
multi-path `rebind` leaves its placeholder behind (`l.rebind({1: MISSING, -9: 'x'})` raises
IndexError and the list still holds `MISSING`). Steps still agree; the state is no longer good. -/
theorem C02_list_invariant_counterexample_negkey :
    ¬ Good (specL (ints [1, 2, 3]) ⟨.rebind [(1, .plain .missing), (-9, .plain (.str "x"))], true⟩).st := by
  intro h
  have : (specL (ints [1, 2, 3]) ⟨.rebind [(1, .plain .missing), (-9, .plain (.str "x"))], true⟩).st.any
      Val.isMissing = true := by decide
  rw [List.any_eq_true] at this
  obtain ⟨x, hx, hm⟩ := this
  rw [(h x hx).1] at hm
  cases hm

/-! ## Dicts -/

def C02_dict_refines_Full : Prop :=
  ∀ (kvs : List (Key × Val)) (st : DStep), GoodD kvs → implD kvs st = specD kvs st

/-- One step, all 13 dict operations (get, get-with-default, in, len, item assignment incl. the
`MISSING`-deletes rule, del, pop ± default, popitem (LIFO), clear, setdefault, update / `|=`, copy,
rebind with plain keys): same contents, insertion order, result and error class. -/
theorem C02_dict_refines_partial (kvs : List (Key × Val)) (st : DStep) (hg : GoodD kvs)
    (ha : admissibleD st = true) : implD kvs st = specD kvs st :=
  step_dict kvs st hg ha

theorem C02_dict_invariant (kvs : List (Key × Val)) (st : DStep) (hg : GoodD kvs)
    (ha : admissibleD st = true) : GoodD (specD kvs st).st :=
  specD_good kvs st hg ha

/-- Construction `Dict(mapping, **kw)` (the constructor merges its arguments like `update`). -/
theorem C02_dict_construct (init kw : List (Key × Val)) (h : ∀ p ∈ init ++ kw, missingFree p.2 = true)
    (hd : mergeOk (init ++ kw) = true) :
    PgDict.setAll [] (PgDict.mergePairs (init ++ kw)) = PyDict.assignAll [] (init ++ kw) ∧
      GoodD (PyDict.assignAll [] (init ++ kw)) :=
  ⟨setAll_merge_of_ok h hd, goodD_assignAll (fun _ hp => by cases hp) h⟩

/-- One call may name a key any number of times (positional entry and keyword argument, or twice in
an iterable of pairs): as long as no value is `MISSING`, merging the arguments first (pg) and
assigning them in order (Python) end in the same contents and order, for every argument list. -/
theorem C02_dict_update_repeated_keys (kvs pairs kw : List (Key × Val)) (nt : Bool) (hg : GoodD kvs)
    (hm : ∀ p ∈ pairs ++ kw, p.2.isMissing = false) (hf : ∀ p ∈ pairs ++ kw, missingFree p.2 = true) :
    implD kvs ⟨.update pairs kw, nt⟩ = specD kvs ⟨.update pairs kw, nt⟩ := by
  apply step_dict kvs _ hg
  simp only [admissibleD, mergeOk, Bool.and_eq_true, Bool.or_eq_true, List.all_eq_true, Bool.not_eq_true']
  exact ⟨hf, Or.inr hm⟩

theorem C02_dict_history (kvs : List (Key × Val)) (ops : List DStep) (hg : GoodD kvs)
    (ha : admissibleHistD kvs ops = true) : traceD implD kvs ops = traceD specD kvs ops := by
  induction ops generalizing kvs with
  | nil => rfl
  | cons s rest ih =>
    simp only [admissibleHistD, Bool.and_eq_true] at ha
    have hs := step_dict kvs s hg ha.1
    simp only [traceD, hs]
    rw [ih _ (specD_good kvs s hg ha.1) ha.2]

/-- Read-back after any history: items / keys / values / iteration are the contents themselves
(`runD`), `[]`, `get`, `in`, `len` are Python's functions on them. -/
theorem C02_dict_readback (kvs : List (Key × Val)) (ops : List DStep) (hg : GoodD kvs)
    (ha : admissibleHistD kvs ops = true) (k : Key) (d : Val) (nt : Bool) :
    let ys := runD implD kvs ops
    let ps := runD specD kvs ops
    ys = ps ∧
    (implD ys ⟨.get k, nt⟩).res = (match lookupKey k ps with | some v => .ok v | Option.none => .error .key) ∧
    (implD ys ⟨.getD k d, nt⟩).res = .ok ((lookupKey k ps).getD d) ∧
    (implD ys ⟨.contains k, nt⟩).res = .ok (.bool (hasKey ps k)) ∧
    (implD ys ⟨.len, nt⟩).res = .ok (.int ps.length) := by
  have h1 : runD implD kvs ops = runD specD kvs ops := by
    induction ops generalizing kvs with
    | nil => rfl
    | cons s rest ih =>
      simp only [admissibleHistD, Bool.and_eq_true] at ha
      simp only [runD, step_dict kvs s hg ha.1]
      exact ih _ (specD_good kvs s hg ha.1) ha.2
  simp only [h1]
  exact ⟨trivial, rfl, rfl, rfl, rfl⟩

def admissibleHistConvD : List (Key × Val) → List DStep → Bool
  | _, [] => true
  | kvs, s :: rest => admissibleConvD s && admissibleHistConvD (specD kvs (convStepD s)).st rest

/-- One dict step with arbitrary stored values (only `setdefault`, which returns its plain argument,
keeps the restriction): `pg.Dict` does what the Python dict does with the converted values. -/
theorem C02_dict_refines_conv (kvs : List (Key × Val)) (st : DStep) (hg : GoodD kvs)
    (ha : admissibleConvD st = true) : implD kvs st = specD kvs (convStepD st) := by
  rw [← implD_conv]
  exact step_dict kvs _ hg (admissibleD_conv ha)

theorem C02_dict_history_conv (kvs : List (Key × Val)) (ops : List DStep) (hg : GoodD kvs)
    (ha : admissibleHistConvD kvs ops = true) :
    traceD implD kvs ops = traceD specD kvs (ops.map convStepD) := by
  induction ops generalizing kvs with
  | nil => rfl
  | cons s rest ih =>
    simp only [admissibleHistConvD, Bool.and_eq_true] at ha
    have hs := C02_dict_refines_conv kvs s hg ha.1
    simp only [traceD, List.map_cons, hs]
    rw [ih _ (specD_good kvs _ hg (admissibleD_conv ha.1)) ha.2]

/-- One call that names a key twice, first with `MISSING`: `d = {'k': 0, 'z': 1}; d.update({'k': MISSING}, k=5)`.
The reference (entries in order) deletes `k` and re-inserts it at the end; pg merges the arguments
into one dict first, so `k` is simply overwritten in place. Outside the documented behaviour of either
side; the reason `admissibleD` asks for `mergeOk` (distinct keys, or no `MISSING` value). -/
theorem C02_dict_counterexample_update_merge : ¬ C02_dict_refines_Full := by
  intro h
  have := congrArg (fun o => o.st.map (fun p => p.1))
    (h [(.s "k", .int 0), (.s "z", .int 1)]
      ⟨.update [(.s "k", .missing)] [(.s "k", .int 5)], true⟩
      (by intro p hp; simp at hp; rcases hp with rfl | rfl <;> exact ⟨rfl, rfl⟩))
  revert this
  decide

/-- Nested `MISSING` in a dict value: `d['x'] = {'a': MISSING}` stores `{}`. -/
theorem C02_dict_counterexample_nested_missing : ¬ C02_dict_refines_Full := by
  intro h
  have := congrArg (fun o => o.st.map (fun p => innerLen p.2))
    (h [] ⟨.set (.s "x") (.dict [(.s "a", .missing)]), true⟩ (fun _ hp => by cases hp))
  revert this
  decide

/-! ## Non-vacuity: the hypotheses are satisfiable by non-trivial values -/

example : Good (ints [1, 2, 3] ++ [.list [.int 1, .dict [(.s "k", .none)]], .str "a.b"]) :=
  good_of_goodB (by decide)

/-- an admissible history with a negative-step slice assignment, a shrinking slice assignment, a
slice deletion, a multi-path rebind with insertion / deletion / append and a notify-off append -/
example : admissibleHistL (ints [1, 2, 3, 4, 5])
    [⟨.setSlice ⟨some 3, some 0, some (-1)⟩ (ints [7, 8, 9]), true⟩,
     ⟨.setSlice ⟨some 1, some 4, none⟩ [.int 0], true⟩,
     ⟨.delSlice ⟨none, none, some 2⟩, true⟩,
     ⟨.rebind [(1, .ins (.str "y")), (0, .plain .missing), (9, .plain (.list []))], true⟩,
     ⟨.append (.int 5), false⟩] = true := by decide

/-- … and what it produces: `[1, 9, 8, 7, 5] → [1, 0, 5] → [0] → ['y', []] → ['y', [], 5]` on both sides. -/
example : (runL implL (ints [1, 2, 3, 4, 5])
    [⟨.setSlice ⟨some 3, some 0, some (-1)⟩ (ints [7, 8, 9]), true⟩,
     ⟨.setSlice ⟨some 1, some 4, none⟩ [.int 0], true⟩,
     ⟨.delSlice ⟨none, none, some 2⟩, true⟩,
     ⟨.rebind [(1, .ins (.str "y")), (0, .plain .missing), (9, .plain (.list []))], true⟩,
     ⟨.append (.int 5), false⟩]).length = 3 := by decide

example : admissibleHistD [(.s "a", .int 1)]
    [⟨.set (.s "a") .missing, true⟩, ⟨.update [(.s "a.b", .int 1), (.i 3, .list []), (.s "y", .none)] [(.s "y", .bool true)], false⟩,
     ⟨.setdefault (.s "z") .none, true⟩, ⟨.popitem, true⟩] = true := by decide

/-- arbitrary arguments: nested `MISSING` is admissible for the `conv` theorems; pg stores `[1]` and `{}` -/
example : admissibleHistConvL []
    [⟨.append (.list [.missing, .int 1]), true⟩, ⟨.extend [.dict [(.s "a", .missing)]], false⟩] = true := by decide
example : (runL implL []
    [⟨.append (.list [.missing, .int 1]), true⟩, ⟨.extend [.dict [(.s "a", .missing)]], false⟩]).map innerLen
    = [1, 0] := by decide

/-- a stable descending sort keeps equal-but-distinguishable items in their original order -/
example : pySort [.int 3, .float 1, .int 1, .bool true, .int 2] true .none
    = .ok [.int 3, .int 2, .float 1, .int 1, .bool true] := by rfl
example : (specD [(.i 1, .str "a")] ⟨.set (.b true) (.str "b"), true⟩).st = [(.i 1, .str "b")] := by rfl

example : sliceIndices ⟨none, none, some (-1)⟩ 4 = .ok (3, -1, -1) := by decide
example : pyRange 3 (-1) (-1) = [3, 2, 1, 0] := by decide

end Pg.C02
