/-
  C10 — Path addressing is exact. Property theorems only.
-/
import PgModel.KeyPath
import PgModel.KeyPathSet
import PgModel.Hier
namespace Pg.C10

theorem C10_concat_keys (p q : Path) : concat p q = p ++ q := rfl

end Pg.C10
