/-
  C10 — Path addressing is exact: parse/format, lookup, traversal, flatten/canonicalize.
  Property theorems only (models: PgModel/KeyPath.lean, KeyPathSet.lean, Hier.lean;
  helper lemmas: PgProofs/KeyPath.lean, KeyPathSet.lean, Hier.lean).

  The models mirror /repo with the patches fixes/C10-F36 (query on int-keyed plain dicts) and
  fixes/C10-F37 (rebase of an empty set) applied.
-/
import PgProofs.KeyPath
import PgProofs.KeyPathSet
import PgProofs.Hier
import PgProofs.Canon
import PgProofs.Traverse
namespace Pg.C10

/-! ## 1. parse ∘ format -/

/-- ROUND TRIP. For every digit classification satisfying `DigitLaws` (ASCII digits are decimal
digits, `[ ] .` are not digits) and every sequence of keys that are ints (any sign, any size) or
non-empty bracket-balanced strings: the printed path parses back to exactly the same keys —
same values *and same types* (`'0'` stays a str, `0` an int). -/
theorem C10_parse_format {dc : DigitClass} (h : DigitLaws dc) (ks : Path) (hw : wfKeys ks = true) :
    parse dc (pathStr ks) = .ok ks :=
  parse_pathStr h ks hw

/-- The full statement without the well-formedness hypothesis … -/
def C10_parse_format_Full : Prop := ∀ ks : Path, parse asciiClass (pathStr ks) = .ok ks

/-- … is false: the empty string key, and keys with unbalanced brackets, do not round-trip
(`KeyPath(['']) → '' → KeyPath([])`; `KeyPath([']['])` prints `'[][]'`, which parses to two empty
keys; `KeyPath(['['])` prints `'[[]'`, which does not parse). These are exactly the cases
`wfKeys` excludes; they are outside the property's quantifier ("non-empty strings with balanced
brackets"). -/
theorem C10_parse_format_counterexample : ¬ C10_parse_format_Full := by
  intro h
  have := h [.s []]
  revert this
  decide

/-- `wfKeys` is as weak as the code allows, key by key: a single key round-trips iff it is
well-formed — instances for each excluded shape. -/
example : parse asciiClass (pathStr [.s []]) = .ok [] := by decide
example : parse asciiClass (pathStr [.s [']', '[']]) = .ok [.s [], .s []] := by decide
example : parse asciiClass (pathStr [.s ['[']]) = .error .value := by decide
example : parse asciiClass (pathStr [.s ['a'], .s []]) = .ok [.s ['a']] := by decide

/-- Printing is injective on well-formed key sequences (so dictionaries keyed by the printed path —
`pg.query` results, the rebind dict of `rebind(fn)` — never merge two distinct locations). -/
theorem C10_pathStr_injective (ks ks' : Path) (h : wfKeys ks = true) (h' : wfKeys ks' = true)
    (e : pathStr ks = pathStr ks') : ks = ks' := by
  have h1 := parse_pathStr asciiClass_laws ks h
  have h2 := parse_pathStr asciiClass_laws ks' h'
  rw [e, h2] at h1
  cases h1
  rfl

/-- Converse direction for canonical strings: whatever `parse` returns, if it is well-formed it
prints to a string that parses to the same keys again. -/
theorem C10_parse_canonical {dc : DigitClass} (h : DigitLaws dc) (s : List Char) (ks : Path)
    (_ : parse dc s = .ok ks) (hw : wfKeys ks = true) : parse dc (pathStr ks) = .ok ks :=
  parse_pathStr h ks hw

/-- Own digit functions: reading the rendering of a number gives the number back, for every
digit classification that knows the ASCII digits. -/
theorem C10_int_roundtrip {dc : DigitClass} (h : DigitLaws dc) (z : Int) :
    pyInt dc (intStr z) = some z := pyInt_intStr h z

/-- `rebind` by function addresses updates through printed paths (base.py:1307): for well-formed
keys the path that `rebind` re-parses is the visited path. -/
theorem C10_rebinder {dc : DigitClass} (h : DigitLaws dc) (ks : Path) (hw : wfKeys ks = true) :
    fromValue dc (.str (pathStr ks)) = .ok ks := by
  simp only [fromValue]
  exact parse_pathStr h ks hw

/-! Non-vacuity: digit-only string keys, `'0'` vs `0`, keys containing `.`, `[0]`, `-5`, negative
ints, `$`. -/
example : wfKeys [.s ['0'], .i 0, .s ['x', '.', 'y'], .s ['[', '0', ']'], .s ['-', '5'], .i (-5),
    .s ['$'], .s ['1', '2']] = true := by decide
example : pathStr [.s ['a'], .i 0, .s ['x', '.', 'y'], .i (-5)] =
    ['a', '[', '0', ']', '[', 'x', '.', 'y', ']', '[', '-', '5', ']'] := by decide

/-! ## 2. Path arithmetic -/

/-- `KeyPath(q.keys, p)` / `p + q`: the keys are concatenated. -/
theorem C10_add_keys (dc : DigitClass) (p q : Path) : add dc p (.path q) = .ok (p ++ q) := rfl

/-- `p + 'printed path'` for a well-formed printed path. -/
theorem C10_add_str {dc : DigitClass} (h : DigitLaws dc) (p q : Path) (hw : wfKeys q = true) :
    add dc p (.str (pathStr q)) = .ok (p ++ q) := by
  simp only [add, parse_pathStr h q hw, concat]

theorem C10_add_int (dc : DigitClass) (p : Path) (z : Int) : add dc p (.int z) = .ok (p ++ [.i z]) := rfl

theorem C10_add_none (dc : DigitClass) (p : Path) : add dc p .none = .ok p := rfl

/-- `parent` undoes appending one key; the root has no parent (`KeyError`). -/
theorem C10_parent (p : Path) (k : Key) : parent (p ++ [k]) = .ok p ∧ lastKey (p ++ [k]) = .ok k := by
  constructor
  · unfold parent
    have h : (p ++ [k]).isEmpty = false := by cases p <;> rfl
    rw [h]
    simp
  · unfold lastKey
    simp

theorem C10_parent_root : parent [] = .error .key ∧ lastKey [] = .error .key := ⟨rfl, rfl⟩

/-- `p - q` is defined iff `q` is a prefix of `p`, and then `q + (p - q) = p`. -/
theorem C10_sub_iff (dc : DigitClass) (p q r : Path) : sub dc p (.path q) = .ok r ↔ p = q ++ r :=
  subKeys_ok_iff p q r

/-- Otherwise it raises `ValueError` (both failure branches of the loop). -/
theorem C10_sub_error (dc : DigitClass) (p q : Path) (hn : ¬ ∃ r, p = q ++ r) :
    sub dc p (.path q) = .error .value := by
  obtain ⟨e, he⟩ := (subKeys_error_iff p q).mpr hn
  have := subKeys_error_value p q e he
  subst this
  exact he

theorem C10_add_sub (dc : DigitClass) (p q : Path) : sub dc (p ++ q) (.path p) = .ok q :=
  (subKeys_ok_iff (p ++ q) p q).mpr rfl

/-- `is_relative_to` is the prefix test on key sequences. -/
theorem C10_is_relative_to (dc : DigitClass) (p q : Path) :
    isRelativeTo dc p (.path q) = .ok true ↔ ∃ r, p = q ++ r := by
  simp only [isRelativeTo, fromValue]
  constructor
  · intro h
    apply (relKeys_iff p q).mp
    cases hr : relKeys p q
    · rw [hr] at h; cases h
    · rfl
  · intro h
    rw [(relKeys_iff p q).mpr h]

/-! ### Ordering -/

/-- `<` is lexicographic in the key sequences w.r.t. the key comparison of the wrapper: the first
position where the wrapped keys differ decides; a proper prefix is smaller. -/
theorem C10_lt_lex (a b : Key) (p q : Path) :
    pathLt (a :: p) (b :: q) = (if keyEqW a b then pathLt p q else keyLtW a b) := rfl

theorem C10_lt_prefix (p : Path) (k : Key) (r : Path) :
    pathLt p (p ++ k :: r) = true ∧ pathLt (p ++ k :: r) p = false :=
  ⟨pathLt_prefix p k r, pathLt_asymm _ _ (pathLt_prefix p k r)⟩

/-- For all paths: irreflexive and asymmetric. -/
theorem C10_lt_irrefl (p : Path) : pathLt p p = false := pathLt_irrefl p

theorem C10_lt_asymm (p q : Path) (h : pathLt p q = true) : pathLt q p = false := pathLt_asymm p q h

/-- `<` is a STRICT TOTAL ORDER on key paths over ints and strs — full statement, no exclusion
(the model mirrors the tree with fix C10-F38: ints numerically, strs lexicographically, an int
before a str; before the fix a mixed pair was compared by the `str()` forms and the statement
was false: `[10] < ['1a'] < [2] < [10]`, and `[0]`, `['0']` unordered). -/
theorem C10_lt_trans (p q r : Path) (h1 : pathLt p q = true) (h2 : pathLt q r = true) :
    pathLt p r = true :=
  pathLt_trans p q r h1 h2

theorem C10_lt_total (p q : Path) (hne : p ≠ q) : pathLt p q = true ∨ pathLt q p = true :=
  pathLt_total p q hne

/-- The wrapper's `==` is equality of keys (in particular `0` and `'0'` are different). -/
theorem C10_key_eq (a b : Key) : keyEqW a b = true ↔ a = b := keyEqW_iff a b

/-- The former counterexamples (finding F38) as regression instances. -/
example : pathLt [.i 2] [.i 10] = true ∧ pathLt [.i 10] [.s ['1', 'a']] = true ∧
    pathLt [.i 2] [.s ['1', 'a']] = true ∧ pathLt [.s ['1', 'a']] [.i 2] = false := by decide
example : pathLt [.i 0] [.s ['0']] = true := by decide
example : pathLt [.s ['a'], .i 2] [.s ['a'], .i 10] = true ∧ pathLt [.s ['a'], .i 1] [.s ['a'], .s ['b']] = true := by
  decide

/-! ## 3. `KeyPathSet` behaves as a mathematical set

The trie is the one the code uses (nested dicts, end marker under the key `'$'`). `Trie.has t` is the
characteristic function of the set `t` represents; `Trie.wf` is the representation invariant
(distinct keys, `'$'` ↦ `True`, no dead branches). Every operation preserves `wf` and acts on `has`
as the corresponding set operation — for all tries and all paths without the string key `'$'`. -/

open Trie

/-- The empty set. -/
theorem C10_set_empty (q : Path) : wf Trie.empty = true ∧ has Trie.empty q = false ∧ Trie.empty.nonEmpty = false := by
  refine ⟨rfl, ?_, rfl⟩
  cases q <;> rfl

/-- `p in s` never raises and is membership. -/
theorem C10_set_contains (t : Trie) (p : Path) (h : wf t = true) (hp : dollarFree p = true) :
    Trie.contains t p = .ok (has t p) := contains_eq_has p t h hp

/-- `add`: the set becomes `s ∪ {p}`, the return value says whether `p` was new, the invariant is kept. -/
theorem C10_set_add (t : Trie) (p : Path) (h : wf t = true) (hp : dollarFree p = true) :
    ∃ t', Trie.add false t p = .ok (t', !has t p) ∧ wf t' = true ∧
      ∀ q, dollarFree q = true → has t' q = (decide (q = p) || has t q) := by
  obtain ⟨t', a, b, _, d⟩ := add_spec p t h hp
  exact ⟨t', a, b, d⟩

/-- `remove`: the set becomes `s \ {p}`, the return value says whether `p` was a member, emptied
branches are pruned (invariant kept). -/
theorem C10_set_remove (t : Trie) (p : Path) (h : wf t = true) (hp : dollarFree p = true) :
    ∃ t', Trie.remove t p = .ok (t', has t p) ∧ wf t' = true ∧
      ∀ q, dollarFree q = true → has t' q = (!decide (q = p) && has t q) :=
  remove_spec p t h hp

/-- `update` / `union` / `+`. -/
theorem C10_set_union (a b : Trie) (ha : wf a = true) (hb : wf b = true) :
    wf (union a b) = true ∧ ∀ q, dollarFree q = true → has (union a b) q = (has a q || has b q) :=
  ⟨merge_wf _ a b (Nat.le_refl _) ha hb, fun q hq => merge_has q a b ha hb hq⟩

/-- `intersection(_update)`. -/
theorem C10_set_intersection (a b : Trie) (ha : wf a = true) (hb : wf b = true) :
    wf (intersection a b) = true ∧
      ∀ q, dollarFree q = true → has (intersection a b) q = (has a q && has b q) :=
  ⟨removeDiff_wf _ a b (Nat.le_refl _) ha hb, fun q hq => removeDiff_has q a b ha hb hq⟩

/-- `difference(_update)`. -/
theorem C10_set_difference (a b : Trie) (ha : wf a = true) (hb : wf b = true) :
    wf (difference a b) = true ∧
      ∀ q, dollarFree q = true → has (difference a b) q = (has a q && !has b q) :=
  ⟨removeSame_wf _ a b (Nat.le_refl _) ha hb, fun q hq => removeSame_has q a b ha hb hq⟩

/-- `rebase(p)`: the set becomes `{p + r | r ∈ s}` (mirrors the tree with fix C10-F37: an empty set
stays empty; before the fix the invariant was lost on the empty set). -/
theorem C10_set_rebase (t : Trie) (p : Path) (h : wf t = true) (hp : dollarFree p = true) :
    wf (rebase t p) = true ∧
      ∀ q, has (rebase t p) q = (match dropPrefix q p with
        | some r => has t r
        | none => false) :=
  rebase_spec p t h hp

/-- `dropPrefix` is what it says. -/
theorem C10_dropPrefix (q p r : Path) : dropPrefix q p = some r ↔ q = p ++ r := by
  induction p generalizing q with
  | nil => cases q <;> simp [dropPrefix, eq_comm]
  | cons b p ih =>
    cases q with
    | nil => simp [dropPrefix]
    | cons a q =>
      simp only [dropPrefix]
      by_cases hab : a = b
      · subst hab; simp [ih]
      · simp [hab]

/-- `__iter__` yields exactly the members (each yielded path is `'$'`-free and a member; each member
is yielded). -/
theorem C10_set_iter (t : Trie) (q : Path) (h : wf t = true) :
    q ∈ toList t ↔ (dollarFree q = true ∧ has t q = true) := by
  unfold toList
  rw [mem_paths t [] q h]
  constructor
  · rintro ⟨r, rfl, a, b⟩; exact ⟨by simpa using a, by simpa using b⟩
  · rintro ⟨a, b⟩; exact ⟨q, by simp, a, b⟩

/-- `bool(s)` is non-emptiness of the represented set (this is where "no dead branches" matters). -/
theorem C10_set_bool (t : Trie) (h : wf t = true) :
    t.nonEmpty = true ↔ ∃ q, dollarFree q = true ∧ has t q = true := by
  constructor
  · intro ht; exact exists_has_of_truthy t h ht
  · rintro ⟨q, _, hq⟩
    cases ht : t.nonEmpty with
    | true => rfl
    | false =>
      rw [has_of_not_truthy h ht q] at hq
      cases hq

/-! ### All user paths, including the key `'$'` (fix C10-F19)

The public operations store a user path `p` as `escP p` (the user key `'$'` is replaced by a private
object; see `escKey`), which never contains the marker key. So the refinement above applies to
*every* path over str and int keys — no exclusion is left. `hasU t p := has t (escP p)` is
membership of the user path `p`. -/

theorem C10_set_user_paths_ok (p : Path) : dollarFree (escP p) = true := dollarFree_escP p

theorem C10_set_add_all (t : Trie) (p : Path) (h : wf t = true) :
    ∃ t', Trie.add false t (escP p) = .ok (t', !has t (escP p)) ∧ wf t' = true ∧
      ∀ q, has t' (escP q) = (decide (q = p) || has t (escP q)) := by
  obtain ⟨t', a, b, c⟩ := C10_set_add t (escP p) h (dollarFree_escP p)
  exact ⟨t', a, b, fun q => by rw [c (escP q) (dollarFree_escP q), decide_escP_eq]⟩

theorem C10_set_remove_all (t : Trie) (p : Path) (h : wf t = true) :
    ∃ t', Trie.remove t (escP p) = .ok (t', has t (escP p)) ∧ wf t' = true ∧
      ∀ q, has t' (escP q) = (!decide (q = p) && has t (escP q)) := by
  obtain ⟨t', a, b, c⟩ := C10_set_remove t (escP p) h (dollarFree_escP p)
  exact ⟨t', a, b, fun q => by rw [c (escP q) (dollarFree_escP q), decide_escP_eq]⟩

theorem C10_set_contains_all (t : Trie) (p : Path) (h : wf t = true) :
    Trie.contains t (escP p) = .ok (has t (escP p)) :=
  C10_set_contains t (escP p) h (dollarFree_escP p)

/-- iteration (un-escaped) yields exactly the member user paths. -/
theorem C10_set_iter_all (t : Trie) (q : Path) (h : wf t = true) :
    q ∈ (toList t).map unescP ↔ has t (escP q) = true := by
  constructor
  · intro hm
    obtain ⟨r, hr, rfl⟩ := List.mem_map.mp hm
    obtain ⟨hd, hh⟩ := (C10_set_iter t r h).mp hr
    rw [escP_unescP r hd]; exact hh
  · intro hh
    have := (C10_set_iter t (escP q) h).mpr ⟨dollarFree_escP q, hh⟩
    exact List.mem_map.mpr ⟨escP q, this, unescP_escP q⟩

/-- `rebase` on user paths. -/
theorem C10_set_rebase_all (t : Trie) (p q : Path) (h : wf t = true) :
    wf (rebase t (escP p)) = true ∧
    has (rebase t (escP p)) (escP q) = (match dropPrefix q p with
      | some r => has t (escP r)
      | none => false) := by
  obtain ⟨a, b⟩ := C10_set_rebase t (escP p) h (dollarFree_escP p)
  refine ⟨a, ?_⟩
  rw [b]
  have key : ∀ (p q : Path), (match dropPrefix (escP q) (escP p) with
      | some r => has t r
      | none => false) = (match dropPrefix q p with
      | some r => has t (escP r)
      | none => false) := by
    intro p
    induction p with
    | nil => intro q; cases q <;> simp [escP, dropPrefix]
    | cons x p ih =>
      intro q
      cases q with
      | nil => simp [escP, dropPrefix]
      | cons y q =>
        simp only [escP, List.map_cons, dropPrefix]
        by_cases hxy : y = x
        · subst hxy; simpa [escP] using ih q
        · have : ¬ escKey y = escKey x := fun e => hxy (escKey_injective y x e)
          simp [hxy, this]
  exact key p q

/-- F19 regression instances: the one-key path `'$'` is an ordinary member; the root path is not
affected, and adding `'$'` to a set holding the root path works. -/
example : (Trie.add false Trie.empty (escP [dollar])).map (fun r => (toList r.1).map unescP) = .ok [[dollar]] := by
  decide
example : (Trie.add false (.node [(dollar, .mark)]) (escP [dollar])).map (fun r => (toList r.1).map unescP) =
    .ok [[], [dollar]] := by decide

/-! Non-vacuity: a well-formed trie with several members, `'$'`-free paths. -/
example : wf (.node [(.s ['a'], .node [(dollar, .mark), (.i 0, .node [(dollar, .mark)])]), (dollar, .mark)]) = true := by
  decide
example : dollarFree [.s ['a'], .i 0, .s ['x', '.', 'y']] = true := by decide

/-! ## 4. Traversal and lookup on plain nested values

`visitsPre v []` is the visit log of `utils.traverse` / `pg.traverse` (path, node) in calling order;
`query` is `KeyPath.query` (with fix C10-F36: dicts are looked up by key whatever the key type);
`subAt` is the position-based specification of "the node at path r". -/

open Val

/-- Every visit reports a path that, looked up from the root, returns the visited node —
for every nested value (any depth, str and int dict keys, lists). -/
theorem C10_traverse_lookup (v : Val) (q : Path) (x : Val) (hn : nodupVal v = true)
    (h : (q, x) ∈ visitsPre v []) : query v q = .ok x := by
  obtain ⟨r, hq, hx⟩ := visitsPre_query v [] q x hn h
  simp only [List.nil_append] at hq
  subst hq
  exact hx

/-- `exists` / `get` on every reported path: the path exists and `get` returns that node — whatever
the node holds (a missing-value placeholder, `None`, `0`, `''`, `False`, `[]`, `{}` are all present). -/
theorem C10_exists_visited (v : Val) (q : Path) (x : Val) (hn : nodupVal v = true)
    (h : (q, x) ∈ visitsPre v []) : existsM v q = .ok true ∧ getM v q = .ok (some x) := by
  have := C10_traverse_lookup v q x hn h
  simp [existsM, getM, this]

/-- `exists` is exactly "query does not raise KeyError": it never consults the value found. -/
theorem C10_exists_iff_query (v : Val) (p : Path) :
    existsM v p = .ok true ↔ ∃ x, query v p = .ok x := by
  unfold existsM
  cases hq : query v p with
  | ok x => simp
  | error e => cases e <;> simp

example : existsM (.dict [(.s ['a'], .leaf .missing), (.s ['b'], .list [.leaf (.bool false), .leaf .none])]) [.s ['a']] = .ok true ∧
    existsM (.dict [(.s ['a'], .leaf .missing)]) [.s ['z']] = .ok false ∧
    existsM (.dict [(.s ['a'], .leaf .missing)]) [.s ['a'], .i 0] = .ok false := by decide

/-- Every node of the value is visited, with its own path. -/
theorem C10_traverse_complete (v : Val) (r : Path) (x : Val) (h : subAt v r = some x) :
    (r, x) ∈ visitsPre v [] := by
  have := visitsPre_complete v [] r x h
  simpa using this

/-- Every position of the value (`subAt`) exists and `get` returns the node there. -/
theorem C10_exists_of_position (v : Val) (p : Path) (x : Val) (hn : nodupVal v = true)
    (h : subAt v p = some x) : existsM v p = .ok true ∧ getM v p = .ok (some x) :=
  C10_exists_visited v p x hn (C10_traverse_complete v p x h)

/-- The model's `flatten` is, by definition, the dictionary from printed paths (`path_str` with
`preserve_complex_keys = not flatten_complex_keys`) to the leaf-like nodes of the post-order walk. -/
theorem C10_flatten_spec (fck : Bool) (v : Val) (h : isLeafLike v = false) :
    flatten fck v = .dict (((visitsPost v []).filter (fun pv => !pv.1.isEmpty && isLeafLike pv.2)).foldl
      (fun acc pv => Assoc.set acc (.s (pathStrPc (!fck) pv.1)) pv.2) []) :=
  flatten_spec fck v h

/-! Non-vacuity and instances. -/
example : nodupVal (.dict [(.s ['a'], .list [.leaf (.int 1), .dict [(.i 5, .leaf .none)]]), (.s ['0'], .leaf (.str ['x']))]) = true := by
  decide
example :
    let v : Val := .dict [(.s ['a'], .list [.leaf (.int 1), .dict [(.i 5, .leaf .none)]]), (.s ['0'], .leaf (.str ['x']))]
    (match canonicalize asciiClass (flatten true v) with
     | .ok w => w == v
     | .error _ => false) = true := by
  decide
example : query (.dict [(.i 5, .leaf (.str ['x']))]) [.i 5] = .ok (.leaf (.str ['x'])) := rfl

/-- EACH NODE ONCE: the walk reports pairwise distinct paths (with `C10_traverse_lookup` and
`C10_traverse_complete`: the visit log is a bijection between visits and nodes). -/
theorem C10_traverse_nodup (v : Val) (hn : nodupVal v = true) :
    ((visitsPre v []).map (·.1)).Nodup := (walkOK v hn []).1

/-- The post-order log is a rearrangement of the pre-order log: post-order visitors see exactly the
same (path, node) pairs, so `C10_traverse_lookup`, `_complete` and `_nodup` hold for them too. -/
theorem C10_traverse_post_perm (v : Val) : (visitsPost v []).Perm (visitsPre v []) := visitsPost_perm v []

theorem C10_traverse_post_nodup (v : Val) (hn : nodupVal v = true) : ((visitsPost v []).map (·.1)).Nodup :=
  ((visitsPost_perm v []).map (·.1)).nodup_iff.mpr (walkOK v hn []).1

theorem C10_traverse_post_lookup (v : Val) (q : Path) (x : Val) (hn : nodupVal v = true)
    (h : (q, x) ∈ visitsPost v []) : query v q = .ok x :=
  C10_traverse_lookup v q x hn ((visitsPost_perm v []).mem_iff.mp h)

/-- `pg.query` (selecting the leaves) returns a dict keyed by the printed path with exactly one entry
per leaf, in visiting order — on values whose dict keys are well-formed no two nodes collide. -/
theorem C10_query_dict_exact (v : Val) (hn : nodupVal v = true) (hw : wfVal v = true) :
    queryLeaves v = ((visitsPre v []).filter (fun pv => isLeaf pv.2)).map (fun pv => (Key.s (pathStr pv.1), pv.2)) := by
  have h := printedDict_exact v hn hw (fun pv => if isLeaf pv.2 then some pv else none)
    (fun x y e => by
      by_cases hx : isLeaf x.2 = true
      · simp only [hx, if_true, Option.some.injEq] at e; rw [e]
      · simp [hx] at e)
  have e : (visitsPre v []).filterMap (fun pv => if isLeaf pv.2 then some pv else none) =
      (visitsPre v []).filter (fun pv => isLeaf pv.2) := by
    generalize visitsPre v [] = L
    induction L with
    | nil => rfl
    | cons x rest ih =>
      by_cases hx : isLeaf x.2 = true
      · simp [List.filterMap_cons, List.filter_cons, hx, ih]
      · simp [List.filterMap_cons, List.filter_cons, hx, ih]
  rw [e] at h
  exact h

/-- The rebinder dictionary (`rebind(fn)` / `get_rebind_dict`, here for "add one to every int leaf")
has exactly one entry per changed node, keyed by its printed path; with `C10_rebinder` each key
parses back to the path of that node. -/
theorem C10_rebinder_dict_exact (v : Val) (hn : nodupVal v = true) (hw : wfVal v = true) :
    rebindInts v = ((visitsPre v []).filterMap intBump).map (fun pv => (Key.s (pathStr pv.1), pv.2)) :=
  printedDict_exact v hn hw intBump (fun x y e => by
    obtain ⟨p, x⟩ := x
    cases x with
    | leaf a => cases a with
      | int z => simp only [intBump, Option.some.injEq] at e; rw [← e]
      | none => simp [intBump] at e
      | str _ => simp [intBump] at e
      | missing => simp [intBump] at e
      | bool _ => simp [intBump] at e
    | dict _ => simp [intBump] at e
    | list _ => simp [intBump] at e)

/-! ## 5. flatten / canonicalize

`canonical fck v` (decidable, `PgProofs/Canon.lean`) spells out what the flat form can express:
dict keys are distinct; str keys are non-empty and, with the default `flatten_complex_keys=True`
(`fck = true`, keys printed without brackets) free of `. [ ]`, with `flatten_complex_keys=False`
bracket-balanced; a dict is not a list in disguise (`isListifiable`: all keys ints forming exactly
`0..n-1`); recursively. Leaves, empty dicts and empty lists are canonical at any position. -/

/-- INVERSE LAW, both modes: for every canonical value, canonicalizing its flattened form gives
the value back (same nesting, same key types, same dict order). -/
theorem C10_flatten_canon {dc : DigitClass} (h : DigitLaws dc) (fck : Bool) (v : Val)
    (hc : canonical fck v = true) : canonicalize dc (flatten fck v) = .ok v :=
  canonicalize_flatten h fck v hc

/-- The full statement (only distinct dict keys assumed) … -/
def C10_flatten_canon_Full : Prop :=
  ∀ v : Val, nodupVal v = true → canonicalize asciiClass (flatten true v) = .ok v

/-- … is false: an int-keyed dict `{0: 'x'}` flattens to `{'[0]': 'x'}`, which canonicalizes to the
*list* `['x']` — the flat form cannot tell them apart (`isListifiable`). -/
theorem C10_flatten_canon_counterexample : ¬ C10_flatten_canon_Full := by
  intro h
  have h1 := h (.dict [(.i 0, .leaf (.str ['x']))]) rfl
  have h2 : canonicalize asciiClass (flatten true (.dict [(.i 0, .leaf (.str ['x']))])) =
      .ok (.list [.leaf (.str ['x'])]) := rfl
  rw [h2] at h1
  injection h1 with h1
  cases h1

/-! Each remaining clause of `canonical` is needed (evaluated on the model; the same inputs are in
the harness corpus and agree with the real code): a key with `.` under the default mode is split; an
empty key raises KeyError; an unbalanced key under `flatten_complex_keys=False` raises ValueError;
under that mode a balanced key with `.` is fine. -/
example : canonicalize asciiClass (flatten true (.dict [(.s ['a', '.', 'b'], .leaf (.int 1))])) =
    .ok (.dict [(.s ['a'], .dict [(.s ['b'], .leaf (.int 1))])]) := rfl
example : canonicalize asciiClass (flatten true (.dict [(.s [], .leaf (.int 1))])) = .error .key := rfl
example : canonicalize asciiClass (flatten false (.dict [(.s ['['], .leaf (.int 1))])) = .error .value := rfl
example : canonical false (.dict [(.s ['a', '.', 'b'], .list [.leaf (.int 1), .dict []])]) = true := by decide
example : canonical true (.dict [(.s ['a'], .list [.leaf (.int 1), .dict [(.i 5, .leaf .none), (.s ['0'], .list [])]])]) = true := by
  decide

/-- Converse on the image of `flatten`: a flat dict produced by `flatten` from a canonical value is
reproduced by `flatten ∘ canonicalize`. -/
theorem C10_canon_flatten_image {dc : DigitClass} (h : DigitLaws dc) (fck : Bool) (v : Val)
    (hc : canonical fck v = true) :
    ∃ w, canonicalize dc (flatten fck v) = .ok w ∧ flatten fck w = flatten fck v :=
  ⟨v, canonicalize_flatten h fck v hc, rfl⟩

/-- The converse does *not* hold as equality of ordered dicts for arbitrary flat dicts: entries of one
sub-tree that are not adjacent come back grouped (`{'a.x':1, 'b':2, 'a.y':3}` ↦ `{'a.x':1, 'a.y':3,
'b':2}`; equal as Python dicts, which ignore order — that weaker converse is not proved). -/
theorem C10_canon_flatten_order_counterexample :
    ∃ d w, canonicalize asciiClass d = .ok w ∧ (flatten true w == d) = false :=
  ⟨.dict [(.s ['a', '.', 'x'], .leaf (.int 1)), (.s ['b'], .leaf (.int 2)), (.s ['a', '.', 'y'], .leaf (.int 3))],
   .dict [(.s ['a'], .dict [(.s ['x'], .leaf (.int 1)), (.s ['y'], .leaf (.int 3))]), (.s ['b'], .leaf (.int 2))],
   rfl, rfl⟩

/-! ## 6. More of `KeyPathSet`: `==`, `has_prefix`, `subtree` -/

/-- `s1 == s2` iff the two sets have the same members. -/
theorem C10_set_eq (a b : Trie) (ha : wf a = true) (hb : wf b = true) :
    Trie.beq a b = true ↔ ∀ q, dollarFree q = true → has a q = has b q :=
  beq_iff a b ha hb

/-- `has_prefix(p)` never raises and says whether some member extends `p` (for the root prefix on
the empty set the code answers True: excluded by the last hypothesis). -/
theorem C10_set_has_prefix (t : Trie) (p : Path) (h : wf t = true) (hp : dollarFree p = true)
    (hne : t.nonEmpty = true ∨ p ≠ []) :
    ∃ b, hasPrefix t p = .ok b ∧ (b = true ↔ ∃ r, dollarFree r = true ∧ has t (p ++ r) = true) :=
  hasPrefix_spec p t h hp hne

/-- `subtree(p)`: `None` iff no member extends `p`; otherwise the set of the remainders. -/
theorem C10_set_subtree (t : Trie) (p : Path) (h : wf t = true) (hp : dollarFree p = true) :
    ∃ o, subtree t p = .ok o ∧
      (match o with
       | some t' => wf t' = true ∧ ∀ q, has t' q = has t (p ++ q)
       | none => ∀ q, has t (p ++ q) = false) :=
  subtree_spec p t h hp

end Pg.C10
