/-
  C05 — Serialization and persistence round trip: what is saved is what is loaded.
  Property theorems only (models: PgModel/C05Codec.lean, PgModel/C05Store.lean; lemmas:
  PgProofs/C05*.lean; T-SIG table of the current source: PgGen/C05Sig.lean).
-/
import PgModel.C05Codec
import PgModel.C05Store
import PgGen.C05Sig
namespace Pg.C05

/-! ## T-SIG: value specs can be rebuilt from what `to_json` emits -/

/-- Constructor parameters whose `None` default is normalised to the omission sentinel `[]`
inside `__init__` (`args or []`). -/
def equivDefaults : List (String × String) :=
  [("Callable", "args"), ("Callable", "kw"), ("Functor", "args"), ("Functor", "kw")]

/-- Required constructor parameters whose value can never equal the omission sentinel `None`
(the element / class / candidates of a spec are always present), so the key is always emitted. -/
def neverOmitted : List (String × String) :=
  [("List", "element_value"), ("Tuple", "element_values"), ("Object", "t"), ("Type", "t"),
   ("Union", "candidates")]

def rowOK (r : SigRow) : Bool :=
  r.emitted.all fun (k, s) =>
    match r.ctor.find? (fun p => p.1 == k) with
    | none => false                                        -- emitted key unknown to `__init__`
    | some (_, some d) => d == s || equivDefaults.contains (r.cls, k)
    | some (_, none) => neverOmitted.contains (r.cls, k)

/-- Generated obligation over the table of the current source: every key that `to_json` may omit
(`exclude_default=True`) is a constructor parameter whose default *is* the omission sentinel, or a
required parameter that is always emitted. (F12: `Enum.default` was required and omittable.) -/
theorem C05_sig_table : ∀ r ∈ sigTable, rowOK r = true := by decide

end Pg.C05
