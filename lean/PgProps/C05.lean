/-
  C05 — Serialization and persistence round trip: what is saved is what is loaded.
  Property theorems only (models: PgModel/C05Codec.lean, PgModel/C05Store.lean; lemmas:
  PgProofs/C05*.lean; T-SIG table of the current source: PgGen/C05Sig.lean).
-/
import PgModel.C05Codec
import PgModel.C05Store
import PgGen.C05Sig
import PgProofs.C05Codec
import PgProofs.C05Store
import PgProofs.C05Keys
import PgProofs.C05Str
import PgProofs.C05Nested
import PgProofs.C05Paths
import PgProofs.C05Typed
import PgProofs.C05Sig
import PgProofs.C05Handles
import PgProofs.C05Dna
import PgProofs.C05Opts
import PgProofs.C05Auto
import PgProofs.C05SpecRT
import PgProofs.C05Geno
import PgGen.C05Fn
import PgProofs.C05MemSeq
namespace Pg.C05

/-! ## T-SIG: value specs can be rebuilt from what `to_json` emits -/

/-- Constructor parameters whose `None` default is normalised to the omission sentinel `[]`
inside `__init__` (`args or []`). -/
def equivDefaults : List (String × String) :=
  [("Callable", "args"), ("Callable", "kw"), ("Functor", "args"), ("Functor", "kw")]

/-- Required constructor parameters whose value can never equal the omission sentinel `None`
(the element / class / candidates of a spec are always present), so the key is always emitted. -/
def neverOmitted : List (String × String) :=
  [("List", "element_value"), ("Tuple", "element_values"), ("Object", "t"), ("Type", "t"),
   ("Union", "candidates")]

def rowOK (r : SigRow) : Bool :=
  r.emitted.all fun (k, s) =>
    match r.ctor.find? (fun p => p.1 == k) with
    | none => false                                        -- emitted key unknown to `__init__`
    | some (_, some d) => d == s || equivDefaults.contains (r.cls, k)
    | some (_, none) => neverOmitted.contains (r.cls, k)

/-- Generated obligation over the table of the current source: every key that `to_json` may omit
(`exclude_default=True`) is a constructor parameter whose default *is* the omission sentinel, or a
required parameter that is always emitted. (F12: `Enum.default` was required and omittable.) -/
theorem C05_sig_table : ∀ r ∈ sigTable, rowOK r = true := by decide


/-- The same check phrased with `alookup` (what `sig_sound` consumes), plus: a key is listed once. -/
def rowOK2 (r : SigRow) : Bool :=
  (r.emitted.all fun (k, s) =>
    alookup k r.ctor == some (some s) || equivDefaults.contains (r.cls, k) ||
      (alookup k r.ctor == some none && neverOmitted.contains (r.cls, k))) &&
  (r.emitted.all fun p => r.emitted.all fun q => p.1 != q.1 || p.2 == q.2)

theorem C05_sig_table2 : ∀ r ∈ sigTable, rowOK2 r = true := by decide

/-- What the table obligation buys, for every serialisable value-spec class of the current source
and every record of constructor arguments (values abstract): `to_json_dict(exclude_default=True)`
followed by `cls(**kwargs)` hands every argument back — the omitted ones through the constructor
default, the always-present ones because they never equal the sentinel. (Modulo the documented
`None ≡ []` normalisation of `Callable.args/kw`; the arguments themselves are specs / plain values,
whose own round trip is the codec theorem / correspondence.) -/
theorem C05_sig_roundtrip (r : SigRow) (hr : r ∈ sigTable) (args : String → String) (k s : String)
    (hmem : (k, s) ∈ r.emitted) (hnorm : (r.cls, k) ∉ equivDefaults)
    (hnever : (r.cls, k) ∈ neverOmitted → args k ≠ s) :
    rebuildArg r.ctor (emitArgs args r.emitted) k = some (args k) := by
  have h := C05_sig_table2 r hr
  simp only [rowOK2, Bool.and_eq_true, List.all_eq_true] at h
  have huniq : ∀ p ∈ r.emitted, p.1 = k → p.2 = s := by
    intro p hp hk
    have := h.2 p hp (k, s) hmem
    simp only [Bool.or_eq_true, bne_iff_ne, ne_eq, beq_iff_eq] at this
    rcases this with h1 | h1
    · exact absurd hk h1
    · exact h1
  have hk := h.1 (k, s) hmem
  simp only [Bool.or_eq_true, Bool.and_eq_true, beq_iff_eq, List.contains_iff_mem] at hk
  apply sig_sound r.emitted r.ctor args k s hmem huniq
  rcases hk with (h1 | h1) | h1
  · exact .inl h1
  · exact absurd h1 hnorm
  · exact .inr (hnever h1.2)

/-- F12 in this vocabulary: with `Enum.__init__(self, default, values, frozen=False)` (pinned tree)
an Enum without default emits no `default` key and the constructor has nothing to fall back on. -/
theorem C05_sig_F12_counterexample :
    rebuildArg (V := String) [("default", none), ("values", none), ("frozen", some "False")]
      (emitArgs (fun k => if k = "default" then "MISSING_VALUE" else if k = "values" then "[1, 2]" else "False")
        [("default", "MISSING_VALUE"), ("values", "None"), ("frozen", "False")]) "default" = none := by
  decide

/-! ## Codec: object form -/

def envP : ClassEnv := ⟨[("P".toList, [
  { name := ['x'], kind := .int, noneable := false, default := none, frozen := false },
  { name := ['k'], kind := .str, noneable := false, default := some (.leaf (.str ['r'])), frozen := true }])]⟩



/-- ROUND TRIP, object form, for every tree (all shapes, depths, key types, registered classes,
partial objects): a conforming value none of whose plain shapes is reserved by the encoding loads
back as *the same tree* — hence symbolically equal, of the same type at every node, with the same
hash (every function of the tree agrees). `ap` is `allow_partial`; without it the value must not
contain MISSING attributes. -/
theorem C05_roundtrip (env : ClassEnv) (hwf : env.WF = true) (ap : Bool) (t : Tree)
    (hc : Conforms env t = true) (he : Encodable false t = true)
    (hm : ap = true ∨ NoMissing t = true) :
    fromJson env ap (toJson env t) = .ok t := by
  unfold fromJson
  rw [rs_tree env t hc he]
  simp only [if_true]
  exact rt_tree env ap (fun c attrs h1 h2 h3 => construct_ok env hwf ap c attrs h1 h2 h3) t hc he hm

/-- ROUND TRIP UNDER OPTIONS: for every combination of `hide_frozen` and `hide_default_values`
(passed down to all descendants), `from_json(to_json(v, **options)) = v` for the same class of
trees: what is hidden — frozen fields, values equal to their field's default, MISSING — is exactly
what `Object.__init__` restores from the class schema. (`C05_roundtrip` is the instance
`hide_frozen=True, hide_default_values=False`.) -/
theorem C05_roundtrip_opts (o : JOpts) (env : ClassEnv) (hwf : env.WF = true) (ap : Bool) (t : Tree)
    (hc : Conforms env t = true) (he : Encodable false t = true)
    (hm : ap = true ∨ NoMissing t = true) :
    fromJson env ap (toJsonO o env t) = .ok t := by
  unfold fromJson
  rw [rsO_tree o env t hc he]
  simp only [if_true]
  exact rtO_tree o env hwf ap t hc he hm

/-- With `hide_default_values` an attribute at its default really is left out (so the theorem is
not about an option that does nothing): `P(x=3, k='r')` with default `k='r'` emits `x` only, also
when `hide_frozen=False`. -/
theorem C05_opts_hide (o : JOpts) (ho : o.hideDefault = true) :
    toJsonO o envP (.obj "P".toList [(['x'], .leaf (.int 3)), (['k'], .leaf (.str ['r']))]) =
      .obj [(.s typeKey, .str "P".toList), (.s ['x'], .int 3)] := by
  simp [toJsonO, toJsonOA, ClassEnv.fieldsOf, ClassEnv.find, envP, hiddenAttr, findField, isMissing, ho,
    Tree.beq, atomJ]

/-- `_type` RESOLUTION: loading with `auto_dict=True` gives the same result as the strict loader on
everything `to_json` produces from conforming values (every class is known, nothing is rewritten) … -/
theorem C05_auto_dict_roundtrip (env : ClassEnv) (hwf : env.WF = true) (ap : Bool) (t : Tree)
    (hc : Conforms env t = true) (he : Encodable false t = true)
    (hm : ap = true ∨ NoMissing t = true) :
    fromJsonAuto env ap (toJson env t) = .ok t := by
  unfold fromJsonAuto
  rw [ad_tree env t hc he]
  exact rt_tree env ap (fun c attrs h1 h2 h3 => construct_ok env hwf ap c attrs h1 h2 h3) t hc he hm

/-- The same statement without the `Encodable` hypothesis … -/
def C05_roundtrip_Full : Prop :=
  ∀ (env : ClassEnv) (ap : Bool) (t : Tree), env.WF = true → Conforms env t = true →
    (ap = true ∨ NoMissing t = true) → fromJson env ap (toJson env t) = .ok t

def noClasses : ClassEnv := ⟨[]⟩

/-- … is false: F10, the empty tuple is written as `['__tuple__']`, which the loader rejects. -/
theorem C05_roundtrip_counterexample : ¬ C05_roundtrip_Full := by
  intro h
  have := h noClasses false (.tuple []) rfl rfl (.inr rfl)
  simp [fromJson, toJson, toJsonL, resolveOk, resolveOkL, fromJ, jisTupleMarker] at this

/-- F10: `pg.from_json(pg.to_json(()))` raises ValueError. -/
theorem C05_reserved_empty_tuple :
    fromJson noClasses false (toJson noClasses (.tuple [])) = .error .value := by
  simp [fromJson, toJson, toJsonL, resolveOk, resolveOkL, fromJ, jisTupleMarker]

/-- F11a: a list that starts with the string `__tuple__` and a tuple have the same encoding
(`to_json` is not injective), and the list loads back as the tuple. -/
theorem C05_reserved_tuple_marker :
    toJson noClasses (.list [.leaf (.str tupleMarker), .leaf (.int 1)]) =
      toJson noClasses (.tuple [.leaf (.int 1)]) ∧
    fromJson noClasses false (toJson noClasses (.list [.leaf (.str tupleMarker), .leaf (.int 1)])) =
      .ok (.tuple [.leaf (.int 1)]) := by
  constructor
  · rfl
  · simp [fromJson, toJson, toJsonL, atomJ, resolveOk, resolveOkL, fromJ, fromJL, jisTupleMarker]

/-- F11b: a plain dict with the key `_type` is taken for an object: TypeError (unknown class). -/
theorem C05_reserved_type_key :
    fromJson noClasses false (toJson noClasses (.dict [(.s typeKey, .leaf (.str ['x']))])) =
      .error .type := by
  simp [fromJson, toJson, toJsonKV, atomJ, resolveOk, jlookup, noClasses, ClassEnv.find]

/-- … while on a `_type` that names no registered class the strict loader raises TypeError and
`auto_dict=True` keeps the dict, `_type` renamed to `type_name` (moved to the end). -/
theorem C05_unknown_type :
    fromJson noClasses false (.obj [(.s typeKey, .str "nope.Nope".toList), (.s ['x'], .int 1)]) = .error .type ∧
    fromJsonAuto noClasses false (.obj [(.s typeKey, .str "nope.Nope".toList), (.s ['x'], .int 1)]) =
      .ok (.dict [(.s ['x'], .leaf (.int 1)), (.s typeNameKey, .leaf (.str "nope.Nope".toList))]) := by
  constructor
  · simp [fromJson, resolveOk, jlookup, noClasses, ClassEnv.find]
  · have e : (['x'] : Str) ≠ typeKey := by decide
    have e2 : (['x'] : Str) ≠ typeNameKey := by decide
    have e3 : typeNameKey ≠ typeKey := by decide
    simp [fromJsonAuto, autoDict, autoDictKV, jlookup, noClasses, ClassEnv.find, dsetK, fromJ, fromJKV, e, e2, e3,
      e.symm, e2.symm, e3.symm]

/-! ### `auto_import` -/

/-- The classes the loader can see: the registry, plus — with `auto_import=True` — the classes
that are importable by module and qualified name although not registered
(`auto_register = False`). -/
def importEnv (registered : ClassEnv) (importable : List (Str × List Field)) (autoImport : Bool) : ClassEnv :=
  if autoImport then ⟨registered.classes ++ importable⟩ else registered

/-- A `_type` that names no class the loader can see is a TypeError, whatever else the dict holds
(strict loader: `auto_import=False`, or not importable either). -/
theorem C05_unregistered_class (env : ClassEnv) (ap : Bool) (c : Str) (rest : List (Key × JV))
    (h : env.find c = none) :
    fromJson env ap (.obj ((.s typeKey, .str c) :: rest)) = .error .type := by
  simp [fromJson, resolveOk, jlookup, h]

/-- Registered classes keep their schema when the importable ones are added … -/
theorem importEnv_find (reg : ClassEnv) (imp : List (Str × List Field)) (c : Str) (fs : List Field)
    (h : reg.find c = some fs) : (importEnv reg imp true).find c = some fs := by
  simp only [importEnv, if_true, ClassEnv.find] at h ⊢
  rw [List.find?_append]
  cases hf : reg.classes.find? (fun p => p.1 == c) with
  | none => simp [hf] at h
  | some p => simpa [hf] using h

/-- … and with `auto_import=True` every value over registered *and* importable classes round-trips
(the round-trip theorem at the enlarged environment), while the same JSON is a TypeError for the
strict loader as soon as it mentions an importable-only class at the top. -/
theorem C05_auto_import_roundtrip (reg : ClassEnv) (imp : List (Str × List Field))
    (hwf : (importEnv reg imp true).WF = true) (ap : Bool) (t : Tree)
    (hc : Conforms (importEnv reg imp true) t = true) (he : Encodable false t = true)
    (hm : ap = true ∨ NoMissing t = true) :
    fromJson (importEnv reg imp true) ap (toJson (importEnv reg imp true) t) = .ok t :=
  C05_roundtrip _ hwf ap t hc he hm

theorem C05_auto_import_off (reg : ClassEnv) (imp : List (Str × List Field)) (ap : Bool) (c : Str)
    (attrs : List (Str × Tree)) (h : reg.find c = none) :
    fromJson (importEnv reg imp false) ap (toJson (importEnv reg imp true) (.obj c attrs)) = .error .type := by
  simp only [importEnv, Bool.false_eq_true, if_false, toJson]
  exact C05_unregistered_class reg ap c _ h

/-! ## Codec: string form (`n_:` int keys) over an abstract JSON text layer -/

/-- F11c: in the string form a str key that starts with `n_:` is indistinguishable from an int key:
`{'n_:5': 1}` is written like `{5: 1}` would be, and loads back as `{5: 1}` — for every text layer
`dumps / loads` that is a bijection (Python's `json` is trusted to be one). -/
theorem C05_reserved_int_key_prefix {Text : Type} (dumps : JS → Text) (loads : Text → Option JS)
    (hjson : ∀ j, loads (dumps j) = some j) :
    fromJsonStr loads noClasses false
        (toJsonStr dumps noClasses (.dict [(.s "n_:5".toList, .leaf (.int 1))])) =
      .ok (.dict [(.i 5, .leaf (.int 1))]) := by
  unfold fromJsonStr toJsonStr
  rw [hjson]
  rfl

theorem intKeyPrefix_eq : intKeyPrefix = ['n', '_', ':'] := by decide

/-- ROUND TRIP, string form, for every tree: over any JSON text layer that is a bijection
(`loads (dumps j) = some j`; Python's `json` is trusted to be one), a conforming value none of
whose shapes is reserved — now including str keys / attribute names starting with `n_:` — comes
back from `from_json_str (to_json_str v)` as the same tree. Int keys of any size and sign, at any
depth, go through `f'n_:{k}'` / `int(k[3:])`; the dict comprehensions merge nothing. -/
theorem C05_roundtrip_str {Text : Type} (dumps : JS → Text) (loads : Text → Option JS)
    (hjson : ∀ j, loads (dumps j) = some j)
    (env : ClassEnv) (hwf : env.WF = true) (ap : Bool) (t : Tree)
    (hc : Conforms env t = true) (he : Encodable true t = true)
    (hm : ap = true ∨ NoMissing t = true) :
    fromJsonStr loads env ap (toJsonStr dumps env t) = .ok t := by
  unfold fromJsonStr toJsonStr
  rw [hjson]
  simp only [dec_enc (toJson env t) (jok_tree env hwf t hc he)]
  exact C05_roundtrip env hwf ap t hc (enc_mono t he) hm

/-- The string-form statement with only the object-form exclusions … -/
def C05_roundtrip_str_Full : Prop :=
  ∀ (env : ClassEnv) (ap : Bool) (t : Tree), env.WF = true → Conforms env t = true →
    Encodable false t = true → (ap = true ∨ NoMissing t = true) →
    fromJsonStr (Text := JS) some env ap (toJsonStr id env t) = .ok t

/-- … is false (F11c): `{'n_:5': 1}` is object-form encodable but loads as `{5: 1}`. -/
theorem C05_roundtrip_str_counterexample : ¬ C05_roundtrip_str_Full := by
  intro h
  have := h noClasses false (.dict [(.s "n_:5".toList, .leaf (.int 1))]) rfl rfl rfl (.inr rfl)
  have h2 : fromJsonStr (Text := JS) some noClasses false
      (toJsonStr id noClasses (.dict [(.s "n_:5".toList, .leaf (.int 1))])) =
      .ok (.dict [(.i 5, .leaf (.int 1))]) := rfl
  rw [h2] at this
  injection this with this
  injection this with this
  simp at this

/-- KEY CODING of the string form, for every key: an int key (any size, any sign) and every str
key that does not start with `n_:` survive `f'n_:{k}'` followed by `_get_key` (`int(k[3:])`);
so the key coding is injective off the reserved prefix (`int ∘ str = id` is proved for the model's
own digit functions, not assumed). -/
theorem C05_key_codec (k : Key) (h : keyReserved true k = false) : decKey (encKey k) = .ok k := by
  cases k with
  | s name =>
    simp only [keyReserved, Bool.true_and, Bool.or_eq_false_iff] at h
    simp [decKey, encKey, h.2]
  | i n =>
    have hp : intKeyPrefix.isPrefixOf (intKeyPrefix ++ reprInt n) = true := by
      rw [intKeyPrefix_eq]; simp [List.isPrefixOf]
    have hd : (intKeyPrefix ++ reprInt n).drop 3 = reprInt n := by
      rw [intKeyPrefix_eq]; rfl
    simp only [decKey, encKey, hp, if_true, hd, parseInt_reprInt]

/-- … and on the reserved prefix it is not: the str key `n_:5` and the int key 5 are written alike. -/
theorem C05_key_codec_counterexample :
    encKey (.s "n_:5".toList) = encKey (.i 5) ∧ Key.s "n_:5".toList ≠ Key.i 5 := by
  refine ⟨?_, by decide⟩
  simp [encKey, intKeyPrefix, reprInt, natDigits, digitChar]

/-! ## pg.typing value specs, fields, key specs, schemas -/

/-- ROUND TRIP for value specs, by mutual structural induction over specs / element lists /
fields / schemas: for every well-formed spec state (`VSOK`: defaults, enum values and metadata are
plain encodable values; the derived bits are what the constructors compute) of any nesting depth —
Any Bool Int Float Str Enum List Tuple (fixed / variable) Dict (schema-less / with schema) Object
Type Union Callable, with noneable / default / frozen / ranges / regex / sizes —
`from_json(to_json(spec))` rebuilds the same state. `to_json` is
`to_json_dict(exclude_default=True)` per class; loading decodes the children first and then calls
`cls(**kwargs)`. -/
theorem C05_spec_roundtrip (env : ClassEnv) (s : VS) (h : VSOK s = true) :
    specFromJson (vsToJson env s) = .ok s := by
  simp only [specFromJson, vs_rt env s h]

/-- … the same for a `Schema` (class schemas included: name, `allow_nonconst_keys`, metadata), a
`Field` (description, metadata) and every key spec (ConstStrKey, StrKey, ListKey, TupleKey). -/
theorem C05_schema_roundtrip (env : ClassEnv) (sc : VSchema) (h : schemaOK sc = true) :
    decodeU (schemaToJson env sc) = .ok (.schema sc) := schema_rt env sc h

theorem C05_field_roundtrip (env : ClassEnv) (f : VField) (h : fieldOK f = true) :
    decodeU (fieldToJson env f) = .ok (.field f) := field_rt env f h

theorem C05_keyspec_roundtrip (k : VKey) : decodeU (keyToJson k) = .ok (.key k) := key_rt k

/-- "Every spec state loads back" … -/
def C05_spec_Full : Prop := ∀ (env : ClassEnv) (s : VS), specFromJson (vsToJson env s) = .ok s

/-- … is false (F230): `Tuple(spec, max_size=0)` is a fixed tuple of zero elements, written as
`element_values: []`, which `Tuple.__init__` rejects (ValueError). -/
theorem C05_spec_counterexample : ¬ C05_spec_Full := by
  intro h
  have := h noClasses (.tupleFixed [] ⟨false, none, false⟩)
  have e : specFromJson (vsToJson noClasses (.tupleFixed [] ⟨false, none, false⟩)) = .error .value := by
    simp (decide := true) [specFromJson, vsToJson, vsToJsonL, dE, oE, fE, decodeU, finishObj, finishArr, decodeUKV,
      decodeUL, jlookup, buildU_Tuple, buildTuple, keysIn, gFlags, gPlain, gBool, gOptInt, ulookup, List.filter, uSpecs]
  rw [e] at this
  cases this

/-- Non-vacuity: `Dict([('a', List(Int(min_value=0, default=1), max_size=3)), (StrKey('k.*'),
Union([Str(regex='a.*').noneable(), Enum(None, [None, 'x'])]))])` is well formed. -/
example : VSOK (.dict (some (.mk
    [.mk (.const ['a']) (.list (.int (some 0) none ⟨false, some (.leaf (.int 1)), false⟩) 0 (some 3) ⟨false, none, false⟩) none none,
     .mk (.strKey (some "k.*".toList))
       (.union [.str (some "a.*".toList) ⟨true, some (.leaf .none), false⟩,
                .enum [.leaf .none, .leaf (.str ['x'])] ⟨true, some (.leaf .none), false⟩] ⟨false, none, false⟩) none none]
    none true none)) false ⟨false, none, false⟩) = true := by
  simp [VSOK, VSOKL, schemaOK, fieldsOK, fieldOK, flagsOK, optPlainOK, plainOK, plainOKL, isNoneLeaf,
    startsWithTupleMarker]

/-! ## DNASpec (`pg.geno.Space / Choices / Float / CustomDecisionPoint`) -/

/-- ROUND TRIP for search-space specifications: for every DNASpec of the shared geno model
(`PgModel/Geno/Spec.lean`: nested conditional spaces, multi-choices, floats, custom points, names,
locations, literal values — any depth) the object tree `pg.to_json` walks conforms to the class
schemas of geno and holds no reserved shape, hence loads back unchanged, in the object form … -/
theorem C05_dnaspec_roundtrip (gt : GenoText) (hgt : gt.OK) (g : Geno.Spec) (ap : Bool) :
    fromJson genoEnv ap (toJson genoEnv (specTree gt g)) = .ok (specTree gt g) := by
  obtain ⟨h1, h2, h3⟩ := spec_good gt hgt g
  exact C05_roundtrip genoEnv genoEnv_wf ap _ h1 h2 (.inr h3)

/-- … and under every combination of `hide_frozen` / `hide_default_values` (the defaults of
`hints`, `name`, `literal_values`, `index`, … are then left out and restored by the schema). -/
theorem C05_dnaspec_roundtrip_opts (o : JOpts) (gt : GenoText) (hgt : gt.OK) (g : Geno.Spec) (ap : Bool) :
    fromJson genoEnv ap (toJsonO o genoEnv (specTree gt g)) = .ok (specTree gt g) := by
  obtain ⟨h1, h2, h3⟩ := spec_good gt hgt g
  exact C05_roundtrip_opts o genoEnv genoEnv_wf ap _ h1 h2 (.inr h3)

/-! ## Functions as leaves: by code or by name -/

/-- For any choice of tests that contains both the `'<lambda>'` name test and the `CO_NESTED` test,
every function that is written BY NAME — module-level or class-body `def` — can be found again by
its qualified name; lambdas (at module scope, in a class body, nested) and nested defs go by code. -/
theorem C05_fn_sound (t : FnTests) (h1 : t.lambdaName = true) (h2 : t.coNested = true) (o : FnOrigin)
    (h : writtenByCode t o = false) : o.resolvableByName = true := by
  cases o <;> simp_all [writtenByCode, FnOrigin.isLambda, FnOrigin.isNested, FnOrigin.resolvableByName]

/-- Generated obligation over the tests extracted from the current `_function_to_json`: what it
writes by name is resolvable by name, for every origin of a plain function. -/
theorem C05_fn_table : ∀ o ∈ FnOrigin.all, writtenByCode fnTests o = false → o.resolvableByName = true := by
  decide

theorem C05_fn_origins_complete : ∀ o : FnOrigin, o ∈ FnOrigin.all := by
  intro o; cases o <;> decide

/-- Without the name test (seeded change C05-8: `CO_NESTED` alone) a lambda at module scope or in a
class body — e.g. an unchanged `Callable(default=lambda …)` field default — is written as
`module.<lambda>`, which no lookup can resolve. -/
theorem C05_fn_counterexample :
    writtenByCode ⟨false, true⟩ .moduleLambda = false ∧ FnOrigin.moduleLambda.resolvableByName = false ∧
    writtenByCode ⟨false, true⟩ .classBodyLambda = false ∧ FnOrigin.classBodyLambda.resolvableByName = false := by
  decide

/-- LOADS ARE INDEPENDENT OF EARLIER LOADS: without a process-level table every by-code function
comes back as its own JSON says — its own defaults — whatever was loaded before in the same value,
from other files, from earlier jsonl records. -/
theorem C05_fn_load_fresh : ∀ (js : List FnJ) (table : List (Nat × FnJ)),
    loadAll false table js = (table, js) := by
  intro js
  induction js with
  | nil => intro t; rfl
  | cons j js ih => intro t; simp [loadAll, loadFn, ih]

/-- Generated obligation: the current `_function_from_json` keeps no such table. -/
theorem C05_fn_load_table : fnLoadMemo = false := by decide

/-- With a table keyed by the code payload alone (seeded change C05-10) functions that share a code
object but differ in defaults — `[lambda x, k=k: x * k for k in (2, 3)]` — all come back with the
first one's defaults. -/
theorem C05_fn_load_counterexample :
    (loadAll true [] [⟨7, [2]⟩, ⟨7, [3]⟩]).2 = [⟨7, [2]⟩, ⟨7, [2]⟩] := by decide

/-- CLASS METHODS: a class method comes back bound to the same class exactly when the written name
is that of the class it is bound to, or the method is not inherited. The current writer uses the
function's `__qualname__` (`fnMethodNamesBound`, generated): `SubMaker.make` loads back as
`Maker.make` (F377; fixes/C05-F377.patch names `f.__self__`). -/
theorem C05_method_roundtrip (namesBound : Bool) (m : MethodRef) :
    loadMethod m (writeMethod namesBound m) = m ↔ (namesBound = true ∨ m.defining = m.bound) := by
  obtain ⟨d, b, n⟩ := m
  cases namesBound <;> simp [loadMethod, writeMethod]

/-! ## `pg.DNA` (compact JSON form, root metadata) -/

theorem dna_keys_ne :
    Key.s typeKey ≠ Key.s fmtKey ∧ Key.s typeKey ≠ Key.s valueKey ∧ Key.s typeKey ≠ Key.s metaKey ∧
    Key.s typeKey ≠ Key.s cloneKey ∧ Key.s fmtKey ≠ Key.s valueKey ∧ Key.s fmtKey ≠ Key.s metaKey ∧
    Key.s fmtKey ≠ Key.s cloneKey ∧ Key.s valueKey ≠ Key.s metaKey ∧ Key.s valueKey ≠ Key.s cloneKey ∧
    Key.s metaKey ≠ Key.s cloneKey := by decide

/-- ROUND TRIP for DNA: a DNA in normal form (`viewNorm`: the shape `DNA(<nested value>)` produces
— C12 — and no child is the empty DNA) whose metadata sits on the root only, loads back from its compact JSON as the same
DNA with the same metadata and cloneable-key list, provided the nested value and the metadata are
`Encodable` (e.g. no custom-genome string `'__tuple__'` leading a list). The nested value goes
through the plain-value codec (`C05_roundtrip`) and `DNA.parse` (`C12_compact_roundtrip`). -/
theorem C05_dna_roundtrip (ft : FloatText) (hft : ft.Lawful) (env : ClassEnv) (hwf : env.WF = true)
    (m : MDNA) (hn : Geno.viewNorm m.dna = true) (hne : noEmptyChild m.dna = true)
    (hcm : m.childMeta = false)
    (hev : Encodable false (nestTree ft (compact m.dna)) = true)
    (hmc : Conforms env (.dict m.md) = true) (hme : Encodable false (.dict m.md) = true)
    (hmm : NoMissing (.dict m.md) = true) :
    dnaFromJson ft env (dnaToJson ft env m) = .ok m := by
  obtain ⟨k1, k2, k3, k4, k5, k6, k7, k8, k9, k10⟩ := dna_keys_ne
  have hv := C05_roundtrip env hwf false _ (nest_plain ft env _).1 hev (.inr (nest_plain ft env _).2)
  have hmd := C05_roundtrip env hwf false _ hmc hme (.inr hmm)
  have hparse : (treeNest ft (nestTree ft (compact m.dna))).bind Geno.parse = some m.dna := by
    rw [treeNest_nestTree ft hft, compact_eq_toCompact m.dna hne]; exact Geno.parse_toCompact m.dna hn
  obtain ⟨d, md, cl, cm⟩ := m
  simp only at hn hne hcm hev hmc hme hmm hv hmd hparse
  subst hcm
  cases hmd0 : md.isEmpty <;> cases hcl0 : cl.isEmpty
  all_goals
    simp only [dnaFromJson, dnaToJson, hmd0, hcl0, Bool.false_eq_true, if_false, if_true, List.append_nil,
      List.cons_append, List.nil_append, jlookup, k1, k2, k3, k4, k5, k6, k7, k8, k9, k10, k1.symm,
      k2.symm, k3.symm, k4.symm, k5.symm, k6.symm, k7.symm, k8.symm, k9.symm, k10.symm, if_false, if_true,
      beq_self_eq_true, Option.getD_some, hv, hmd, hparse, strsOfJ_map]
  · -- md non-empty, cloneable empty
    have : cl = [] := List.isEmpty_iff.mp hcl0
    subst this; rfl
  · -- md empty, cloneable non-empty
    have : md = [] := List.isEmpty_iff.mp hmd0
    subst this; rfl
  · have h1 : md = [] := List.isEmpty_iff.mp hmd0
    have h2 : cl = [] := List.isEmpty_iff.mp hcl0
    subst h1; subst h2; rfl

/-- "Every DNA loads back with all its metadata" (any float text layer) … -/
def C05_dna_Full (ft : FloatText) : Prop :=
  ∀ (env : ClassEnv) (m : MDNA), env.WF = true → Geno.viewNorm m.dna = true →
    dnaFromJson ft env (dnaToJson ft env m) = .ok m

/-- … is false (F200): the compact form carries the metadata of the root node only; a DNA one of
whose children has metadata (`DNA(1, [DNA(2).set_metadata('k', 5)])`) comes back without it, so
`pg.eq` and `pg.hash` differ although `==` (which ignores metadata) holds. -/
theorem C05_dna_counterexample (ft : FloatText) : ¬ C05_dna_Full ft := by
  intro h
  have h1 := h noClasses ⟨.mk (.int 1) [.mk (.int 2) []], [], [], true⟩ rfl (by decide)
  have h2 : dnaFromJson ft noClasses (dnaToJson ft noClasses ⟨.mk (.int 1) [.mk (.int 2) []], [], [], true⟩) =
      .ok ⟨.mk (.int 1) [.mk (.int 2) []], [], [], false⟩ := by
    have e1 : typeKey ≠ fmtKey := by decide
    have e2 : typeKey ≠ valueKey := by decide
    have e3 : fmtKey ≠ valueKey := by decide
    have e4 : typeKey ≠ metaKey := by decide
    have e5 : fmtKey ≠ metaKey := by decide
    have e6 : valueKey ≠ metaKey := by decide
    have e7 : typeKey ≠ cloneKey := by decide
    have e8 : fmtKey ≠ cloneKey := by decide
    have e9 : valueKey ≠ cloneKey := by decide
    simp [dnaFromJson, dnaToJson, jlookup, e1, e2, e3, e4, e5, e6, e7, e8, e9,
      compact, compactL, Geno.toCompact, Geno.toNested, Geno.toNestedList, Geno.nestNode, nestTree, nestTreeL, valAtom,
      toJson, toJsonL, atomJ, fromJson, resolveOk, resolveOkL, fromJ, fromJL, jisTupleMarker, treeNest,
      treeNestL, Geno.parse, Geno.parseTuple, Geno.numVal]
  rw [h2] at h1
  injection h1 with h1
  injection h1 with _ _ _ hcm
  cases hcm

/-- F201: a DNA that is not in normal form does not survive either: `DNA(0, [DNA(None)])` (an empty
DNA as the only child) is written as `(0, None)` and read back as `DNA(0)`. -/
theorem C05_dna_not_normal (ft : FloatText) :
    Geno.viewNorm (.mk (.int 0) [.mk .none []]) = false ∧
    dnaFromJson ft noClasses (dnaToJson ft noClasses ⟨.mk (.int 0) [.mk .none []], [], [], false⟩) =
      .ok ⟨.mk (.int 0) [], [], [], false⟩ := by
  refine ⟨by decide, ?_⟩
  have e1 : typeKey ≠ fmtKey := by decide
  have e2 : typeKey ≠ valueKey := by decide
  have e3 : fmtKey ≠ valueKey := by decide
  have e4 : typeKey ≠ metaKey := by decide
  have e5 : fmtKey ≠ metaKey := by decide
  have e6 : valueKey ≠ metaKey := by decide
  have e7 : typeKey ≠ cloneKey := by decide
  have e8 : fmtKey ≠ cloneKey := by decide
  have e9 : valueKey ≠ cloneKey := by decide
  simp [dnaFromJson, dnaToJson, jlookup, e1, e2, e3, e4, e5, e6, e7, e8, e9,
    compact, compactL, Geno.nestNode, nestTree, nestTreeL, valAtom,
    toJson, toJsonL, atomJ, fromJson, resolveOk, resolveOkL, fromJ, fromJL, jisTupleMarker, treeNest,
    treeNestL, Geno.parse, Geno.parseTuple, Geno.numVal]

/-! ## Stand-alone typed containers (F11d, F11e) -/

/-- F11e, for every stand-alone typed dict: a key whose field is frozen, or whose value is MISSING
(partial dict), is absent from what `from_json (to_json d)` returns — the schema branch of
`sym_jsonify` hides it and no class schema puts it back. -/
theorem C05_typed_dict_drops (env : ClassEnv) (ap : Bool) (d : TypedDict) (k : Str)
    (hk : ∀ p ∈ d.items, p.1 = k → (frozenNames d.fields).contains k = true ∨ isMissing p.2 = true)
    (hnt : typeKey ∉ d.items.map (·.1))
    (t : Tree) (h : fromJson env ap (d.toJson env) = .ok t) :
    ∃ kvs, t = .dict kvs ∧ tlookup k kvs = none := by
  unfold fromJson at h
  split at h
  · have hno : jlookup (.s typeKey) (toJsonA env (frozenNames d.fields) d.items) = none := by
      apply jlookup_none_of_not_mem
      intro hm
      obtain ⟨q, hq, e⟩ := List.mem_map.mp hm
      obtain ⟨k', ek, hk'⟩ := toJsonA_keys env (frozenNames d.fields) d.items q hq
      rw [ek] at e
      injection e with e
      exact hnt (e ▸ hk')
    simp only [TypedDict.toJson, fromJ, hno] at h
    cases hkv : fromJKV env ap (toJsonA env (frozenNames d.fields) d.items) with
    | error e => simp [hkv] at h
    | ok ts =>
      simp only [hkv] at h
      injection h with h
      refine ⟨ts, h.symm, ?_⟩
      apply tlookup_none_of_not_mem
      rw [fromJKV_keys env ap _ ts hkv]
      exact toJsonA_dropped env (frozenNames d.fields) k d.items hk
  · cases h

def fieldX : Field := { name := ['x'], kind := .int, noneable := false, default := none, frozen := false }
def fieldY : Field := { name := ['y'], kind := .int, noneable := false, default := some (.leaf (.int 5)), frozen := true }
def fieldZ : Field := { name := ['z'], kind := .int, noneable := false, default := some (.leaf (.int 3)), frozen := false }

/-- `pg.Dict(x=1, value_spec=Dict([('x', Int()), ('y', Int().freeze(5))]))` -/
def typedFrozen : TypedDict := ⟨[fieldX, fieldY], [(['x'], .leaf (.int 1)), (['y'], .leaf (.int 5))]⟩
/-- `pg.Dict.partial(z=2, value_spec=Dict([('x', Int()), ('z', Int(default=3))]))` -/
def typedPartial : TypedDict := ⟨[fieldX, fieldZ], [(['x'], .leaf .missing), (['z'], .leaf (.int 2))]⟩

/-- "A typed dict loads back with the same key → value content" … -/
def C05_typed_roundtrip_Full : Prop :=
  ∀ (env : ClassEnv) (ap : Bool) (d : TypedDict) (t : Tree), fromJson env ap (d.toJson env) = .ok t →
    ∃ kvs, t = .dict kvs ∧ ∀ k, tlookup k kvs = tlookup k d.content

/-- … is false (F11e): the frozen field `y = 5` is in the original and not in the loaded dict. -/
theorem C05_typed_roundtrip_counterexample : ¬ C05_typed_roundtrip_Full := by
  intro hfull
  have hload : fromJson noClasses false (typedFrozen.toJson noClasses) = .ok (.dict [(.s ['x'], .leaf (.int 1))]) := by
    simp [fromJson, TypedDict.toJson, typedFrozen, toJsonA, frozenNames, fieldX, fieldY, isMissing, toJson,
      atomJ, resolveOk, resolveOkKV, jlookup, typeKey, fromJ, fromJKV]
  obtain ⟨kvs, e, hk⟩ := hfull noClasses false typedFrozen _ hload
  injection e with e
  have := hk ['y']
  rw [← e] at this
  simp [tlookup, TypedDict.content, typedFrozen] at this

/-- F11e, the partial case: `x = MISSING` is dropped, the loaded dict is `{z: 2}`. -/
theorem C05_typed_partial_loads :
    fromJson noClasses true (typedPartial.toJson noClasses) = .ok (.dict [(.s ['z'], .leaf (.int 2))]) := by
  simp [fromJson, TypedDict.toJson, typedPartial, toJsonA, frozenNames, fieldX, fieldZ, isMissing, toJson,
    atomJ, resolveOk, resolveOkKV, jlookup, typeKey, fromJ, fromJKV]

/-- F11d: the value spec is not part of the JSON. The original rejects a write to an unknown key
(KeyError) and an ill-typed write (TypeError); what is loaded is a schema-less `pg.Dict` (`Tree.dict`
carries no spec), on which every `d[k] = v` succeeds. Likewise for a typed list. -/
theorem C05_typed_spec_lost :
    typedFrozen.set "nope".toList (.leaf (.int 1)) = .error .key ∧
    (typedFrozen.set ['x'] (.leaf (.str ['s']))).toOption.isNone = true ∧
    (∃ kvs, fromJson noClasses false (typedFrozen.toJson noClasses) = .ok (.dict kvs)) ∧
    (∃ l' : TypedList, l' = ⟨.int, some 3, [.leaf (.int 1), .leaf (.int 2)]⟩ ∧
      (l'.append (.leaf (.str ['z']))).toOption.isNone = true ∧
      fromJson noClasses false (l'.toJson noClasses) = .ok (.list [.leaf (.int 1), .leaf (.int 2)])) := by
  refine ⟨by rfl, by rfl, ⟨[(.s ['x'], .leaf (.int 1))], ?_⟩, ⟨_, rfl, by rfl, ?_⟩⟩
  · simp [fromJson, TypedDict.toJson, typedFrozen, toJsonA, frozenNames, fieldX, fieldY, isMissing, toJson,
      atomJ, resolveOk, resolveOkKV, jlookup, typeKey, fromJ, fromJKV]
  · simp [fromJson, TypedList.toJson, toJsonL, toJson, atomJ, resolveOk, resolveOkL, fromJ, fromJL,
      jisTupleMarker]

/-! ## Stores -/

/-- Which operations the refinement theorem speaks about: save / load / writefile / sequence
append and read on a path that denotes a file directly under the mount point (`FlatOK`). -/
def OpOK (cfg : FsCfg) : Op → Bool
  | .save p _ | .load p | .write p _ _ | .seqWrite p _ _ | .seqRead p => FlatOK cfg p
  | _ => false

/-- SPEC: the abstract store `name ↦ content`. -/
def specStep (a : Abs) : Op → Abs × Out
  | .save p c => (upd a (nameStr p) c, .unit)
  | .load p => (a, match a (nameStr p) with
      | some c => .content c
      | none => .err .notFound)
  | .write p c m => (upd a (nameStr p) (newContent a (nameStr p) c m), .unit)
  | .seqWrite p m recs => (upd a (nameStr p) (newContent a (nameStr p) (linesOf recs) m), .unit)
  | .seqRead p => (a, match a (nameStr p) with
      | some c => .records (readLines c)
      | none => .err .notFound)
  | _ => (a, .unit)

def specRun : Abs → List Op → Abs × List Out
  | a, [] => (a, [])
  | a, op :: ops =>
    let (a1, o) := specStep a op
    let (a2, os) := specRun a1 ops
    (a2, o :: os)

/-- REFINEMENT, per operation: with truncation on 'w' and append on 'a' (the patched tree), every
modelled operation on a flat, well-located path acts on the abstract store exactly like the spec
and returns the spec's answer; the invariant (root holds files only) is kept. -/
theorem C05_store_refines (cfg : FsCfg) (ht : cfg.truncateOnW = true) (ha : cfg.appendAtEnd = true)
    (root : Dir) (hflat : Flat root) (op : Op) (hop : OpOK cfg op = true) :
    Flat (step cfg root op).1 ∧
    absOf (step cfg root op).1 = (specStep (absOf root) op).1 ∧
    (step cfg root op).2 = (specStep (absOf root) op).2 := by
  cases op with
  | save p c =>
    simp only [OpOK] at hop
    simp only [step, saveFile, mkdirsApi_flat cfg root p hop, writeFile_flat cfg root p c .w hflat hop ht ha,
      specStep, newContent]
    exact ⟨Flat_dset root _ _ hflat, absOf_dset root _ _, trivial⟩
  | load p =>
    simp only [OpOK] at hop
    simp only [step, readFile_flat cfg root p hflat hop, specStep]
    cases absOf root (nameStr p) <;> exact ⟨hflat, rfl, rfl⟩
  | write p c m =>
    simp only [OpOK] at hop
    simp only [step, writeFile_flat cfg root p c m hflat hop ht ha, specStep]
    exact ⟨Flat_dset root _ _ hflat, absOf_dset root _ _, trivial⟩
  | seqWrite p m recs =>
    simp only [OpOK] at hop
    simp only [step, seqWrite, mkdirsApi_flat cfg root p hop,
      writeFile_flat cfg root p (linesOf recs) m hflat hop ht ha, specStep]
    exact ⟨Flat_dset root _ _ hflat, absOf_dset root _ _, trivial⟩
  | seqRead p =>
    simp only [OpOK] at hop
    simp only [step, seqRead, readFile_flat cfg root p hflat hop, specStep]
    cases absOf root (nameStr p) <;> exact ⟨hflat, rfl, rfl⟩
  | mkdirs p => simp [OpOK] at hop
  | exists_ p => simp [OpOK] at hop
  | listdir p => simp [OpOK] at hop

/-- READ YOUR WRITES, for every history (any length, any interleaving of save / overwrite /
append / load / read over any set of flat paths): the implementation model returns exactly the
outputs of the abstract store. -/
theorem C05_read_your_writes (cfg : FsCfg) (ht : cfg.truncateOnW = true) (ha : cfg.appendAtEnd = true) :
    ∀ (ops : List Op) (root : Dir), Flat root → (∀ op ∈ ops, OpOK cfg op = true) →
      Flat (run cfg root ops).1 ∧
      absOf (run cfg root ops).1 = (specRun (absOf root) ops).1 ∧
      (run cfg root ops).2 = (specRun (absOf root) ops).2 := by
  intro ops
  induction ops with
  | nil => intro root h _; exact ⟨h, rfl, rfl⟩
  | cons op ops ih =>
    intro root hflat hops
    obtain ⟨h1, h2, h3⟩ := C05_store_refines cfg ht ha root hflat op (hops op (List.mem_cons_self ..))
    obtain ⟨i1, i2, i3⟩ := ih (step cfg root op).1 h1 (fun o ho => hops o (List.mem_cons_of_mem _ ho))
    simp only [run, specRun]
    rw [h2] at i2 i3
    exact ⟨i1, i2, by rw [h3, i3]⟩

/-! ### Nested directories -/

/-- A universe of file locations no one of which lies inside another (a file is never used as a
directory). -/
def PrefixFree (U : List FKey) : Prop :=
  ∀ u ∈ U, ∀ v ∈ U, u = v ∨ incomp2 u.1 u.2 v.1 v.2 = true

/-- Invariant: every location of the universe is usable (no component is a file, the location is
not a directory). Holds of the empty file system. -/
def Inv2 (U : List FKey) (es : Dir) : Prop := ∀ u ∈ U, free2 es u.1 u.2 = true

abbrev Abs2 := FKey → Option (List Char)
def absOf2 (es : Dir) : Abs2 := fun u => fileAt2 es u.1 u.2
def upd2 (a : Abs2) (u : FKey) (c : List Char) : Abs2 := fun v => if u = v then some c else a v

/-- save / load / sequence append and read on a well-located path of the universe (the path may
lie in any depth of directories, which `pg.save` / `open_sequence` create on demand). -/
def OpOK2 (cfg : FsCfg) (U : List FKey) : Op → Bool
  | .save p _ | .load p | .seqWrite p _ _ | .seqRead p => PathOK cfg p && U.contains (kp cfg p)
  | _ => false

def specStep2 (cfg : FsCfg) (a : Abs2) : Op → Abs2 × Out
  | .save p c => (upd2 a (kp cfg p) c, .unit)
  | .load p => (a, match a (kp cfg p) with
      | some c => .content c
      | none => .err .notFound)
  | .seqWrite p m recs => (upd2 a (kp cfg p) (newC (a (kp cfg p)) (linesOf recs) m), .unit)
  | .seqRead p => (a, match a (kp cfg p) with
      | some c => .records (readLines c)
      | none => .err .notFound)
  | _ => (a, .unit)

def specRun2 (cfg : FsCfg) : Abs2 → List Op → Abs2 × List Out
  | a, [] => (a, [])
  | a, op :: ops =>
    let (a1, o) := specStep2 cfg a op
    let (a2, os) := specRun2 cfg a1 ops
    (a2, o :: os)

theorem putAt_refines (U : List FKey) (hU : PrefixFree U) (es : Dir) (hinv : Inv2 U es)
    (k : FKey) (hk : k ∈ U) (c : List Char) :
    Inv2 U (putAt es k.1 k.2 c) ∧ ∀ u ∈ U, absOf2 (putAt es k.1 k.2 c) u = upd2 (absOf2 es) k c u := by
  constructor
  · intro u hu
    rcases hU k hk u hu with rfl | hi
    · exact (fileAt2_putAt_same k.1 es k.2 c).2
    · exact (putAt_other k.1 es k.2 c u.1 u.2 hi).2 (hinv u hu)
  · intro u hu
    rcases hU k hk u hu with rfl | hi
    · simp [absOf2, upd2, (fileAt2_putAt_same k.1 es k.2 c).1]
    · have hne : k ≠ u := by
        intro e; subst e
        have : ∀ (pk : List Name) (nm : Name), incomp2 pk nm pk nm = false := by
          intro pk; induction pk with
          | nil => intro nm; simp [incomp2]
          | cons x pk ih => intro nm; simp [incomp2, ih]
        rw [this] at hi; cases hi
      simp [absOf2, upd2, hne, (putAt_other k.1 es k.2 c u.1 u.2 hi).1]

/-- REFINEMENT for nested paths, per operation. -/
theorem C05_store_refines_nested (cfg : FsCfg) (ht : cfg.truncateOnW = true)
    (ha : cfg.appendAtEnd = true) (U : List FKey) (hU : PrefixFree U) (es : Dir) (hinv : Inv2 U es)
    (op : Op) (hop : OpOK2 cfg U op = true) :
    Inv2 U (step cfg es op).1 ∧
    (∀ u ∈ U, absOf2 (step cfg es op).1 u = (specStep2 cfg (absOf2 es) op).1 u) ∧
    (step cfg es op).2 = (specStep2 cfg (absOf2 es) op).2 := by
  cases op with
  | save p c =>
    simp only [OpOK2, Bool.and_eq_true, List.contains_iff_mem] at hop
    have hf := hinv _ hop.2
    simp only [step, saveFile, mkdirsApi_nested cfg es p hop.1 hf,
      writeFile_nested cfg es p c .w hop.1 hf ht ha, specStep2, newC]
    obtain ⟨h1, h2⟩ := putAt_refines U hU es hinv (kp cfg p) hop.2 c
    exact ⟨h1, h2, trivial⟩
  | load p =>
    simp only [OpOK2, Bool.and_eq_true, List.contains_iff_mem] at hop
    have hf := hinv _ hop.2
    simp only [step, readFile_nested cfg es p hop.1 hf, specStep2, absOf2]
    cases fileAt2 es (kp cfg p).1 (kp cfg p).2 <;> exact ⟨hinv, fun _ _ => rfl, rfl⟩
  | seqWrite p m recs =>
    simp only [OpOK2, Bool.and_eq_true, List.contains_iff_mem] at hop
    have hf := hinv _ hop.2
    simp only [step, seqWrite, mkdirsApi_nested cfg es p hop.1 hf,
      writeFile_nested cfg es p (linesOf recs) m hop.1 hf ht ha, specStep2]
    obtain ⟨h1, h2⟩ := putAt_refines U hU es hinv (kp cfg p) hop.2
      (newC (fileAt2 es (kp cfg p).1 (kp cfg p).2) (linesOf recs) m)
    exact ⟨h1, h2, trivial⟩
  | seqRead p =>
    simp only [OpOK2, Bool.and_eq_true, List.contains_iff_mem] at hop
    have hf := hinv _ hop.2
    simp only [step, seqRead, readFile_nested cfg es p hop.1 hf, specStep2, absOf2]
    cases fileAt2 es (kp cfg p).1 (kp cfg p).2 <;> exact ⟨hinv, fun _ _ => rfl, rfl⟩
  | write p c m => simp [OpOK2] at hop
  | mkdirs p => simp [OpOK2] at hop
  | exists_ p => simp [OpOK2] at hop
  | listdir p => simp [OpOK2] at hop

/-- The spec only looks at, and only changes, locations of the universe. -/
theorem specStep2_congr (cfg : FsCfg) (U : List FKey) (a b : Abs2) (hab : ∀ u ∈ U, a u = b u)
    (op : Op) (hop : OpOK2 cfg U op = true) :
    (∀ u ∈ U, (specStep2 cfg a op).1 u = (specStep2 cfg b op).1 u) ∧
    (specStep2 cfg a op).2 = (specStep2 cfg b op).2 := by
  have hupd : ∀ (k : FKey) (c : List Char), ∀ u ∈ U, upd2 a k c u = upd2 b k c u := by
    intro k c u hu
    simp only [upd2]
    split
    · rfl
    · exact hab u hu
  cases op with
  | save p c => exact ⟨hupd _ _, rfl⟩
  | load p =>
    simp only [OpOK2, Bool.and_eq_true, List.contains_iff_mem] at hop
    simp only [specStep2, hab _ hop.2]
    exact ⟨hab, trivial⟩
  | seqWrite p m recs =>
    simp only [OpOK2, Bool.and_eq_true, List.contains_iff_mem] at hop
    simp only [specStep2, hab _ hop.2]
    exact ⟨hupd _ _, trivial⟩
  | seqRead p =>
    simp only [OpOK2, Bool.and_eq_true, List.contains_iff_mem] at hop
    simp only [specStep2, hab _ hop.2]
    exact ⟨hab, trivial⟩
  | write p c m => simp [OpOK2] at hop
  | mkdirs p => simp [OpOK2] at hop
  | exists_ p => simp [OpOK2] at hop
  | listdir p => simp [OpOK2] at hop

/-- READ YOUR WRITES for nested paths: every history of save / overwrite / append / load / read
over any prefix-free set of well-located paths, at any directory depth, started from any state
satisfying the invariant (e.g. the empty file system), returns the outputs of the abstract store
`location ↦ content`. -/
theorem C05_read_your_writes_nested (cfg : FsCfg) (ht : cfg.truncateOnW = true)
    (ha : cfg.appendAtEnd = true) (U : List FKey) (hU : PrefixFree U) :
    ∀ (ops : List Op) (es : Dir) (a : Abs2), Inv2 U es → (∀ u ∈ U, absOf2 es u = a u) →
      (∀ op ∈ ops, OpOK2 cfg U op = true) →
      Inv2 U (run cfg es ops).1 ∧
      (∀ u ∈ U, absOf2 (run cfg es ops).1 u = (specRun2 cfg a ops).1 u) ∧
      (run cfg es ops).2 = (specRun2 cfg a ops).2 := by
  intro ops
  induction ops with
  | nil => intro es a h hab _; exact ⟨h, hab, rfl⟩
  | cons op ops ih =>
    intro es a hinv hab hops
    have hop := hops op (List.mem_cons_self ..)
    obtain ⟨h1, h2, h3⟩ := C05_store_refines_nested cfg ht ha U hU es hinv op hop
    obtain ⟨c1, c2⟩ := specStep2_congr cfg U (absOf2 es) a hab op hop
    obtain ⟨i1, i2, i3⟩ := ih (step cfg es op).1 (specStep2 cfg a op).1 h1
      (fun u hu => by rw [h2 u hu, c1 u hu]) (fun o ho => hops o (List.mem_cons_of_mem _ ho))
    simp only [run, specRun2]
    exact ⟨i1, i2, by rw [h3, c2, i3]⟩

theorem Inv2_nil (U : List FKey) : Inv2 U [] := fun u _ => free2_nil u.1 u.2

/-- CANONICAL PATHS: the path strings users write, `"/mem/" ++ d₁/…/dₙ/name` with non-empty,
slash-free components (any depth n ≥ 0), are well located on the patched tree (`PathOK`), and their
abstract key is `([d₁,…,dₙ], name)` — so the store theorems apply to them. (On the pinned tree this
fails: `C05_pinned_lstrip`.) -/
theorem C05_canonical_paths (dirs : List Name) (name : Name) (hd : ∀ w ∈ dirs, GoodComp w)
    (hn : GoodComp name) :
    PathOK FsCfg.patched (memPrefix ++ joinSlash (dirs ++ [name])) = true ∧
    kp FsCfg.patched (memPrefix ++ joinSlash (dirs ++ [name])) = (dirs, name) :=
  canonical_PathOK dirs name hd hn

/-- … in particular `"/mem/" ++ name` satisfies the hypothesis of the flat theorems. -/
theorem C05_canonical_flat (name : Name) (hn : GoodComp name) :
    FlatOK FsCfg.patched (memPrefix ++ name) = true := by
  obtain ⟨h1, h2⟩ := canonical_PathOK [] name (fun _ h => by cases h) hn
  have e : memPrefix ++ joinSlash ([] ++ [name]) = memPrefix ++ name := rfl
  rw [e] at h1 h2
  simp only [PathOK, Bool.and_eq_true, beq_iff_eq] at h1
  simp only [kp, Prod.mk.injEq] at h2
  simp only [FlatOK, Bool.and_eq_true, beq_iff_eq, List.isEmpty_iff]
  refine ⟨⟨?_, h2.1⟩, ?_⟩
  · rw [h1.1.1, h2.1, h2.2]; rfl
  · rw [h1.1.2, h2.1]

theorem specRun2_frame (cfg : FsCfg) (x : FKey) : ∀ (ops : List Op) (a : Abs2),
    (∀ op ∈ ops, ∀ p c, op ≠ .save p c ∨ kp cfg p ≠ x) →
    (∀ op ∈ ops, ∀ p m r, op ≠ .seqWrite p m r ∨ kp cfg p ≠ x) →
    (specRun2 cfg a ops).1 x = a x := by
  intro ops
  induction ops with
  | nil => intro a _ _; rfl
  | cons op ops ih =>
    intro a h1 h2
    have hstep : (specStep2 cfg a op).1 x = a x := by
      cases op with
      | save p c =>
        rcases h1 _ (List.mem_cons_self ..) p c with h | h
        · exact absurd rfl h
        · simp [specStep2, upd2, h]
      | seqWrite p m r =>
        rcases h2 _ (List.mem_cons_self ..) p m r with h | h
        · exact absurd rfl h
        · simp [specStep2, upd2, h]
      | _ => rfl
    simp only [specRun2]
    rw [ih _ (fun o ho => h1 o (List.mem_cons_of_mem _ ho)) (fun o ho => h2 o (List.mem_cons_of_mem _ ho)),
      hstep]

/-- LAST WRITE WINS at any directory depth: from the empty file system, after any history over a
prefix-free universe of well-located paths, once `c` is saved to `p`, and whatever is saved or
appended to *other* locations afterwards, loading `p` returns `c`. -/
theorem C05_load_returns_last_save_nested (cfg : FsCfg) (ht : cfg.truncateOnW = true)
    (ha : cfg.appendAtEnd = true) (U : List FKey) (hU : PrefixFree U)
    (before after : List Op) (p : Path) (c : List Char)
    (hp : OpOK2 cfg U (.load p) = true)
    (hb : ∀ op ∈ before, OpOK2 cfg U op = true) (hafter : ∀ op ∈ after, OpOK2 cfg U op = true)
    (ho1 : ∀ op ∈ after, ∀ q d, op ≠ .save q d ∨ kp cfg q ≠ kp cfg p)
    (ho2 : ∀ op ∈ after, ∀ q m r, op ≠ .seqWrite q m r ∨ kp cfg q ≠ kp cfg p) :
    let s1 := (run cfg [] before).1
    let s2 := (step cfg s1 (.save p c)).1
    let s3 := (run cfg s2 after).1
    (step cfg s3 (.load p)).2 = .content c := by
  intro s1 s2 s3
  have hsave : OpOK2 cfg U (.save p c) = true := hp
  have hmem : kp cfg p ∈ U := by
    simp only [OpOK2, Bool.and_eq_true, List.contains_iff_mem] at hp; exact hp.2
  obtain ⟨f1, _, _⟩ := C05_read_your_writes_nested cfg ht ha U hU before [] (absOf2 [])
    (Inv2_nil U) (fun _ _ => rfl) hb
  obtain ⟨f2, a2, _⟩ := C05_store_refines_nested cfg ht ha U hU s1 f1 (.save p c) hsave
  obtain ⟨f3, a3, _⟩ := C05_read_your_writes_nested cfg ht ha U hU after s2 (absOf2 s2) f2
    (fun _ _ => rfl) hafter
  obtain ⟨_, _, o4⟩ := C05_store_refines_nested cfg ht ha U hU s3 f3 (.load p) hp
  rw [o4]
  have : absOf2 s3 (kp cfg p) = some c := by
    show absOf2 (run cfg s2 after).1 (kp cfg p) = some c
    rw [a3 _ hmem, specRun2_frame cfg (kp cfg p) after _ ho1 ho2]
    show absOf2 (step cfg s1 (.save p c)).1 (kp cfg p) = some c
    rw [a2 _ hmem]
    simp [specStep2, upd2]
  simp only [specStep2, this]

/-- The name an operation writes to (in the abstract store). -/
def writesTo : Op → Option Name
  | .save p _ | .write p _ _ | .seqWrite p _ _ => some (nameStr p)
  | _ => none

theorem specRun_frame (x : Name) : ∀ (ops : List Op) (a : Abs), (∀ op ∈ ops, writesTo op ≠ some x) →
    (specRun a ops).1 x = a x := by
  intro ops
  induction ops with
  | nil => intro a _; rfl
  | cons op ops ih =>
    intro a h
    have h0 := h op (List.mem_cons_self ..)
    have hstep : (specStep a op).1 x = a x := by
      cases op <;> simp only [specStep, upd, writesTo, ne_eq, Option.some.injEq] at h0 ⊢ <;>
        simp [h0]
    simp only [specRun]
    rw [ih _ (fun o ho => h o (List.mem_cons_of_mem _ ho)), hstep]

/-- LAST WRITE WINS: whatever happened before, once `c` is saved to `p`, and whatever happens to
*other* files afterwards, loading `p` returns `c`. -/
theorem C05_load_returns_last_save (cfg : FsCfg) (ht : cfg.truncateOnW = true)
    (ha : cfg.appendAtEnd = true) (before after : List Op) (p : Path) (c : List Char)
    (hp : FlatOK cfg p = true)
    (hb : ∀ op ∈ before, OpOK cfg op = true) (hafter : ∀ op ∈ after, OpOK cfg op = true)
    (hother : ∀ op ∈ after, writesTo op ≠ some (nameStr p)) :
    let s1 := (run cfg [] before).1
    let s2 := (step cfg s1 (.save p c)).1
    let s3 := (run cfg s2 after).1
    (step cfg s3 (.load p)).2 = .content c := by
  intro s1 s2 s3
  obtain ⟨f1, _, _⟩ := C05_read_your_writes cfg ht ha before [] Flat_nil hb
  obtain ⟨f2, a2, _⟩ := C05_store_refines cfg ht ha s1 f1 (.save p c) hp
  obtain ⟨f3, a3, _⟩ := C05_read_your_writes cfg ht ha after s2 f2 hafter
  obtain ⟨_, _, o4⟩ := C05_store_refines cfg ht ha s3 f3 (.load p) hp
  rw [o4]
  have : absOf s3 (nameStr p) = some c := by
    show absOf (run cfg s2 after).1 (nameStr p) = some c
    rw [a3, specRun_frame (nameStr p) after _ hother]
    show absOf (step cfg s1 (.save p c)).1 (nameStr p) = some c
    rw [a2]
    simp [specStep, upd]
  simp only [specStep, this]

/-- RECORD SEQUENCES: records that contain no newline are read back exactly as appended, over any
number of append sessions (`linesOf` of a concatenation is the concatenation of the sessions'
output, which is what `newContent … .a` accumulates). -/
theorem C05_records_roundtrip (sessions : List (List (List Char)))
    (h : ∀ s ∈ sessions, ∀ r ∈ s, '\n' ∉ r) :
    readLines ((sessions.map linesOf).flatten) = sessions.flatten := by
  have hl : ∀ ss : List (List (List Char)), (ss.map linesOf).flatten = linesOf ss.flatten := by
    intro ss
    induction ss with
    | nil => rfl
    | cons s ss ih => simp [linesOf_append, ih]
  rw [hl, readLines_linesOf]
  intro r hr
  obtain ⟨s, hs, hrs⟩ := List.mem_flatten.mp hr
  exact h s hs r hrs

/-- APPEND MODE: a file that is empty or ends in a newline (`Terminated`: what every sequence
session leaves, by `linesOf_terminated`) keeps its records when a session is appended, gains
exactly the new records, and is again `Terminated` — so `open_jsonl(p, 'a')` composes. -/
theorem C05_append_session (c : List Char) (hc : Terminated c) (recs : List (List Char))
    (h : ∀ r ∈ recs, '\n' ∉ r) :
    readLines (c ++ linesOf recs) = readLines c ++ recs ∧ Terminated (c ++ linesOf recs) :=
  ⟨by rw [readLines_append_terminated c _ hc, readLines_linesOf recs h],
   terminated_append c _ hc (linesOf_terminated recs)⟩

/-- PARTIAL LAST LINE: if the file does not end in a newline (a writer died in the middle of a
record, or the file was written by `pg.save`), the first appended record is glued to the partial
line: neither of the two is read back. -/
theorem C05_partial_line_counterexample :
    ¬ Terminated "[1, 2".toList ∧
    readLines ("[1, 2".toList ++ linesOf ["[3]".toList]) = ["[1, 2[3]".toList] := by
  refine ⟨?_, by decide⟩
  rintro (h | ⟨c', h⟩)
  · cases h
  · have : ("[1, 2".toList).getLast? = (c' ++ ['\n']).getLast? := by rw [h]
    simp at this

/-- JSONL GLUE: values written with `open_jsonl` — one `to_json_str` text per line — are read back
as the same values, for any JSON text layer whose output has no raw newline (json.dumps without
indent escapes them). -/
theorem C05_jsonl_roundtrip (dumps : JS → List Char) (loads : List Char → Option JS)
    (hjson : ∀ j, loads (dumps j) = some j) (hnl : ∀ j, '\n' ∉ dumps j)
    (env : ClassEnv) (hwf : env.WF = true) (ap : Bool) (vs : List Tree)
    (hv : ∀ t ∈ vs, Conforms env t = true ∧ Encodable true t = true ∧ (ap = true ∨ NoMissing t = true)) :
    (readLines (linesOf (vs.map (toJsonStr dumps env)))).map (fromJsonStr loads env ap) =
      vs.map .ok := by
  rw [readLines_linesOf]
  · rw [List.map_map]
    apply List.map_congr_left
    intro t ht
    obtain ⟨h1, h2, h3⟩ := hv t ht
    exact C05_roundtrip_str dumps loads hjson env hwf ap t h1 h2 h3
  · intro r hr
    obtain ⟨t, _, rfl⟩ := List.mem_map.mp hr
    exact hnl _

/-- … and the side condition on `ap` is needed: `pg.open_jsonl` reads with a bare `from_json_str`
(`ap = false`), so a PARTIAL object that was added is refused on the way back (TypeError), where
`pg.load` (`ap = true`) returns it (F375; fixes/C05-F375.patch makes the reader pass `allow_partial`). -/
theorem C05_jsonl_partial_counterexample :
    let t : Tree := .obj "P".toList [(['x'], .leaf .missing), (['k'], .leaf (.str ['r']))]
    fromJsonStr (Text := JS) some envP false (toJsonStr id envP t) = .error .type ∧
    fromJsonStr (Text := JS) some envP true (toJsonStr id envP t) = .ok t := by
  constructor <;> rfl

/-- The same without the newline exclusion … -/
def C05_records_Full : Prop :=
  ∀ rs : List (List Char), readLines (linesOf rs) = rs

/-- … is false (F13d): a record with an embedded newline comes back as two records. -/
theorem C05_records_counterexample : ¬ C05_records_Full := by
  intro h
  have := h ["a\nb".toList]
  revert this
  decide

/-! ### F13 on the pinned tree: the three defects, as facts about `FsCfg.pinned` -/

/-- F13a: `lstrip('/mem/')` strips characters: '/mem/m.json' is stored under `m.json` but looked
up under `.json` — so it is not `FlatOK`, and a save followed by a load does not find the file;
with the prefix stripped as a prefix it does. -/
theorem C05_pinned_lstrip :
    key FsCfg.pinned "/mem/m.json".toList = [".json".toList] ∧
    FlatOK FsCfg.pinned "/mem/m.json".toList = false ∧
    (run FsCfg.pinned [] [.save "/mem/m.json".toList ['1'], .load "/mem/m.json".toList]).2 =
      [.unit, .err .notFound] ∧
    FlatOK FsCfg.patched "/mem/m.json".toList = true ∧
    (run FsCfg.patched [] [.save "/mem/m.json".toList ['1'], .load "/mem/m.json".toList]).2 =
      [.unit, .content ['1']] := by
  decide

/-- F13a (aliasing): on the pinned tree '/mem/me/x' and '/mem/x' are the same file. -/
theorem C05_pinned_alias :
    key FsCfg.pinned "/mem/me/x".toList = key FsCfg.pinned "/mem/x".toList ∧
    key FsCfg.patched "/mem/me/x".toList ≠ key FsCfg.patched "/mem/x".toList := by
  decide

/-- F13b: on the pinned tree a shorter rewrite leaves stale tail bytes. -/
theorem C05_pinned_no_truncate :
    (run FsCfg.pinned [] [.save "/mem/y".toList "hello".toList, .save "/mem/y".toList ['X'],
                         .load "/mem/y".toList]).2 = [.unit, .unit, .content "Xello".toList] ∧
    (run FsCfg.patched [] [.save "/mem/y".toList "hello".toList, .save "/mem/y".toList ['X'],
                          .load "/mem/y".toList]).2 = [.unit, .unit, .content ['X']] := by
  decide

/-- F13c: on the pinned tree mode 'a' overwrites from position 0 (and cannot create a file). -/
theorem C05_pinned_append :
    (run FsCfg.pinned [] [.seqWrite "/mem/s".toList .w [['1'], ['2']], .seqWrite "/mem/s".toList .a [['3']],
                         .seqRead "/mem/s".toList]).2 = [.unit, .unit, .records [['3'], ['2']]] ∧
    (run FsCfg.pinned [] [.seqWrite "/mem/s".toList .a [['3']]]).2 = [.err .notFound] ∧
    (run FsCfg.patched [] [.seqWrite "/mem/s".toList .w [['1'], ['2']], .seqWrite "/mem/s".toList .a [['3']],
                          .seqRead "/mem/s".toList]).2 = [.unit, .unit, .records [['1'], ['2'], ['3']]] := by
  decide

/-! ## Histories around serialisation: `to_json` has no memory -/

/-- WHAT IS SAVED IS WHAT IS LOADED, at every point of every history: each output of the history
loads back (with `allow_partial`, as `pg.load` does) to the value that was current when it was
written — provided that value is well formed and encodable. The implementation is compared with
this memory-less model on generated histories (serialise, mutate at depth 1–3, query the memoised
derived state, serialise again; all option combinations). -/
theorem C05_history (env : ClassEnv) (hwf : env.WF = true) :
    ∀ (ops : List HistOp) (t : Tree), ∀ r ∈ histRun env t ops,
      Conforms env r.1 = true → Encodable false r.1 = true → fromJson env true r.2 = .ok r.1 := by
  intro ops
  induction ops with
  | nil => intro t r hr; cases hr
  | cons op ops ih =>
    intro t r hr hc he
    cases op with
    | ser o =>
      simp only [histRun, List.mem_cons] at hr
      rcases hr with rfl | hr
      · exact C05_roundtrip_opts o env hwf true _ hc he (.inl rfl)
      · exact ih t r hr hc he
    | put t' => exact ih t' r hr hc he

/-! ## Several in-memory mounts: one store per mount -/

/-- OPERATIONS ON ONE MOUNT NEVER CHANGE WHAT THE OTHER MOUNT HOLDS OR RETURNS: in any interleaving
of operations on two `MemoryFileSystem` mounts, each mount ends in the state, and returns the
outputs, of its own operations run alone (whatever the paths — in particular the same
mount-relative paths on both). -/
theorem C05_mounts_independent (cfg : FsCfg) : ∀ (ms : List MOp) (s : Dir × Dir),
    (mrun cfg s ms).1.1 = (run cfg s.1 (opsOf false ms)).1 ∧
    (mrun cfg s ms).1.2 = (run cfg s.2 (opsOf true ms)).1 ∧
    outsOf false (mrun cfg s ms).2 = (run cfg s.1 (opsOf false ms)).2 ∧
    outsOf true (mrun cfg s ms).2 = (run cfg s.2 (opsOf true ms)).2 := by
  intro ms
  induction ms with
  | nil => intro s; exact ⟨rfl, rfl, rfl, rfl⟩
  | cons m ms ih =>
    intro s
    obtain ⟨b, op⟩ := m
    cases b with
    | false =>
      obtain ⟨h1, h2, h3, h4⟩ := ih ((step cfg s.1 op).1, s.2)
      simp only [mrun, mstep, opsOf, outsOf, List.filter, List.map, run, Bool.false_eq_true, if_false,
        beq_self_eq_true] at h1 h2 h3 h4 ⊢
      refine ⟨h1, h2, ?_, h4⟩
      rw [h3]
    | true =>
      obtain ⟨h1, h2, h3, h4⟩ := ih (s.1, (step cfg s.2 op).1)
      simp only [mrun, mstep, opsOf, outsOf, List.filter, List.map, run, if_true,
        beq_self_eq_true] at h1 h2 h3 h4 ⊢
      refine ⟨h1, h2, h3, ?_⟩
      rw [h4]

/-! ## Record sequences in memory (`.mem`, `.mem@N`): a read returns fresh values -/

/-- READ YOUR APPENDS for the memory sequence store, for every history over any set of paths: a
read of `p` returns exactly the records added to `p` since its last 'w' (`specRecs`). -/
theorem C05_memseq_read (p : Path) (before : List SOp) :
    (sStep (sRun MemSeq.empty before).1 (.read p)).2 = .records (specRecs p before []) := by
  simp only [sStep]
  rw [sRun_state p before MemSeq.empty]
  rfl

/-- LATER READS DO NOT DEPEND ON WHAT CALLERS DID TO EARLIER RESULTS: deleting every
"mutate a returned record in place" step from a history changes neither the store nor the result of
any read. (A read hands out fresh values; the store holds the raw records.) -/
theorem C05_reads_fresh (ops : List SOp) :
    (sRun MemSeq.empty ops).1 = (sRun MemSeq.empty (ops.filter notMutate)).1 ∧
    (sRun MemSeq.empty ops).2.filter isRead = (sRun MemSeq.empty (ops.filter notMutate)).2.filter isRead :=
  sRun_erase_mutations ops MemSeq.empty

/-! ## Open handles as state (F130) -/

/-- "A reader that has just been opened reads the whole file" — whatever other handles exist
(open, closed or stale) and wherever they are positioned. This is what `pg.load` / `readfile` /
`LineSequence` rely on. -/
def C05_handles_Full (cfg : HCfg) : Prop :=
  ∀ (s s1 : HSt) (p : Path) (h : Nat), hOpen cfg s p .r = .ok (s1, h) →
    (hRead cfg s1 h none).2 = hContent s1 h

/-- It holds for every state when each handle has its own position (fixes/C05-F130.patch). -/
theorem C05_handles_per_handle (cfg : HCfg) (hph : cfg.perHandle = true) : C05_handles_Full cfg :=
  fun s s1 p h hop => fresh_reader_reads_all cfg hph s s1 p h hop

/-- The state after `pg.save(v, '/mem/a')`, `h = pg.io.open('/mem/a')`, `h.read()` (never closed). -/
def afterUnclosedRead (cfg : HCfg) : HSt :=
  (hRun cfg HSt.empty [.save "/mem/a".toList "[1]".toList, .hopen "/mem/a".toList .r, .hread 1 none]).1

/-- F130: on the tree as it is (all handles of a file share one position) it fails — after an
unclosed read the next reader starts at the end and reads nothing. -/
theorem C05_handles_counterexample : ¬ C05_handles_Full HCfg.head := by
  intro hfull
  have hop : hOpen HCfg.head (afterUnclosedRead HCfg.head) "/mem/a".toList .r =
      .ok ((hStep HCfg.head (afterUnclosedRead HCfg.head) (.hopen "/mem/a".toList .r)).1, 2) := by rfl
  have := hfull _ _ _ _ hop
  revert this
  decide

/-- The same history, end to end: `load` after the unclosed read returns the empty string on the
tree as it is, and the saved text with per-handle positions. -/
theorem C05_handles_history :
    (hRun HCfg.head HSt.empty [.save "/mem/a".toList "[1]".toList, .hopen "/mem/a".toList .r,
        .hread 1 none, .load "/mem/a".toList]).2 =
      [.unit, .handle 1, .content "[1]".toList, .content []] ∧
    (hRun HCfg.fixed HSt.empty [.save "/mem/a".toList "[1]".toList, .hopen "/mem/a".toList .r,
        .hread 1 none, .load "/mem/a".toList]).2 =
      [.unit, .handle 1, .content "[1]".toList, .content "[1]".toList] := by
  decide

/-! ## Non-vacuity -/

def sampleTree : Tree :=
  .dict [(.i 5, .tuple [.leaf .none,
                        .obj "P".toList [(['x'], .leaf (.int 3)), (['k'], .leaf (.str ['r']))]]),
         (.s ['a'], .list [.leaf (.int 1), .leaf (.str tupleMarker)])]

/-- A nested value with an object (one frozen field), a tuple, int and str keys and a harmless
`__tuple__` string satisfies all hypotheses of `C05_roundtrip`. -/
example : envP.WF = true ∧ Conforms envP sampleTree = true ∧ Encodable false sampleTree = true ∧
    NoMissing sampleTree = true := by
  refine ⟨by decide, ?_, ?_, ?_⟩
  · simp [sampleTree, Conforms, ConformsL, ConformsKV, ConformsA, keysNodup, envP, ClassEnv.find,
      attrsOK, attrOK, accepts, Tree.beq, isMissing]
  · simp [sampleTree, Encodable, EncodableL, EncodableKV, EncodableA, keyReserved, typeKey,
      startsWithTupleMarker, isMissing]
  · simp [sampleTree, NoMissing, NoMissingL, NoMissingKV, NoMissingA]
example : OpOK FsCfg.patched (.save "/mem/m.json".toList ['1']) = true := by decide
example : OpOK FsCfg.patched (.seqWrite "/mem/data.jsonl".toList .a [['r']]) = true := by decide
example : FsCfg.patched.truncateOnW = true ∧ FsCfg.patched.appendAtEnd = true := by decide
/-- A prefix-free universe with nested locations, and an operation on it. -/
example : PrefixFree [(["m".toList, "e".toList], "m.json".toList), (["m".toList], "x".toList), ([], "me".toList)] := by
  intro u hu v hv
  simp only [List.mem_cons, List.mem_singleton, List.not_mem_nil, or_false] at hu hv
  rcases hu with rfl | rfl | rfl <;> rcases hv with rfl | rfl | rfl <;> first | exact .inl rfl | exact .inr (by decide)
example : OpOK2 FsCfg.patched [(["m".toList, "e".toList], "m.json".toList)] (.save "/mem/m/e/m.json".toList ['1']) = true := by decide
example : GoodComp "m.json".toList := ⟨by decide, by decide⟩

end Pg.C05
