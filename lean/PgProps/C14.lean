/-
  C14 — Evolution operators are closed over valid DNA and never corrupt their inputs.
  Property theorems only (model: PgModel/Evo.lean; helper lemmas: PgProofs/Evo*.lean).

  Reading guide.  `Op = Pop → M Pop` is an operation over populations in the oracle/uid state monad;
  an operation that raises in Python returns `.error` — every contract speaks about runs that
  return (`= .ok (out, st')`), for ALL specs, populations, oracle streams and uid counters.
-/
import PgProofs.Evo
import PgProofs.EvoPrims
import PgProofs.EvoMut
import PgProofs.EvoAlign
import PgProofs.EvoAlignU
import PgProofs.EvoPure
import PgProofs.EvoPermP
import PgProofs.EvoOrderPerm
import PgProofs.EvoPmxPerm
import PgProofs.EvoCyclePerm
import PgProofs.EvoCycleTotal
import PgProofs.EvoPmxTotal
import PgProofs.EvoLaws
import PgProofs.EvoNestP
import PgProofs.EvoFuel
import PgProofs.EvoDetPrims
import PgModel.EvoSched
import PgProofs.EvoNumP
import PgProofs.EvoPropP
import PgProofs.EvoDriverP
import PgProofs.EvoCluster
import Mathlib.Tactic.NormNum
import Mathlib.Data.List.Perm.Subperm
namespace Pg.C14

/-! ## Contracts -/

def Valid (g : GSpec) (d : DNA) : Prop := valid g d = true
def Aligned (d : DNA) : Prop := aligned d = true

/-- valid inputs ⇒ valid outputs for the same spec. -/
def Closed (g : GSpec) (op : Op) : Prop :=
  ∀ pop st out st', (∀ x ∈ pop, Valid g x.dna) → op pop st = .ok (out, st') → ∀ y ∈ out, Valid g y.dna

/-- valid and aligned inputs ⇒ valid and aligned outputs. -/
def ClosedAligned (g : GSpec) (op : Op) : Prop :=
  ∀ pop st out st', (∀ x ∈ pop, Valid g x.dna ∧ Aligned x.dna) → op pop st = .ok (out, st') →
    ∀ y ∈ out, Valid g y.dna ∧ Aligned y.dna

/-- a selector returns only members of its input, in the documented number, and creates nothing. -/
def SelectorLaw (op : Op) (count : Nat → Nat) : Prop :=
  ∀ pop st out st', op pop st = .ok (out, st') →
    (∀ y ∈ out, y ∈ pop) ∧ out.length = count pop.length ∧ st'.nextUid = st.nextUid

/-- … and, for the selectors without replacement, as a sub-multiset. -/
def SubMultiset (op : Op) : Prop :=
  ∀ pop st out st', op pop st = .ok (out, st') → out.Subperm pop

/-- inputs are never changed: on valid inputs every output is valid and is either one of the input
objects, untouched, or an object created by this very run (its uid is fresh). In the pure model "the
input population is unchanged" is immediate; this is the part that has content
(clone-before-modify: a mutated DNA is never one of the objects passed in). -/
def Pure (g : GSpec) (op : Op) : Prop :=
  ∀ pop st out st', (∀ x ∈ pop, Valid g x.dna) → op pop st = .ok (out, st') →
    st.nextUid ≤ st'.nextUid ∧
    ∀ y ∈ out, Valid g y.dna ∧ (y ∈ pop ∨ (st.nextUid ≤ y.uid ∧ y.uid < st'.nextUid))

/-! ## Selectors (selectors.py): Random, Sample, Top, Bottom, First, Last -/

theorem C14_selector_First (n : NSpec) : SelectorLaw (selFirst n) (fun len => min (numOutput n len) len) := by
  intro pop st out st' h
  simp only [selFirst] at h
  rw [pure_ok] at h
  obtain ⟨rfl, rfl⟩ := h
  exact ⟨fun y hy => List.mem_of_mem_take hy, by simp [List.length_take], rfl⟩

theorem C14_selector_Last (n : NSpec) : SelectorLaw (selLast n) (fun len => min (numOutput n len) len) := by
  intro pop st out st' h
  simp only [selLast] at h
  rw [pure_ok] at h
  obtain ⟨rfl, rfl⟩ := h
  exact ⟨fun y hy => List.mem_of_mem_drop hy, by simp only [List.length_drop]; omega, rfl⟩

theorem C14_selector_Top (n : NSpec) : SelectorLaw (selTop n) (fun len => min (numOutput n len) len) := by
  intro pop st out st' h
  simp only [selTop] at h
  split at h
  · exact ((fail_ok _ _ _).mp h).elim
  · rw [pure_ok] at h
    obtain ⟨rfl, rfl⟩ := h
    refine ⟨fun y hy => ?_, by simp [List.length_take, List.length_mergeSort], rfl⟩
    exact (List.mergeSort_perm pop _).mem_iff.mp (List.mem_of_mem_take hy)

theorem C14_selector_Bottom (n : NSpec) : SelectorLaw (selBottom n) (fun len => min (numOutput n len) len) := by
  intro pop st out st' h
  simp only [selBottom] at h
  split at h
  · exact ((fail_ok _ _ _).mp h).elim
  · rw [pure_ok] at h
    obtain ⟨rfl, rfl⟩ := h
    refine ⟨fun y hy => ?_, by simp [List.length_take, List.length_mergeSort], rfl⟩
    exact (List.mergeSort_perm pop _).mem_iff.mp (List.mem_of_mem_take hy)

theorem C14_selector_Random (n : NSpec) (replacement : Bool) :
    SelectorLaw (selRandom n replacement)
      (fun len => if replacement then numOutput n len else min (numOutput n len) len) := by
  intro pop st out st' h
  simp only [selRandom] at h
  cases replacement with
  | true =>
    simp only [if_true] at h
    split at h
    · exact ((fail_ok _ _ _).mp h).elim
    · rw [bind_ok] at h
      obtain ⟨is, s1, h1, h2⟩ := h
      obtain ⟨hl, _, hu⟩ := nextIdxs_spec _ _ _ _ _ _ h1
      obtain ⟨hm, hlen, rfl⟩ := pickAll_spec _ _ _ _ _ h2
      exact ⟨hm, by simp [hlen, hl], hu⟩
  | false =>
    simp only [Bool.false_eq_true, if_false] at h
    rw [bind_ok] at h
    obtain ⟨is, s1, h1, h2⟩ := h
    obtain ⟨hl, _, _, hu⟩ := nextSample_spec h1
    obtain ⟨hm, hlen, rfl⟩ := pickAll_spec _ _ _ _ _ h2
    exact ⟨hm, by simp [hlen, hl], hu⟩

theorem C14_selector_Sample (n : NSpec) : SelectorLaw (selSample n) (fun len => numOutput n len) := by
  intro pop st out st' h
  simp only [selSample] at h
  split at h
  · exact ((fail_ok _ _ _).mp h).elim
  · rw [bind_ok] at h
    obtain ⟨is, s1, h1, h2⟩ := h
    obtain ⟨hl, _, hu⟩ := nextChoices_spec h1
    obtain ⟨hm, hlen, rfl⟩ := pickAll_spec _ _ _ _ _ h2
    exact ⟨hm, by simp [hlen, hl], hu⟩

/-- `Proportional`: `_partition` hands out exactly the documented number of items, whatever the
weights (tiny, zero, equal …): the rounding adjustment never over- or under-shoots. -/
theorem C14_partition_count (ws : List Q) (n : Nat) (a : List Nat) (h : partition ws n = some a) :
    a.sum = n ∧ a.length = ws.length := partition_spec ws n a h

theorem C14_selector_Proportional (n : NSpec) (wf : Nat → List Q) (hwf : ∀ m, (wf m).length = m) :
    SelectorLaw (selProportional n wf) (fun len => numOutput n len) := by
  intro pop st out st' h
  obtain ⟨h1, h2, rfl⟩ := selProportional_spec n wf hwf pop st out st' h
  exact ⟨h1, h2, rfl⟩

example : ∀ m, (cycleWeights [1/10, 1, 1, 1] m).length = m := length_cycleWeights _

theorem C14_submultiset_First (n : NSpec) : SubMultiset (selFirst n) := by
  intro pop st out st' h
  simp only [selFirst] at h
  rw [pure_ok] at h
  obtain ⟨rfl, rfl⟩ := h
  exact (List.take_sublist _ _).subperm

theorem C14_submultiset_Last (n : NSpec) : SubMultiset (selLast n) := by
  intro pop st out st' h
  simp only [selLast] at h
  rw [pure_ok] at h
  obtain ⟨rfl, rfl⟩ := h
  exact (List.drop_sublist _ _).subperm

theorem C14_submultiset_Top (n : NSpec) : SubMultiset (selTop n) := by
  intro pop st out st' h
  simp only [selTop] at h
  split at h
  · exact ((fail_ok _ _ _).mp h).elim
  · rw [pure_ok] at h
    obtain ⟨rfl, rfl⟩ := h
    exact (List.take_sublist _ _).subperm.trans (List.mergeSort_perm pop _).subperm

theorem C14_submultiset_Bottom (n : NSpec) : SubMultiset (selBottom n) := by
  intro pop st out st' h
  simp only [selBottom] at h
  split at h
  · exact ((fail_ok _ _ _).mp h).elim
  · rw [pure_ok] at h
    obtain ⟨rfl, rfl⟩ := h
    exact (List.take_sublist _ _).subperm.trans (List.mergeSort_perm pop _).subperm

/-- Every operation obeying the selector law satisfies every element-wise contract. -/
theorem C14_selector_preserves {op : Op} {count : Nat → Nat} (h : SelectorLaw op count)
    (P : Ind → Prop) (S : Nat → Prop) : Preserves P S op := by
  intro pop st out st' hp hs hr
  obtain ⟨hm, _, hu⟩ := h pop st out st' hr
  exact ⟨fun y hy => hp y (hm y hy), by rw [hu]; exact hs⟩

/-- `Top(n, cluster=True)` / `Bottom(n, cluster=True)` ("returns top / bottom N clusters; individuals
that produce the same key form a cluster"): nothing is created, only members come back; clusters come
back whole; the keys that come back are exactly the `min n #clusters` best DISTINCT keys (`bestKeys` is
duplicate-free, of that length, and every one of its keys is represented) — repeated keys of a large
leading cluster do not use up the `n` slots. -/
theorem C14_selector_cluster (desc : Bool) (n : NSpec) (pop : Pop) (st : St) (out : Pop) (st' : St)
    (h : (if desc then selTopCluster n else selBottomCluster n) pop st = .ok (out, st')) :
    st' = st ∧ (∀ y ∈ out, y ∈ pop) ∧
    (∀ y ∈ out, ∀ x ∈ pop, fitKey x = fitKey y → x ∈ out) ∧
    (∀ y ∈ out, fitKey y ∈ bestKeys desc (numOutput n pop.length) pop) ∧
    (∀ k ∈ bestKeys desc (numOutput n pop.length) pop, ∃ y ∈ out, fitKey y = k) ∧
    (bestKeys desc (numOutput n pop.length) pop).Nodup ∧
    (bestKeys desc (numOutput n pop.length) pop).length =
      min (numOutput n pop.length) (dedupInt (pop.map fitKey)).length := by
  obtain ⟨h1, h2, h3, h4, h5⟩ := selCluster_spec desc n pop st out st' h
  obtain ⟨b1, _, b3⟩ := bestKeys_spec desc (numOutput n pop.length) pop
  exact ⟨h1, h2, h3, h4, h5, b1, b3⟩

/-- the seeded shape: keys 2, 2, 0, 3 and `Top(3, cluster=True)` — three clusters, four members. -/
example : ∃ out st', selTopCluster (.count 3)
    [{ uid := 0, dna := .space [], fit := some 2 }, { uid := 1, dna := .space [], fit := some 2 },
     { uid := 2, dna := .space [], fit := some 0 }, { uid := 3, dna := .space [], fit := some 3 }]
    { oracle := [], nextUid := 4 } = .ok (out, st') ∧ out.length = 4 := by
  refine ⟨_, _, rfl, ?_⟩
  simp [bestKeys, dedupInt, numOutput, fitKey, List.mergeSort]

/-! ## Recombinators (recombinators.py): children are built by `DNA.from_dict`, whose last step
validates and re-binds (`checked`) -/

theorem C14_primitive_recUniform (fuel : Nat) (g : GSpec) : ClosedAligned g (recPointWise false fuel g) :=
  fun pop st out st' _ h => recPointWise_checked false fuel g pop st out st' h

theorem C14_primitive_recSample (fuel : Nat) (g : GSpec) : ClosedAligned g (recPointWise true fuel g) :=
  fun pop st out st' _ h => recPointWise_checked true fuel g pop st out st' h

theorem C14_primitive_recKPoint (g : GSpec) (k : Nat) : ClosedAligned g (recKPoint g k) :=
  fun pop st out st' _ h => recSegment_checked g _ pop st out st' h

theorem C14_primitive_recSegmented (g : GSpec) (cuts : List Nat) : ClosedAligned g (recSegmented g cuts) :=
  fun pop st out st' _ h => recSegment_checked g _ pop st out st' h

/-- `Order` crossover (with `where.Any`): it returns its two parents (no permutation point) or
children that went through `from_dict`. -/
theorem C14_primitive_recOrder (g : GSpec) : ClosedAligned g (recOrder g) := by
  intro pop st out st' hp h
  rcases recOrder_spec g pop st out st' h with ⟨rfl, _⟩ | ⟨_, hall⟩
  · exact hp
  · exact fun y hy => ⟨(hall y hy).1, (hall y hy).2.1⟩

/-- every permutation recombinator (any `permutate` method that only reads the oracle): parents or
children that went through `from_dict`. Instances: Order, PartiallyMapped, Cycle. -/
theorem C14_primitive_recPerm (permute : List Nat → List Nat → M (List Nat × List Nat))
    (hp : ∀ vx vy, OO (permute vx vy)) (k : Nat) (g : GSpec) : ClosedAligned g (recPerm permute k g) := by
  intro pop st out st' hpop h
  rcases recPerm_spec permute hp k g pop st out st' h with ⟨rfl, _⟩ | ⟨_, hall⟩
  · exact hpop
  · exact fun y hy => ⟨(hall y hy).1, (hall y hy).2.1⟩

theorem C14_primitive_recPMX (g : GSpec) : ClosedAligned g (recPMX g) :=
  C14_primitive_recPerm permutePMX OO_permutePMX 1 g

theorem C14_primitive_recCycle (g : GSpec) : ClosedAligned g (recCycle g) :=
  C14_primitive_recPerm permuteCycle OO_permuteCycle 1 g

/-- Order crossover proper: for two arrangements of the same distinct items and any cut points
`start ≤ stop ≤ size` (any random draw), both children are arrangements of those items — `from_dict`
has nothing to reject and the sub-choice lookup cannot miss. -/
theorem C14_order_children_are_permutations (vx vy : List Nat) (hn : vx.Nodup) (hp : vy.Perm vx)
    (start stop : Nat) (h1 : start ≤ stop) (h2 : stop ≤ vx.length) :
    (orderChild vx vy start stop).Perm vx ∧ (orderChild vy vx start stop).Perm vx := by
  refine ⟨orderChild_perm vx vy hn hp start stop h1 h2, ?_⟩
  have := orderChild_perm vy vx (hp.nodup_iff.mpr hn) hp.symm start stop h1 (by rw [hp.length_eq]; exact h2)
  exact this.trans hp

/-- Partially mapped crossover proper: for two arrangements of the same distinct items, any cut points
`start ≤ stop ≤ size` (any draw), both children — whenever the re-mapping loop returns them — are
arrangements of those items: every value PMX places was checked against the values already assigned. -/
theorem C14_pmx_children_are_permutations (vx vy : List Nat) (hn : vx.Nodup) (hp : vy.Perm vx)
    (start stop : Nat) (h1 : start ≤ stop) (h2 : stop ≤ vx.length) (c0 c1 : List Nat)
    (h0 : pmxChild vx vy start stop = some c0) (h1' : pmxChild vy vx start stop = some c1) :
    c0.Perm vx ∧ c1.Perm vx := by
  refine ⟨pmxChild_perm vx vy hn hp start stop h1 h2 c0 h0, ?_⟩
  have := pmxChild_perm vy vx (hp.nodup_iff.mpr hn) hp.symm start stop h1 (by rw [hp.length_eq]; exact h2) c1 h1'
  exact this.trans hp

/-- Cycle crossover proper: for two arrangements of the same distinct items and every sequence of coin
draws, both children are arrangements of those items (the assignment of sides is closed under the cycle
map, and cycles that are assigned never overlap). -/
theorem C14_cycle_children_are_permutations (vx vy : List Nat) (hn : vx.Nodup) (hp : vy.Perm vx)
    (st : St) (c0 c1 : List Nat) (st' : St) (h : permuteCycle vx vy st = .ok ((c0, c1), st')) :
    c0.Perm vx ∧ c1.Perm vx := permuteCycle_perm hn hp st c0 c1 st' h

/-- … and the Cycle crossover is total on such parents: every cycle closes within `size` steps
(pigeonhole on the injective cycle map) and every position gets a side, so it never raises KeyError;
with well-formed draws it always returns two arrangements of the items. -/
theorem C14_cycle_total (vx vy : List Nat) (hn : vx.Nodup) (hp : vy.Perm vx) (st : St) :
    permuteCycle vx vy st ≠ .error .key := permuteCycle_total hn hp st

/-- … and so is the partially mapped crossover: from a position outside the copied segment the
re-mapping walk `v -> self[index_in_other(v)]` leaves the segment within `stop - start` steps
(pigeonhole: the positions it visits inside are pairwise different), and the value it finds there was
not given to an earlier position (the first-return map is injective): `while v in assigned` always
ends, no KeyError — for any cut points both children exist … -/
theorem C14_pmx_child_total (vx vy : List Nat) (hn : vx.Nodup) (hp : vy.Perm vx)
    (start stop : Nat) (h1 : start ≤ stop) (h2 : stop ≤ vx.length) :
    ∃ c0 c1, pmxChild vx vy start stop = some c0 ∧ pmxChild vy vx start stop = some c1 ∧
      c0.Perm vx ∧ c1.Perm vx := by
  obtain ⟨c0, h0⟩ := Option.isSome_iff_exists.mp
    (pmxChild_total (hp.nodup_iff.mpr hn) hp.symm start stop h1 h2)
  obtain ⟨c1, h1'⟩ := Option.isSome_iff_exists.mp
    (pmxChild_total hn hp start stop h1 (by rw [hp.length_eq]; exact h2))
  exact ⟨c0, c1, h0, h1', C14_pmx_children_are_permutations vx vy hn hp start stop h1 h2 c0 c1 h0 h1'⟩

/-- … and the operator on recorded draws never raises KeyError. -/
theorem C14_pmx_total (vx vy : List Nat) (hn : vx.Nodup) (hp : vy.Perm vx) (st : St) :
    permutePMX vx vy st ≠ .error .key := permutePMX_total vx vy hn hp st

/-! ## Numeric recombinators `Average` / `WeightedAverage` (exact rationals) -/

/-- children are what `from_dict` accepted (closure by validation) … -/
theorem C14_primitive_recNumeric (w : Option (Nat → List Q)) (g : GSpec) : ClosedAligned g (recNumeric w g) := by
  intro pop st out st' _ h
  simp only [recNumeric] at h
  split at h
  · rw [pure_ok] at h
    obtain ⟨rfl, rfl⟩ := h
    intro y hy; simp at hy
  · split at h
    · exact ((fail_ok _ _ _).mp h).elim
    · generalize allSome _ = r at h
      cases r with
      | none => exact ((fail_ok _ _ _).mp h).elim
      | some raw =>
        exact fun y hy => ⟨((finishChildren_spec g raw st out st' h).2 y hy).1,
          ((finishChildren_spec g raw st out st' h).2 y hy).2.1⟩

/-- … and `from_dict` has nothing to reject: with non-negative weights the (weighted) mean of the
decisions of the parents for which a float point is active lies within the bounds of that point, so
every averaged child of valid parents is valid *before* validation (the operator cannot raise
`ValueError` on valid parents; a divisor that counts inactive parents — the seeded regression —
breaks exactly this). -/
theorem C14_average_children_valid (ws : List Q) (hw : ∀ w ∈ ws, 0 ≤ w) (g : GSpec) (pop : Pop)
    (hv : ∀ x ∈ pop, Valid g x.dna) :
    ∀ x ∈ pop, ∀ d', avgDna ws g (pop.map (fun x => some x.dna)) x.dna = some d' → Valid g d' := by
  intro x hx d' h
  refine avgDna_valid ws hw x.dna g _ d' (hv x hx) ?_ h
  intro d hd
  simp only [List.mem_map, Option.some.injEq] at hd
  obtain ⟨y, hy, rfl⟩ := hd
  exact hv y hy

theorem C14_average_weights_ok (n : Nat) : (∀ w ∈ harnessWeights n, (0 : Q) ≤ w) ∧
    (∀ (pop : Pop), ∀ w ∈ pop.map (fun _ => (1 : Q)), (0 : Q) ≤ w) := by
  constructor
  · intro w hw
    simp only [harnessWeights, List.mem_map] at hw
    obtain ⟨i, _, rfl⟩ := hw
    exact Nat.cast_nonneg _
  · intro pop w hw
    simp only [List.mem_map] at hw
    obtain ⟨_, _, rfl⟩ := hw
    exact zero_le_one

theorem C14_pure_recNumeric (w : Option (Nat → List Q)) (g : GSpec) : Pure g (recNumeric w g) := by
  intro pop st out st' _ h
  simp only [recNumeric] at h
  split at h
  · rw [pure_ok] at h
    obtain ⟨rfl, rfl⟩ := h
    exact ⟨Nat.le_refl _, by intro y hy; simp at hy⟩
  · split at h
    · exact ((fail_ok _ _ _).mp h).elim
    · generalize allSome _ = r at h
      cases r with
      | none => exact ((fail_ok _ _ _).mp h).elim
      | some raw =>
        obtain ⟨hle, hall⟩ := finishChildren_spec g raw st out st' h
        exact ⟨hle, fun y hy => ⟨(hall y hy).1, Or.inr (hall y hy).2.2⟩⟩

/-- the mean of 3/4 (active in two parents) over a population where the point is inactive in the
third parent is 3/4 — not 1/2, which the bounds [1/2, 1] would still accept, nor 1/4. -/
example : meanOf [some (3/4 : Q), none, some (3/4 : Q)] [1, 1, 1] = some (3/4 : Q) := by
  simp only [meanOf, activePairs, qsum, List.map_cons, List.map_nil]
  norm_num

/-! ## Mutators (mutators.py) -/

/-- `Uniform`: redraw of a sub-tree (under the distinct constraint, re-sorted where required). -/
theorem C14_primitive_mutUniform (fuel : Nat) (g : GSpec) : Closed g (mutUniform fuel g) :=
  fun pop st out st' hp h y hy => ((mutUniform_spec fuel g pop st out st' hp h).2 y hy).1

/-- `Uniform` also keeps alignment: a redrawn entry stays bound to its position, a re-sorted
multi-choice is re-bound (`realign`), a redrawn sub-tree is bound by `random_dna`. -/
theorem C14_primitive_mutUniform_aligned (fuel : Nat) (g : GSpec) : ClosedAligned g (mutUniform fuel g) :=
  fun pop st out st' hp h => mutUniform_aligned fuel g pop st out st' hp h

/-- `Swap` keeps validity … -/
theorem C14_primitive_mutSwap_closed (g : GSpec) : Closed g (mutSwap g) :=
  fun pop st out st' hp h y hy => ((mutSwap_spec g pop st out st' hp h).2 y hy).1

/-- … and alignment: since /repo c8b4917 the two swapped entries are re-bound to the decision
points of their new positions (`rebindEntry`). Before that fix this statement was false (finding
F21; the branch history holds `C14_mutSwap_aligned_counterexample`, whose witness
`DNA([0, 1])` under `manyof(2, 3 candidates, distinct)` is still replayed on every run as the
witness of the now *fixed* finding). -/
theorem C14_primitive_mutSwap (g : GSpec) : ClosedAligned g (mutSwap g) :=
  fun pop st out st' hp h => mutSwap_aligned g pop st out st' hp h

def f21Spec : GSpec := .choices 2 [.space [], .space [], .space []] true false
def f21Dna : DNA := .choices [.sub 0 0 (.space []), .sub 1 1 (.space [])]

/-- the F21 witness, now: the swapped child is valid and aligned. -/
theorem C14_mutSwap_f21_witness :
    mutSwap f21Spec [{ uid := 0, dna := f21Dna, fit := some 1 }]
      { oracle := [.idxs .shuffle 1 1 [0], .idxs .sample 2 2 [0, 1]], nextUid := 1 } =
    .ok ([{ uid := 1, dna := .choices [.sub 0 1 (.space []), .sub 1 0 (.space [])], fit := none }],
         { oracle := [], nextUid := 2 }) := by rfl

/-! ## The composition algebra: composed pipelines inherit the guarantees -/

/-- General form: any element-wise invariant `P` (with any invariant `S` of the uid counter) that
every primitive of an expression preserves is preserved by the expression, for every expression
built with `>> + | & - ^ ~ [] * ** Choice/with_prob Conditional/if_true until_change Identity`. -/
theorem C14_algebra (P : Ind → Prop) (S : Nat → Prop) (e : OpExpr)
    (h : ∀ op ∈ leaves e, Preserves P S op) : Preserves P S (eval e) :=
  eval_preserves e h

theorem C14_algebra_closed (g : GSpec) (e : OpExpr) (h : ∀ op ∈ leaves e, Closed g op) :
    Closed g (eval e) := by
  intro pop st out st' hp hr
  have := C14_algebra (fun x => Valid g x.dna) (fun _ => True) e
    (fun op ho pop st out st' hp _ hr => ⟨h op ho pop st out st' hp hr, trivial⟩)
  exact (this pop st out st' hp trivial hr).1

theorem C14_algebra_closed_aligned (g : GSpec) (e : OpExpr) (h : ∀ op ∈ leaves e, ClosedAligned g op) :
    ClosedAligned g (eval e) := by
  intro pop st out st' hp hr
  have := C14_algebra (fun x => Valid g x.dna ∧ Aligned x.dna) (fun _ => True) e
    (fun op ho pop st out st' hp _ hr => ⟨h op ho pop st out st' hp hr, trivial⟩)
  exact (this pop st out st' hp trivial hr).1

/-- a composition of selectors returns only members of the input population. -/
theorem C14_algebra_members (e : OpExpr) (h : ∀ op ∈ leaves e, ∃ count, SelectorLaw op count) :
    ∀ pop st out st', eval e pop st = .ok (out, st') → ∀ y ∈ out, y ∈ pop := by
  intro pop st out st' hr
  have := C14_algebra (fun x => x ∈ pop) (fun _ => True) e
    (fun op ho => by
      obtain ⟨count, hc⟩ := h op ho
      exact C14_selector_preserves hc _ _)
  exact (this pop st out st' (fun x hx => hx) trivial hr).1

/-- no composition modifies an input: on a valid population the outputs are valid and are input
objects or objects created by the run. -/
theorem C14_algebra_pure (g : GSpec) (e : OpExpr) (h : ∀ op ∈ leaves e, Pure g op) :
    ∀ pop st out st', (∀ x ∈ pop, Valid g x.dna) → eval e pop st = .ok (out, st') →
      st.nextUid ≤ st'.nextUid ∧ ∀ y ∈ out, Valid g y.dna ∧ (y ∈ pop ∨ st.nextUid ≤ y.uid) := by
  intro pop st out st' hv hr
  have := C14_algebra (fun y => Valid g y.dna ∧ (y ∈ pop ∨ st.nextUid ≤ y.uid)) (fun n => st.nextUid ≤ n) e
    (fun op ho pop1 st1 out1 st1' hp hs hr1 => by
      obtain ⟨hle, hout⟩ := h op ho pop1 st1 out1 st1' (fun x hx => (hp x hx).1) hr1
      refine ⟨fun y hy => ?_, Nat.le_trans hs hle⟩
      obtain ⟨hvy, hy'⟩ := hout y hy
      refine ⟨hvy, ?_⟩
      rcases hy' with hin | ⟨hfresh, _⟩
      · exact (hp y hin).2
      · exact Or.inr (Nat.le_trans hs hfresh))
  obtain ⟨h1, h2⟩ := this pop st out st' (fun x hx => ⟨hv x hx, Or.inl hx⟩) (Nat.le_refl _) hr
  exact ⟨h2, h1⟩

theorem C14_pure_selector (g : GSpec) {op : Op} {count : Nat → Nat} (h : SelectorLaw op count) : Pure g op := by
  intro pop st out st' hv hr
  obtain ⟨hm, _, hu⟩ := h pop st out st' hr
  exact ⟨by omega, fun y hy => ⟨hv y (hm y hy), Or.inl (hm y hy)⟩⟩

theorem C14_pure_mutUniform (fuel : Nat) (g : GSpec) : Pure g (mutUniform fuel g) := by
  intro pop st out st' hv hr
  obtain ⟨h1, h2⟩ := mutUniform_spec fuel g pop st out st' hv hr
  exact ⟨h1, fun y hy => ⟨(h2 y hy).1, Or.inr (h2 y hy).2⟩⟩

theorem C14_pure_mutSwap (g : GSpec) : Pure g (mutSwap g) := by
  intro pop st out st' hv hr
  obtain ⟨h1, h2⟩ := mutSwap_spec g pop st out st' hv hr
  exact ⟨h1, fun y hy => ⟨(h2 y hy).1, Or.inr (h2 y hy).2⟩⟩

theorem C14_pure_recPointWise (sample : Bool) (fuel : Nat) (g : GSpec) : Pure g (recPointWise sample fuel g) := by
  intro pop st out st' _ hr
  obtain ⟨h1, h2⟩ := recPointWise_fresh sample fuel g pop st out st' hr
  exact ⟨h1, fun y hy => ⟨(recPointWise_checked sample fuel g pop st out st' hr y hy).1, Or.inr (h2 y hy)⟩⟩

theorem C14_pure_recKPoint (g : GSpec) (k : Nat) : Pure g (recKPoint g k) := by
  intro pop st out st' _ hr
  obtain ⟨h1, h2⟩ := recSegment_fresh g _ (OO_kpointCuts k) pop st out st' hr
  exact ⟨h1, fun y hy => ⟨(recSegment_checked g _ pop st out st' hr y hy).1, Or.inr (h2 y hy)⟩⟩

theorem C14_pure_recSegmented (g : GSpec) (cuts : List Nat) : Pure g (recSegmented g cuts) := by
  intro pop st out st' _ hr
  obtain ⟨h1, h2⟩ := recSegment_fresh g _ (fun _ => OO.pure _) pop st out st' hr
  exact ⟨h1, fun y hy => ⟨(recSegment_checked g _ pop st out st' hr y hy).1, Or.inr (h2 y hy)⟩⟩

theorem C14_pure_recOrder (g : GSpec) : Pure g (recOrder g) := by
  intro pop st out st' hv hr
  rcases recOrder_spec g pop st out st' hr with ⟨rfl, he⟩ | ⟨hle, hall⟩
  · exact ⟨by omega, fun y hy => ⟨hv y hy, Or.inl hy⟩⟩
  · exact ⟨hle, fun y hy => ⟨(hall y hy).1, Or.inr (hall y hy).2.2⟩⟩

theorem C14_pure_recPerm (permute : List Nat → List Nat → M (List Nat × List Nat))
    (hp : ∀ vx vy, OO (permute vx vy)) (k : Nat) (g : GSpec) : Pure g (recPerm permute k g) := by
  intro pop st out st' hv hr
  rcases recPerm_spec permute hp k g pop st out st' hr with ⟨rfl, he⟩ | ⟨hle, hall⟩
  · exact ⟨by omega, fun y hy => ⟨hv y hy, Or.inl hy⟩⟩
  · exact ⟨hle, fun y hy => ⟨(hall y hy).1, Or.inr (hall y hy).2.2⟩⟩

/-! ### Mutators with a `where` filter: the guarantees hold for every filter -/

theorem C14_primitive_mutUniformW (w : Where) (fuel : Nat) (g : GSpec) : ClosedAligned g (mutUniformW w fuel g) :=
  fun pop st out st' hp h => mutUniformW_aligned w fuel g pop st out st' hp h

theorem C14_primitive_mutUniformW_closed (w : Where) (fuel : Nat) (g : GSpec) : Closed g (mutUniformW w fuel g) :=
  fun pop st out st' hp h y hy => ((mutUniformW_spec w fuel g pop st out st' hp h).2 y hy).1

theorem C14_primitive_mutSwapW (w : Where) (g : GSpec) : ClosedAligned g (mutSwapW w g) :=
  fun pop st out st' hp h => mutSwapW_aligned w g pop st out st' hp h

theorem C14_primitive_mutSwapW_closed (w : Where) (g : GSpec) : Closed g (mutSwapW w g) :=
  fun pop st out st' hp h y hy => ((mutSwapW_spec w g pop st out st' hp h).2 y hy).1

theorem C14_pure_mutUniformW (w : Where) (fuel : Nat) (g : GSpec) : Pure g (mutUniformW w fuel g) := by
  intro pop st out st' hv hr
  obtain ⟨h1, h2⟩ := mutUniformW_spec w fuel g pop st out st' hv hr
  exact ⟨h1, fun y hy => ⟨(h2 y hy).1, Or.inr (h2 y hy).2⟩⟩

theorem C14_pure_mutSwapW (w : Where) (g : GSpec) : Pure g (mutSwapW w g) := by
  intro pop st out st' hv hr
  obtain ⟨h1, h2⟩ := mutSwapW_spec w g pop st out st' hv hr
  exact ⟨h1, fun y hy => ⟨(h2 y hy).1, Or.inr (h2 y hy).2⟩⟩

/-- a filter that admits subchoices only: the multi-choice node itself is not counted (2 nodes instead
of 3), the run redraws subchoice 1 under the distinct constraint. -/
example : ∃ out st', mutUniformW (fun n => n.kind == 3) 3 f21Spec
    [{ uid := 0, dna := f21Dna, fit := some 1 }]
    { oracle := [.idx .choice 2 1, .idx .choice 1 0], nextUid := 1 } = .ok (out, st') ∧
    out.map (fun y => valid f21Spec y.dna) = [true] :=
  ⟨_, _, rfl, rfl⟩

/-! ## Algebraic laws of the composition operators (what the class documentation promises) -/

/-- `Identity() >> x` and `x >> Identity()` are `x`. -/
theorem C14_law_seq_identity (e : OpExpr) :
    eval (.seq .identity e) = eval e ∧ eval (.seq e .identity) = eval e :=
  ⟨seq_identity_left e, seq_identity_right e⟩

/-- `>>` is associative (also in its use of the random stream and of the uid counter). -/
theorem C14_law_seq_assoc (a b c : OpExpr) : eval (.seq (.seq a b) c) = eval (.seq a (.seq b c)) :=
  seq_assoc a b c

/-- `+` is associative. -/
theorem C14_law_concat_assoc (a b c : OpExpr) :
    eval (.concat (.concat a b) c) = eval (.concat a (.concat b c)) := concat_assoc a b c

/-- `x ** 0 = Identity()`, `x ** (k + 1) = x >> x ** k`, `x ** 1 = x`. -/
theorem C14_law_power (e : OpExpr) (k : Nat) :
    eval (.power e 0) = eval .identity ∧ eval (.power e (k + 1)) = eval (.seq e (.power e k)) ∧
    eval (.power e 1) = eval e := ⟨power_zero e, power_succ e k, power_one e⟩

/-- `x * 0` returns nothing, `x * (k + 1) = x + x * k`. -/
theorem C14_law_repeat (e : OpExpr) (k : Nat) (p : Pop) :
    eval (.repeat_ e 0) p = pure [] ∧ eval (.repeat_ e (k + 1)) = eval (.concat e (.repeat_ e k)) :=
  ⟨repeat_zero e p, repeat_succ e k⟩

/-- length law of `*`: if `x` returns `c` items on `p` (whatever it draws), `x * k` returns `k * c`. -/
theorem C14_law_repeat_length (e : OpExpr) (p : Pop) (c : Nat)
    (hc : ∀ st out st', eval e p st = .ok (out, st') → out.length = c) (k : Nat) (st : St) (out : Pop) (st' : St)
    (h : eval (.repeat_ e k) p st = .ok (out, st')) : out.length = k * c :=
  repeat_length e p c hc k st out st' h

/-- length laws of `[...]`: an index gives one item, `a:b:step` the Python slice length. -/
theorem C14_law_slice_length (l : Pop) (st : St) (out : Pop) (st' : St) :
    (∀ i, applySlice (.index i) l st = .ok (out, st') → out.length = 1) ∧
    (∀ start stop step, 0 < step → applySlice (.range start stop step) l st = .ok (out, st') →
      out.length = (min (stop.getD l.length) l.length - min (start.getD 0) l.length + step - 1) / step) :=
  ⟨fun i h => slice_index_length i l st out st' h,
   fun start stop step hs h => slice_range_length start stop step hs l st out st' h⟩

/-- `x.with_prob(0.0)` returns its input, `x.with_prob(1.0)` applies `x` (after one draw). -/
theorem C14_law_with_prob (e : OpExpr) (p : Pop) (st : St) (out : Pop) (st' : St) :
    (∀ limit, eval (.choice [e] [0] limit) p st = .ok (out, st') → out = p) ∧
    (eval (.choice [e] [1] none) p st = .ok (out, st') →
      ∃ r s1, nextRandom st = .ok (r, s1) ∧ eval e p s1 = .ok (out, st')) :=
  ⟨fun limit h => with_prob_zero e limit p st out st' h, with_prob_one e p st out st'⟩

/-- `x - y` (and `~x = Identity() - x`) works on object identities: exactly the objects `y` returned
are dropped — an individual with an equal DNA value but another identity stays — and
`|x - y| = |x| - |{d ∈ x : d is one of y's objects}|`. -/
theorem C14_law_difference (a b : OpExpr) (p : Pop) (st : St) (out : Pop) (st' : St)
    (h : eval (.diff a b) p st = .ok (out, st')) :
    ∃ x y s1, eval b p st = .ok (y, s1) ∧ eval a p s1 = .ok (x, st') ∧
      out = x.filter (fun d => !hasUid d.uid y) ∧
      out.length + (x.filter (fun d => hasUid d.uid y)).length = x.length ∧
      ∀ d ∈ x, (d ∈ out ↔ hasUid d.uid y = false) := difference_by_identity a b p st out st' h

theorem C14_law_inversion (a : OpExpr) : eval (.inversion a) = eval (.diff .identity a) :=
  inversion_is_difference a

/-- two individuals with the same DNA value: `~First(1)` keeps the second one. -/
example : ∃ out st', eval (.inversion (.leaf (selFirst (.count 1))))
    [{ uid := 0, dna := f21Dna, fit := some 1 }, { uid := 1, dna := f21Dna, fit := some 3 }]
    { oracle := [], nextUid := 2 } = .ok (out, st') ∧ out.map (·.uid) = [1] :=
  ⟨_, _, rfl, rfl⟩

/-- `x.until_change(1)` is `x`. -/
theorem C14_law_until_one (e : OpExpr) : eval (.untilChange e 0) = eval e := until_one_attempt e

/-- step-driven scalars: constants ignore the step, `STEP` is the step, the arithmetic is pointwise. -/
theorem C14_sched_pointwise (a b : Sched) (c : Int) (s : Nat) :
    (Sched.const c).eval s = some c ∧ Sched.step.eval s = some (s : Int) ∧
    (∀ x y, a.eval s = some x → b.eval s = some y → (Sched.add a b).eval s = some (x + y) ∧
      (Sched.mul a b).eval s = some (x * y) ∧ (Sched.sub a b).eval s = some (x - y)) := by
  refine ⟨rfl, rfl, ?_⟩
  intro x y hx hy
  simp [Sched.eval, hx, hy]

/-! ## Nested populations: `.for_each(op)` and `.flatten(max_level)` -/

/-- `flatten` (any `max_level`, any nesting) returns exactly the individuals it was given, in order;
so does the grouping of a population into lists of `k`. -/
theorem C14_law_flatten_items (m : Option Nat) (fuel level k : Nat) (hk : 0 < k) (xs : List Nest) :
    itemsAll (flattenList m fuel level xs) = itemsAll xs ∧
    itemsAll (chunk k xs.length xs) = itemsAll xs :=
  ⟨items_flattenList m fuel level xs, items_chunk k hk xs.length xs (Nat.le_refl _)⟩

/-- a pipeline of stages (ordinary operations, grouping, `.for_each(op)`, `.flatten`) keeps every
element-wise invariant of the individuals that its operations keep — validity, alignment, membership. -/
theorem C14_algebra_nested (P : Ind → Prop) (S : Nat → Prop) :
    ∀ (stages : List NStage),
      (∀ stg ∈ stages, ∀ e, (stg = .flat e ∨ stg = .forEach e) → ∀ op ∈ leaves e, Preserves P S op) →
      ∀ xs st out st', (∀ x ∈ itemsAll xs, P x) → S st.nextUid →
        evalStages stages xs st = .ok (out, st') → (∀ y ∈ itemsAll out, P y) ∧ S st'.nextUid := by
  intro stages
  induction stages with
  | nil =>
    intro _ xs st out st' hp hs h
    simp only [evalStages] at h
    rw [pure_ok] at h
    obtain ⟨rfl, rfl⟩ := h
    exact ⟨hp, hs⟩
  | cons stg rest ih =>
    intro hl xs st out st' hp hs h
    simp only [evalStages] at h
    rw [bind_ok] at h
    obtain ⟨ys, s1, h1, h2⟩ := h
    obtain ⟨hy, hs1⟩ := evalStage_preserves stg
      (fun e he => eval_preserves e (hl stg List.mem_cons_self e he)) xs st ys s1 hp hs h1
    exact ih (fun s' hs' => hl s' (List.mem_cons_of_mem _ hs')) ys s1 out st' hy hs1 h2

/-- `x.for_each(lambda d: [d, [d]]).flatten()` on a flat population: every individual twice. -/
example : itemsAll (flattenList none 5 0 ((ofPop [{ uid := 0, dna := f21Dna, fit := none }]).map
    (fun n => Nest.list [n, .list [n]]))) = [{ uid := 0, dna := f21Dna, fit := none }, { uid := 0, dna := f21Dna, fit := none }] := by
  rw [items_flattenList]; simp [ofPop, itemsAll, Nest.items]

/-! ## Fuel adequacy: the bounded recursions of the model never stop for lack of fuel -/

/-- the driver passes `depth g + 2`; any fuel ≥ `depth g` suffices for `random_dna` … -/
theorem C14_fuel_randomDna (g : GSpec) (fuel : Nat) (h : depth g ≤ fuel) (st : St) :
    randomDna fuel g st ≠ .error .fuel := randomDna_NF fuel g h st

/-- … for the point-wise merge (and the recombinators built on it) … -/
theorem C14_fuel_pointwise (sample : Bool) (g : GSpec) (fuel : Nat) (h : depth g ≤ fuel)
    (ps : List (Option DNA)) (pop : Pop) (st : St) :
    mergeDna sample fuel g ps st ≠ .error .fuel ∧ recPointWise sample fuel g pop st ≠ .error .fuel :=
  ⟨mergeDna_NF sample fuel g ps h st, recPointWise_NF sample fuel g h pop st⟩

/-- … and the attempt loop of `_merge_multi_choice` ends within the `k + 10` steps it is given (each
step accepts a subchoice or uses up one of the 8 attempts). -/
theorem C14_fuel_merge_multi (k : Nat) (dist srt : Bool) (lists : List (Option (List Nat))) (st : St) :
    mergeMulti k dist srt lists st ≠ .error .fuel := NF_mergeMulti k dist srt lists st

/-! ## Determinism, prefix form -/

/-- same oracle prefix ⇒ same output: a run that returns has read a prefix `used` of the oracle stream,
and on every stream that starts with `used` it returns the same population, the same uid counter, and
leaves exactly the rest of that stream. (For a seeded operator: the output is a function of the
inputs and of the draws it makes, nothing else.) -/
def Det (op : Op) : Prop := ∀ pop, FrameM (op pop)

/-- composed pipelines inherit it. -/
theorem C14_det_algebra (e : OpExpr) (h : ∀ op ∈ leaves e, Det op) : Det (eval e) :=
  fun pop => eval_frame e (fun op ho p => h op ho p) pop

theorem C14_det_selectors (n : NSpec) (r : Bool) :
    Det (selRandom n r) ∧ Det (selSample n) ∧ Det (selTop n) ∧ Det (selBottom n) ∧ Det (selFirst n) ∧
    Det (selLast n) :=
  ⟨FrameM_selRandom n r, FrameM_selSample n, FrameM_selTop n, FrameM_selBottom n, FrameM_selFirst n,
   FrameM_selLast n⟩

theorem C14_det_selProportional (n : NSpec) (wf : Nat → List Q) : Det (selProportional n wf) := by
  intro pop
  simp only [selProportional]
  split
  · split
    · exact FrameM.pure _
    · exact FrameM.fail _
  · split
    · exact FrameM.fail _
    · cases partition (wf pop.length) (numOutput n pop.length) with
      | none => exact FrameM.fail _
      | some a => exact FrameM.pure _

theorem C14_det_mutators (w : Where) (fuel : Nat) (g : GSpec) :
    Det (mutUniformW w fuel g) ∧ Det (mutSwapW w g) :=
  ⟨FrameM_mutUniformW w fuel g, FrameM_mutSwapW w g⟩

theorem C14_det_recombinators (fuel k : Nat) (g : GSpec) (cuts : List Nat) :
    Det (recPointWise false fuel g) ∧ Det (recPointWise true fuel g) ∧ Det (recKPoint g k) ∧
    Det (recSegmented g cuts) ∧ Det (recPerm permuteOrder k g) ∧ Det (recPerm permutePMX k g) ∧
    Det (recPerm permuteCycle k g) :=
  ⟨FrameM_recPointWise false fuel g, FrameM_recPointWise true fuel g,
   FrameM_recSegment g _ (FrameM_kpointCuts k), FrameM_recSegment g _ (fun _ => FrameM.pure _),
   FrameM_recPerm _ FrameM_permuteOrder k g, FrameM_recPerm _ FrameM_permutePMX k g,
   FrameM_recPerm _ FrameM_permuteCycle k g⟩

theorem C14_det_recNumeric (w : Option (Nat → List Q)) (g : GSpec) : Det (recNumeric w g) := by
  intro pop
  simp only [recNumeric]
  split
  · exact FrameM.pure _
  · split
    · exact FrameM.fail _
    · generalize allSome _ = r
      cases r with
      | none => exact FrameM.fail _
      | some raw => exact FrameM_finishChildren g raw

/-- Determinism: an operation is a function of its inputs, its oracle stream and the uid counter
(seeded operators: of seed and inputs) — in the model this is functionality of `eval`. -/
theorem C14_det (e : OpExpr) (pop : Pop) (st₁ st₂ : St) (h : st₁.oracle = st₂.oracle)
    (hu : st₁.nextUid = st₂.nextUid) : eval e pop st₁ = eval e pop st₂ := by
  cases st₁; cases st₂; simp only at h hu; subst h; subst hu; rfl

/-! ## The driver level: `Evolution._propose` / `_evolve` / `_feedback` (base.py:699-789)

`EvoCfg` is an `Evolution(reproduction, population_init=(pg.geno.Random(seed), n), population_update)`;
`propose` / `feedback` / `runRounds` mirror the bookkeeping of population, pending proposals, counters
and per-object metadata (PgModel/EvoDriver.lean; compared with real propose/feedback traces of
`Evolution`, `regularized_evolution` and `hill_climb`). -/

/-- objects a pipeline returns are objects it was given or created: the upper bound on identities,
which composes through the whole algebra. -/
def Fresh (g : GSpec) (op : Op) : Prop := Bounded (fun y => valid g y.dna = true) op

theorem C14_fresh_of_pure (g : GSpec) {op : Op} (h : Pure g op) : Fresh g op := by
  intro pop st out st' hp hr
  obtain ⟨hle, hout⟩ := h pop st out st' (fun x hx => (hp x hx).1) hr
  refine ⟨fun y hy => ?_, hle⟩
  obtain ⟨hv, hy'⟩ := hout y hy
  refine ⟨hv, ?_⟩
  rcases hy' with hin | ⟨_, hlt⟩
  · exact Nat.lt_of_lt_of_le (hp y hin).2 hle
  · exact hlt

theorem C14_algebra_fresh (g : GSpec) (e : OpExpr) (h : ∀ op ∈ leaves e, Fresh g op) : Fresh g (eval e) :=
  eval_bounded e h

/-- **the clone rule of `_evolve`**: in a driver state that only knows objects created so far, one
round of evolution returns at least one proposal; the proposals are pairwise different objects, each
holds valid DNA and has never been evaluated (an evaluated child — e.g. a parent passed through by
`with_prob(0.0)` or `Identity` — and a child the pipeline returned twice are replaced by new objects);
the `j`-th proposal carries proposal id `num_proposals + 1 + j` and the next generation number; the
metadata of every evaluated individual and the population are exactly what they were. -/
theorem C14_driver_clone_rule (cfg : EvoCfg) (hrep : ∀ n, Fresh cfg.g (eval (cfg.reproduction n)))
    (es : EvoSt) (st : St) (cs : List Ind) (es' : EvoSt) (st' : St)
    (hi : DriverInv cfg.g es st.nextUid) (h : evolve cfg es st = .ok ((cs, es'), st')) :
    cs ≠ [] ∧ (cs.map (·.uid)).Nodup ∧
    (∀ c ∈ cs, Valid cfg.g c.dna ∧ evaluated es' c.uid = false) ∧
    (∀ j (hj : j < cs.length), metaOf es' (cs[j]).uid =
      some { proposalId := es.numProposals + 1 + j, generation := es.numGenerations + 1,
             initial := false, fsn := none }) ∧
    (∀ u, evaluated es u = true → metaOf es' u = metaOf es u) ∧ es'.pop = es.pop := by
  obtain ⟨e0, e1, e2, e3, _, _, _, e7, e8⟩ := evolve_inv cfg hrep es st cs es' st' hi h
  exact ⟨e0, e7, fun c hc => ⟨(e1 c hc).1.1, (e1 c hc).2⟩, e8, e2, e3⟩

/-- the hypothesis of the clone rule is an invariant of whole runs from the fresh driver state. -/
theorem C14_driver_invariant (cfg : EvoCfg) (hrep : ∀ n, Fresh cfg.g (eval (cfg.reproduction n)))
    (hupd : ∀ u, cfg.update = some u → ∀ n, Fresh cfg.g (eval (u n)))
    (rs : List Int) (st : St) (tr : List (Ind × Meta)) (es' : EvoSt) (st' : St)
    (h : runRounds cfg rs {} st = .ok ((tr, es'), st')) : DriverInv cfg.g es' st'.nextUid :=
  (runRounds_inv cfg hrep hupd rs {} st tr es' st' (driverInv_init _ _) h).1

/-- **every proposal of a run is valid DNA of the search space**, whatever the rewards, as soon as the
two pipelines are closed over valid DNA; `k` rounds move both counters by `k`. -/
theorem C14_driver_proposals_valid (cfg : EvoCfg) (hrep : ∀ n, Closed cfg.g (eval (cfg.reproduction n)))
    (hupd : ∀ u, cfg.update = some u → ∀ n, Closed cfg.g (eval (u n)))
    (rs : List Int) (st : St) (tr : List (Ind × Meta)) (es' : EvoSt) (st' : St)
    (h : runRounds cfg rs {} st = .ok ((tr, es'), st')) :
    (∀ p ∈ tr, Valid cfg.g p.1.dna) ∧ tr.length = rs.length ∧
    es'.numProposals = rs.length ∧ es'.numFeedbacks = rs.length := by
  obtain ⟨h1, h2, _, h4, h5⟩ := runRounds_spec cfg hrep hupd rs {} st tr es' st' ⟨by simp, by simp⟩ h
  exact ⟨h1, h2, by simpa using h4, by simpa using h5⟩

/-- `regularized_evolution(mutator=Uniform(), population_size, tournament_size)` as the model's driver
sees it: `Random(t) >> Top(1) >> Uniform()`, update `Last(p)`. -/
def regularizedCfg (g : GSpec) (p t : Nat) : EvoCfg :=
  { g := g, fuel := depth g + 2,
    reproduction := fun _ => .seq (.seq (.leaf (selRandom (.count t) false)) (.leaf (selTop (.count 1))))
                                  (.leaf (mutUniform (depth g + 2) g)),
    update := some (fun _ => .leaf (selLast (.count p))), initSize := p }

/-- the hypotheses are met by the shipped algorithm: regularized evolution only ever proposes valid DNA. -/
theorem C14_driver_regularized (g : GSpec) (p t : Nat) (rs : List Int) (st : St) (tr : List (Ind × Meta))
    (es' : EvoSt) (st' : St) (h : runRounds (regularizedCfg g p t) rs {} st = .ok ((tr, es'), st')) :
    (∀ q ∈ tr, Valid g q.1.dna) ∧ DriverInv g es' st'.nextUid := by
  have hsel : ∀ {op : Op} {count : Nat → Nat}, SelectorLaw op count → Pure g op := fun hl => C14_pure_selector g hl
  have hrepP : ∀ op ∈ leaves ((regularizedCfg g p t).reproduction 0), Pure g op := by
    intro op ho
    simp only [regularizedCfg, leaves, List.mem_append, List.mem_singleton] at ho
    rcases ho with (rfl | rfl) | rfl
    · exact hsel (C14_selector_Random _ _)
    · exact hsel (C14_selector_Top _)
    · exact C14_pure_mutUniform _ _
  have hupdP : Pure g (selLast (.count p)) := hsel (C14_selector_Last _)
  refine ⟨(C14_driver_proposals_valid (regularizedCfg g p t) ?_ ?_ rs st tr es' st' h).1,
    C14_driver_invariant (regularizedCfg g p t) ?_ ?_ rs st tr es' st' h⟩
  · intro n
    exact C14_algebra_closed g _ (fun op ho pop s out s' hp hr y hy => ((hrepP op ho pop s out s' hp hr).2 y hy).1)
  · intro u hu n
    simp only [regularizedCfg, Option.some.injEq] at hu
    subst hu
    exact C14_algebra_closed g _ (fun op ho pop s out s' hp hr y hy => by
      simp only [leaves, List.mem_singleton] at ho
      subst ho
      exact ((hupdP pop s out s' hp hr).2 y hy).1)
  · intro n
    exact C14_algebra_fresh g _ (fun op ho => C14_fresh_of_pure g (hrepP op ho))
  · intro u hu n
    simp only [regularizedCfg, Option.some.injEq] at hu
    subst hu
    exact C14_algebra_fresh g _ (fun op ho => by
      simp only [leaves, List.mem_singleton] at ho
      subst ho
      exact C14_fresh_of_pure g hupdP)

/-! ## Non-vacuity -/

example : Valid f21Spec f21Dna ∧ Aligned f21Dna := ⟨by unfold Valid; decide, by unfold Aligned; decide⟩
example : ∃ out st', mutSwap f21Spec [{ uid := 0, dna := f21Dna, fit := some 1 }]
    { oracle := [.idxs .shuffle 1 1 [0], .idxs .sample 2 2 [0, 1]], nextUid := 1 } = .ok (out, st') :=
  ⟨_, _, rfl⟩
/-- a run of the Uniform mutator that redraws subchoice 1 under the distinct constraint. -/
example : ∃ out st', mutUniform 3 f21Spec [{ uid := 0, dna := f21Dna, fit := some 1 }]
    { oracle := [.idx .choice 3 2, .idx .choice 1 0], nextUid := 1 } = .ok (out, st') ∧
    out.map (fun y => valid f21Spec y.dna) = [true] :=
  ⟨_, _, rfl, rfl⟩
example : ∃ out st', eval (.seq (.leaf (selFirst (.count 1))) (.leaf (selLast .all)))
    [{ uid := 0, dna := f21Dna, fit := some 1 }, { uid := 1, dna := f21Dna, fit := some 3 }]
    { oracle := [], nextUid := 2 } = .ok (out, st') ∧ out.length = 1 :=
  ⟨_, _, rfl, rfl⟩
/-- an Order crossover at a root permutation point: two distinct children out of four proposals. -/
example : ∃ out st', recOrder (.space [.choices 3 [.space [], .space [], .space []] true false])
    [{ uid := 0, dna := .space [.choices [.sub 0 0 (.space []), .sub 1 1 (.space []), .sub 2 2 (.space [])]], fit := some 1 },
     { uid := 1, dna := .space [.choices [.sub 0 2 (.space []), .sub 1 1 (.space []), .sub 2 0 (.space [])]], fit := some 2 }]
    { oracle := [.idxs .sample 3 2 [0, 2],
                 .order [.space [.choices [.sub 0 0 (.space []), .sub 1 1 (.space []), .sub 2 2 (.space [])]],
                         .space [.choices [.sub 0 2 (.space []), .sub 1 1 (.space []), .sub 2 0 (.space [])]]]],
      nextUid := 2 } = .ok (out, st') ∧ out.map (·.uid) = [2, 3] :=
  ⟨_, _, rfl, rfl⟩
/-- three rounds of `Evolution(Last(1) >> Uniform(), population_init=(Random, 2), population_update=Last(2))`
over a one-of-three choice: two initial proposals, then a mutated child of the latest individual with
proposal id 3 in generation 2; the population keeps the last two evaluated individuals. -/
example : ∃ tr es' st', runRounds
    { g := .space [.choices 1 [.space [], .space [], .space []] false false], fuel := 3,
      reproduction := fun _ => .seq (.leaf (selLast (.count 1)))
        (.leaf (mutUniform 3 (.space [.choices 1 [.space [], .space [], .space []] false false]))),
      update := some (fun _ => .leaf (selLast (.count 2))), initSize := 2 }
    [1, 3, 2] {} { oracle := [.idx .randint 3 0, .idx .randint 3 1, .idx .choice 1 0, .idx .randint 3 0],
                   nextUid := 0 } = .ok ((tr, es'), st') ∧
    tr.map (fun q => (q.2.proposalId, q.2.generation, q.2.initial)) = [(1, 1, true), (2, 1, true), (3, 2, false)] ∧
    es'.pop.map (·.fit) = [some 3, some 2] ∧ st'.oracle = [] := by
  refine ⟨_, _, _, rfl, ?_, ?_, ?_⟩ <;> rfl
example : ∀ op ∈ leaves (.seq (.leaf (selFirst (.count 1))) (.leaf (mutSwap f21Spec))), Closed f21Spec op := by
  intro op ho
  simp only [leaves, List.mem_append, List.mem_singleton] at ho
  rcases ho with rfl | rfl
  · intro pop st out st' hp h
    exact ((C14_selector_preserves (C14_selector_First _) (fun x => Valid f21Spec x.dna) (fun _ => True))
      pop st out st' hp trivial h).1
  · exact C14_primitive_mutSwap_closed _

end Pg.C14
