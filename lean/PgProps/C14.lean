/- C14 — property theorems (under construction). -/
import PgModel.Evo
namespace Pg.C14

theorem C14_placeholder : valid (.space []) (.space []) = true := by decide

end Pg.C14
