/-
  C18 — Symbolized callables keep Python call semantics. Property theorems only.
-/
import PgModel.Call
namespace Pg.C18

theorem C18_placeholder : pyBind ⟨[], none, [], none⟩ Call.empty = .ok ⟨[], none, none⟩ := rfl

end Pg.C18
