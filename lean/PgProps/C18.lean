/-
  C18 — Symbolized callables keep Python call semantics.
  Property theorems only (model: PgModel/Call.lean; helper lemmas: PgProofs/Call.lean).

  SPEC  `pyBind s c`  = phase 1 `nameArgs` (distribute the supplied arguments over the parameter
        names: multiple values / unexpected keyword / too many positionals) followed by phase 2
        `complete` (defaults, missing required) — the language's rule, validated against CPython.
  IMPL  `functorInit`, `functorCall fix29` (fix29 = true: functor.py with fixes/C18-F29.patch,
        fix29 = false: the pinned tree), `classInit`, `symInitArgs`.
  The callable's body is a parameter `body : Assignment → R`; outcomes are compared as
  `Except PyErr R`: the same value or the same exception class.

  Standing preconditions (each one was forced by a proof and triaged on the real code):
  * `s.wf`, `c.wf`: what the compiler guarantees (distinct parameter names, defaults form a suffix;
    no keyword twice in one call);
  * `AvoidsVarargsName s c`: no keyword is named like the `*args` parameter.  pyglove exposes `*args`
    as a symbolic field of that name (`F(args=[1, 2])` binds it — documented), so `f(1, args=5)`
    and `F(1, args=5)` differ by design; the model mirrors what the code does there and the
    harness exercises it, but the property is not claimed.
-/
import PgProofs.Call
namespace Pg.C18

def AvoidsVarargsName (s : Sig) (c : Call) : Prop := ∀ p ∈ c.kwargs, s.varargs ≠ some p.1

/-- What `sym_init_args` should denote for supplied arguments `n`: per parameter the supplied
value, else the default, else MISSING; the surplus positionals; the surplus keywords. -/
def reportNamed (s : Sig) (n : Named) : List (Name × Reported) := reportWith s (kget n.named) n.va n.extra

/-! ### Two-stage call (construction-time binding, late binding, call-time override) -/

/-- For every signature, every construction call `c₁` and call-time call `c₂` whose arguments can
be distributed over the parameters (`n₁`, `n₂`; with `ignore_extra_args` the surplus of `c₂` is
dropped first) and that are compatible (disjoint, or `override_args` in force): the functor call
returns what phase 2 of the language's rule returns for the merged arguments — later values
replace earlier ones — or fails with the same exception class. -/
theorem C18_call {R : Type} (body : Assignment → R) (s : Sig) (hwf : s.wf = true)
    (c1 c2 : Call) (o i : Bool) (o? i? : Option Bool) (F : Functor) (n1 n2 : Named)
    (h1 : c1.wf = true) (h2 : c2.wf = true)
    (ha1 : AvoidsVarargsName s c1) (ha2 : AvoidsVarargsName s c2)
    (hF : functorInit s c1 o i = .ok F)
    (hn1 : nameArgs s c1 = .ok n1)
    (hn2 : nameArgs s (if i?.getD i = true then dropExtras s c2 else c2) = .ok n2)
    (hcompat : o?.getD o = true ∨ conflicts n1 n2 = false) :
    (functorCall true F c2 o? i?).map body = (toPyE (complete s (mergeNamed n1 n2))).map body := by
  obtain ⟨hB, ho, hi⟩ := built_of_init s hwf c1 o i F n1 h1 ha1 hF hn1
  rw [functorCall_eq s hwf F n1 n2 hB c2 o? i? h2 ha2 (by rw [hi]; exact hn2) (by rw [ho]; exact hcompat)]

/-- Without `override_args`, an argument bound at construction and supplied again at call time is
refused with `TypeError` — never silently overridden. (Holds for named parameters and `**kwargs`
entries; prebound `*args` ARE silently replaced by call-time surplus positionals, which is what
`mergeNamed` in `C18_call` says — observation O1 in the report.) -/
theorem C18_no_silent_override (s : Sig) (hwf : s.wf = true) (c1 c2 : Call) (o i : Bool)
    (o? i? : Option Bool) (F : Functor) (n1 n2 : Named)
    (h1 : c1.wf = true) (ha1 : AvoidsVarargsName s c1)
    (hF : functorInit s c1 o i = .ok F) (hn1 : nameArgs s c1 = .ok n1)
    (hn2 : nameArgs s (if i?.getD i = true then dropExtras s c2 else c2) = .ok n2)
    (hovr : o?.getD o = false) (hconf : conflicts n1 n2 = true) :
    functorCall true F c2 o? i? = .error .typeError := by
  obtain ⟨hB, ho, hi⟩ := built_of_init s hwf c1 o i F n1 h1 ha1 hF hn1
  exact functorCall_conflict s F n1 n2 hB c2 o? i? (by rw [hi]; exact hn2) (by rw [ho]; exact hovr) hconf

/-- Construction-time binding: if `F(*a, **k)` is accepted then `F(*a, **k)()` is `f(*a, **k)`:
same assignment, or the same class of error (missing required arguments). -/
theorem C18_construct {R : Type} (body : Assignment → R) (s : Sig) (hwf : s.wf = true)
    (c : Call) (o i : Bool) (F : Functor) (n : Named)
    (hc : c.wf = true) (ha : AvoidsVarargsName s c)
    (hF : functorInit s c o i = .ok F) (hn : nameArgs s c = .ok n) :
    (functorCall true F Call.empty none none).map body = (pyCall s c).map body := by
  obtain ⟨hB, _, _⟩ := built_of_init s hwf c o i F n hc ha hF hn
  have hn2 : nameArgs s (if (none : Option Bool).getD F.ignoreExtraArgs = true
      then dropExtras s Call.empty else Call.empty) = .ok ⟨[], [], []⟩ := by
    split
    · simp [nameArgs, dropExtras, Call.empty, bindKw]
    · exact nameArgs_empty s
  rw [functorCall_eq s hwf F n ⟨[], [], []⟩ hB Call.empty none none rfl
        (fun p hp => by simp [Call.empty] at hp) hn2 (Or.inr (conflicts_empty_right n)),
      mergeNamed_empty_right, pyCall_of_named hn]

/-- Late binding (patched code): `F()(*a, **k)` is `f(*a, **k)` for EVERY call — same
assignment or same class of error (too many positionals, multiple values, unexpected keyword,
missing required). -/
theorem C18_late {R : Type} (body : Assignment → R) (s : Sig) (hwf : s.wf = true)
    (c : Call) (o : Bool) (F : Functor)
    (hc : c.wf = true) (ha : AvoidsVarargsName s c)
    (hF : functorInit s Call.empty o false = .ok F) :
    (functorCall true F c none none).map body = (pyCall s c).map body := by
  cases hn : nameArgs s c with
  | error e =>
    rw [functorCall_late_err s o F hF c hc ha e hn, pyCall_of_named_err hn]
  | ok n =>
    obtain ⟨hB, _, hi⟩ := built_of_init s hwf Call.empty o false F ⟨[], [], []⟩ rfl
      (fun p hp => by simp [Call.empty] at hp) hF (nameArgs_empty s)
    have hnd := nameArgs_nodup hwf hc hn
    rw [functorCall_eq s hwf F ⟨[], [], []⟩ n hB c none none hc ha
          (by simp only [Option.getD_none, hi, Bool.false_eq_true, if_false]; exact hn)
          (Or.inr (conflicts_empty_left n)),
        mergeNamed_empty_left hnd.1 hnd.2, pyCall_of_named hn]

/-- Full strength of late binding for the code as pinned (no F29 fix). -/
def C18_late_unpatched_Full : Prop :=
  ∀ (s : Sig) (c : Call) (o : Bool) (F : Functor), s.wf = true → c.wf = true → AvoidsVarargsName s c →
    functorInit s Call.empty o false = .ok F →
    functorCall false F c none none = pyCall s c

/-- F29: on the pinned tree `F()(1, a=2)` returns `a == 2`; `f(1, a=2)` raises TypeError. -/
theorem C18_late_unpatched_counterexample : ¬ C18_late_unpatched_Full := by
  intro h
  have := h ⟨[⟨0, none⟩], none, [], none⟩ ⟨[1], [(0, 2)]⟩ false _ (by decide) (by decide)
    (by intro p hp; simp) (functorInit_empty _ false false)
  revert this
  decide

/-- What is proved for the pinned tree: the same statement for calls in which no parameter is
given both by position and by keyword is the patched theorem; the excluded calls are exactly
the ones the patch rejects.  (Model-level statement of the fix: both variants agree whenever the
patched one returns.) -/
theorem C18_patch_only_rejects (s : Sig) (spec positional : List Name) (o i : Bool) (kws : KW)
    (st st' : CallState)
    (h : kwLoop true s spec positional o i kws st = .ok st') :
    kwLoop false s spec positional o i kws st = .ok st' := by
  induction kws generalizing st with
  | nil => simpa [kwLoop] using h
  | cons p r ih =>
    obtain ⟨k, v⟩ := p
    simp only [kwLoop, Bool.true_and, Bool.false_and, Bool.false_eq_true, if_false] at h ⊢
    split at h
    · cases h
    · split at h
      · cases h
      · rename_i h2
        simp only [h2]
        split at h
        · rename_i h3; simp only [h3, if_true]; exact ih _ h
        · rename_i h3
          simp only [h3]
          split at h
          · rename_i h4
            simp only [h4, if_true]
            split at h
            · rename_i h5; simp only [h5, if_true]; exact ih _ h
            · rename_i h5; simp only [h5]; exact ih _ h
          · rename_i h4
            simp only [h4]
            split at h
            · cases h
            · rename_i h5; simp only [h5]; exact ih _ h

/-! ### Reported arguments -/

/-- `sym_init_args` of a freshly constructed functor denotes exactly the supplied arguments. -/
theorem C18_report (s : Sig) (hwf : s.wf = true) (c : Call) (o i : Bool) (F : Functor) (n : Named)
    (hc : c.wf = true) (ha : AvoidsVarargsName s c)
    (hF : functorInit s c o i = .ok F) (hn : nameArgs s c = .ok n) :
    symInitArgs F = reportNamed s n := by
  obtain ⟨⟨hsig, _, hnamed, hextra, _, hva, _, _⟩, _, _⟩ := built_of_init s hwf c o i F n hc ha hF hn
  have hk : ∀ p ∈ s.params, kget F.bound p.name = kget n.named p.name := by
    intro p hp
    have hpn : s.names.contains p.name = true := by
      apply List.contains_iff_mem.2
      simp only [Sig.params, List.mem_append] at hp
      simp only [Sig.names, Sig.posNames, Sig.kwNames, List.mem_append, List.mem_map]
      exact hp.imp (fun h => ⟨p, h, rfl⟩) (fun h => ⟨p, h, rfl⟩)
    rw [← hnamed, kget_filter (fun k => s.names.contains k), hpn]; rfl
  have e1 : ∀ p ∈ s.params, reportOne (kget F.bound) p = reportOne (kget n.named) p := by
    intro p hp; unfold reportOne; rw [hk p hp]
  unfold symInitArgs reportArgs reportNamed reportWith
  simp only [hsig, hva, hextra]
  rw [List.map_congr_left (fun p hp => e1 p (List.mem_append_left _ hp)),
      List.map_congr_left (fun p hp => e1 p (List.mem_append_right _ hp))]

/-- Clone and JSON round trip report the same arguments: `clone` carries the whole modelled state
over, and `from_json(to_json(F))` — which re-constructs by field name with the defaults made
explicit — has the same `sym_init_args`, hence (with `C18_report`) denotes the same supplied
arguments. (That the round-tripped functor also *calls* like the original is tied by
correspondence: `json_call0`, `clone_call` in the differential run.) -/
theorem C18_report_roundtrip (s : Sig) (hwf : s.wf = true) (c : Call) (o i : Bool) (F : Functor) (n : Named)
    (hc : c.wf = true) (ha : AvoidsVarargsName s c)
    (hF : functorInit s c o i = .ok F) (hn : nameArgs s c = .ok n) :
    symInitArgs F.clone = reportNamed s n ∧ symInitArgs F.jsonRoundTrip = reportNamed s n := by
  obtain ⟨hB, _, _⟩ := built_of_init s hwf c o i F n hc ha hF hn
  refine ⟨C18_report s hwf c o i F n hc ha hF hn, ?_⟩
  rw [symInitArgs_json s hwf F hB.sig hB.vaSome]
  exact C18_report s hwf c o i F n hc ha hF hn

/-- The round-tripped functor and the clone also CALL like the original: `from_json(to_json(F))()`
and `F.clone()()` have the outcome of `F()`, i.e. (by `C18_construct`) of `f(*a, **k)`. -/
theorem C18_roundtrip_call {R : Type} (body : Assignment → R) (s : Sig) (hwf : s.wf = true) (c : Call)
    (o i : Bool) (F : Functor) (n : Named) (hc : c.wf = true) (ha : AvoidsVarargsName s c)
    (hF : functorInit s c o i = .ok F) (hn : nameArgs s c = .ok n) :
    (functorCall true F.jsonRoundTrip Call.empty none none).map body = (pyCall s c).map body ∧
    (functorCall true F.clone Call.empty none none).map body = (pyCall s c).map body := by
  obtain ⟨hB, _, _⟩ := built_of_init s hwf c o i F n hc ha hF hn
  rw [functorCall_json s hwf F n hB]
  exact ⟨C18_construct body s hwf c o i F n hc ha hF hn, C18_construct body s hwf c o i F n hc ha hF hn⟩

/-! ### Direct construction of a symbolized class -/

/-- `Cls(*a, **k)` for `Cls = pg.symbolize(UserClass)` binds as the user's `__init__` does: what
`__init__` sees is the language's assignment for `(a, k)`, or construction fails with the same
class of error — for every signature and every call. (Model of class_wrapper.py with
fixes/C18-F61.patch.) -/
theorem C18_direct {R : Type} (body : Assignment → R) (s : Sig) (hwf : s.wf = true) (c : Call)
    (hc : c.wf = true) (ha : AvoidsVarargsName s c) :
    (classInit s c).map body = (pyCall s c).map body := by
  rw [classInit_eq s hwf c hc ha]

/-! ### Construction-time errors -/

/-- `F(*a, **k)` is refused at construction exactly when the language cannot distribute the
arguments over the parameters (too many positionals, multiple values, unexpected keyword), and
then with the same exception class; missing arguments are not an error at construction (partial
binding) — they are reported by the call (`C18_construct`). -/
theorem C18_construct_errors (s : Sig) (hwf : s.wf = true) (c : Call) (o i : Bool)
    (hc : c.wf = true) (ha : AvoidsVarargsName s c) :
    (∃ e, nameArgs s c = .error e) ↔ functorInit s c o i = .error .typeError := by
  constructor
  · rintro ⟨e, he⟩; exact functorInit_of_err s c o i hc ha e he
  · intro h
    cases hn : nameArgs s c with
    | error e => exact ⟨e, rfl⟩
    | ok n =>
      obtain ⟨F, hF⟩ := functorInit_of_named s hwf c o i hc ha n hn
      rw [hF] at h; cases h

/-- Construction-time binding, total form: `F(*a, **k)()` — construction followed by an empty
call — has the outcome of `f(*a, **k)` for EVERY call. -/
theorem C18_construct_total {R : Type} (body : Assignment → R) (s : Sig) (hwf : s.wf = true)
    (c : Call) (o i : Bool) (hc : c.wf = true) (ha : AvoidsVarargsName s c) :
    (match functorInit s c o i with
     | .error e => (Except.error e : Except PyErr Assignment)
     | .ok F => functorCall true F Call.empty none none).map body = (pyCall s c).map body := by
  cases hn : nameArgs s c with
  | error e =>
    rw [functorInit_of_err s c o i hc ha e hn, pyCall_of_named_err hn]
  | ok n =>
    obtain ⟨F, hF⟩ := functorInit_of_named s hwf c o i hc ha n hn
    rw [hF]
    exact C18_construct body s hwf c o i F n hc ha hF hn

/-! ### The effective direct call -/

/-- `C18_call` stated against a literal direct call: if `effective` (the direct call that supplies
the merged arguments — everything by keyword, or positionally when there are surplus positionals)
is defined, the two-stage functor call has the outcome of `f(*eff.args, **eff.kwargs)`. -/
theorem C18_call_effective {R : Type} (body : Assignment → R) (s : Sig) (hwf : s.wf = true)
    (c1 c2 : Call) (o i : Bool) (o? i? : Option Bool) (F : Functor) (eff : Call)
    (h1 : c1.wf = true) (h2 : c2.wf = true)
    (ha1 : AvoidsVarargsName s c1) (ha2 : AvoidsVarargsName s c2)
    (hF : functorInit s c1 o i = .ok F)
    (heff : effective s c1 c2 (i?.getD i) = .ok eff)
    (hcompat : o?.getD o = true ∨
      ∀ n1 n2, nameArgs s c1 = .ok n1 →
        nameArgs s (if i?.getD i = true then dropExtras s c2 else c2) = .ok n2 → conflicts n1 n2 = false) :
    (functorCall true F c2 o? i?).map body = (pyCall s eff).map body := by
  unfold effective at heff
  cases hn1 : nameArgs s c1 with
  | error e => rw [hn1] at heff; cases heff
  | ok n1 =>
    rw [hn1] at heff
    simp only at heff
    cases hn2 : nameArgs s (if i?.getD i = true then dropExtras s c2 else c2) with
    | error e => rw [hn2] at heff; cases heff
    | ok n2 =>
      rw [hn2] at heff
      cases heff
      have hc2' : (if i?.getD i = true then dropExtras s c2 else c2).wf = true := by
        split
        · have hnd : (keys c2.kwargs).Nodup := by simpa [Call.wf] using h2
          simp only [Call.wf, dropExtras]
          split
          · rw [keys_filter (fun k => s.names.contains k)]
            exact decide_eq_true (List.Nodup.sublist List.filter_sublist hnd)
          · exact decide_eq_true hnd
        · exact h2
      have hw := namedWF_merge (namedWF_of_nameArgs hwf h1 hn1) (namedWF_of_nameArgs hwf hc2' hn2)
      rw [pyCall_toCall s hwf _ hw]
      exact C18_call body s hwf c1 c2 o i o? i? F n1 n2 h1 h2 ha1 ha2 hF hn1 hn2
        (hcompat.imp id (fun h => h n1 n2 hn1 hn2))

/-! ### Late binding on the functor object (rebind / setattr / del before the call) -/

/-- For every functor built from `c₁` and every admissible sequence of late-binding operations
(named parameters, `**kwargs` entries, the `*args` list; `del`): the subsequent call — with any
call-time arguments `c₂`, override / ignore options — behaves as the language's binding of the
arguments the re-bound functor REPORTS (`Named.late` applied to the supplied arguments), merged
with the call-time ones. In particular `*args` / `**kwargs` entries bound after construction reach
the wrapped function. -/
theorem C18_rebound_call {R : Type} (body : Assignment → R) (s : Sig) (hwf : s.wf = true)
    (c1 c2 : Call) (o i : Bool) (o? i? : Option Bool) (F : Functor) (n1 n2 : Named) (ops : List LateOp)
    (h1 : c1.wf = true) (h2 : c2.wf = true)
    (ha1 : AvoidsVarargsName s c1) (ha2 : AvoidsVarargsName s c2)
    (hops : ∀ op ∈ ops, LateOp.ok s op)
    (hF : functorInit s c1 o i = .ok F) (hn1 : nameArgs s c1 = .ok n1)
    (hn2 : nameArgs s (if i?.getD i = true then dropExtras s c2 else c2) = .ok n2)
    (hcompat : o?.getD o = true ∨ conflicts (ops.foldl (Named.late s) n1) n2 = false) :
    (functorCall true (ops.foldl Functor.late F) c2 o? i?).map body
      = (toPyE (complete s (mergeNamed (ops.foldl (Named.late s) n1) n2))).map body := by
  obtain ⟨hB, ho, hi⟩ := built_of_init s hwf c1 o i F n1 h1 ha1 hF hn1
  obtain ⟨hB', ho', hi'⟩ := built_late s F n1 hB ops hops
  rw [functorCall_eq s hwf _ _ n2 hB' c2 o? i? h2 ha2 (by rw [hi', hi]; exact hn2)
    (by rw [ho', ho]; exact hcompat)]

/-- The re-bound functor reports exactly those arguments. -/
theorem C18_rebound_report (s : Sig) (hwf : s.wf = true) (c1 : Call) (o i : Bool) (F : Functor) (n1 : Named)
    (ops : List LateOp) (h1 : c1.wf = true) (ha1 : AvoidsVarargsName s c1)
    (hops : ∀ op ∈ ops, LateOp.ok s op)
    (hF : functorInit s c1 o i = .ok F) (hn1 : nameArgs s c1 = .ok n1) :
    symInitArgs (ops.foldl Functor.late F) = reportNamed s (ops.foldl (Named.late s) n1) := by
  obtain ⟨hB, _, _⟩ := built_of_init s hwf c1 o i F n1 h1 ha1 hF hn1
  obtain ⟨⟨hsig, _, hnamed, hextra, _, hva, _, _⟩, _, _⟩ := built_late s F n1 hB ops hops
  have e1 : ∀ p ∈ s.params, reportOne (kget (ops.foldl Functor.late F).bound) p
      = reportOne (kget (ops.foldl (Named.late s) n1).named) p := by
    intro p hp
    have hpn : s.names.contains p.name = true := by
      apply List.contains_iff_mem.2
      simp only [Sig.params, List.mem_append] at hp
      simp only [Sig.names, Sig.posNames, Sig.kwNames, List.mem_append, List.mem_map]
      exact hp.imp (fun h => ⟨p, h, rfl⟩) (fun h => ⟨p, h, rfl⟩)
    unfold reportOne
    rw [← hnamed, kget_filter (fun k => s.names.contains k), hpn]; rfl
  unfold symInitArgs reportArgs reportNamed reportWith
  simp only [hsig, hva, hextra]
  rw [List.map_congr_left (fun p hp => e1 p (List.mem_append_left _ hp)),
      List.map_congr_left (fun p hp => e1 p (List.mem_append_right _ hp))]

/-! ### Call-time member overrides are per object and per thread -/

/-- An invocation of functor `A` (in thread `t`) never changes what the members of another functor
object — or of `A` itself seen from another thread — resolve to, whatever invocations are already
active; and after `A` returns everything resolves as before. -/
theorem C18_override_isolation (attrs : Nat → KW) (st : OvStore) (a t b t' : Nat) (kw : KW) (k : Name)
    (h : ¬ (b = a ∧ t' = t)) :
    resolve attrs (st.enter a t kw) b t' k = resolve attrs st b t' k ∧
    resolve attrs (st.enter a t kw).exit b t' k = resolve attrs st b t' k :=
  ⟨resolve_enter_other attrs st a t b t' kw k h, by rw [exit_enter]⟩

/-- Inside its own invocation the functor sees the call-time value, else its bound argument —
`None` / falsy values included (the value is looked up, not tested for truth). -/
theorem C18_override_own (attrs : Nat → KW) (st : OvStore) (a t : Nat) (kw : KW) (k : Name) :
    resolve attrs (st.enter a t kw) a t k = (match kget kw k with
      | some v => some v
      | none => kget (attrs a) k) :=
  resolve_enter_self attrs st a t kw k

/-- The overrides of an invocation are removed on EVERY path out of it — also when `_call` raises:
whatever the body does (`body` may return `.error`), the store after the invocation is the store
before it, so every member of every functor object resolves, in every thread, as before. -/
theorem C18_override_restored_on_raise {ε α : Type} (attrs : Nat → KW) (st : OvStore) (a t : Nat) (kw : KW)
    (body : OvStore → Except ε α) (b t' : Nat) (k : Name) :
    (withOverrides st a t kw body).1 = st ∧
    resolve attrs (withOverrides st a t kw body).1 b t' k = resolve attrs st b t' k :=
  ⟨withOverrides_store st a t kw body, by rw [withOverrides_store]⟩

/-- The same statement for the variant without `finally` (the restore is skipped when the body
raises). -/
def C18_noFinally_restored_Full : Prop :=
  ∀ (attrs : Nat → KW) (st : OvStore) (a t : Nat) (kw : KW) (body : OvStore → Except Unit Unit) (b t' : Nat)
    (k : Name),
    resolve attrs (withOverridesNoFinally st a t kw body).1 b t' k = resolve attrs st b t' k

/-- `r = Ratio(8)` (den = 2 by default); `r(den=0)` raises; afterwards `r.den` reads 0. -/
theorem C18_noFinally_counterexample : ¬ C18_noFinally_restored_Full := by
  intro h
  have := h (fun _ => [(0, 8), (1, 2)]) [] 1 0 [(1, 0)] (fun _ => .error ()) 1 0 1
  revert this
  decide

/-- Without `**kwargs`, a call-time keyword that names no parameter — in particular one named like
the `*args` parameter — is refused by the functor (no `ignore_extra_args`) exactly as by the plain
function: both raise `TypeError`. (With `**kwargs` declared the real code deviates: finding F355.) -/
theorem C18_unknown_call_keyword_refused (s : Sig) (c1 c2 : Call) (o : Bool) (o? : Option Bool)
    (F : Functor) (hF : functorInit s c1 o false = .ok F) (hv : s.varkw = none)
    (h : ∃ p ∈ c2.kwargs, s.names.contains p.1 = false) :
    functorCall true F c2 o? none = .error .typeError ∧ pyCall s c2 = .error .typeError := by
  have hsig : F.sig = s ∧ F.ignoreExtraArgs = false := by
    unfold functorInit at hF
    simp only at hF
    split at hF
    · cases hF
    · split at hF
      · cases hF
      · split at hF
        · cases hF
        · split at hF
          · cases hF
          · cases hF; exact ⟨rfl, rfl⟩
  exact functorCall_unknown_keyword s F hsig.1 c2 o? hv hsig.2 h

-- the keyword named like *args (name 4) of `def f(a, *args)` at call time
example : ∃ p ∈ (⟨[1], [(4, 5)]⟩ : Call).kwargs,
    (⟨[⟨0, none⟩], some 4, [], none⟩ : Sig).names.contains p.1 = false := ⟨(4, 5), by simp, by decide⟩

/-- Isolation for the variant with one `threading.local` shared by all functor objects. -/
def C18_sharedTLS_isolation_Full : Prop :=
  ∀ (attrs : Nat → KW) (st : OvStore) (a t b t' : Nat) (kw : KW) (k : Name), ¬ (b = a ∧ t' = t) →
    resolveSharedTLS attrs (st.enter a t kw) b t' k = resolveSharedTLS attrs st b t' k

/-- `Combine(x=1, other=Scale(x=5))()`: while Combine (object 1) executes with `x = 1`, reading
`other.x` (object 2) through a shared store gives 1 instead of 5. -/
theorem C18_sharedTLS_counterexample : ¬ C18_sharedTLS_isolation_Full := by
  intro h
  have := h (fun o => if o = 2 then [(0, 5)] else [(0, 1)]) [] 1 0 2 0 [(0, 1)] 0 (by decide)
  revert this
  decide

/-! ### Histories of rebinds on a symbolized class -/

/-- `obj.rebind(**u₁); obj.rebind(**u₂); …` on the wrapper, and the same updates on the supplied
arguments (later values replace earlier ones). -/
def objHistory (o : SymObject) (upds : List KW) : SymObject := upds.foldl objectRebind o
def namedHistory (n : Named) (upds : List KW) : Named :=
  upds.foldl (fun n u => ⟨mergeKw n.named u, n.va, n.extra⟩) n

/-- For every signature, every accepted construction `Cls(*a, **k)` and every history of rebinds of
declared parameters: the wrapped `__init__` is re-run on exactly the language's binding of the
merged arguments — whatever its body does with them (`body` may raise, as at earlier steps of the
history) — and `sym_init_args` reports those merged arguments. -/
theorem C18_history {R : Type} (body : Assignment → R) (s : Sig) (hwf : s.wf = true) (c : Call)
    (hc : c.wf = true) (ha : AvoidsVarargsName s c) (o : SymObject) (n : Named)
    (ho : objectInit s c = .ok o) (hn : nameArgs s c = .ok n)
    (upds : List KW) (hupds : ∀ u ∈ upds, ∀ p ∈ u, s.names.contains p.1 = true) :
    (initOutcome (objHistory o upds)).map body = (toPyE (complete s (namedHistory n upds))).map body ∧
    reportArgs (objHistory o upds).sig (objHistory o upds).fields (objHistory o upds).va
      = reportNamed s (namedHistory n upds) := by
  have hB := objBuilt_of_init s hwf c hc ha n hn o ho
  clear ho hn
  induction upds generalizing o n with
  | nil =>
    simp only [objHistory, namedHistory, List.foldl_nil]
    refine ⟨by rw [initOutcome_eq s hwf o n hB], ?_⟩
    obtain ⟨hsig, hsn, hse, _, _, hva, _, _⟩ := hB
    have e1 : ∀ p ∈ s.params, reportOne (kget o.fields) p = reportOne (kget n.named) p := by
      intro p hp
      have hpn : s.names.contains p.name = true := by
        apply List.contains_iff_mem.2
        simp only [Sig.params, List.mem_append] at hp
        simp only [Sig.names, Sig.posNames, Sig.kwNames, List.mem_append, List.mem_map]
        exact hp.imp (fun h => ⟨p, h, rfl⟩) (fun h => ⟨p, h, rfl⟩)
      unfold reportOne
      rw [← hsn, kget_filter (fun k => s.names.contains k), hpn]; rfl
    unfold reportArgs reportNamed reportWith
    simp only [hsig, hva, hse]
    rw [List.map_congr_left (fun p hp => e1 p (List.mem_append_left _ hp)),
        List.map_congr_left (fun p hp => e1 p (List.mem_append_right _ hp))]
  | cons u us ih =>
    simp only [objHistory, namedHistory, List.foldl_cons]
    exact ih (objectRebind o u) ⟨mergeKw n.named u, n.va, n.extra⟩
      (fun u' hu' => hupds u' (List.mem_cons_of_mem _ hu'))
      (objBuilt_rebind s o n hB u (hupds u (List.mem_cons_self ..)))

/-! ### Positional-only parameters (`def f(a, b, /, c)`; finding F62) -/

/-- No keyword of the call names one of the first `npo` (positional-only) parameters. -/
def AvoidsPosOnlyNames (npo : Nat) (s : Sig) (c : Call) : Prop :=
  ∀ p ∈ c.kwargs, (s.posNames.take npo).contains p.1 = false

instance (npo : Nat) (s : Sig) (c : Call) : Decidable (AvoidsPosOnlyNames npo s c) := by
  unfold AvoidsPosOnlyNames; infer_instance

/-- Full strength over signatures with positional-only parameters (late binding). -/
def C18_posonly_Full : Prop :=
  ∀ (npo : Nat) (s : Sig) (c : Call) (o : Bool) (F : Functor), s.wf = true → c.wf = true →
    AvoidsVarargsName s c → npo ≤ s.pos.length →
    functorInit s Call.empty o false = .ok F →
    functorCall true F c none none = pyCallPO npo s c

/-- F62: `def p(a, /)`: `p(a=1)` raises TypeError, `P()(a=1)` returns `a == 1` — pyglove treats a
positional-only parameter as an ordinary symbolic field. Replayed on the real code (findings F62). -/
theorem C18_posonly_counterexample : ¬ C18_posonly_Full := by
  intro h
  have := h 1 ⟨[⟨0, none⟩], none, [], none⟩ ⟨[], [(0, 1)]⟩ false _ (by decide) (by decide)
    (by intro p hp; simp) (by decide) (functorInit_empty _ false false)
  revert this
  decide

/-- What holds with positional-only parameters: every call that does not pass one of them by
keyword behaves as the language prescribes — late binding, construction-time binding and direct
construction of a symbolized class. -/
theorem C18_posonly_partial {R : Type} (body : Assignment → R) (npo : Nat) (s : Sig) (hwf : s.wf = true)
    (c : Call) (o i : Bool) (F0 : Functor) (hc : c.wf = true) (ha : AvoidsVarargsName s c)
    (hpo : AvoidsPosOnlyNames npo s c)
    (hF0 : functorInit s Call.empty o false = .ok F0) :
    (functorCall true F0 c none none).map body = (pyCallPO npo s c).map body ∧
    (match functorInit s c o i with
     | .error e => (Except.error e : Except PyErr Assignment)
     | .ok F => functorCall true F Call.empty none none).map body = (pyCallPO npo s c).map body ∧
    (classInit s c).map body = (pyCallPO npo s c).map body := by
  rw [pyCallPO_eq npo s c hpo]
  exact ⟨C18_late body s hwf c o F0 hc ha hF0, C18_construct_total body s hwf c o i hc ha,
    C18_direct body s hwf c hc ha⟩

-- SymRect(2, 3); rebind(w=13) [__init__ would raise]; rebind(w=4, scale=2): __init__ sees (4, 3, scale=2)
example : ∃ o, objectInit ⟨[⟨0, none⟩, ⟨1, none⟩], none, [⟨2, some 1⟩], none⟩ ⟨[2, 3], []⟩ = .ok o ∧
    initOutcome (objHistory o [[(0, 13)], [(0, 4), (2, 2)]]) = .ok ⟨[(0, 4), (1, 3), (2, 2)], none, none⟩ := by
  refine ⟨_, rfl, ?_⟩; decide
example : AvoidsPosOnlyNames 1 ⟨[⟨0, none⟩, ⟨1, none⟩], none, [], none⟩ ⟨[7], [(1, 2)]⟩ := by decide

/-! ### Non-vacuity -/

/-- `def f(a, b=2, *args, c, d=4, **kwargs)`: names a=0 b=1 c=2 d=3 args=4 kwargs=5, x=6. -/
def exSig : Sig := ⟨[⟨0, none⟩, ⟨1, some 2⟩], some 4, [⟨2, none⟩, ⟨3, some 4⟩], some 5⟩

example : exSig.wf = true := by decide
-- F(1, 2, 3, c=5, x=7)(d=9): construction-time binding, *args, **kwargs, late keyword
example : ∃ F n1 n2, functorInit exSig ⟨[1, 2, 3], [(2, 5), (6, 7)]⟩ false false = .ok F ∧
    nameArgs exSig ⟨[1, 2, 3], [(2, 5), (6, 7)]⟩ = .ok n1 ∧ nameArgs exSig ⟨[], [(3, 9)]⟩ = .ok n2 ∧
    conflicts n1 n2 = false ∧
    functorCall true F ⟨[], [(3, 9)]⟩ none none
      = .ok ⟨[(0, 1), (1, 2), (2, 5), (3, 9)], some [3], some [(6, 7)]⟩ := by
  refine ⟨_, _, _, rfl, rfl, rfl, ?_, ?_⟩ <;> decide
-- override: F(1, c=5, override_args=True)(8, c=6)
example : ∃ F, functorInit exSig ⟨[1], [(2, 5)]⟩ true false = .ok F ∧
    functorCall true F ⟨[8], [(2, 6)]⟩ none none = .ok ⟨[(0, 8), (1, 2), (2, 6), (3, 4)], some [], some []⟩ := by
  refine ⟨_, rfl, ?_⟩; decide
-- the patched functor refuses F()(1, a=2)
example : ∃ F, functorInit exSig Call.empty false false = .ok F ∧
    functorCall true F ⟨[1], [(0, 2), (2, 0)]⟩ none none = .error .typeError := by
  refine ⟨_, rfl, ?_⟩; decide
-- F(1)(2) without override_args is refused
example : ∃ F n1 n2, functorInit exSig ⟨[1], []⟩ false false = .ok F ∧ nameArgs exSig ⟨[1], []⟩ = .ok n1 ∧
    nameArgs exSig ⟨[2], []⟩ = .ok n2 ∧ conflicts n1 n2 = true ∧
    functorCall true F ⟨[2], []⟩ none none = .error .typeError := by
  refine ⟨_, _, _, rfl, rfl, rfl, ?_, ?_⟩ <;> decide
example : AvoidsVarargsName exSig ⟨[1], [(2, 5)]⟩ := by intro p hp; simp at hp; subst hp; decide

end Pg.C18
