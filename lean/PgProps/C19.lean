/-
  C19 — Permission-gated code execution never runs a forbidden construct.
  Property theorems only (helper lemmas: PgProofs/Code.lean; model: PgModel/Code.lean;
  tables of the current source: PgGen/C19Tables.lean, regenerated on every run).
-/
import PgGen.C19Tables
import PgProofs.Code
import PgProofs.CodeTail
namespace Pg.C19
open Node
open Pg.C19.Tail

/-- SPECIFICATION TABLE (hand-written from the Python language reference; only rows nobody would
dispute): which node classes *are* the constructs the property names. -/
def required : Kind → Option Perm
  | .Assign | .AugAssign | .AnnAssign | .NamedExpr => some .assign
  | .If | .Match => some .condition
  | .For | .While | .AsyncFor => some .loop
  | .Call => some .call
  | .Try | .TryStar | .Raise | .Assert => some .exception
  | .ClassDef => some .classDef
  | .FunctionDef | .AsyncFunctionDef | .Lambda => some .funcDef
  | .Import | .ImportFrom => some .import_
  | _ => none

/-- Visitor theorem, for every tree, depth and permission set, over *any* gate table:
the validator accepts iff every node's gating flags are all granted. -/
theorem C19_visitor {κ : Type} (gate : κ → List Perm) (ps : PermSet) (n : Node κ) :
    validate gate ps n = true ↔ ∀ m ∈ nodes n, ∀ p ∈ gate m.kind, granted ps p = true := by
  rw [validate_iff]
  simp [nodeOk, List.all_eq_true]

/-- Generated obligation over the tables of the current source: every construct the property
names is gated by its flag. (Breaks, naming the class, if a class is dropped from a tuple.) -/
theorem C19_table : ∀ k ∈ allKinds, ∀ p, required k = some p → p ∈ gate k := by
  decide

theorem C19_kinds_complete : ∀ k : Kind, k ∈ allKinds := by
  intro k; cases k <;> decide

/-- A program containing, at any depth, a named construct whose flag is not granted is refused
by the validator — for all trees and all 256 permission subsets. -/
theorem C19_refuse (ps : PermSet) (n : Node Kind)
    (h : ∃ m ∈ nodes n, ∃ p, required m.kind = some p ∧ granted ps p = false) :
    validate gate ps n = false := by
  obtain ⟨m, hm, p, hreq, hg⟩ := h
  rw [Bool.eq_false_iff]
  intro hv
  rw [validate_iff] at hv
  have h1 := hv m hm
  have h2 := nodeOk_false_of_ungranted gate ps (C19_table m.kind (C19_kinds_complete _) p hreq) hg
  rw [h1] at h2
  cases h2

/-- The refusal carries the line of a visited node that is itself gated by a missing flag. -/
theorem C19_refuse_location {κ : Type} (gate : κ → List Perm) (ps : PermSet) (n : Node κ) (l : Nat)
    (h : firstViolation gate ps n = some l) :
    ∃ m ∈ nodes n, m.line = l ∧ ∃ p ∈ gate m.kind, granted ps p = false := by
  obtain ⟨m, hm, hl, hk⟩ := firstViolation_sound gate ps n l h
  refine ⟨m, hm, hl, ?_⟩
  unfold nodeOk at hk
  rw [List.all_eq_false] at hk
  obtain ⟨p, hp, hg⟩ := hk
  exact ⟨p, hp, by simpa using hg⟩

/-- `evaluate` validates strictly before running: if any permission is in force (explicit
argument or enclosing scope) and a named construct lacks its flag, execution is never reached. -/
theorem C19_before_exec (explicit : Option PermSet) (slot : Slot) (prog : Node Kind) (ps : PermSet)
    (heff : effective effectiveRule explicit slot = some ps)
    (h : ∃ m ∈ nodes prog, ∃ p, required m.kind = some p ∧ granted ps p = false) :
    ∃ l, evaluateHead gate effectiveRule explicit slot prog = .rejected l := by
  unfold evaluateHead
  rw [heff]
  have hv := C19_refuse ps prog h
  cases hf : firstViolation gate ps prog with
  | some l => exact ⟨l, by simp only [hf]⟩
  | none =>
    rw [firstViolation_none_iff] at hf
    rw [hf] at hv; cases hv

/-- Generated obligation: the rule by which `evaluate` combines the explicit argument with the
enclosing scope (extracted from the source) is the narrowing one. -/
theorem C19_rule : effectiveRule = .meetWithScope := by decide

/-- An explicit `permission=` argument is always honoured (also the empty flag), … -/
theorem C19_explicit_honoured (e : PermSet) (slot : Slot) :
    ∃ ps, effective effectiveRule (some e) slot = some ps ∧ ∀ p, granted ps p = true → granted e p = true := by
  rw [C19_rule]
  cases slot with
  | none => exact ⟨e, rfl, fun _ h => h⟩
  | some s =>
    refine ⟨e.inter s, rfl, ?_⟩
    intro p hp
    rw [granted_inter] at hp
    simp at hp
    exact hp.1

/-- … and an enclosing scope can only be narrowed, never widened: whatever is passed explicitly
and however many inner scopes are opened, the effective permission is a subset of the outermost
scope's. -/
theorem C19_scope_never_widened (outer : PermSet) (inner : List PermSet) (explicit : Option PermSet) :
    ∃ ps, effective effectiveRule explicit (scopeNest (some outer) inner) = some ps ∧
      ∀ p, granted ps p = true → granted outer p = true := by
  rw [C19_rule, scopeNest_some]
  cases explicit with
  | none => exact ⟨outer, rfl, fun _ h => h⟩
  | some e =>
    refine ⟨e.inter outer, rfl, ?_⟩
    intro p hp
    rw [granted_inter] at hp
    simp at hp
    exact hp.2

/-- Leaving any nest of permission scopes (normally or by exception) restores the slot. -/
theorem C19_scope_restore (slot : Slot) (ps : List PermSet) : scopeRun slot ps = slot :=
  scopeRun_restores slot ps

/-- Generated obligation: only expression statements and plain assignments are split off as the
"last expression" (anything else with a `.value` field would lose its own semantics). -/
theorem C19_split_table : ∀ k ∈ splitKinds, k = .Expr ∨ k = .Assign := by decide

/-! Non-vacuity: concrete instances of the hypotheses. -/
example : ∃ m ∈ nodes (Node.mk Kind.Module 0 [Node.mk .Expr 1 [Node.mk .Call 1 []]]),
    ∃ p, required m.kind = some p ∧ granted [Perm.assign] p = false :=
  ⟨Node.mk .Call 1 [], by simp [nodes, nodesAll], .call, rfl, by decide⟩
example : validate gate [Perm.assign] (Node.mk Kind.Module 0 [Node.mk .Assign 1 []]) = true := by decide
example : effective effectiveRule (some []) none = some [] := by decide

/-! ### The tail of `evaluate`: what is executed is what plain execution of the text yields -/
namespace Tail

/-- `evaluate` and plain execution agree: both fail with the same error, or both succeed with the
same captured output and the same globals (the bookkeeping key `__result__` aside). -/
def Agree (r : Except Err (Option Res)) (p : Except Err St) : Prop :=
  match r, p with
  | .error e, .error e' => e = e'
  | .ok (some r), .ok s => erase resultKey r.env = erase resultKey s.env ∧ r.out = s.out
  | _, _ => False

/-- Generated obligations on the split table of the current source, in the form the tail proofs
use them. -/
theorem C19_split_assign_expr :
    splitKinds.contains Kind.Assign = true ∧ splitKinds.contains Kind.Expr = true ∧
    splitKinds.contains Kind.AugAssign = false ∧ splitKinds.contains Kind.Pass = false := by decide

/-- For EVERY non-empty program of the statement language and every initial globals dict:
`evaluate` (split of the last statement, exec of the body, eval of the last expression, detour of a
trailing assignment through `__result__`) fails exactly when plain execution of the whole text
fails, with the same error, and otherwise leaves the same globals (modulo `__result__`) and the
same captured output. No hypothesis on the names the program uses. -/
theorem C19_tail_plain (body : List Stmt) (last : Stmt) (ctx : Env) :
    Agree (evaluate (body ++ [last]) ctx) (execAll (body ++ [last]) ⟨ctx, []⟩) := by
  obtain ⟨hA, hE, hG, hP⟩ := C19_split_assign_expr
  rw [execAll_append]
  unfold evaluate evaluateWith
  simp only [List.getLast?_append, List.getLast?_singleton, Option.or_some, Option.some_or,
    List.dropLast_concat]
  cases last with
  | assign ts e =>
    simp only [Stmt.kind, hA, if_true, Stmt.value?]
    cases hb : execAll body ⟨ctx, []⟩ with
    | error err => simp [Agree]
    | ok s1 =>
      simp only [execAll_single, exec]
      cases he : evalE e s1 with
      | error err => simp [Agree]
      | ok r =>
        obtain ⟨v, s2⟩ := r
        simp only [evalE, lookup_setVar_self, Agree]
        exact ⟨erase_assignAll_congr ts _ _ resultKey v (erase_setVar_self _ _ _), by trivial⟩
  | expr e =>
    simp only [Stmt.kind, hE, if_true, Stmt.value?]
    cases hb : execAll body ⟨ctx, []⟩ with
    | error err => simp [Agree]
    | ok s1 =>
      simp only [execAll_single, exec]
      cases he : evalE e s1 with
      | error err => simp [Agree]
      | ok r =>
        obtain ⟨v, s2⟩ := r
        simp only [Agree]
        exact ⟨erase_setVar_self _ _ _, by trivial⟩
  | aug x e =>
    simp only [Stmt.kind, hG, Bool.false_eq_true, if_false]
    rw [execAll_append]
    cases hb : execAll body ⟨ctx, []⟩ with
    | error err => simp [Agree]
    | ok s1 =>
      simp only []
      cases hl : execAll [Stmt.aug x e] s1 with
      | error err => simp [Agree]
      | ok s2 => simp only [Agree]; exact ⟨erase_setVar_self _ _ _, by trivial⟩
  | pass =>
    simp only [Stmt.kind, hP, Bool.false_eq_true, if_false]
    rw [execAll_append]
    cases hb : execAll body ⟨ctx, []⟩ with
    | error err => simp [Agree]
    | ok s1 =>
      simp only []
      cases hl : execAll [Stmt.pass] s1 with
      | error err => simp [Agree]
      | ok s2 => simp only [Agree]; exact ⟨erase_setVar_self _ _ _, by trivial⟩

/-- The value returned for a program that ends in an expression statement or an assignment is the
value its last expression evaluates to in the state the body leaves behind (also when the targets
of a trailing assignment include `__result__` itself). -/
theorem C19_tail_result (body : List Stmt) (last : Stmt) (e : Ex) (ctx : Env) (r : Res)
    (hk : last.kind = .Expr ∨ last.kind = .Assign) (hv : last.value? = some e)
    (h : evaluate (body ++ [last]) ctx = .ok (some r)) :
    ∃ s1 s2, execAll body ⟨ctx, []⟩ = .ok s1 ∧ evalE e s1 = .ok (r.result, s2) := by
  obtain ⟨hA, hE, _, _⟩ := C19_split_assign_expr
  unfold evaluate evaluateWith at h
  simp only [List.getLast?_append, List.getLast?_singleton, Option.or_some, Option.some_or,
    List.dropLast_concat] at h
  cases last with
  | assign ts e' =>
    simp only [Stmt.value?, Option.some.injEq] at hv
    subst hv
    simp only [Stmt.kind, hA, if_true, Stmt.value?] at h
    cases hb : execAll body ⟨ctx, []⟩ with
    | error err => rw [hb] at h; simp at h
    | ok s1 =>
      rw [hb] at h
      simp only [] at h
      cases he : evalE e' s1 with
      | error err => rw [he] at h; simp at h
      | ok p =>
        obtain ⟨v, s2⟩ := p
        rw [he] at h
        simp only [exec, evalE, lookup_setVar_self] at h
        have hl := lookup_assignAll_same ts (setVar s2.env resultKey v) resultKey v (lookup_setVar_self _ _ _)
        simp only [hl, Option.getD_some, Except.ok.injEq, Option.some.injEq] at h
        subst h
        exact ⟨s1, s2, rfl, he⟩
  | expr e' =>
    simp only [Stmt.value?, Option.some.injEq] at hv
    subst hv
    simp only [Stmt.kind, hE, if_true, Stmt.value?] at h
    cases hb : execAll body ⟨ctx, []⟩ with
    | error err => rw [hb] at h; simp at h
    | ok s1 =>
      rw [hb] at h
      simp only [] at h
      cases he : evalE e' s1 with
      | error err => rw [he] at h; simp at h
      | ok p =>
        obtain ⟨v, s2⟩ := p
        rw [he] at h
        simp only [lookup_setVar_self, Option.getD_some, Except.ok.injEq, Option.some.injEq] at h
        subst h
        exact ⟨s1, s2, rfl, he⟩
  | aug x e' => simp [Stmt.kind] at hk
  | pass => simp [Stmt.kind] at hk

/-- The `outputs_intermediate` dictionary is the same filter applied to the same globals, so it
agrees with the one computed from plain execution (modulo `__result__`). -/
theorem C19_tail_outputs (ctx e1 e2 : Env) (h : erase resultKey e1 = erase resultKey e2) :
    erase resultKey (outputs ctx e1) = erase resultKey (outputs ctx e2) := by
  rw [outputs_erase, outputs_erase, h]

/-- An empty program yields nothing and executes nothing. -/
theorem C19_tail_empty (ctx : Env) : evaluate [] ctx = .ok none := rfl

/-! Non-vacuity / regression instances (kernel-evaluated). -/
example : evaluate [.assign ["a"] (.lit 1), .assign ["b", "__result__"] (.add (.var "a") (.lit 2))] [("g", .int 7)]
    = .ok (some ⟨.int 3, [("g", .int 7), ("a", .int 1), ("__result__", .int 3), ("b", .int 3)], []⟩) := by rfl
example : evaluate [.expr (.print (.lit 4)), .aug "g" (.lit 1)] [("g", .int 7)]
    = .ok (some ⟨.int 8, [("g", .int 8), ("__result__", .int 8)], [.int 4]⟩) := by rfl
example : evaluate [.expr (.print (.lit 4)), .expr (.var "zz")] [] = .error .nameError := by rfl

/-! ### Head and tail together on the statement language -/

/-- A program of the statement language that assigns (plain, chained or augmented) without ASSIGN, or
prints (a call) without CALL — under the EFFECTIVE permission, whatever combination of explicit
argument and enclosing scopes produced it — is refused, and the refusal is an outcome that carries no
state: nothing of the program was executed. -/
theorem C19_full_refuses (explicit : Option PermSet) (slot : Slot) (prog : List Stmt) (ctx : Env) (ps : PermSet)
    (heff : effective effectiveRule explicit slot = some ps)
    (h : (∃ st ∈ prog, st.assigns = true ∧ granted ps .assign = false) ∨
         (∃ st ∈ prog, st.hasCall = true ∧ granted ps .call = false)) :
    ∃ l, evaluateFull explicit slot prog ctx = .rejected l := by
  have key : ∃ m ∈ nodes (moduleOf prog), ∃ p, required m.kind = some p ∧ granted ps p = false := by
    rcases h with ⟨st, hst, ha, hg⟩ | ⟨st, hst, hc, hg⟩
    · obtain ⟨l', hl'⟩ := mem_moduleOf prog st hst
      obtain ⟨m, hm, hk⟩ := Stmt.assign_node l' st ha
      refine ⟨m, hl' m hm, .assign, ?_, hg⟩
      rcases hk with hk | hk <;> rw [hk] <;> rfl
    · obtain ⟨l', hl'⟩ := mem_moduleOf prog st hst
      obtain ⟨m, hm, hk⟩ := Stmt.call_node l' st hc
      refine ⟨m, hl' m hm, .call, ?_, hg⟩
      rw [hk]; rfl
  obtain ⟨l, hl⟩ := C19_before_exec explicit slot (moduleOf prog) ps heff key
  exact ⟨l, by unfold evaluateFull; rw [hl]⟩

/-- When the head lets the program through, what runs is the tail — which agrees with plain
execution (`C19_tail_plain`). -/
theorem C19_full_runs_plain (explicit : Option PermSet) (slot : Slot) (body : List Stmt) (last : Stmt) (ctx : Env)
    (h : evaluateHead gate effectiveRule explicit slot (moduleOf (body ++ [last])) = .runs) :
    ∃ r, evaluateFull explicit slot (body ++ [last]) ctx = .ran r ∧
      Agree r (execAll (body ++ [last]) ⟨ctx, []⟩) := by
  refine ⟨evaluate (body ++ [last]) ctx, by unfold evaluateFull; rw [h], C19_tail_plain body last ctx⟩

example : ∃ l, evaluateFull (some [Perm.assign]) none [.assign ["a"] (.lit 1), .expr (.print (.var "a"))] [] = .rejected l :=
  C19_full_refuses _ _ _ _ [Perm.assign] rfl (Or.inr ⟨.expr (.print (.var "a")), by simp, rfl, by decide⟩)

end Tail

end Pg.C19
