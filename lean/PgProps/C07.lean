/-
  C07 — Clone fidelity and independence. Property theorems only.
-/
import PgProofs.SymLocal
namespace Pg.Sym

example : (Forest.empty).wf = true := by decide

end Pg.Sym
