/-
  C07 — Clone fidelity and independence. Property theorems only (model: PgModel/Sym*.lean,
  `Tree.clone`; lemmas: PgProofs/SymClone.lean).
-/
import PgProofs.SymFrame2
import PgProps.C01
import PgProofs.CloneVal
namespace Pg.Sym

/-- **The clone is a well-formed tree of its own**: root without parent, empty path, and every
node below it believes its actual parent and path — for every tree, deep or shallow, patched or
not. -/
theorem C07_wf (cfg : Cfg) (deep : Bool) (next : Nat) (t : Tree) :
    (t.clone cfg deep next none []).1.okAt none [] = true ∧ (t.clone cfg deep next none []).1.okRoot = true :=
  ⟨clone_okAt cfg deep next none [] t, okRoot_of_okAt (clone_okAt cfg deep next none [] t)⟩

/-- the same when the copy is made for a destination (relocate-or-copy of C01). -/
theorem C07_wf_at (cfg : Cfg) (deep : Bool) (next h : Nat) (p : List Key) (t : Tree) :
    (t.clone cfg deep next (some h) p).1.okSub h p = true := by
  rw [okSub_iff_okAt]; exact clone_okAt cfg deep next (some h) p t

/-- **No symbolic node is shared**: every node of the clone has an id allocated by this call;
in a forest whose ids are all below `nextId` the clone of any of its nodes is disjoint from
everything that exists. -/
theorem C07_disjoint (cfg : Cfg) (deep : Bool) (f : Forest) (t : Tree)
    (hf : ∀ j ∈ f.ids, j < f.nextId) :
    ∀ i ∈ (t.clone cfg deep f.nextId none []).1.ids, i ∉ f.ids := by
  intro i hi hmem
  have h1 := (clone_fresh cfg deep f.nextId none [] t).2 i hi
  have h2 := hf i hmem
  omega

/-- the id counter only grows, so later allocations stay disjoint as well. -/
theorem C07_counter (cfg : Cfg) (deep : Bool) (next : Nat) (t : Tree) :
    next ≤ (t.clone cfg deep next none []).2 ∧
      ∀ i ∈ (t.clone cfg deep next none []).1.ids, i < (t.clone cfg deep next none []).2 :=
  ⟨(clone_fresh cfg deep next none [] t).1, fun i hi => ((clone_fresh cfg deep next none [] t).2 i hi).2⟩

/-- **Cloning never modifies the original**: the call adds one root and leaves every existing
tree as it is. -/
theorem C07_orig_unchanged (cfg : Cfg) (f : Forest) (n : Bool) (t : Nat) (deep : Bool) (tr : Tree)
    (hfind : f.find? t = some tr) :
    (step cfg f n (.clone t deep)).forest.roots = f.roots ++ [(tr.clone cfg deep f.nextId none []).1] := by
  simp [step, hfind]

/-- **Frame**: a local update (what every mutator is) leaves every tree that does not contain
its target exactly as it is — so a mutation of one copy is not observable through the other,
whose ids are disjoint (`C07_disjoint`). -/
theorem C07_frame (f : Forest) (t : Nat) (g : Meta → Items → Items) (b : Tree) (hb : b ∈ f.roots)
    (hdis : t ∉ b.ids) : b ∈ (f.mapAt t g).roots := by
  simp only [Forest.mapAt, List.mem_map]
  exact ⟨b, hb, updateAt_noop t g b hdis⟩

/-- the change notification walks the believed ancestors of its targets; a tree none of whose
nodes is among them is left as it is. -/
theorem C07_notify_frame (f : Forest) (targets : List Nat) (b : Tree) (hb : b ∈ f.roots)
    (h : ∀ c ∈ targets.flatMap (chainFrom f (f.ids.length + 1)), c ∉ b.ids) :
    b ∈ (notify f targets).roots := by
  unfold notify
  have h' : ∀ c ∈ (targets.flatMap (chainFrom f (f.ids.length + 1))).eraseDups, c ∉ b.ids :=
    fun c hc => h c (List.mem_eraseDups.mp hc)
  generalize (targets.flatMap (chainFrom f (f.ids.length + 1))).eraseDups = chain at h'
  clear h
  induction chain generalizing f with
  | nil => exact hb
  | cons c cs ih =>
    simp only [List.foldl_cons]
    exact ih (onChangeAt f c) (C07_frame f c _ b hb (h' c (by simp))) (fun x hx => h' x (by simp [hx]))

/-- non-interference for the in-place mutators that offer no value (`del`, `pop`, `remove`,
`clear`, `popitem`, `sort`, `reverse`, slice deletion, `seal`), as a whole step under
`notify_on_change(False)`: every root that does not contain the target is still a root, unchanged
(with notification on, add `C07_notify_frame`). -/
theorem C07_independent_partial (cfg : Cfg) (f : Forest) (op : Op) (t : Nat)
    (hq : Quiet op = true) (ht : op.target? = some t) (b : Tree) (hb : b ∈ f.roots) (hdis : t ∉ b.ids) :
    b ∈ (step cfg f false op).forest.roots :=
  step_frame cfg f op t hq ht b hb hdis

/-- … also through the presentation step of a call (`stepA`: roots nobody holds are dropped, the
others are looked up by id — ids are distinct, so the tree found is the very tree). -/
theorem C07_independent_call (cfg : Cfg) (f : Forest) (op : Op) (t : Nat) (hf : f.repOk = true)
    (hq : Quiet op = true) (ht : op.target? = some t) (b : Tree) (hb : b ∈ f.roots) (hdis : t ∉ b.ids)
    (hal : (stepA cfg f false op).forest.aliased = false) :
    b ∈ (stepA cfg f false op).forest.roots :=
  stepA_frame cfg f op t ((repOk_iff f).mp hf).1 hq ht b hb hdis hal

/-- **non-interference over histories**: after any sequence of such calls on nodes outside a tree
`b` (a clone, or the original), `b` is still a root of the forest, exactly as it was. By induction
over the history, carrying the disjoint-ids invariant (`C01_step_rep`). -/
theorem C07_independent_history (cfg : Cfg) (f : Forest) (ops : List Op) (b : Tree) (hf : f.repOk = true)
    (hb : b ∈ f.roots) (hq : ∀ op ∈ ops, Quiet op = true ∧ ∃ t, op.target? = some t ∧ t ∉ b.ids)
    (hal : (runHist cfg f (ops.map (fun op => (false, op)))).aliased = false) :
    b ∈ (runHist cfg f (ops.map (fun op => (false, op)))).roots :=
  runHist_frame cfg b ops f ((repOk_iff f).mp hf).1 hb hq hal

/-- **non-interference, one call, the whole surface**: value-offering or not, with or without
change notification — a tree `b` that does not contain the target of the call and is not itself
offered to it is still a root afterwards, exactly as it was. For every operation except a slice
assignment (F225), from a well-formed forest whose roots claim no parent, on every tree with the
belief fixes. (The notification walks the *believed* ancestors of the target; in a well-formed
forest those are its actual ancestors, so the walk never leaves the target's own tree — in
particular it never crosses from a clone to its original.) -/
theorem C07_independent_call_full {lcs nb : Bool} {scp : Option Bool} {sat : Bool} (f : Forest) (n : Bool) (op : Op) (b : Tree)
    (hf : f.wf = true) (hfree : f.rootsFree = true) (hk : wellKeyed op = true) (hb : b ∈ f.roots)
    (ht : ∀ t, op.target? = some t → t ∉ b.ids) (hr : ∀ id ∈ op.refs, b.id? ≠ some id) (hs : IsSlice op = false) :
    b ∈ (stepA (Cfg.fixedWith lcs nb scp sat) f n op).forest.roots := by
  have hw := (wf_iff f).mp hf
  have hv : V f := ⟨⟨hw.1, hw.2.1, hw.2.2.1⟩, hfree⟩
  unfold stepA
  split
  · exact hb
  · unfold stepN
    simp only
    have hal := step_unal (lcs := lcs) (nb := nb) (sp := scp) (sat := sat) f n op hv.w hk
    exact normalizeRoots_keeps f _ _ b (step_inv _ f n op hv.w.inv hk hal).nb hb
      (step_frameV f n op b hv hk hb ht hr hs)

/-- **non-interference over histories, the whole surface**: after any history of calls (any
operation but a slice assignment; notification on or off) that neither target a node of `b` nor
offer `b` itself, `b` is still a root of the forest, exactly as it was — e.g. the original after
any such history on its clone, and vice versa (`C07_disjoint`: their ids are disjoint). -/
theorem C07_independent_history_full (hist : List (Bool × Op)) (b : Tree) : ∀ (f : Forest), f.wf = true →
    f.rootsFree = true → b ∈ f.roots →
    (∀ s ∈ hist, wellKeyed s.2 = true ∧ IsSlice s.2 = false ∧ (∀ t, s.2.target? = some t → t ∉ b.ids) ∧
      ∀ id ∈ s.2.refs, b.id? ≠ some id) →
    b ∈ (runHist Cfg.patched f hist).roots := by
  induction hist with
  | nil => intro f _ _ hb _; exact hb
  | cons s rest ih =>
    intro f hf hfree hb hs
    obtain ⟨n, op⟩ := s
    obtain ⟨hk, hsl, ht, hr⟩ := hs (n, op) (by simp)
    simp only [runHist]
    refine ih _ (C01_step_Full f n op hf hk) ?_ ?_ (fun s hs' => hs s (by simp [hs']))
    · exact C01_roots_parentless (lcs := true) (nb := true) (scp := none) (sat := true) f n op hfree
        (by cases op <;> first | rfl | simp [IsSlice] at hsl)
    · exact C07_independent_call_full (lcs := true) (nb := true) (scp := none) (sat := true) f n op b hf hfree hk hb ht hr hsl

/-! ## Flags (F17) -/

def sealedList : Tree :=
  .node { id := 0, parent := none, path := [], kind := .list, sealed := true, accW := true, part := false }
    [(.i 0, .leaf (.int 1))]

def sealedOf : Tree → Bool
  | .node m _ => m.sealed
  | .leaf _ => false

/-- the flag a clone is built with is the original's flag, for every kind but `pg.Ref`, on the
patched tree … -/
theorem C07_flags_patched (m : Meta) (h : m.kind ≠ .obj clsRef) : cloneSealed Cfg.patched m = m.sealed := by
  unfold cloneSealed
  cases hk : m.kind with
  | list => simp [Cfg.patched]
  | dict => rfl
  | obj c =>
    have : c ≠ 2 := by
      intro he; subst he; exact h hk
    split <;> simp_all

def C07_flags_Full : Prop := ∀ (cfg : Cfg) (m : Meta), cloneSealed cfg m = m.sealed

def C07_flags_pinned_Full : Prop := ∀ m : Meta, cloneSealed Cfg.pinned m = m.sealed

/-- … and for every kind but `list` (F17) and `pg.Ref` (F92) on the unpatched tree. -/
theorem C07_flags_pinned_partial (m : Meta) (h : m.kind ≠ .list) (h2 : m.kind ≠ .obj clsRef) :
    cloneSealed Cfg.pinned m = m.sealed := by
  unfold cloneSealed
  cases hk : m.kind with
  | list => exact absurd hk h
  | dict => rfl
  | obj c =>
    have : c ≠ 2 := by
      intro he; subst he; exact h2 hk
    split <;> simp_all

/-- F92: `Ref._sym_clone` builds `Ref(value, allow_partial=…)`; a sealed Ref is cloned unsealed
(in every configuration: not repaired). -/
theorem C07_counterexample_F92 : ¬ C07_flags_Full := by
  intro h
  have := h Cfg.patched { id := 0, parent := none, path := [], kind := .obj clsRef, sealed := true,
                          accW := false, part := false, ref := some 1 }
  simp [cloneSealed, clsRef] at this

theorem C07_counterexample_F17 : sealedOf (sealedList.clone Cfg.pinned false 1 none []).1 = false := by decide

theorem C07_flags_pinned_counterexample : ¬ C07_flags_pinned_Full := by
  intro h
  have := h { id := 0, parent := none, path := [], kind := .list, sealed := true, accW := true, part := false }
  simp [cloneSealed, Cfg.pinned] at this

theorem C07_fixed_F17 : sealedOf (sealedList.clone Cfg.patched false 1 none []).1 = true := by decide

/-! ## Equality and flags at every node -/

/-- **The clone is symbolically equal to the original** (`pg.eq`): same kinds, same keys, same
leaves at every node, for every tree whose payload keys are well-shaped and that holds no MISSING
placeholder (which `List(...)` drops while copying) — deep or shallow, every configuration. -/
theorem C07_equal_Full (cfg : Cfg) (deep : Bool) (next : Nat) (t : Tree) (hsh : t.shapeOk = true)
    (hm : ∀ s ∈ t.subnodes, ∀ kv ∈ s.items, kv.2.isMissing = false) :
    t.symEq deep (t.clone cfg deep next none []).1 = true :=
  clone_symEq cfg deep next none [] t hsh (noMissing_of_subnodes t hm)

/-- **Flags at every descendant, exactly**: original and clone agree on `sealed` and
`accessor_writable` at every node *iff* the seal marks of the original are what the constructors
reproduce (`sealFaithful`: a node is sealed exactly when it is constructed sealed or lies below
such a node). The three ways this fails are the three findings: F17 (list, unpatched), F92 (Ref),
F93 (unsealed node below a sealed one). -/
theorem C07_flags_everywhere (cfg : Cfg) (deep : Bool) (next : Nat) (t : Tree) (hm : t.noMissing = true) :
    t.flagsEq (t.clone cfg deep next none []).1 = t.sealFaithful cfg false := by
  have := clone_flagsEq cfg deep next none [] t hm false
  simpa [sealIf] using this

/-- F93 as an instance: `d = pg.Dict(x=pg.Dict(), sealed=True); d.x.seal(False)` is not faithful,
and its clone differs from it on the flag of `x`. -/
def resealed : Tree :=
  .node { id := 0, parent := none, path := [], kind := .dict, sealed := true, accW := true, part := false }
    [(.s 0, .node { id := 1, parent := some 0, path := [.s 0], kind := .dict, sealed := false, accW := true,
                    part := false } [])]

theorem C07_counterexample_F93 :
    resealed.sealFaithful Cfg.patched false = false ∧
      resealed.flagsEq (resealed.clone Cfg.patched true 2 none []).1 = false := by decide

/-- **`allow_partial` at every descendant, exactly**: original and clone agree on the flag at
every node *iff* every spec-bound list held directly in a field of an object carries the flag the
object's constructor hands it (`partFaithful`): without a scope the object's own `allow_partial`,
inside `with pg.allow_partial(b)` the scope's `b` (F120). Every other node keeps its flag. -/
theorem C07_partial_everywhere (cfg : Cfg) (deep : Bool) (next : Nat) (t : Tree) (hm : t.noMissing = true) :
    t.partEq (t.clone cfg deep next none []).1 = t.partFaithful cfg none := by
  have := clone_partEq cfg deep next none [] t hm none
  simpa [adoptOpt] using this

/-- F120 as an instance: an object (allow_partial=False) holding a spec-bound list, cloned inside
`with pg.allow_partial(True)`: not faithful for that scope, and the clone's list has the flag set;
without a scope the same tree is faithful and the clone agrees everywhere. -/
def objWithTypedList : Tree :=
  .node { id := 0, parent := none, path := [], kind := .obj 1, sealed := false, accW := true, part := false }
    [(.s 0, .leaf .none),
     (.s 1, .node { id := 1, parent := some 0, path := [.s 1], kind := .list, sealed := false, accW := true,
                    part := false, typed := true } []),
     (.s 2, .leaf .none)]

theorem C07_counterexample_F120 :
    objWithTypedList.partFaithful { Cfg.patched with scopePartial := some true } none = false ∧
    objWithTypedList.partEq (objWithTypedList.clone { Cfg.patched with scopePartial := some true } false 2 none []).1 = false ∧
    objWithTypedList.partFaithful Cfg.patched none = true ∧
    objWithTypedList.partEq (objWithTypedList.clone Cfg.patched false 2 none []).1 = true := by decide

def sample : Forest :=
  (stepA Cfg.patched Forest.empty true (.new (.node .dict false true false
    [(.s 0, .node .list false true true [(.i 0, .fresh), (.i 1, .node .dict false true false [])]),
     (.s 1, .atom (.int 3))]))).forest

example : sample.wf = true ∧ sample.ids.length = 3 := by decide
example : ∀ r ∈ sample.roots, r.symEq false (r.clone Cfg.patched false sample.nextId none []).1 = true := by decide
example : ∀ r ∈ sample.roots, r.symEq true (r.clone Cfg.patched true sample.nextId none []).1 = true := by decide
example : (stepA Cfg.patched sample true (.clone 0 true)).forest.wf = true := by decide
example : Quiet (.lReverse 1) = true := by decide

end Pg.Sym

/-! ### Symbolic containers inside tuples / plain lists / plain dicts (the `pg.clone` dispatcher) -/
namespace Pg.C07.Val

/-- A deep clone shares NO mutable object with the original — symbolic container, plain list, plain
dict or opaque leaf, at any tuple depth: for every value whose identities are below the allocation
counter. -/
theorem C07_val_independent (next : Nat) (v : V) (h : ∀ i ∈ ids v, i < next) :
    ∀ i ∈ ids (cloneV true next v).1, i ∉ ids v := by
  intro i hi hv
  have h1 := ((cloneV_deep next v).2.1 i hi).1
  have h2 := h i hv
  omega

theorem C07_val_shared_nil (next : Nat) (v : V) (h : ∀ i ∈ ids v, i < next) :
    shared (cloneV true next v).1 v = [] := by
  unfold shared
  rw [List.filter_eq_nil_iff]
  intro i hi
  have := C07_val_independent next v h i hi
  simpa using this

/-- The deep clone is a tree of its own: its mutable objects are pairwise different and all fresh. -/
theorem C07_val_own_tree (next : Nat) (v : V) :
    (ids (cloneV true next v).1).Nodup ∧ ∀ i ∈ ids (cloneV true next v).1, next ≤ i ∧ i < (cloneV true next v).2 :=
  ⟨(cloneV_deep next v).2.2, (cloneV_deep next v).2.1⟩

/-- Deep or shallow, the clone has the shape (classes, structure, immutable leaves) of the original. -/
theorem C07_val_equal (deep : Bool) (next : Nat) (v : V) : shape (cloneV deep next v).1 = shape v :=
  cloneV_shape deep next v

/-- Documented, deliberate: a SHALLOW clone shares whatever sits inside a tuple (kernel-evaluated). -/
theorem C07_val_shallow_shares :
    shared (cloneV false 3 (.sym 0 [.tup [.sym 1 [.imm 5], .opq 2]])).1 (.sym 0 [.tup [.sym 1 [.imm 5], .opq 2]]) = [1, 2] := by
  decide

/-- The change seeded as C07-16 (a tuple whose direct elements are all "immutable", tuples included, is
returned as is) in the model: the inner symbolic node is shared by the deep clone (kernel-evaluated) —
what the theorem above excludes for the code as it is. -/
example : ∃ i, i ∈ ids (V.sym 7 [.tup [.tup [.sym 1 [.imm 5]]]]) ∧ i ∈ ids (V.sym 0 [.tup [.tup [.sym 1 [.imm 5]]]]) :=
  ⟨1, by decide, by decide⟩

example : ∀ i ∈ ids (V.sym 0 [.tup [.tup [.sym 1 [.imm 5]], .plist 2 [.opq 3]]]), i < 4 := by decide

end Pg.C07.Val
