/-
  C07 — Clone fidelity and independence. Property theorems only (model: PgModel/Sym*.lean,
  `Tree.clone`; lemmas: PgProofs/SymClone.lean).
-/
import PgProofs.SymClone
namespace Pg.Sym

/-- **The clone is a well-formed tree of its own**: root without parent, empty path, and every
node below it believes its actual parent and path — for every tree, deep or shallow, patched or
not. -/
theorem C07_wf (cfg : Cfg) (deep : Bool) (next : Nat) (t : Tree) :
    (t.clone cfg deep next none []).1.okAt none [] = true ∧ (t.clone cfg deep next none []).1.okRoot = true :=
  ⟨clone_okAt cfg deep next none [] t, okRoot_of_okAt (clone_okAt cfg deep next none [] t)⟩

/-- the same when the copy is made for a destination (relocate-or-copy of C01). -/
theorem C07_wf_at (cfg : Cfg) (deep : Bool) (next h : Nat) (p : List Key) (t : Tree) :
    (t.clone cfg deep next (some h) p).1.okSub h p = true := by
  rw [okSub_iff_okAt]; exact clone_okAt cfg deep next (some h) p t

/-- **No symbolic node is shared**: every node of the clone has an id allocated by this call;
in a forest whose ids are all below `nextId` the clone of any of its nodes is disjoint from
everything that exists. -/
theorem C07_disjoint (cfg : Cfg) (deep : Bool) (f : Forest) (t : Tree)
    (hf : ∀ j ∈ f.ids, j < f.nextId) :
    ∀ i ∈ (t.clone cfg deep f.nextId none []).1.ids, i ∉ f.ids := by
  intro i hi hmem
  have h1 := (clone_fresh cfg deep f.nextId none [] t).2 i hi
  have h2 := hf i hmem
  omega

/-- the id counter only grows, so later allocations stay disjoint as well. -/
theorem C07_counter (cfg : Cfg) (deep : Bool) (next : Nat) (t : Tree) :
    next ≤ (t.clone cfg deep next none []).2 ∧
      ∀ i ∈ (t.clone cfg deep next none []).1.ids, i < (t.clone cfg deep next none []).2 :=
  ⟨(clone_fresh cfg deep next none [] t).1, fun i hi => ((clone_fresh cfg deep next none [] t).2 i hi).2⟩

/-- **Cloning never modifies the original**: the call adds one root and leaves every existing
tree as it is. -/
theorem C07_orig_unchanged (cfg : Cfg) (f : Forest) (n : Bool) (t : Nat) (deep : Bool) (tr : Tree)
    (hfind : f.find? t = some tr) :
    (step cfg f n (.clone t deep)).forest.roots = f.roots ++ [(tr.clone cfg deep f.nextId none []).1] := by
  simp [step, hfind]

/-- **Frame**: a local update (what every mutator is) leaves every tree that does not contain
its target exactly as it is — so a mutation of one copy is not observable through the other,
whose ids are disjoint (`C07_disjoint`). -/
theorem C07_frame (f : Forest) (t : Nat) (g : Meta → Items → Items) (b : Tree) (hb : b ∈ f.roots)
    (hdis : t ∉ b.ids) : b ∈ (f.mapAt t g).roots := by
  simp only [Forest.mapAt, List.mem_map]
  exact ⟨b, hb, updateAt_noop t g b hdis⟩

/-- non-interference for the in-place mutators of a list or dict that offer no value, as a whole
step under `notify_on_change(False)`: every root that does not contain the target is still a
root, unchanged (with notification on, add `C07_notify_frame`). -/
def Quiet : Op → Bool
  | .lReverse _ | .lSort _ _ _ | .lClear _ | .dClear _ | .dPopItem _ => true
  | _ => false

/-- the change notification walks the believed ancestors of its targets; a tree none of whose
nodes is among them is left as it is. -/
theorem C07_notify_frame (f : Forest) (targets : List Nat) (b : Tree) (hb : b ∈ f.roots)
    (h : ∀ c ∈ targets.flatMap (chainFrom f (f.ids.length + 1)), c ∉ b.ids) :
    b ∈ (notify f targets).roots := by
  unfold notify
  have h' : ∀ c ∈ (targets.flatMap (chainFrom f (f.ids.length + 1))).eraseDups, c ∉ b.ids :=
    fun c hc => h c (List.mem_eraseDups.mp hc)
  generalize (targets.flatMap (chainFrom f (f.ids.length + 1))).eraseDups = chain at h'
  clear h
  induction chain generalizing f with
  | nil => exact hb
  | cons c cs ih =>
    simp only [List.foldl_cons]
    exact ih (onChangeAt f c) (C07_frame f c _ b hb (h' c (by simp))) (fun x hx => h' x (by simp [hx]))

theorem C07_independent_partial (cfg : Cfg) (f : Forest) (op : Op) (t : Nat)
    (hq : Quiet op = true) (ht : op.target? = some t) (b : Tree) (hb : b ∈ f.roots) (hdis : t ∉ b.ids) :
    b ∈ (step cfg f false op).forest.roots := by
  cases op <;> simp [Quiet] at hq <;> simp only [Op.target?, Option.some.injEq] at ht <;> subst ht <;>
    simp only [step]
  all_goals
    split
    · split
      · exact hb
      · first
        | (unfold permuteAndNotify permute; simp only [Bool.and_false, Bool.false_and, Bool.false_eq_true, if_false]
           exact C07_frame f _ _ b hb hdis)
        | (unfold clearAndNotify dropAll; simp only [Bool.and_false, Bool.false_and, Bool.false_eq_true, if_false]
           exact addRoots_keeps _ _ b (C07_frame f _ _ b hb hdis))
        | (split
           · exact hb
           · simp only [Bool.and_false, Bool.false_eq_true, if_false]
             exact addRoot_keeps _ _ b (C07_frame f _ _ b hb hdis))
        | (split
           · exact hb
           · split
             · exact hb
             · simp only [Bool.and_false, Bool.false_eq_true, if_false]
               exact addRoot_keeps _ _ b (C07_frame f _ _ b hb hdis))
    · exact hb

/-! ## Flags (F17) -/

def sealedList : Tree :=
  .node { id := 0, parent := none, path := [], kind := .list, sealed := true, accW := true, part := false }
    [(.i 0, .leaf (.int 1))]

def sealedOf : Tree → Bool
  | .node m _ => m.sealed
  | .leaf _ => false

/-- the flag a clone is built with is the original's flag, for every kind but `pg.Ref`, on the
patched tree … -/
theorem C07_flags_patched (m : Meta) (h : m.kind ≠ .obj clsRef) : cloneSealed Cfg.patched m = m.sealed := by
  unfold cloneSealed
  cases hk : m.kind with
  | list => simp [Cfg.patched]
  | dict => rfl
  | obj c =>
    have : c ≠ 2 := by
      intro he; subst he; exact h hk
    split <;> simp_all

def C07_flags_Full : Prop := ∀ (cfg : Cfg) (m : Meta), cloneSealed cfg m = m.sealed

def C07_flags_pinned_Full : Prop := ∀ m : Meta, cloneSealed Cfg.pinned m = m.sealed

/-- … and for every kind but `list` (F17) and `pg.Ref` (F92) on the unpatched tree. -/
theorem C07_flags_pinned_partial (m : Meta) (h : m.kind ≠ .list) (h2 : m.kind ≠ .obj clsRef) :
    cloneSealed Cfg.pinned m = m.sealed := by
  unfold cloneSealed
  cases hk : m.kind with
  | list => exact absurd hk h
  | dict => rfl
  | obj c =>
    have : c ≠ 2 := by
      intro he; subst he; exact h2 hk
    split <;> simp_all

/-- F92: `Ref._sym_clone` builds `Ref(value, allow_partial=…)`; a sealed Ref is cloned unsealed
(in every configuration: not repaired). -/
theorem C07_counterexample_F92 : ¬ C07_flags_Full := by
  intro h
  have := h Cfg.patched { id := 0, parent := none, path := [], kind := .obj clsRef, sealed := true,
                          accW := false, part := false, ref := some 1 }
  simp [cloneSealed, clsRef] at this

theorem C07_counterexample_F17 : sealedOf (sealedList.clone Cfg.pinned false 1 none []).1 = false := by decide

theorem C07_flags_pinned_counterexample : ¬ C07_flags_pinned_Full := by
  intro h
  have := h { id := 0, parent := none, path := [], kind := .list, sealed := true, accW := true, part := false }
  simp [cloneSealed, Cfg.pinned] at this

theorem C07_fixed_F17 : sealedOf (sealedList.clone Cfg.patched false 1 none []).1 = true := by decide

/-! ## Equality (stated; checked on the code by `pg.eq` in the oracle and by the dump
comparison of the correspondence run) -/

mutual
  /-- same kinds, same keys, same leaves; non-symbolic leaf objects: the same object (shallow) or
  any object (deep). -/
  def Tree.symEq (deep : Bool) : Tree → Tree → Bool
    | .leaf (.opaque i), .leaf (.opaque j) => deep || i == j
    | .leaf a, .leaf b => a == b
    | .node m its, .node m' its' => m.kind == m'.kind && symEqItems deep its its'
    | _, _ => false
  def symEqItems (deep : Bool) : Items → Items → Bool
    | [], [] => true
    | (k, c) :: r, (k', c') :: r' => k == k' && c.symEq deep c' && symEqItems deep r r'
    | _, _ => false
end

/-- full statement of clone equality (for trees without MISSING placeholders in lists, which
`List(...)` drops while copying). Not proved here; the instances below are evaluated by the
kernel and the correspondence run compares the complete dumps. -/
def C07_equal_Full : Prop :=
  ∀ (cfg : Cfg) (deep : Bool) (next : Nat) (t : Tree), t.shapeOk = true →
    (∀ s ∈ t.subnodes, ∀ kv ∈ s.items, kv.2.isMissing = false) →
    t.symEq deep (t.clone cfg deep next none []).1 = true

def sample : Forest :=
  (stepA Cfg.patched Forest.empty true (.new (.node .dict false true false
    [(.s 0, .node .list false true true [(.i 0, .fresh), (.i 1, .node .dict false true false [])]),
     (.s 1, .atom (.int 3))]))).forest

example : sample.wf = true ∧ sample.ids.length = 3 := by decide
example : ∀ r ∈ sample.roots, r.symEq false (r.clone Cfg.patched false sample.nextId none []).1 = true := by decide
example : ∀ r ∈ sample.roots, r.symEq true (r.clone Cfg.patched true sample.nextId none []).1 = true := by decide
example : (stepA Cfg.patched sample true (.clone 0 true)).forest.wf = true := by decide
example : Quiet (.lReverse 1) = true := by decide

end Pg.Sym
