/-
  C08 — the write loop of a batched rebind, pair by pair: a target that only becomes sealed
  *during* the batch (an earlier pair inserted a sealed value, a later pair addresses a key below
  it) is refused at its time, and no pair of any batch ever changes the inside of a protected
  subtree (frame theorem).
-/
import PgProofs.GuardMore
namespace Pg.C08
open Tree

/-! ### a pair whose parent node is treated as sealed at its time -/

theorem treeSet_sealedTarget {G : Table} {env : Env} (hS : (G .tree_set).directSealed = true) :
    (p : List Key) → (t v : Tree) → sealedTarget env t p = true → treeSet G env t p v = (t, .err .perm)
  | [], t, v, h => by simp [sealedTarget] at h
  | [k], t, v, h => by
    simp only [sealedTarget] at h
    cases hf : t.flags? with
    | none => simp [hf] at h
    | some f =>
      simp only [hf] at h
      simp [treeSet, hf, hS, h]
  | k :: k2 :: rest, t, v, h => by
    simp only [sealedTarget] at h
    simp only [treeSet]
    cases hc : t.child k with
    | none => simp [hc] at h
    | some c =>
      simp only [hc] at h
      have ih := treeSet_sealedTarget hS (k2 :: rest) c v h
      simp only [ih, setChild_child hc]

/-- The write loop stops at the first failing pair, with the tree as the earlier pairs left it. -/
theorem treeSetAll_stops (G : Table) (env : Env) :
    (pre : List (List Key × Tree)) → (t t' t'' : Tree) → (p : List Key) → (v : Tree) →
      (rest : List (List Key × Tree)) → (e : Err) →
      treeSetAll G env t pre = (t', .ok) → treeSet G env t' p v = (t'', .err e) →
      treeSetAll G env t (pre ++ (p, v) :: rest) = (t'', .err e)
  | [], t, t', t'', p, v, rest, e, h1, h2 => by
    simp only [treeSetAll, Prod.mk.injEq, and_true] at h1; subst h1
    simp [treeSetAll, h2]
  | (p0, v0) :: pre, t, t', t'', p, v, rest, e, h1, h2 => by
    simp only [treeSetAll, List.cons_append] at h1 ⊢
    cases hw : treeSet G env t p0 v0 with
    | mk t1 r1 =>
      cases r1 with
      | ok =>
        simp only [hw] at h1 ⊢
        exact treeSetAll_stops G env pre t1 t' t'' p v rest e h1 h2
      | err e1 => simp [hw] at h1

/-! ### frame: what a single write can touch -/

theorem lookup_setKv_ne {k k' : String} {c : Tree} (h : k ≠ k') :
    (kvs : List (String × Tree)) → lookup k' (setKv k c kvs) = lookup k' kvs
  | [] => by simp [setKv, lookup, h]
  | (k0, v0) :: rest => by
    simp only [setKv]
    by_cases h0 : k0 = k
    · subst h0; simp [lookup, h]
    · have : (k0 == k) = false := by simpa using h0
      simp only [this, Bool.false_eq_true, if_false, lookup]
      rw [lookup_setKv_ne h rest]

theorem lookup_setKv_eq {k : String} {c : Tree} :
    (kvs : List (String × Tree)) → lookup k (setKv k c kvs) = some c
  | [] => by simp [setKv, lookup]
  | (k0, v0) :: rest => by
    simp only [setKv]
    by_cases h0 : k0 = k
    · subst h0; simp [lookup]
    · have : (k0 == k) = false := by simpa using h0
      simp only [this, Bool.false_eq_true, if_false, lookup]
      exact lookup_setKv_eq rest

theorem setChild_child_ne {t c : Tree} {k k' : Key} (h : k ≠ k') : (t.setChild k c).child k' = t.child k' := by
  cases t with
  | leaf a => cases k <;> rfl
  | dict f items =>
    cases k with
    | s key =>
      cases k' with
      | s key' => simp only [setChild, child]; exact lookup_setKv_ne (by intro e; exact h (by rw [e])) items
      | i n => rfl
    | i n => rfl
  | obj f cls attrs =>
    cases k with
    | s key =>
      cases k' with
      | s key' => simp only [setChild, child]; exact lookup_setKv_ne (by intro e; exact h (by rw [e])) attrs
      | i n => rfl
    | i n => rfl
  | list f items =>
    cases k with
    | s key => rfl
    | i n =>
      cases k' with
      | s key' => rfl
      | i n' =>
        simp only [setChild, child]
        have : n ≠ n' := by intro e; exact h (by rw [e])
        simp [this]

theorem setChild_child_eq {t c c' : Tree} {k : Key} (h : t.child k = some c) : (t.setChild k c').child k = some c' := by
  cases t with
  | leaf a => simp [child] at h
  | dict f items =>
    cases k with
    | s key => simp only [setChild, child]; exact lookup_setKv_eq items
    | i n => simp [child] at h
  | obj f cls attrs =>
    cases k with
    | s key => simp only [setChild, child]; exact lookup_setKv_eq attrs
    | i n => simp [child] at h
  | list f items =>
    cases k with
    | s key => simp [child] at h
    | i n =>
      simp only [child] at h
      simp only [setChild, child]
      have hn : n < items.length := by
        rcases Nat.lt_or_ge n items.length with h1 | h1
        · exact h1
        · simp [List.getElem?_eq_none h1] at h
      simp [hn]

/-- The write primitive leaves every *other existing* child where it was. -/
theorem rawSet_child_ne {t c : Tree} {k k' : Key} (v : Tree) (h : k ≠ k') (hc : t.child k' = some c) :
    (rawSet t k v).1.child k' = some c := by
  cases t with
  | leaf a => simp [child] at hc
  | dict f items =>
    cases k with
    | s key =>
      cases k' with
      | s key' =>
        simp only [rawSet, child] at hc ⊢
        rw [lookup_setKv_ne (by intro e; exact h (by rw [e])) items]; exact hc
      | i n => simp [child] at hc
    | i n => simpa [rawSet] using hc
  | obj f cls attrs =>
    cases k with
    | s key =>
      cases k' with
      | s key' =>
        simp only [rawSet]
        split
        · simp only [child] at hc ⊢
          rw [lookup_setKv_ne (by intro e; exact h (by rw [e])) attrs]; exact hc
        · exact hc
      | i n => simp [child] at hc
    | i n => simpa [rawSet] using hc
  | list f items =>
    cases k with
    | s key => simpa [rawSet] using hc
    | i n =>
      cases k' with
      | s key' => simp [child] at hc
      | i n' =>
        simp only [child] at hc
        have hn' : n' < items.length := by
          rcases Nat.lt_or_ge n' items.length with h1 | h1
          · exact h1
          · simp [List.getElem?_eq_none h1] at hc
        have hne : n ≠ n' := by intro e; exact h (by rw [e])
        simp only [rawSet]
        split
        · simp only [child]; simp [hne, hc]
        · simp only [child]; rw [List.getElem?_append_left hn']; exact hc

/-- FRAME (one write). Let `n` be a protected subtree at path `q`. A write at path `p` either leaves
`n` exactly where and as it was, or `p` is a prefix of `q`: the write replaced the protected value
itself or one of its ancestors as a whole (which changes the unprotected parent, not the value).
A write *into* the protected value is impossible. -/
theorem treeSet_frame {G : Table} {env : Env} (hS : (G .tree_set).directSealed = true) :
    (p : List Key) → (t v : Tree) → (q : List Key) → (n : Tree) →
      resolve t q = some n → allFlags (treatsAsSealed env) n = true →
      resolve (treeSet G env t p v).1 q = some n ∨ p <+: q
  | [], t, v, q, n, hr, _ => by simp [treeSet, hr]
  | [k], t, v, [], n, hr, hp => by
    simp only [resolve, Option.some.injEq] at hr; subst hr
    left
    cases hf : t.flags? with
    | none => simp [treeSet, hf, resolve]
    | some f =>
      have := allFlags_flags hp hf
      simp [treeSet, hf, hS, this, resolve]
  | [k], t, v, k' :: q', n, hr, hp => by
    by_cases hk : k = k'
    · right; subst hk; exact List.cons_prefix_cons.2 ⟨rfl, List.nil_prefix⟩
    · left
      simp only [resolve] at hr
      cases hc : t.child k' with
      | none => simp [hc] at hr
      | some c =>
        simp only [hc] at hr
        simp only [treeSet]
        cases hf : t.flags? with
        | none => simp [resolve, hc, hr]
        | some f =>
          simp only []
          split
          · simp [resolve, hc, hr]
          · simp only [resolve, rawSet_child_ne v hk hc]; exact hr
  | k :: k2 :: rest, t, v, [], n, hr, hp => by
    simp only [resolve, Option.some.injEq] at hr; subst hr
    left
    simp only [treeSet]
    cases hc : t.child k with
    | none => simp [resolve]
    | some c =>
      have ih := treeSet_frame hS (k2 :: rest) c v [] c rfl (allFlags_child hp hc)
      rcases ih with ih | ih
      · simp only [resolve, Option.some.injEq] at ih
        simp [resolve, ih, setChild_child hc]
      · simp at ih
  | k :: k2 :: rest, t, v, k' :: q', n, hr, hp => by
    simp only [resolve] at hr
    cases hc' : t.child k' with
    | none => simp [hc'] at hr
    | some c' =>
      simp only [hc'] at hr
      simp only [treeSet]
      cases hc : t.child k with
      | none => left; simp [resolve, hc', hr]
      | some c =>
        simp only []
        by_cases hk : k = k'
        · subst hk
          have hcc : c = c' := by rw [hc] at hc'; exact Option.some.inj hc'
          subst hcc
          have ih := treeSet_frame hS (k2 :: rest) c v q' n hr hp
          rcases ih with ih | ih
          · left; simp only [resolve, setChild_child_eq hc]; exact ih
          · right; exact List.cons_prefix_cons.2 ⟨rfl, ih⟩
        · left
          simp only [resolve, setChild_child_ne hk, hc']; exact hr

/-- FRAME (whole batch): after any number of pairs — whether the batch ran to its end or was
stopped by an error — every protected subtree is exactly where and as it was, unless one of the
pairs addressed its own location or the location of one of its ancestors. -/
theorem treeSetAll_frame {G : Table} {env : Env} (hS : (G .tree_set).directSealed = true) :
    (pairs : List (List Key × Tree)) → (t : Tree) → (q : List Key) → (n : Tree) →
      resolve t q = some n → allFlags (treatsAsSealed env) n = true →
      resolve (treeSetAll G env t pairs).1 q = some n ∨ ∃ pv ∈ pairs, pv.1 <+: q
  | [], t, q, n, hr, _ => Or.inl (by simpa [treeSetAll] using hr)
  | (p, v) :: rest, t, q, n, hr, hp => by
    have h1 := treeSet_frame hS p t v q n hr hp
    simp only [treeSetAll]
    cases hw : treeSet G env t p v with
    | mk t1 r1 =>
      rw [hw] at h1
      rcases h1 with h1 | h1
      · cases r1 with
        | ok =>
          rcases treeSetAll_frame hS rest t1 q n h1 hp with h2 | ⟨pv, hm, hpre⟩
          · exact Or.inl h2
          · exact Or.inr ⟨pv, List.mem_cons_of_mem _ hm, hpre⟩
        | err e => exact Or.inl h1
      · exact Or.inr ⟨(p, v), by simp, h1⟩

/-! ### where an applied pair leaves its value -/

/-- Does the write at `p` append to a list (index at or past the end)? Then the value does not end
up at `p` but at the end of the list. -/
def appends : Tree → List Key → Bool
  | _, [] => false
  | .list _ items, [.i n] => decide (items.length ≤ n)
  | _, [_] => false
  | t, k :: k2 :: rest => match t.child k with
    | none => false
    | some c => appends c (k2 :: rest)

theorem treeSet_ok_resolve (G : Table) (env : Env) :
    (p : List Key) → (t t' v : Tree) → treeSet G env t p v = (t', .ok) → appends t p = false →
      resolve t' p = some v
  | [], t, t', v, h, _ => by simp [treeSet] at h
  | [k], t, t', v, h, ha => by
    simp only [treeSet] at h
    cases hf : t.flags? with
    | none => simp [hf] at h
    | some f =>
      simp only [hf] at h
      split at h
      · simp at h
      · cases t with
        | leaf a => simp [flags?] at hf
        | dict f' items =>
          cases k with
          | s key =>
            simp only [rawSet, Prod.mk.injEq, and_true] at h; subst h
            simp [resolve, child, lookup_setKv_eq]
          | i n => simp [rawSet] at h
        | obj f' cls attrs =>
          cases k with
          | s key =>
            simp only [rawSet] at h
            split at h
            · simp only [Prod.mk.injEq, and_true] at h; subst h
              simp [resolve, child, lookup_setKv_eq]
            · simp at h
          | i n => simp [rawSet] at h
        | list f' items =>
          cases k with
          | s key => simp [rawSet] at h
          | i n =>
            simp only [appends, decide_eq_false_iff_not, Nat.not_le] at ha
            simp only [rawSet, ha, if_true, Prod.mk.injEq, and_true] at h; subst h
            simp [resolve, child, ha]
  | k :: k2 :: rest, t, t', v, h, ha => by
    simp only [treeSet] at h
    simp only [appends] at ha
    cases hc : t.child k with
    | none => simp [hc] at h
    | some c =>
      simp only [hc] at h ha
      cases hw : treeSet G env c (k2 :: rest) v with
      | mk c1 r1 =>
        simp only [hw, Prod.mk.injEq] at h
        obtain ⟨h1, h2⟩ := h
        subst h1; subst h2
        simp only [resolve, setChild_child_eq hc]
        exact treeSet_ok_resolve G env (k2 :: rest) c c1 v hw ha

/-! ### from the write loop to the public call -/

theorem mem_insertDesc {x y : List Key × Tree} : (l : List (List Key × Tree)) → y ∈ insertDesc x l → y = x ∨ y ∈ l
  | [], h => by simp [insertDesc] at h; exact Or.inl h
  | z :: zs, h => by
    simp only [insertDesc] at h
    split at h
    · simp only [List.mem_cons] at h
      rcases h with h | h
      · exact Or.inr (by simp [h])
      · rcases mem_insertDesc zs h with h | h
        · exact Or.inl h
        · exact Or.inr (List.mem_cons_of_mem _ h)
    · simp only [List.mem_cons] at h
      rcases h with h | h | h
      · exact Or.inl h
      · exact Or.inr (by simp [h])
      · exact Or.inr (List.mem_cons_of_mem _ h)

theorem mem_sortDesc {y : List Key × Tree} : (l : List (List Key × Tree)) → y ∈ sortDesc l → y ∈ l
  | [], h => by simp [sortDesc] at h
  | x :: xs, h => by
    simp only [sortDesc] at h
    rcases mem_insertDesc _ h with h | h
    · simp [h]
    · exact List.mem_cons_of_mem _ (mem_sortDesc xs h)

/-- What `rebind` does on a receiver: nothing (refused / rejected), or the write loop over the pairs
(in descending path order when the receiver is a List; on the attribute container when it is an
Object). -/
theorem rebindNode_cases (G : Table) (env : Env) (t : Tree) (pairs : List (List Key × Tree)) (r : Bool) :
    (rebindNode G env t pairs r).1 = t ∨ rebindNode G env t pairs r = treeSetAll G env t pairs ∨
      rebindNode G env t pairs r = treeSetAll G env t (sortDesc pairs) ∨
      ((∃ f c attrs, t = .obj f c attrs) ∧
        rebindNode G env t pairs r =
          (fromLoopRoot t (treeSetAll G env (asLoopRoot t) pairs).1, (treeSetAll G env (asLoopRoot t) pairs).2)) := by
  unfold rebindNode
  cases hf : t.flags? with
  | none => exact Or.inl rfl
  | some f =>
    simp only []
    split
    · exact Or.inl rfl
    · split
      · exact Or.inl rfl
      · split
        · exact Or.inl rfl
        · cases t with
          | list f' xs => exact Or.inr (Or.inr (Or.inl rfl))
          | leaf a => exact Or.inr (Or.inl rfl)
          | dict f' kvs => exact Or.inr (Or.inl rfl)
          | obj f' c attrs => exact Or.inr (Or.inr (Or.inr ⟨⟨f', c, attrs, rfl⟩, rfl⟩))

/-- On a Dict receiver that is itself not treated as sealed, with no target sealed when the call
starts, `rebind` is the write loop over the pairs in the given order. -/
theorem rebindNode_loop {G : Table} (hacc : RebindIgnoresAcc G) (env : Env) (f : Flags)
    (kvs : List (String × Tree)) (pairs : List (List Key × Tree)) (r : Bool)
    (hu : treatsAsSealed env f = false)
    (hne : pairs.isEmpty = false) (hpc : anySealedTarget env (.dict f kvs) pairs = false) :
    rebindNode G env (.dict f kvs) pairs r = treeSetAll G env (.dict f kvs) pairs := by
  obtain ⟨h1, h2, h3⟩ := hacc
  have hg : guard G env f (rebindEP (.dict f kvs)) = none := by
    simp_all [guard, rebindEP]
  unfold rebindNode
  simp only [flags?, hne, Bool.false_and, Bool.false_eq_true, if_false, hg, asLoopRoot_dict, hpc, Bool.and_false]

/-- The node at `p` after a node transformer was applied there. -/
theorem resolve_mapAt (g : Tree → Tree) : (p : List Key) → (root r : Tree) → resolve root p = some r →
    resolve (mapAt g root p) p = some (g r)
  | [], root, r, h => by simp only [resolve, Option.some.injEq] at h; subst h; rfl
  | k :: rest, root, r, h => by
    simp only [resolve] at h
    cases hc : root.child k with
    | none => simp [hc] at h
    | some c =>
      simp only [hc] at h
      simp only [mapAt, hc, resolve, setChild_child_eq hc]
      exact resolve_mapAt g rest c r h

theorem resolve_fromLoopRoot (orig t : Tree) (k : Key) (q : List Key) :
    resolve (fromLoopRoot orig t) (k :: q) = resolve t (k :: q) := by
  cases orig <;> cases t <;> first | rfl | (cases k <;> simp [resolve, fromLoopRoot, child])

theorem resolve_asLoopRoot (t : Tree) (k : Key) (q : List Key) :
    resolve (asLoopRoot t) (k :: q) = resolve t (k :: q) := by
  cases t <;> first | rfl | (cases k <;> simp [resolve, asLoopRoot, child])

end Pg.C08

namespace Pg.C08
open Tree

/-! ### round 2: seal stays inside the subtree; calls keep the protection flags -/

/-- A node transformer applied at `p` (seal / sym_seal / set_accessor_writable) changes nothing at
locations that are neither at or below `p` nor above it. -/
theorem mapAt_frame (g : Tree → Tree) : (p q : List Key) → (root : Tree) → ¬ p <+: q → ¬ q <+: p →
    resolve (mapAt g root p) q = resolve root q
  | [], q, _, h, _ => absurd List.nil_prefix h
  | _ :: _, [], _, _, h => absurd List.nil_prefix h
  | k :: rest, k' :: q', root, h1, h2 => by
    simp only [mapAt]
    cases hc : root.child k with
    | none => rfl
    | some c =>
      simp only [resolve]
      by_cases hk : k = k'
      · subst hk
        rw [setChild_child_eq hc, hc]
        exact mapAt_frame g rest q' c (fun hp => h1 (List.cons_prefix_cons.2 ⟨rfl, hp⟩))
          (fun hp => h2 (List.cons_prefix_cons.2 ⟨rfl, hp⟩))
      · rw [setChild_child_ne hk]

/-- Kind, flags and class of a node: what no call may change. -/
def shell : Tree → Option (Nat × Flags × Nat)
  | .leaf _ => none
  | .dict f _ => some (0, f, 0)
  | .list f _ => some (1, f, 0)
  | .obj f c _ => some (2, f, c)

theorem shell_setChild (t c : Tree) (k : Key) : shell (t.setChild k c) = shell t := by
  cases t <;> cases k <;> rfl

theorem shell_rawSet (t v : Tree) (k : Key) : shell (rawSet t k v).1 = shell t := by
  cases t <;> cases k <;> simp only [rawSet] <;> (try split) <;> rfl

theorem shell_treeSet (G : Table) (env : Env) : (p : List Key) → (t v : Tree) → shell (treeSet G env t p v).1 = shell t
  | [], t, v => rfl
  | [k], t, v => by
    simp only [treeSet]
    cases hf : t.flags? with
    | none => rfl
    | some f =>
      simp only []
      split
      · rfl
      · exact shell_rawSet _ _ _
  | k :: k2 :: rest, t, v => by
    simp only [treeSet]
    cases t.child k with
    | none => rfl
    | some c => exact shell_setChild _ _ _

theorem shell_treeSetAll (G : Table) (env : Env) : (ps : List (List Key × Tree)) → (t : Tree) →
    shell (treeSetAll G env t ps).1 = shell t
  | [], t => rfl
  | (p, v) :: rest, t => by
    simp only [treeSetAll]
    have h1 := shell_treeSet G env p t v
    cases hw : treeSet G env t p v with
    | mk t1 r1 =>
      rw [hw] at h1
      cases r1 with
      | ok => simp only []; rw [shell_treeSetAll G env rest t1]; exact h1
      | err e => exact h1

theorem shell_rebindNode (G : Table) (env : Env) (t : Tree) (pairs : List (List Key × Tree)) (r : Bool) :
    shell (rebindNode G env t pairs r).1 = shell t := by
  rcases rebindNode_cases G env t pairs r with h | h | h | ⟨⟨f, c, attrs, rfl⟩, h⟩
  · rw [h]
  · rw [h]; exact shell_treeSetAll G env pairs t
  · rw [h]; exact shell_treeSetAll G env _ t
  · rw [h]
    have := shell_treeSetAll G env pairs (asLoopRoot (.obj f c attrs))
    cases hr : (treeSetAll G env (asLoopRoot (.obj f c attrs)) pairs).1 with
    | obj f' c' attrs' =>
      rw [hr] at this
      simp only [asLoopRoot, shell, Option.some.injEq, Prod.mk.injEq, true_and] at this
      obtain ⟨hf', hc'⟩ := this
      subst hf'; subst hc'
      simp [fromLoopRoot, shell]
    | leaf a => rw [hr] at this; simp [asLoopRoot, shell] at this
    | dict f' kvs => rw [hr] at this; simp [asLoopRoot, shell] at this
    | list f' xs => rw [hr] at this; simp [asLoopRoot, shell] at this

/-- Every call (every entry point, every argument, every scope, refused or not) leaves kind, class
and protection flags of its receiver as they were. -/
theorem shell_nodeStep (G : Table) (env : Env) (t : Tree) (op : Op) : shell (nodeStep G env t op).1 = shell t := by
  cases t with
  | leaf a => cases op <;> rfl
  | list f xs =>
    cases op <;> simp only [nodeStep] <;> first
      | rfl
      | exact shell_rebindNode G env _ _ _
      | (simp only [lSetItem, lSetSlice, lDelItem, lDelSlice, lIAdd, lIMul, lAppend, lExtend, lInsert, lPop, lRemove,
          lClear, lSort, lReverse]; repeat' split) <;> rfl
  | dict f kvs =>
    cases op <;> simp only [nodeStep] <;> first
      | rfl
      | exact shell_rebindNode G env _ _ _
      | (simp only [dSetItem, dDelItem, dIOr, dUpdate, dSetDefault, dPop, dPopItem, dClear, dSetAttr, dDelAttr];
          repeat' split) <;> first | rfl | exact shell_rebindNode G env _ _ _
  | obj f c attrs =>
    cases op <;> simp only [nodeStep] <;> first
      | rfl
      | exact shell_rebindNode G env _ _ _
      | (simp only [oSetAttr]; repeat' split) <;> rfl

end Pg.C08

namespace Pg.C08
open Tree

theorem stepAt_resolve (G : Table) (env : Env) (op : Op) : (p : List Key) → (root r : Tree) →
    resolve root p = some r → resolve (stepAt G env root p op).1 p = some (nodeStep G env r op).1
  | [], root, r, h => by simp only [resolve, Option.some.injEq] at h; subst h; rfl
  | k :: rest, root, r, h => by
    simp only [resolve] at h
    cases hc : root.child k with
    | none => simp [hc] at h
    | some c =>
      simp only [hc] at h
      simp only [stepAt, hc, resolve, setChild_child_eq hc]
      exact stepAt_resolve G env op rest c r h

end Pg.C08

namespace Pg.C08
open Tree

/-! ### round 3: a call that does not end normally leaves everything as it was -/

/-- Every single-write entry point either ends normally or leaves its receiver exactly as it was
(whatever the error: permission, index, key, value, type). -/
theorem nodeStep_ok_or_unchanged (G : Table) (env : Env) (t : Tree) (op : Op) (hb : op.isBatch = false) :
    (nodeStep G env t op).2 = .ok ∨ (nodeStep G env t op).1 = t := by
  cases t with
  | leaf a => cases op <;> exact Or.inr rfl
  | list f xs =>
    cases op <;> simp only [nodeStep] <;> first
      | (right; rfl)
      | (left; rfl)
      | (right; trivial)
      | (left; trivial)
      | (simp [Op.isBatch] at hb; done)
      | (simp only [lSetItem, lSetSlice, lDelItem, lDelSlice, lIAdd, lIMul, lAppend, lExtend, lInsert, lPop, lRemove,
          lClear, lSort, lReverse]; repeat' split) <;> first | (right; rfl) | (left; rfl) | (right; trivial) | (left; trivial)
  | dict f kvs =>
    cases op <;> simp only [nodeStep] <;> first
      | (right; rfl)
      | (left; rfl)
      | (right; trivial)
      | (left; trivial)
      | (simp [Op.isBatch] at hb; done)
      | (simp only [dSetItem, dDelItem, dSetDefault, dPop, dPopItem, dClear, dSetAttr, dDelAttr];
          repeat' split) <;> first | (right; rfl) | (left; rfl) | (right; trivial) | (left; trivial)
  | obj f c attrs =>
    cases op <;> simp only [nodeStep] <;> first
      | (right; rfl)
      | (left; rfl)
      | (right; trivial)
      | (left; trivial)
      | (simp [Op.isBatch] at hb; done)
      | (simp only [oSetAttr]; repeat' split) <;> first | (right; rfl) | (left; rfl) | (right; trivial) | (left; trivial)

theorem stepAt_ok_or_unchanged (G : Table) (env : Env) (op : Op) (hb : op.isBatch = false) :
    (p : List Key) → (root : Tree) → (stepAt G env root p op).2 = .ok ∨ (stepAt G env root p op).1 = root
  | [], root => nodeStep_ok_or_unchanged G env root op hb
  | k :: rest, root => by
    simp only [stepAt]
    cases hc : root.child k with
    | none => exact Or.inr rfl
    | some c =>
      simp only []
      rcases stepAt_ok_or_unchanged G env op hb rest c with h | h
      · exact Or.inl h
      · exact Or.inr (by rw [h]; exact setChild_child hc)

theorem set_self {α : Type} : (l : List α) → (i : Nat) → (x : α) → l[i]? = some x → l.set i x = l
  | [], _, _, h => by simp at h
  | y :: ys, 0, x, h => by simp at h; subst h; rfl
  | y :: ys, i + 1, x, h => by
    simp at h
    simp [set_self ys i x h]

/-- FOREST: a call that does not end normally leaves the whole forest as it was … -/
theorem stepF_ok_or_unchanged (G : Table) (F : Forest) (c : Call) (hb : c.op.isBatch = false) :
    (stepF G F c).2 = .ok ∨ (stepF G F c).1 = F := by
  unfold stepF
  cases ht : F[c.tree]? with
  | none => exact Or.inr rfl
  | some t =>
    simp only []
    rcases stepAt_ok_or_unchanged G c.env c.op hb c.path t with h | h
    · exact Or.inl h
    · exact Or.inr (by rw [h]; exact set_self F c.tree t ht)

/-- … and whatever it does, the other trees of the forest are not touched. -/
theorem stepF_other (G : Table) (F : Forest) (c : Call) (j : Nat) (hj : j ≠ c.tree) :
    (stepF G F c).1[j]? = F[j]? := by
  unfold stepF
  cases ht : F[c.tree]? with
  | none => rfl
  | some t => simp [hj.symm]

/-- HISTORIES: the forest after a history of single-write calls is the forest after the calls of
that history that ended normally; every other call (refused for write protection or failing for
any other reason) left no trace anywhere. -/
theorem runF_accepted (G : Table) : (hs : List Call) → (F : Forest) → (∀ c ∈ hs, c.op.isBatch = false) →
    runF G F hs = runF G F (accepted G F hs)
  | [], F, _ => rfl
  | c :: rest, F, hb => by
    have hrest : ∀ c' ∈ rest, c'.op.isBatch = false := fun c' h => hb c' (List.mem_cons_of_mem _ h)
    simp only [runF, accepted]
    split
    · simp only [runF]
      exact runF_accepted G rest _ hrest
    · next hne =>
      rcases stepF_ok_or_unchanged G F c (hb c (by simp)) with h | h
      · exact absurd h hne
      · rw [h]; exact runF_accepted G rest F hrest

end Pg.C08

namespace Pg.C08
open Tree

/-! ### round 4: threads -/

theorem threads_act_other (ts : Threads) (t u : Nat) (a : ScopeAct) (h : u ≠ t) : (ts.act t a) u = ts u := by
  simp [Threads.act, h]

theorem threads_act_self (ts : Threads) (t : Nat) (a : ScopeAct) : (ts.act t a) t = (ts t).act a := by
  simp [Threads.act]

/-- The scopes of thread `t` after a history are what its OWN enter / leave actions made of its
initial scopes: nothing any other thread does (scopes or calls, in any interleaving) shows in them. -/
theorem runT_scopes (G : Table) (t : Nat) : (hs : List TStep) → (st : Threads × Forest) →
    (runT G st hs).1 t = (ownActs t hs).foldl Env.act (st.1 t)
  | [], st => rfl
  | .scope u a :: rest, st => by
    simp only [runT, stepT, ownActs]
    rw [runT_scopes G t rest]
    by_cases h : u = t
    · subst h; simp [threads_act_self]
    · have : t ≠ u := fun e => h e.symm
      simp [h, threads_act_other _ _ _ _ this]
  | .call u tree path op :: rest, st => by
    simp only [runT, stepT, ownActs]
    rw [runT_scopes G t rest]

theorem env_enter_leave_sealed (env : Env) (v : Option Bool) :
    (env.act (.enterSealed v)).act .leaveSealed = env := by
  cases env; rfl

theorem env_enter_leave_acc (env : Env) (v : Option Bool) :
    (env.act (.enterAcc v)).act .leaveAcc = env := by
  cases env; rfl

end Pg.C08
