/- GENERATED helper facts (closed, by `decide`): the keys of spec JSON are not `_type`, and
   `buildU` dispatches on the type name. -/
import PgProofs.C05Spec
namespace Pg.C05

@[simp] theorem kDefault_ne_type : (Key.s kDefault != Key.s typeKey) = true := by decide
@[simp] theorem kDefault_ne_type' : (Key.s typeKey = Key.s kDefault) = False := by simp; decide
@[simp] theorem kNoneable_ne_type : (Key.s kNoneable != Key.s typeKey) = true := by decide
@[simp] theorem kNoneable_ne_type' : (Key.s typeKey = Key.s kNoneable) = False := by simp; decide
@[simp] theorem kFrozen_ne_type : (Key.s kFrozen != Key.s typeKey) = true := by decide
@[simp] theorem kFrozen_ne_type' : (Key.s typeKey = Key.s kFrozen) = False := by simp; decide
@[simp] theorem kMin_ne_type : (Key.s kMin != Key.s typeKey) = true := by decide
@[simp] theorem kMin_ne_type' : (Key.s typeKey = Key.s kMin) = False := by simp; decide
@[simp] theorem kMax_ne_type : (Key.s kMax != Key.s typeKey) = true := by decide
@[simp] theorem kMax_ne_type' : (Key.s typeKey = Key.s kMax) = False := by simp; decide
@[simp] theorem kRegex_ne_type : (Key.s kRegex != Key.s typeKey) = true := by decide
@[simp] theorem kRegex_ne_type' : (Key.s typeKey = Key.s kRegex) = False := by simp; decide
@[simp] theorem kValues_ne_type : (Key.s kValues != Key.s typeKey) = true := by decide
@[simp] theorem kValues_ne_type' : (Key.s typeKey = Key.s kValues) = False := by simp; decide
@[simp] theorem kElem_ne_type : (Key.s kElem != Key.s typeKey) = true := by decide
@[simp] theorem kElem_ne_type' : (Key.s typeKey = Key.s kElem) = False := by simp; decide
@[simp] theorem kElems_ne_type : (Key.s kElems != Key.s typeKey) = true := by decide
@[simp] theorem kElems_ne_type' : (Key.s typeKey = Key.s kElems) = False := by simp; decide
@[simp] theorem kMinSize_ne_type : (Key.s kMinSize != Key.s typeKey) = true := by decide
@[simp] theorem kMinSize_ne_type' : (Key.s typeKey = Key.s kMinSize) = False := by simp; decide
@[simp] theorem kMaxSize_ne_type : (Key.s kMaxSize != Key.s typeKey) = true := by decide
@[simp] theorem kMaxSize_ne_type' : (Key.s typeKey = Key.s kMaxSize) = False := by simp; decide
@[simp] theorem kSchema_ne_type : (Key.s kSchema != Key.s typeKey) = true := by decide
@[simp] theorem kSchema_ne_type' : (Key.s typeKey = Key.s kSchema) = False := by simp; decide
@[simp] theorem kT_ne_type : (Key.s kT != Key.s typeKey) = true := by decide
@[simp] theorem kT_ne_type' : (Key.s typeKey = Key.s kT) = False := by simp; decide
@[simp] theorem kCands_ne_type : (Key.s kCands != Key.s typeKey) = true := by decide
@[simp] theorem kCands_ne_type' : (Key.s typeKey = Key.s kCands) = False := by simp; decide
@[simp] theorem kArgs_ne_type : (Key.s kArgs != Key.s typeKey) = true := by decide
@[simp] theorem kArgs_ne_type' : (Key.s typeKey = Key.s kArgs) = False := by simp; decide
@[simp] theorem kReturns_ne_type : (Key.s kReturns != Key.s typeKey) = true := by decide
@[simp] theorem kReturns_ne_type' : (Key.s typeKey = Key.s kReturns) = False := by simp; decide
@[simp] theorem kName_ne_type : (Key.s kName != Key.s typeKey) = true := by decide
@[simp] theorem kName_ne_type' : (Key.s typeKey = Key.s kName) = False := by simp; decide
@[simp] theorem kFields_ne_type : (Key.s kFields != Key.s typeKey) = true := by decide
@[simp] theorem kFields_ne_type' : (Key.s typeKey = Key.s kFields) = False := by simp; decide
@[simp] theorem kAllowNonConst_ne_type : (Key.s kAllowNonConst != Key.s typeKey) = true := by decide
@[simp] theorem kAllowNonConst_ne_type' : (Key.s typeKey = Key.s kAllowNonConst) = False := by simp; decide
@[simp] theorem kMetadata_ne_type : (Key.s kMetadata != Key.s typeKey) = true := by decide
@[simp] theorem kMetadata_ne_type' : (Key.s typeKey = Key.s kMetadata) = False := by simp; decide
@[simp] theorem kDescription_ne_type : (Key.s kDescription != Key.s typeKey) = true := by decide
@[simp] theorem kDescription_ne_type' : (Key.s typeKey = Key.s kDescription) = False := by simp; decide
@[simp] theorem kKeySpec_ne_type : (Key.s kKeySpec != Key.s typeKey) = true := by decide
@[simp] theorem kKeySpec_ne_type' : (Key.s typeKey = Key.s kKeySpec) = False := by simp; decide
@[simp] theorem kValueSpec_ne_type : (Key.s kValueSpec != Key.s typeKey) = true := by decide
@[simp] theorem kValueSpec_ne_type' : (Key.s typeKey = Key.s kValueSpec) = False := by simp; decide
@[simp] theorem kText_ne_type : (Key.s kText != Key.s typeKey) = true := by decide
@[simp] theorem kText_ne_type' : (Key.s typeKey = Key.s kText) = False := by simp; decide
@[simp] theorem kIndex_ne_type : (Key.s kIndex != Key.s typeKey) = true := by decide
@[simp] theorem kIndex_ne_type' : (Key.s typeKey = Key.s kIndex) = False := by simp; decide
theorem buildU_Class (kw : List (Key × U)) : buildU tyClass kw = buildClass kw := by
  unfold buildU
  simp (decide := true) only [if_true, if_false]
theorem buildU_Any (kw : List (Key × U)) : buildU tyAny kw = buildAny kw := by
  unfold buildU
  simp (decide := true) only [if_true, if_false]
theorem buildU_Bool (kw : List (Key × U)) : buildU tyBool kw = buildBool kw := by
  unfold buildU
  simp (decide := true) only [if_true, if_false]
theorem buildU_Int (kw : List (Key × U)) : buildU tyInt kw = buildInt kw := by
  unfold buildU
  simp (decide := true) only [if_true, if_false]
theorem buildU_Float (kw : List (Key × U)) : buildU tyFloat kw = buildFloat kw := by
  unfold buildU
  simp (decide := true) only [if_true, if_false]
theorem buildU_Str (kw : List (Key × U)) : buildU tyStr kw = buildStr kw := by
  unfold buildU
  simp (decide := true) only [if_true, if_false]
theorem buildU_Enum (kw : List (Key × U)) : buildU tyEnum kw = buildEnum kw := by
  unfold buildU
  simp (decide := true) only [if_true, if_false]
theorem buildU_List (kw : List (Key × U)) : buildU tyList kw = buildList kw := by
  unfold buildU
  simp (decide := true) only [if_true, if_false]
theorem buildU_Tuple (kw : List (Key × U)) : buildU tyTuple kw = buildTuple kw := by
  unfold buildU
  simp (decide := true) only [if_true, if_false]
theorem buildU_Dict (kw : List (Key × U)) : buildU tyDict kw = buildDict kw := by
  unfold buildU
  simp (decide := true) only [if_true, if_false]
theorem buildU_Object (kw : List (Key × U)) : buildU tyObject kw = buildObject kw := by
  unfold buildU
  simp (decide := true) only [if_true, if_false]
theorem buildU_Type (kw : List (Key × U)) : buildU tyType kw = buildType kw := by
  unfold buildU
  simp (decide := true) only [if_true, if_false]
theorem buildU_Union (kw : List (Key × U)) : buildU tyUnion kw = buildUnion kw := by
  unfold buildU
  simp (decide := true) only [if_true, if_false]
theorem buildU_Callable (kw : List (Key × U)) : buildU tyCallable kw = buildCallable kw := by
  unfold buildU
  simp (decide := true) only [if_true, if_false]
theorem buildU_ConstKey (kw : List (Key × U)) : buildU tyConstKey kw = buildConstKey kw := by
  unfold buildU
  simp (decide := true) only [if_true, if_false]
theorem buildU_StrKey (kw : List (Key × U)) : buildU tyStrKey kw = buildStrKey kw := by
  unfold buildU
  simp (decide := true) only [if_true, if_false]
theorem buildU_ListKey (kw : List (Key × U)) : buildU tyListKey kw = buildListKey kw := by
  unfold buildU
  simp (decide := true) only [if_true, if_false]
theorem buildU_TupleKey (kw : List (Key × U)) : buildU tyTupleKey kw = buildTupleKey kw := by
  unfold buildU
  simp (decide := true) only [if_true, if_false]
theorem buildU_Field (kw : List (Key × U)) : buildU tyField kw = buildField kw := by
  unfold buildU
  simp (decide := true) only [if_true, if_false]
theorem buildU_Schema (kw : List (Key × U)) : buildU tySchema kw = buildSchema kw := by
  unfold buildU
  simp (decide := true) only [if_true, if_false]

end Pg.C05
