/-
  Soundness / completeness of the specification enumeration: `d ∈ all ↔ valid d`, for every
  finite spec (multi-choices in all four distinct × sorted modes included).
-/
import PgProofs.GenoList
namespace Pg.Geno
open DNA

/-! ### sequences of choices -/

/-- The incremental admissibility test of `enumSeq`, along a whole sequence. -/
def admSeq (d s : Bool) : List Nat → List Nat → Prop
  | _, [] => True
  | prior, c :: cs => admissible d s prior c = true ∧ admSeq d s (prior ++ [c]) cs

/-- `x` is a single-choice node for candidate `c` with children from `subs[c]`. -/
def NodeIn (subs : List (List (List DNA))) (x : DNA) (c : Nat) : Prop :=
  ∃ ks ksl, x = .mk (.int (c : Nat)) ks ∧ subs[c]? = some ksl ∧ ks ∈ ksl

/-- Position-wise `NodeIn`. -/
def NodesIn (subs : List (List (List DNA))) : List DNA → List Nat → Prop
  | [], [] => True
  | x :: xs, c :: cs => NodeIn subs x c ∧ NodesIn subs xs cs
  | _, _ => False

theorem enumSeq_mem (subs : List (List (List DNA))) (d s : Bool) :
    ∀ (k : Nat) (prior : List Nat) (seq : List DNA),
      seq ∈ enumSeq subs d s prior k ↔
        ∃ cs : List Nat, cs.length = k ∧ NodesIn subs seq cs ∧ admSeq d s prior cs := by
  intro k
  induction k with
  | zero =>
    intro prior seq
    simp only [enumSeq, List.mem_singleton]
    constructor
    · rintro rfl; exact ⟨[], rfl, trivial, trivial⟩
    · rintro ⟨cs, hl, hf, _⟩
      have : cs = [] := List.eq_nil_of_length_eq_zero hl
      subst this
      cases seq with
      | nil => rfl
      | cons a b => exact absurd hf (by simp [NodesIn])
  | succ k ih =>
    intro prior seq
    simp only [enumSeq, mem_walkIdx, Nat.zero_add]
    constructor
    · rintro ⟨c, ksl, hc, hx⟩
      by_cases ha : admissible d s prior c = true
      · simp only [ha, if_true, List.mem_flatMap, List.mem_map] at hx
        obtain ⟨ks, hks, rest, hrest, rfl⟩ := hx
        obtain ⟨cs, hl, hf, hadm⟩ := (ih (prior ++ [c]) rest).mp hrest
        exact ⟨c :: cs, by simp [hl], ⟨⟨ks, ksl, rfl, hc, hks⟩, hf⟩, ha, hadm⟩
      · simp [ha] at hx
    · rintro ⟨cs, hl, hf, hadm⟩
      cases cs with
      | nil => simp at hl
      | cons c cs =>
        cases seq with
        | nil => exact absurd hf (by simp [NodesIn])
        | cons x rest =>
          obtain ⟨hx, hrest⟩ := hf
          obtain ⟨ks, ksl, rfl, hc, hks⟩ := hx
          obtain ⟨ha, hadm'⟩ := hadm
          refine ⟨c, ksl, hc, ?_⟩
          simp only [ha, if_true, List.mem_flatMap, List.mem_map]
          exact ⟨ks, hks, _, (ih (prior ++ [c]) _).mpr ⟨cs, by simpa using hl, hrest, hadm'⟩, rfl⟩

/-- The incremental test is the declarative one: distinct = no repetition (also w.r.t. the
earlier choices), sorted = non-decreasing (also after the earlier choices). -/
theorem admSeq_iff (d s : Bool) : ∀ (cs prior : List Nat),
    admSeq d s prior cs ↔
      (d = true → (∀ c ∈ cs, c ∉ prior) ∧ cs.Nodup) ∧
      (s = true → (∀ p ∈ prior, ∀ c ∈ cs, p ≤ c) ∧ cs.Pairwise (· ≤ ·)) := by
  intro cs
  induction cs with
  | nil => intro prior; simp [admSeq]
  | cons c cs ih =>
    intro prior
    simp only [admSeq, ih, admissible, Bool.and_eq_true, Bool.or_eq_true, Bool.not_eq_true',
      List.contains_eq_mem, decide_eq_false_iff_not, List.all_eq_true, decide_eq_true_eq,
      List.mem_append, List.mem_cons, List.not_mem_nil, or_false, List.nodup_cons, List.pairwise_cons]
    constructor
    · rintro ⟨⟨h1, h2⟩, h3, h4⟩
      constructor
      · intro hd
        have h1' : c ∉ prior := by
          rcases h1 with h | h
          · rw [hd] at h; cases h
          · exact h
        obtain ⟨h3a, h3b⟩ := h3 hd
        refine ⟨?_, ?_, h3b⟩
        · rintro x (rfl | hx)
          · exact h1'
          · exact fun hp => h3a x hx (Or.inl hp)
        · exact fun hc => h3a c hc (Or.inr rfl)
      · intro hs
        have h2' : ∀ p ∈ prior, p ≤ c := by
          rcases h2 with h | h
          · rw [hs] at h; cases h
          · exact h
        obtain ⟨h4a, h4b⟩ := h4 hs
        refine ⟨?_, ?_, h4b⟩
        · rintro p hp x (rfl | hx)
          · exact h2' p hp
          · exact h4a p (Or.inl hp) x hx
        · exact fun x hx => h4a c (Or.inr rfl) x hx
    · rintro ⟨h1, h2⟩
      refine ⟨⟨?_, ?_⟩, ?_, ?_⟩
      · cases d with
        | false => left; rfl
        | true => right; exact (h1 rfl).1 c (Or.inl rfl)
      · cases s with
        | false => left; rfl
        | true => right; exact fun p hp => (h2 rfl).1 p hp c (Or.inl rfl)
      · intro hd
        obtain ⟨a, b, c'⟩ := h1 hd
        refine ⟨?_, c'⟩
        rintro x hx (hp | rfl)
        · exact a x (Or.inr hx) hp
        · exact b hx
      · intro hs
        obtain ⟨a, b, c'⟩ := h2 hs
        refine ⟨?_, c'⟩
        rintro p (hp | rfl) x hx
        · exact a p hp x (Or.inr hx)
        · exact b x hx

/-! ### root / unroot, values -/

theorem unroot_iff {k : Nat} {seq : List DNA} {d : DNA} (hl : seq.length = k) :
    unroot k d = some seq ↔ rootOf seq = d := by
  unfold unroot
  by_cases hk : k = 1
  · subst hk
    match seq, hl with
    | [x], _ =>
      simp only [beq_self_eq_true, if_true, Option.some.injEq, rootOf]
      constructor
      · intro h; cases h; rfl
      · intro h; rw [h]
  · have hk' : (k == 1) = false := by simp [hk]
    simp only [hk', Bool.false_eq_true, if_false]
    match seq, hl with
    | [], _ =>
      cases d with
      | mk v ds =>
        cases v <;> simp [rootOf, eq_comm]
    | [x], hl => exact absurd hl.symm hk
    | a :: b :: t, _ =>
      cases d with
      | mk v ds =>
        cases v <;> simp [rootOf, eq_comm]

theorem pairwiseNe_map (cs : List Nat) : pairwiseNe (cs.map Int.ofNat) = true ↔ cs.Nodup := by
  induction cs with
  | nil => simp [pairwiseNe]
  | cons c cs ih =>
    simp only [List.map_cons, pairwiseNe, Bool.and_eq_true, List.all_eq_true, List.mem_map, ih,
      List.nodup_cons, bne_iff_ne, ne_eq]
    constructor
    · rintro ⟨h, h2⟩
      exact ⟨fun hc => h _ ⟨c, hc, rfl⟩ rfl, h2⟩
    · rintro ⟨h, h2⟩
      refine ⟨?_, h2⟩
      rintro _ ⟨a, ha, rfl⟩ e
      have : a = c := Int.ofNat.inj e
      exact h (this ▸ ha)

theorem pairwiseLe_map (cs : List Nat) : pairwiseLe (cs.map Int.ofNat) = true ↔ cs.Pairwise (· ≤ ·) := by
  induction cs with
  | nil => simp [pairwiseLe]
  | cons c cs ih =>
    simp only [List.map_cons, pairwiseLe, Bool.and_eq_true, List.all_eq_true, List.mem_map, ih,
      List.pairwise_cons, decide_eq_true_eq]
    constructor
    · rintro ⟨h, h2⟩
      exact ⟨fun a ha => by have := h _ ⟨a, ha, rfl⟩; simpa using this, h2⟩
    · rintro ⟨h, h2⟩
      refine ⟨?_, h2⟩
      rintro _ ⟨a, ha, rfl⟩
      have := h a ha
      simpa using this

theorem NodesIn_values (subs : List (List (List DNA))) :
    ∀ (ss : List DNA) (cs : List Nat), NodesIn subs ss cs →
      nodeValues ss = cs.map Int.ofNat ∧ ss.length = cs.length
  | [], [], _ => ⟨rfl, rfl⟩
  | [], _ :: _, h => absurd h (by simp [NodesIn])
  | _ :: _, [], h => absurd h (by simp [NodesIn])
  | x :: xs, c :: cs, h => by
    obtain ⟨⟨ks, ksl, rfl, _, _⟩, hr⟩ := h
    obtain ⟨h1, h2⟩ := NodesIn_values subs xs cs hr
    simp [nodeValues, h1, h2]

/-- All nodes are valid single-choice nodes iff they are `NodeIn` for some candidate indices. -/
theorem all_validNode_iff (subs : List (List (List DNA))) (vk : Nat → List DNA → Bool)
    (hvk : ∀ c ks, vk c ks = true ↔ ∃ ksl, subs[c]? = some ksl ∧ ks ∈ ksl) :
    ∀ ss : List DNA, ss.all (validNodeWith subs.length vk) = true ↔ ∃ cs, NodesIn subs ss cs
  | [] => by simp; exact ⟨[], trivial⟩
  | x :: xs => by
    simp only [List.all_cons, Bool.and_eq_true, all_validNode_iff subs vk hvk xs]
    constructor
    · rintro ⟨hx, cs, hcs⟩
      cases x with
      | mk v ks =>
        cases v with
        | int i =>
          simp only [validNodeWith, Bool.and_eq_true, decide_eq_true_eq] at hx
          obtain ⟨⟨h0, _⟩, hk⟩ := hx
          obtain ⟨ksl, h1, h2⟩ := (hvk _ _).mp hk
          refine ⟨i.toNat :: cs, ⟨ks, ksl, ?_, h1, h2⟩, hcs⟩
          rw [Int.toNat_of_nonneg h0]
        | none => simp [validNodeWith] at hx
        | flt => simp [validNodeWith] at hx
        | str => simp [validNodeWith] at hx
    · rintro ⟨cs, hcs⟩
      cases cs with
      | nil => exact absurd hcs (by simp [NodesIn])
      | cons c cs =>
        obtain ⟨⟨ks, ksl, rfl, h1, h2⟩, hr⟩ := hcs
        refine ⟨?_, cs, hr⟩
        have hlt : c < subs.length := (List.getElem?_eq_some_iff.mp h1).1
        simp only [validNodeWith, Bool.and_eq_true, decide_eq_true_eq, Int.toNat_natCast]
        exact ⟨⟨Int.natCast_nonneg c, by exact_mod_cast hlt⟩, (hvk c ks).mpr ⟨ksl, h1, h2⟩⟩

/-! ### shapes of valid point DNAs; `kidsL` / `unkids` are mutually inverse on them -/

theorem validP_single_int {cands : List (List Point)} {d s : Bool} {info : Info} {x : DNA}
    (h : validP (.choices 1 cands d s info) x = true) : ∃ v ks, x = .mk (.int v) ks := by
  cases x with
  | mk v ks =>
    cases v with
    | int i => exact ⟨i, ks, rfl⟩
    | none => simp [validP, unroot, validNodeWith] at h
    | flt => simp [validP, unroot, validNodeWith] at h
    | str => simp [validP, unroot, validNodeWith] at h

theorem validP_multi_none {k : Nat} {cands : List (List Point)} {d s : Bool} {info : Info} {x : DNA}
    (hk : k ≠ 1) (h : validP (.choices k cands d s info) x = true) : ∃ ss, x = .mk .none ss := by
  cases x with
  | mk v ks =>
    cases v with
    | none => exact ⟨ks, rfl⟩
    | int => simp [validP, unroot, hk] at h
    | flt => simp [validP, unroot, hk] at h
    | str => simp [validP, unroot, hk] at h

theorem kidsL_two (a b : DNA) (t : List DNA) : kidsL (a :: b :: t) = a :: b :: t := by
  cases a with
  | mk v ks => cases v <;> rfl

theorem validElems_nil_right {es : List Point} (h : validElems es [] = true) : es = [] := by
  cases es with
  | nil => rfl
  | cons p ps => simp [validElems] at h

theorem validElems_single {p : Point} {ks : List DNA} (h : validElems [p] ks = true) :
    ∃ x, ks = [x] ∧ validP p x = true := by
  match ks, h with
  | [], h => simp [validElems] at h
  | [x], h => simp only [validElems, Bool.and_true] at h; exact ⟨x, rfl, h⟩
  | x :: y :: t, h => simp [validElems] at h

theorem validElems_two {p q : Point} {r : List Point} {ks : List DNA}
    (h : validElems (p :: q :: r) ks = true) : ∃ a b t, ks = a :: b :: t := by
  match ks, h with
  | [], h => simp [validElems] at h
  | [x], h => simp [validElems] at h
  | a :: b :: t, _ => exact ⟨a, b, t, rfl⟩

theorem kidsL_unkids (c : Space) (ks : List DNA) (h : validElems c (unkids c ks) = true) :
    kidsL (unkids c ks) = ks := by
  match c, h with
  | [], h =>
    have : unkids [] ks = ks := rfl
    rw [this] at h ⊢
    cases ks with
    | nil => rfl
    | cons a b => simp [validElems] at h
  | [.choices k cands d s info], h =>
    by_cases hk : k = 1
    · subst hk
      have : unkids [.choices 1 cands d s info] ks = ks := by simp [unkids]
      rw [this] at h ⊢
      obtain ⟨x, rfl, hx⟩ := validElems_single h
      obtain ⟨v, ks', rfl⟩ := validP_single_int hx
      rfl
    · have : unkids [.choices k cands d s info] ks = [.mk .none ks] := by simp [unkids, hk]
      rw [this]; rfl
  | [.float a b c' d' info], h =>
    have : unkids [.float a b c' d' info] ks = ks := rfl
    rw [this] at h ⊢
    obtain ⟨x, rfl, hx⟩ := validElems_single h
    cases x with
    | mk v cs => cases v <;> first | rfl | simp [validP] at hx
  | [.custom info], h =>
    have : unkids [.custom info] ks = ks := rfl
    rw [this] at h ⊢
    obtain ⟨x, rfl, hx⟩ := validElems_single h
    cases x with
    | mk v cs => cases v <;> first | rfl | simp [validP] at hx
  | p :: q :: r, h =>
    have : unkids (p :: q :: r) ks = ks := by
      cases p <;> rfl
    rw [this] at h ⊢
    obtain ⟨a, b, t, rfl⟩ := validElems_two h
    exact kidsL_two a b t

theorem unkids_kidsL (c : Space) (ds : List DNA) (h : validElems c ds = true) :
    unkids c (kidsL ds) = ds := by
  match c, h with
  | [], h =>
    cases ds with
    | nil => rfl
    | cons a b => simp [validElems] at h
  | [.choices k cands d s info], h =>
    obtain ⟨x, rfl, hx⟩ := validElems_single h
    by_cases hk : k = 1
    · subst hk
      obtain ⟨v, ks', rfl⟩ := validP_single_int hx
      simp [unkids, kidsL]
    · obtain ⟨ss, rfl⟩ := validP_multi_none hk hx
      simp [unkids, kidsL, hk]
  | [.float a b c' d' info], h =>
    obtain ⟨x, rfl, hx⟩ := validElems_single h
    cases x with
    | mk v cs => cases v <;> first | rfl | simp [validP] at hx
  | [.custom info], h =>
    obtain ⟨x, rfl, hx⟩ := validElems_single h
    cases x with
    | mk v cs => cases v <;> first | rfl | simp [validP] at hx
  | p :: q :: r, h =>
    obtain ⟨a, b, t, rfl⟩ := validElems_two h
    rw [kidsL_two]
    cases p <;> rfl

/-! ### the enumeration is sound and complete -/

theorem allCands_getElem?' (cs : List (List Point)) (i : Nat) :
    (allCands cs)[i]? = cs[i]?.map fun c => (allElems c).map kidsL := by
  induction cs generalizing i with
  | nil => simp [allCands]
  | cons c cs ih =>
    cases i with
    | zero => simp [allCands]
    | succ i => simp [allCands, ih]

theorem allCands_length' (cs : List (List Point)) : (allCands cs).length = cs.length := by
  induction cs with
  | nil => rfl
  | cons c cs ih => simp [allCands, ih]

theorem allElems_cons' (p : Point) (ps : List Point) :
    allElems (p :: ps) = lexProd (allP p) (allElems ps) := by
  simp [allElems, lexProd]

theorem validElems_length : ∀ (es : List Point) (ds : List DNA), validElems es ds = true → ds.length = es.length
  | [], [], _ => rfl
  | [], _ :: _, h => by simp [validElems] at h
  | _ :: _, [], h => by simp [validElems] at h
  | p :: ps, d :: ds, h => by
    simp only [validElems, Bool.and_eq_true] at h
    simp [validElems_length ps ds h.2]

mutual
  theorem memP_iff (p : Point) (hf : p.finite = true) : ∀ d, d ∈ allP p ↔ validP p d = true := by
    cases p with
    | float => simp [Point.finite] at hf
    | custom => simp [Point.finite] at hf
    | choices k cands dd ss info =>
      simp only [Point.finite] at hf
      have hC := memC_iff cands hf
      intro d
      have hlen : (allCands cands).length = cands.length := allCands_length' cands
      simp only [allP, List.mem_map]
      constructor
      · rintro ⟨seq, hseq, rfl⟩
        obtain ⟨cs, hl, hn, hadm⟩ := (enumSeq_mem _ _ _ _ _ _).mp hseq
        obtain ⟨hv, hsl⟩ := NodesIn_values _ _ _ hn
        have hsl' : seq.length = k := hsl.trans hl
        simp only [validP, (unroot_iff hsl').mpr rfl, hsl', beq_self_eq_true, Bool.true_and,
          Bool.and_eq_true, Bool.or_eq_true, Bool.not_eq_true']
        rw [← hlen]
        refine ⟨⟨(all_validNode_iff _ _ hC seq).mpr ⟨cs, hn⟩, ?_⟩, ?_⟩
        · cases hd : dd with
          | false => left; rfl
          | true =>
            right; rw [hv, pairwiseNe_map]
            exact (((admSeq_iff _ _ _ _).mp hadm).1 hd).2
        · cases hs : ss with
          | false => left; rfl
          | true =>
            right; rw [hv, pairwiseLe_map]
            exact (((admSeq_iff _ _ _ _).mp hadm).2 hs).2
      · intro h
        simp only [validP] at h
        cases hu : unroot k d with
        | none => simp [hu] at h
        | some seq =>
          simp only [hu, Bool.and_eq_true, beq_iff_eq, Bool.or_eq_true, Bool.not_eq_true'] at h
          obtain ⟨⟨⟨hl, hall⟩, hne⟩, hle⟩ := h
          rw [← hlen] at hall
          obtain ⟨cs, hn⟩ := (all_validNode_iff _ _ hC seq).mp hall
          obtain ⟨hv, hsl⟩ := NodesIn_values _ _ _ hn
          refine ⟨seq, ?_, (unroot_iff hl).mp hu⟩
          refine (enumSeq_mem _ _ _ _ _ _).mpr ⟨cs, hsl.symm.trans hl, hn, ?_⟩
          rw [admSeq_iff]
          constructor
          · intro hd
            refine ⟨fun _ _ h => absurd h List.not_mem_nil, ?_⟩
            rcases hne with h | h
            · rw [hd] at h; cases h
            · rwa [hv, pairwiseNe_map] at h
          · intro hs
            refine ⟨fun _ h => absurd h List.not_mem_nil, ?_⟩
            rcases hle with h | h
            · rw [hs] at h; cases h
            · rwa [hv, pairwiseLe_map] at h
  theorem memE_iff (es : List Point) (hf : finiteSpace es = true) :
      ∀ ds, ds ∈ allElems es ↔ validElems es ds = true := by
    cases es with
    | nil =>
      intro ds
      cases ds with
      | nil => simp [allElems, validElems]
      | cons a b => simp [allElems, validElems]
    | cons p ps =>
      simp only [finiteSpace, Bool.and_eq_true] at hf
      intro ds
      rw [allElems_cons']
      cases ds with
      | nil =>
        simp only [validElems]
        constructor
        · intro h; rw [mem_lexProd] at h; obtain ⟨_, _, _, _, h⟩ := h; cases h
        · intro h; cases h
      | cons a e =>
        rw [cons_mem_lexProd, memP_iff p hf.1 a, memE_iff ps hf.2 e]
        simp [validElems]
  theorem memC_iff (cs : List (List Point)) (hf : finiteCands cs = true) :
      ∀ (i : Nat) (ks : List DNA), validKidsAt cs i ks = true ↔
        ∃ ksl, (allCands cs)[i]? = some ksl ∧ ks ∈ ksl := by
    cases cs with
    | nil => intro i ks; simp [validKidsAt, allCands]
    | cons c cs =>
      simp only [finiteCands, Bool.and_eq_true] at hf
      intro i ks
      cases i with
      | zero =>
        have hE := memE_iff c hf.1
        simp only [validKidsAt, allCands, List.getElem?_cons_zero, Option.some.injEq, exists_eq_left',
          List.mem_map]
        constructor
        · intro h
          exact ⟨unkids c ks, (hE _).mpr h, kidsL_unkids c ks h⟩
        · rintro ⟨ds, hds, rfl⟩
          have hv := (hE ds).mp hds
          rw [unkids_kidsL c ds hv]; exact hv
      | succ i =>
        simp only [validKidsAt, allCands, List.getElem?_cons_succ]
        exact memC_iff cs hf.2 i ks
end

theorem mem_all_iff (g : Spec) (hf : g.finite = true) (d : DNA) : d ∈ g.all ↔ g.valid d = true := by
  cases g with
  | point p => exact memP_iff p hf d
  | space s =>
    simp only [Spec.all, allS, Spec.valid, validS, List.mem_map]
    have hE := memE_iff s hf
    constructor
    · rintro ⟨ds, hds, rfl⟩
      have hv := (hE ds).mp hds
      have hl : ds.length = s.length := validElems_length s ds hv
      rw [(unroot_iff hl).mpr rfl]; exact hv
    · intro h
      cases hu : unroot s.length d with
      | none => simp [hu] at h
      | some ds =>
        simp only [hu] at h
        have hl : ds.length = s.length := validElems_length s ds h
        exact ⟨ds, (hE ds).mpr h, (unroot_iff hl).mp hu⟩

end Pg.Geno
