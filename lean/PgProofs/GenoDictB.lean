/-
  C12: `from_dict ∘ to_dict` for EVERY option triple.  `to_dict` puts the decisions in depth-first
  order; `from_dict` reads them in the same order and pops the lists it finds under names.
  `Inv`: the dictionary state while reading; `Cond`: the (decidable) conditions on the keys under
  which every look-up finds the decision that was put; `reads_toDict`: then `Reads` holds.
-/
import PgProofs.GenoDictS
namespace Pg.Geno
open DNA

/-! ### `dictSet` -/

def setEntry (k : String) (e : DE) (p : String × DE) : String × DE :=
  if p.1 == k then (p.1, e) else (p.1, p.2)

theorem dictSet_def (D : List (String × DE)) (k : String) (e : DE) : dictSet D k e = D.map (setEntry k e) := rfl

theorem dictGet_set_same (k : String) (e : DE) : ∀ (D : List (String × DE)) (e0 : DE),
    dictGet D k = some e0 → dictGet (dictSet D k e) k = some e
  | [], _, h => by simp [dictGet] at h
  | (k0, e1) :: rest, e0, h => by
    rw [dictSet_def]
    unfold dictGet at *
    by_cases h0 : (k0 == k) = true
    · simp [setEntry, h0, List.find?_cons]
    · simp only [List.find?_cons, h0] at h
      have ih := dictGet_set_same k e rest e0 (by unfold dictGet; exact h)
      rw [dictSet_def] at ih
      unfold dictGet at ih
      simp only [List.map_cons, setEntry, h0, Bool.false_eq_true, if_false, List.find?_cons]
      exact ih

theorem dictGet_set_other (k k' : String) (e : DE) (hne : k' ≠ k) : ∀ (D : List (String × DE)),
    dictGet (dictSet D k e) k' = dictGet D k'
  | [] => rfl
  | (k0, e1) :: rest => by
    have ih := dictGet_set_other k k' e hne rest
    rw [dictSet_def] at *
    unfold dictGet at *
    by_cases h0 : (k0 == k) = true
    · have hk0 : k0 = k := by simpa using h0
      have : (k0 == k') = false := by simp [hk0, Ne.symm hne]
      simp only [List.map_cons, setEntry, h0, if_true, List.find?_cons, this]
      exact ih
    · by_cases h1 : (k0 == k') = true
      · simp [setEntry, h0, List.find?_cons, h1]
      · simp only [List.map_cons, setEntry, h0, Bool.false_eq_true, if_false, List.find?_cons, h1]
        exact ih

/-! ### `toDE` -/

theorem appendAll_many (xs : List DV) : ∀ (vs : List DV),
    appendAll (some (.many xs)) vs = some (.many (xs ++ vs))
  | [] => by simp [appendAll]
  | v :: vs => by
    simp only [appendAll, appendDE]
    rw [appendAll_many (xs ++ [v]) vs]
    simp

theorem toDE_many (a b : DV) (t : List DV) : toDE (a :: b :: t) = some (.many (a :: b :: t)) := by
  simp only [toDE, appendAll, appendDE]
  rw [appendAll_many]
  rfl

theorem toDE_of_two_le (xs : List DV) (h : 2 ≤ xs.length) : toDE xs = some (.many xs) := by
  match xs, h with
  | a :: b :: t, _ => exact toDE_many a b t

theorem collectVals_cons_same (k : String) (x : DV) (es : List (String × DV)) :
    collectVals k ((k, x) :: es) = x :: collectVals k es := by
  simp [collectVals]

theorem collectVals_cons_other (k k' : String) (x : DV) (es : List (String × DV)) (h : k' ≠ k) :
    collectVals k ((k', x) :: es) = collectVals k es := by
  have : (k' == k) = false := by simp [h]
  simp [collectVals, List.filter_cons, this]

theorem collectVals_append (k : String) (a b : List (String × DV)) :
    collectVals k (a ++ b) = collectVals k a ++ collectVals k b := by
  simp [collectVals]

theorem collectVals_nil_of_not_mem (k : String) : ∀ (es : List (String × DV)), k ∉ es.map (·.1) →
    collectVals k es = []
  | [], _ => rfl
  | (k0, x) :: es, h => by
    simp only [List.map_cons, List.mem_cons, not_or] at h
    rw [collectVals_cons_other k k0 x es (Ne.symm h.1)]
    exact collectVals_nil_of_not_mem k es h.2

theorem collectVals_mem (k : String) (x : DV) : ∀ (es : List (String × DV)), (k, x) ∈ es → x ∈ collectVals k es
  | [], h => by simp at h
  | (k0, y) :: es, h => by
    by_cases hk : k0 = k
    · subst hk
      rw [collectVals_cons_same]
      rcases List.mem_cons.mp h with h | h
      · simp only [Prod.mk.injEq, true_and] at h; subst h; exact List.mem_cons_self
      · exact List.mem_cons_of_mem _ (collectVals_mem k0 x es h)
    · rw [collectVals_cons_other k k0 y es hk]
      rcases List.mem_cons.mp h with h | h
      · simp only [Prod.mk.injEq] at h; exact absurd h.1.symm hk
      · exact collectVals_mem k x es h

section
variable (o : Opts) (useInts : Bool) (es : List (String × DV)) (rn : List String)

/-- The keys whose entry is a list that `from_dict` pops: names that are read, with several values. -/
def isQ (K : String) : Prop := K ∈ rn ∧ 2 ≤ (collectVals K es).length

/-- The dictionary while `from_dict` reads: the remaining decisions `rem` under the popped keys,
everything else as `to_dict` left it. -/
def Inv (D : List (String × DE)) (rem : List (String × DV)) : Prop :=
  ∀ K, (isQ es rn K → dictGet D K = some (.many (collectVals K rem))) ∧
       (¬ isQ es rn K → dictGet D K = toDE (collectVals K es))

theorem inv_drop {D : List (String × DE)} {l rest : List (String × DV)}
    (h : Inv es rn D (l ++ rest)) (hl : ∀ e ∈ l, ¬ isQ es rn e.1) : Inv es rn D rest := by
  intro K
  refine ⟨fun hq => ?_, (h K).2⟩
  rw [(h K).1 hq, collectVals_append]
  have : collectVals K l = [] := by
    apply collectVals_nil_of_not_mem
    intro hm
    obtain ⟨e, he, hk⟩ := List.mem_map.mp hm
    exact hl e he (hk ▸ hq)
  rw [this]; rfl

theorem inv_missing {D : List (String × DE)} {rem : List (String × DV)} (h : Inv es rn D rem)
    (k : String) (hk : k ∉ es.map (·.1)) : dictGet D k = none := by
  have hc := collectVals_nil_of_not_mem k es hk
  have hnq : ¬ isQ es rn k := by intro hq; have := hq.2; rw [hc] at this; simp at this
  rw [(h k).2 hnq, hc]; rfl

theorem collect_single (k : String) (x : DV) (hm : (k, x) ∈ es) (hc : (collectVals k es).length = 1) :
    collectVals k es = [x] := by
  have := collectVals_mem k x es hm
  match hcv : collectVals k es, hc with
  | [y], _ =>
    rw [hcv] at this
    simp only [List.mem_singleton] at this
    rw [this]

theorem inv_own {D : List (String × DE)} {rem : List (String × DV)} (h : Inv es rn D rem)
    (k : String) (x : DV) (hm : (k, x) ∈ es) (hc : (collectVals k es).length = 1) :
    dictGet D k = some (.one x) := by
  have hnq : ¬ isQ es rn k := by intro hq; have := hq.2; omega
  rw [(h k).2 hnq, collect_single es k x hm hc]; rfl

theorem notQ_of_one (k : String) (hc : (collectVals k es).length = 1) : ¬ isQ es rn k := by
  intro hq; have := hq.2; omega

/-- Reading a decision by NAME: found as it is, or popped from the list. -/
theorem read_named {D : List (String × DE)} {rest : List (String × DV)} (idk nm : String) (x : DV)
    (h : Inv es rn D ((nm, x) :: rest)) (hm : (nm, x) ∈ es) (hrn : nm ∈ rn) (hid : idk ∉ es.map (·.1)) :
    ∃ D1, getDecision D idk (some nm) = (some (.one x), D1) ∧ Inv es rn D1 rest := by
  have hmiss := inv_missing es rn h idk hid
  by_cases hq : isQ es rn nm
  · have hg := (h nm).1 hq
    rw [collectVals_cons_same] at hg
    refine ⟨dictSet D nm (.many (collectVals nm rest)), by simp [getDecision, hmiss, hg], ?_⟩
    intro K
    by_cases hK : K = nm
    · subst hK
      exact ⟨fun _ => dictGet_set_same K _ D _ hg, fun hn => absurd hq hn⟩
    · rw [dictGet_set_other nm K _ hK]
      refine ⟨fun hq' => ?_, (h K).2⟩
      rw [(h K).1 hq', collectVals_cons_other K nm x rest (Ne.symm hK)]
  · have hc : (collectVals nm es).length = 1 := by
      have h1 : ¬ 2 ≤ (collectVals nm es).length := fun h2 => hq ⟨hrn, h2⟩
      have h2 : 0 < (collectVals nm es).length := List.length_pos_of_mem (collectVals_mem nm x es hm)
      omega
    have hg := inv_own es rn h nm x hm hc
    refine ⟨D, by simp [getDecision, hmiss, hg], ?_⟩
    exact inv_drop es rn (l := [(nm, x)]) h (by intro e he; simp only [List.mem_singleton] at he; subst he; exact hq)

/-! ### one node -/

theorem keyOf_named {dp : Dp} {nm : String} (h : readName o dp = some nm) (id' : List Tok) :
    keyOf o dp.name id' = nm ∧ dp.name = some nm := by
  unfold readName at h
  by_cases hk : (o.keyType == 1) = true
  · simp only [hk, if_true] at h
    simp [keyOf, hk, h]
  · simp [hk] at h

theorem keyOf_id {dp : Dp} (h : readName o dp = none) (id' : List Tok) :
    keyOf o dp.name id' = renderId id' ∧ ((o.keyType != 1) = true ∨ dp.name = none) := by
  unfold readName at h
  by_cases hk : (o.keyType == 1) = true
  · simp only [hk, if_true] at h
    simp [keyOf, hk, h]
  · have hk' : (o.keyType == 1) = false := Bool.eq_false_iff.mpr hk
    have hk2 : ¬ o.keyType = 1 := by simpa using hk
    simp [keyOf, hk', hk2]

/-- The `_put` calls of one (sub-)choice with value `x`. -/
def choicePuts (dp : Dp) (x : DV) : List (String × DV) :=
  match dp.sub with
  | some _ =>
    (if o.multi != 0 then [(keyOf o dp.name (dp.parentId.getD []), x)] else []) ++
    (if needsSubchoiceKey o dp then [(keyOf o dp.name dp.id, x)] else [])
  | none => [(keyOf o dp.name dp.id, x)]

theorem choicePuts_named {dp : Dp} {nm : String} (h : readName o dp = some nm) (x : DV) :
    choicePuts o dp x = [(nm, x)] := by
  have h1 := (keyOf_named o h dp.id).1
  have h2 := (keyOf_named o h (dp.parentId.getD [])).1
  have hname := (keyOf_named o h dp.id).2
  have hkt : (o.keyType == 1) = true := by
    unfold readName at h
    by_cases hk : (o.keyType == 1) = true
    · exact hk
    · simp [hk] at h
  have hkt' : o.keyType = 1 := by simpa using hkt
  unfold choicePuts
  cases dp.sub with
  | none => simp [h1]
  | some idx =>
    simp only [h1, h2]
    by_cases hm : o.multi = 0
    · simp [hm, needsSubchoiceKey]
    · have hm' : (o.multi != 0) = true := by simp [hm]
      have : needsSubchoiceKey o dp = false := by
        simp [needsSubchoiceKey, hm, hkt', hname]
      simp [hm', this]

def leafCond (dp : Dp) : Prop :=
  match readName o dp with
  | some nm => renderId dp.id ∉ es.map (·.1) ∧ nm ∈ rn
  | none => (collectVals (renderId dp.id) es).length = 1

/-- Reading a float / custom decision. -/
theorem read_leaf {D : List (String × DE)} {rest : List (String × DV)} (dp : Dp) (x : DV)
    (h : Inv es rn D ((keyOf o dp.name dp.id, x) :: rest)) (hm : (keyOf o dp.name dp.id, x) ∈ es)
    (hc : leafCond o es rn dp) :
    ∃ D1, getDecision D (renderId dp.id) dp.name = (some (.one x), D1) ∧ Inv es rn D1 rest := by
  unfold leafCond at hc
  cases hr : readName o dp with
  | some nm =>
    rw [hr] at hc
    obtain ⟨hk, hname⟩ := keyOf_named o hr dp.id
    rw [hk] at h hm
    rw [hname]
    exact read_named es rn (renderId dp.id) nm x h hm hc.2 hc.1
  | none =>
    rw [hr] at hc
    simp only at hc
    obtain ⟨hk, _⟩ := keyOf_id o hr dp.id
    rw [hk] at h hm
    refine ⟨D, getDecision_found D (inv_own es rn h _ x hm hc), ?_⟩
    exact inv_drop es rn (l := [(renderId dp.id, x)]) h
      (by intro e he; simp only [List.mem_singleton] at he; subst he; exact notQ_of_one es rn _ hc)

def choiceCond (dp : Dp) (x : DV) : Prop :=
  match readName o dp with
  | some nm => renderId dp.id ∉ es.map (·.1) ∧ nm ∈ rn
  | none =>
    match dp.sub with
    | none => (collectVals (renderId dp.id) es).length = 1
    | some idx =>
      if o.multi = 1 then
        renderId dp.id ∉ es.map (·.1) ∧ (∀ nm, dp.name = some nm → nm ∉ es.map (·.1)) ∧
        ¬ isQ es rn (renderId (dp.parentId.getD [])) ∧ 2 ≤ dp.arity ∧
        (collectVals (renderId (dp.parentId.getD [])) es).length = dp.arity ∧
        (collectVals (renderId (dp.parentId.getD [])) es)[idx]? = some x
      else (collectVals (renderId dp.id) es).length = 1 ∧
        (o.multi ≠ 0 → ¬ isQ es rn (renderId (dp.parentId.getD [])))

/-- Reading the decision of one (sub-)choice. -/
theorem read_choice {D : List (String × DE)} {rest : List (String × DV)} (dp : Dp) (x : DV)
    (h : Inv es rn D (choicePuts o dp x ++ rest)) (hm : ∀ e ∈ choicePuts o dp x, e ∈ es)
    (hc : choiceCond o es rn dp x) :
    ∃ D1, lookupChoice D dp.id dp.name (parentOf dp) = some (x, D1) ∧ Inv es rn D1 rest := by
  unfold choiceCond at hc
  cases hr : readName o dp with
  | some nm =>
    rw [hr] at hc
    obtain ⟨_, hname⟩ := keyOf_named o hr dp.id
    rw [choicePuts_named o hr x] at h hm
    obtain ⟨D1, hget, hinv⟩ := read_named es rn (renderId dp.id) nm x h (hm _ List.mem_cons_self) hc.2 hc.1
    refine ⟨D1, ?_, hinv⟩
    simp [lookupChoice, hname, hget]
  | none =>
    rw [hr] at hc
    simp only at hc
    obtain ⟨hk, hkn⟩ := keyOf_id o hr dp.id
    obtain ⟨hkp, _⟩ := keyOf_id o hr (dp.parentId.getD [])
    unfold choicePuts at h hm
    unfold parentOf
    cases hs : dp.sub with
    | none =>
      rw [hs] at hc h hm
      simp only [hk] at hc h hm
      have hmem := hm _ List.mem_cons_self
      refine ⟨D, ?_, ?_⟩
      · simp [lookupChoice, getDecision_found D (inv_own es rn h _ x hmem hc)]
      · exact inv_drop es rn h
          (by intro e he; simp only [List.mem_singleton] at he; subst he; exact notQ_of_one es rn _ hc)
    | some idx =>
      rw [hs] at hc h hm
      simp only [hk, hkp] at hc h hm
      by_cases hm1 : o.multi = 1
      · simp only [hm1, if_true] at hc
        obtain ⟨c1, c2, c3, c4, c5, c6⟩ := hc
        have hns : needsSubchoiceKey o dp = false := by simp [needsSubchoiceKey, hm1]
        have hmne : (o.multi != 0) = true := by simp [hm1]
        simp only [hns, hmne, if_true, Bool.false_eq_true, if_false, List.append_nil] at h hm
        have h1 := inv_missing es rn h _ c1
        have h2 : ∀ nm, dp.name = some nm → dictGet D nm = none :=
          fun nm e => inv_missing es rn h nm (c2 nm e)
        have h3 : dictGet D (renderId (dp.parentId.getD [])) =
            some (.many (collectVals (renderId (dp.parentId.getD [])) es)) := by
          rw [(h _).2 c3]
          exact toDE_of_two_le _ (by omega)
        refine ⟨D, ?_, inv_drop es rn h
          (by intro e he; simp only [List.mem_singleton] at he; subst he; exact c3)⟩
        simp [lookupChoice, getDecision_missing D h1 h2, getDecision_found D h3, c5, c6]
      · simp only [hm1, if_false] at hc
        have hns : needsSubchoiceKey o dp = true := by
          rcases hkn with hkn | hkn
          · simp only [bne_iff_ne, ne_eq] at hkn
            simp [needsSubchoiceKey, hm1, hkn]
          · simp [needsSubchoiceKey, hm1, hkn]
        simp only [hns, if_true] at h hm
        have hmem : (renderId dp.id, x) ∈ es := hm _ (by simp)
        refine ⟨D, ?_, ?_⟩
        · simp [lookupChoice, getDecision_found D (inv_own es rn h _ x hmem hc.1)]
        · apply inv_drop es rn h
          intro e he
          by_cases hm0 : o.multi = 0
          · simp only [hm0, bne_self_eq_false, Bool.false_eq_true, if_false, List.nil_append,
              List.mem_singleton] at he
            subst he; exact notQ_of_one es rn _ hc.1
          · have : (o.multi != 0) = true := by simp [hm0]
            simp only [this, if_true, List.cons_append, List.nil_append, List.mem_cons,
              List.not_mem_nil, or_false] at he
            rcases he with he | he
            · subst he; exact hc.2 hm0
            · subst he; exact notQ_of_one es rn _ hc.1

/-! ### the whole tree -/

/-- The value a float / custom node is stored with. -/
def leafVal (v : Val) (self : DNA) : DV := if o.valueType == 1 then .dna self else .val v

mutual
  /-- The conditions on the keys of `to_dict` under which `from_dict` finds every decision. -/
  def Cond : BDNA → Prop
    | .mk v bound cs =>
      match bound, v with
      | some dp, .int i =>
        if dp.kind = .choice then
          choiceCond o es rn dp (fmtChoice o dp i (BDNA.mk v bound cs).erase) ∧ styleOk o useInts dp.lits ∧
          (if o.valueType = 1 then ∀ e ∈ putsList o cs, ¬ isQ es rn e.1 else CondL cs)
        else leafCond o es rn dp ∧ CondL cs
      | some dp, _ => if dp.kind = .choice then CondL cs else leafCond o es rn dp ∧ CondL cs
      | none, _ => CondL cs
  def CondL : List BDNA → Prop
    | [] => True
    | c :: cs => Cond c ∧ CondL cs
end

theorem nodePuts_leaf (v : Val) (dp : Dp) (cs : List BDNA) (hk : dp.kind ≠ .choice) :
    nodePuts o (.mk v (some dp) cs) =
      [(keyOf o dp.name dp.id, if o.valueType == 1 then .dna (BDNA.mk v (some dp) cs).erase else .val v)] := by
  have h1 : (dp.kind == .choice) = false := by simp [hk]
  have h2 : (dp.kind != .choice) = true := by simp [hk]
  cases v <;> simp [nodePuts, h1, h2]

theorem nodePuts_choice (i : Int) (dp : Dp) (cs : List BDNA) (hk : dp.kind = .choice) :
    nodePuts o (.mk (.int i) (some dp) cs) =
      choicePuts o dp (fmtChoice o dp i (BDNA.mk (.int i) (some dp) cs).erase) := by
  have h1 : (dp.kind == .choice) = true := by simp [hk]
  simp only [nodePuts, h1, if_true, choicePuts]
  cases dp.sub <;> rfl

theorem nodePuts_nil (v : Val) (dp : Dp) (cs : List BDNA) (hk : dp.kind = .choice) (hv : ∀ i, v ≠ .int i) :
    nodePuts o (.mk v (some dp) cs) = [] := by
  have h2 : (dp.kind != .choice) = false := by simp [hk]
  cases v with
  | int i => exact absurd rfl (hv i)
  | none => simp [nodePuts, h2]
  | flt => simp [nodePuts, h2]
  | str => simp [nodePuts, h2]

mutual
  theorem reads_of_cond : ∀ (b : BDNA) (rest : List (String × DV)) (D : List (String × DE)),
      Inv es rn D (puts o b ++ rest) → (∀ e ∈ puts o b, e ∈ es) → Cond o useInts es rn b → rangesOk b = true →
      ∃ D', Reads o useInts b D D' ∧ Inv es rn D' rest
    | .mk v bound cs, rest, D, hinv, hmem, hc, hr => by
      rw [puts, List.append_assoc] at hinv
      rw [puts] at hmem
      simp only [rangesOk, Bool.and_eq_true] at hr
      have hmemL : ∀ e ∈ putsList o cs, e ∈ es := fun e he => hmem e (List.mem_append_right _ he)
      have hmemN : ∀ e ∈ nodePuts o (.mk v bound cs), e ∈ es := fun e he => hmem e (List.mem_append_left _ he)
      cases bound with
      | none =>
        have hn : nodePuts o (.mk v none cs) = [] := by cases v <;> rfl
        rw [hn, List.nil_append] at hinv
        have hc' : CondL o useInts es rn cs := by cases v <;> exact hc
        obtain ⟨D', h1, h2⟩ := readsL_of_cond cs rest D hinv hmemL hc' hr.2
        exact ⟨D', by cases v <;> exact h1, h2⟩
      | some dp =>
        by_cases hk : dp.kind = .choice
        · cases v with
          | int i =>
            rw [nodePuts_choice o i dp cs hk] at hinv hmemN
            have hc' : choiceCond o es rn dp (fmtChoice o dp i (BDNA.mk (.int i) (some dp) cs).erase) ∧
                styleOk o useInts dp.lits ∧
                (if o.valueType = 1 then ∀ e ∈ putsList o cs, ¬ isQ es rn e.1 else CondL o useInts es rn cs) := by
              have := hc
              simp only [Cond, hk, if_true] at this
              exact this
            obtain ⟨c1, c2, c3⟩ := hc'
            have hi : inRange dp.n i = true := by
              have := hr.1
              simpa [hk] using this
            obtain ⟨D1, hlook, hinv1⟩ := read_choice o es rn dp _ hinv hmemN c1
            have hstyle := choiceIndex_fmt o useInts dp i (BDNA.mk (.int i) (some dp) cs).erase hi c2
            by_cases hvt : o.valueType = 1
            · simp only [hvt, if_true] at c3
              refine ⟨D1, ?_, inv_drop es rn hinv1 c3⟩
              simp only [Reads, hk, if_true]
              exact ⟨D1, hlook, hstyle, by simp [hvt]⟩
            · simp only [hvt, if_false] at c3
              obtain ⟨D', h1, h2⟩ := readsL_of_cond cs rest D1 hinv1 hmemL c3 hr.2
              refine ⟨D', ?_, h2⟩
              simp only [Reads, hk, if_true]
              exact ⟨D1, hlook, hstyle, by simp [hvt, h1]⟩
          | none =>
            rw [nodePuts_nil o .none dp cs hk (by intro i e; cases e), List.nil_append] at hinv
            have hc' : CondL o useInts es rn cs := by
              have := hc; simp only [Cond, hk, if_true] at this; exact this
            obtain ⟨D', h1, h2⟩ := readsL_of_cond cs rest D hinv hmemL hc' hr.2
            exact ⟨D', by simp only [Reads, hk, if_true]; exact h1, h2⟩
          | flt a e =>
            rw [nodePuts_nil o (.flt a e) dp cs hk (by intro i e; cases e), List.nil_append] at hinv
            have hc' : CondL o useInts es rn cs := by
              have := hc; simp only [Cond, hk, if_true] at this; exact this
            obtain ⟨D', h1, h2⟩ := readsL_of_cond cs rest D hinv hmemL hc' hr.2
            exact ⟨D', by simp only [Reads, hk, if_true]; exact h1, h2⟩
          | str t =>
            rw [nodePuts_nil o (.str t) dp cs hk (by intro i e; cases e), List.nil_append] at hinv
            have hc' : CondL o useInts es rn cs := by
              have := hc; simp only [Cond, hk, if_true] at this; exact this
            obtain ⟨D', h1, h2⟩ := readsL_of_cond cs rest D hinv hmemL hc' hr.2
            exact ⟨D', by simp only [Reads, hk, if_true]; exact h1, h2⟩
        · rw [nodePuts_leaf o v dp cs hk] at hinv hmemN
          have hc' : leafCond o es rn dp ∧ CondL o useInts es rn cs := by
            have := hc
            cases v <;> (simp only [Cond, hk, if_false] at this; exact this)
          obtain ⟨D1, hget, hinv1⟩ := read_leaf o es rn dp _ hinv (hmemN _ List.mem_cons_self) hc'.1
          obtain ⟨D', h1, h2⟩ := readsL_of_cond cs rest D1 hinv1 hmemL hc'.2 hr.2
          refine ⟨D', ?_, h2⟩
          cases v <;> (simp only [Reads, hk, if_false]; exact ⟨D1, hget, h1⟩)
  theorem readsL_of_cond : ∀ (cs : List BDNA) (rest : List (String × DV)) (D : List (String × DE)),
      Inv es rn D (putsList o cs ++ rest) → (∀ e ∈ putsList o cs, e ∈ es) → CondL o useInts es rn cs →
      rangesOkList cs = true → ∃ D', ReadsL o useInts cs D D' ∧ Inv es rn D' rest
    | [], rest, D, hinv, _, _, _ => ⟨D, rfl, by simpa [putsList] using hinv⟩
    | c :: cs, rest, D, hinv, hmem, hc, hr => by
      rw [putsList, List.append_assoc] at hinv
      rw [putsList] at hmem
      simp only [rangesOkList, Bool.and_eq_true] at hr
      obtain ⟨D1, h1, hinv1⟩ := reads_of_cond c (putsList o cs ++ rest) D hinv
        (fun e he => hmem e (List.mem_append_left _ he)) hc.1 hr.1
      obtain ⟨D', h2, hinv2⟩ := readsL_of_cond cs rest D1 hinv1
        (fun e he => hmem e (List.mem_append_right _ he)) hc.2 hr.2
      exact ⟨D', ⟨D1, h1, h2⟩, hinv2⟩
end

end

/-- `to_dict` leaves a dictionary all decisions can be read off. -/
theorem reads_toDict (o : Opts) (useInts : Bool) (rn : List String) (b : BDNA)
    (hc : Cond o useInts (puts o b) rn b) (hr : rangesOk b = true) :
    ∃ D', Reads o useInts b (toDict o b) D' := by
  have hinv : Inv (puts o b) rn (toDict o b) (puts o b ++ []) := by
    rw [List.append_nil]
    intro K
    refine ⟨fun hq => ?_, fun _ => dictGet_toDict o b K⟩
    rw [dictGet_toDict]
    exact toDE_of_two_le _ hq.2
  obtain ⟨D', h, _⟩ := reads_of_cond o useInts (puts o b) rn b [] (toDict o b) hinv (fun e he => he) hc hr
  exact ⟨D', h⟩

/-- FROM_DICT ∘ TO_DICT, EVERY OPTION TRIPLE: `from_dict(d.to_dict(key_type, value_type,
multi_choice_key), spec) == d` under the conditions `Cond` on the keys. -/
theorem fromDict_toDict (o : Opts) (useInts : Bool) (rn : List String) (g : Spec) (hcu : g.noCustom = true)
    (d : DNA) (b : BDNA) (hv : g.valid d = true) (han : g.annot d = some b)
    (hc : Cond o useInts (puts o b) rn b) :
    g.fromDict useInts (toDict o b) = some d := by
  obtain ⟨D', h⟩ := reads_toDict o useInts rn b hc (rangesOk_annot g d b han)
  exact fromDict_of_reads o useInts g hcu d b (toDict o b) D' hv han h

/-! ### the conditions are decidable: `condB` -/

section
variable (o : Opts) (useInts : Bool) (es : List (String × DV)) (rn : List String)

theorem isQB_iff (K : String) : isQB es rn K = true ↔ isQ es rn K := by
  simp [isQB, isQ]

theorem isQB_false (K : String) : isQB es rn K = false ↔ ¬ isQ es rn K := by
  rw [← isQB_iff]; simp

theorem hasKey_false (K : String) : hasKey es K = false ↔ K ∉ es.map (·.1) := by
  simp [hasKey]

theorem leafCond_of_B (dp : Dp) (h : leafCondB o es rn dp = true) : leafCond o es rn dp := by
  unfold leafCondB at h
  unfold leafCond
  cases hr : readName o dp with
  | some nm =>
    rw [hr] at h
    simp only [Bool.and_eq_true, Bool.not_eq_true', hasKey_false] at h
    exact ⟨h.1, by simpa using h.2⟩
  | none =>
    rw [hr] at h
    simpa using h

theorem choiceCond_of_B (dp : Dp) (x : DV) (h : choiceCondB o es rn dp x = true) : choiceCond o es rn dp x := by
  unfold choiceCondB at h
  unfold choiceCond
  cases hr : readName o dp with
  | some nm =>
    rw [hr] at h
    simp only [Bool.and_eq_true, Bool.not_eq_true', hasKey_false] at h
    exact ⟨h.1, by simpa using h.2⟩
  | none =>
    rw [hr] at h
    simp only at h ⊢
    cases hs : dp.sub with
    | none => rw [hs] at h; simpa using h
    | some idx =>
      rw [hs] at h
      simp only at h ⊢
      by_cases hm : o.multi = 1
      · have hm' : (o.multi == 1) = true := by simp [hm]
        simp only [hm', if_true, Bool.and_eq_true, Bool.not_eq_true', hasKey_false, isQB_false,
          decide_eq_true_eq, beq_iff_eq] at h
        simp only [hm, if_true]
        obtain ⟨⟨⟨⟨⟨h1, h2⟩, h3⟩, h4⟩, h5⟩, h6⟩ := h
        refine ⟨h1, ?_, h3, h4, h5, h6⟩
        intro nm e
        rw [e] at h2
        simpa [hasKey] using h2
      · have hm' : (o.multi == 1) = false := by simp [hm]
        simp only [hm', Bool.false_eq_true, if_false, Bool.and_eq_true, beq_iff_eq, Bool.or_eq_true,
          Bool.not_eq_true', isQB_false] at h
        simp only [hm, if_false]
        refine ⟨h.1, fun h0 => ?_⟩
        rcases h.2 with h2 | h2
        · exact absurd h2 h0
        · exact h2

theorem styleOk_of_B (lits : Option (List Lit)) (h : styleOkB o useInts lits = true) : styleOk o useInts lits := by
  unfold styleOkB at h
  unfold styleOk
  split at h
  · rename_i h0; rw [h0]; simpa using h
  · rename_i h3
    rw [h3]
    simp only
    cases lits with
    | none => trivial
    | some ls =>
      simp only [Bool.and_eq_true, decide_eq_true_eq, List.all_eq_true] at h
      refine ⟨h.1, fun l hl => ?_⟩
      have := h.2 l hl
      cases l with
      | i v => simpa [litOkB] using this
      | s t => simpa [litOkB] using this
      | f a b => trivial
  · rename_i h0 h3
    split
    · rename_i e; exact absurd e h0
    · rename_i e; exact absurd e h3
    · trivial

mutual
  theorem cond_of_B : ∀ (b : BDNA), condB o useInts es rn b = true → Cond o useInts es rn b
    | .mk v bound cs, h => by
      cases bound with
      | none =>
        have : condLB o useInts es rn cs = true := by cases v <;> exact h
        have r := condL_of_B cs this
        cases v <;> exact r
      | some dp =>
        by_cases hk : dp.kind = .choice
        · have hkb : (dp.kind == .choice) = true := by simp [hk]
          cases v with
          | int i =>
            simp only [condB, hkb, if_true, Bool.and_eq_true] at h
            simp only [Cond, hk, if_true]
            refine ⟨choiceCond_of_B o es rn dp _ h.1.1, styleOk_of_B o useInts dp.lits h.1.2, ?_⟩
            by_cases hvt : o.valueType = 1
            · have hvb : (o.valueType == 1) = true := by simp [hvt]
              have h2 := h.2
              simp only [hvb, if_true, List.all_eq_true, Bool.not_eq_true', isQB_false] at h2
              simp only [hvt, if_true]
              exact h2
            · have hvb : (o.valueType == 1) = false := by simp [hvt]
              have h2 := h.2
              simp only [hvb, Bool.false_eq_true, if_false] at h2
              simp only [hvt, if_false]
              exact condL_of_B cs h2
          | none =>
            simp only [condB, hkb, if_true] at h
            simp only [Cond, hk, if_true]
            exact condL_of_B cs h
          | flt a e =>
            simp only [condB, hkb, if_true] at h
            simp only [Cond, hk, if_true]
            exact condL_of_B cs h
          | str t =>
            simp only [condB, hkb, if_true] at h
            simp only [Cond, hk, if_true]
            exact condL_of_B cs h
        · have hkb : (dp.kind == .choice) = false := by simp [hk]
          have h' : leafCondB o es rn dp = true ∧ condLB o useInts es rn cs = true := by
            cases v <;> (simp only [condB, hkb, Bool.false_eq_true, if_false, Bool.and_eq_true] at h; exact h)
          have r : leafCond o es rn dp ∧ CondL o useInts es rn cs :=
            ⟨leafCond_of_B o es rn dp h'.1, condL_of_B cs h'.2⟩
          cases v <;> (simp only [Cond, hk, if_false]; exact r)
  theorem condL_of_B : ∀ (cs : List BDNA), condLB o useInts es rn cs = true → CondL o useInts es rn cs
    | [], _ => trivial
    | c :: cs, h => by
      simp only [condLB, Bool.and_eq_true] at h
      exact ⟨cond_of_B c h.1, condL_of_B cs h.2⟩
end
end

/-- FROM_DICT ∘ TO_DICT with the decidable condition `dictCond` (see `PgModel/Geno/DictCond.lean`). -/
theorem fromDict_toDict_B (o : Opts) (useInts : Bool) (g : Spec) (hcu : g.noCustom = true)
    (d : DNA) (b : BDNA) (hv : g.valid d = true) (han : g.annot d = some b)
    (hc : dictCond o useInts b = true) :
    g.fromDict useInts (toDict o b) = some d :=
  fromDict_toDict o useInts (readNames o b) g hcu d b hv han (cond_of_B o useInts _ _ b hc)

end Pg.Geno
