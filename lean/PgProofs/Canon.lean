/-
  C10 — the inverse law `canonicalize (flatten v) = v`.

  Plan: `flatten v` is the list of the leaf-like nodes of `v` keyed by their printed paths
  (`rleaves`); `canonItems` inserts these one by one into an accumulator of nested one-key dicts
  (`stepIns` / `foldIns`), which rebuilds the all-dict form `dictify v` of `v`; the bottom-up
  `listifyAll` turns the int-keyed dicts `0..n-1` back into lists.
-/
import PgProofs.KeyPath
import PgProofs.Hier
namespace Pg.C10
namespace Val

/-! ### An induction principle for nested values -/

mutual
  theorem ind' {P : Val → Prop} (hleaf : ∀ a, P (.leaf a))
      (hdict : ∀ items : Items, (∀ kv ∈ items, P kv.2) → P (.dict items))
      (hlist : ∀ items : List Val, (∀ x ∈ items, P x) → P (.list items)) : ∀ v, P v
    | .leaf a => hleaf a
    | .dict items => hdict items (indItems hleaf hdict hlist items)
    | .list items => hlist items (indList hleaf hdict hlist items)
  theorem indItems {P : Val → Prop} (hleaf : ∀ a, P (.leaf a))
      (hdict : ∀ items : Items, (∀ kv ∈ items, P kv.2) → P (.dict items))
      (hlist : ∀ items : List Val, (∀ x ∈ items, P x) → P (.list items)) :
      ∀ items : Items, ∀ kv ∈ items, P kv.2
    | [], _, h => by cases h
    | (k, v) :: rest, kv, h => by
      rcases List.mem_cons.mp h with h | h
      · rw [h]; exact ind' hleaf hdict hlist v
      · exact indItems hleaf hdict hlist rest kv h
  theorem indList {P : Val → Prop} (hleaf : ∀ a, P (.leaf a))
      (hdict : ∀ items : Items, (∀ kv ∈ items, P kv.2) → P (.dict items))
      (hlist : ∀ items : List Val, (∀ x ∈ items, P x) → P (.list items)) :
      ∀ items : List Val, ∀ x ∈ items, P x
    | [], _, h => by cases h
    | v :: rest, x, h => by
      rcases List.mem_cons.mp h with h | h
      · rw [h]; exact ind' hleaf hdict hlist v
      · exact indList hleaf hdict hlist rest x h
end

/-! ### Definitions -/

/-- a list seen as the dict of its indices. -/
def enumItems : Nat → List Val → Items
  | _, [] => []
  | i, v :: rest => (.i (Int.ofNat i), v) :: enumItems (i + 1) rest

mutual
  /-- the leaf-like nodes of a value in document order, with their paths *relative* to the value. -/
  def rleaves : Val → List (Path × Val)
    | .leaf a => [([], .leaf a)]
    | .dict [] => [([], .dict [])]
    | .dict (kv :: rest) => rleavesItems (kv :: rest)
    | .list [] => [([], .list [])]
    | .list (x :: rest) => rleavesList (x :: rest) 0
  def rleavesItems : Items → List (Path × Val)
    | [] => []
    | (k, v) :: rest => (rleaves v).map (fun pv => (k :: pv.1, pv.2)) ++ rleavesItems rest
  def rleavesList : List Val → Nat → List (Path × Val)
    | [], _ => []
    | v :: rest, i => (rleaves v).map (fun pv => (.i (Int.ofNat i) :: pv.1, pv.2)) ++ rleavesList rest (i + 1)
end

mutual
  /-- the all-dict form: every non-empty list becomes the dict of its indices. -/
  def dictify : Val → Val
    | .leaf a => .leaf a
    | .dict [] => .dict []
    | .dict (kv :: rest) => .dict (dictifyItems (kv :: rest))
    | .list [] => .list []
    | .list (x :: rest) => .dict (dictifyList (x :: rest) 0)
  def dictifyItems : Items → Items
    | [] => []
    | (k, v) :: rest => (k, dictify v) :: dictifyItems rest
  def dictifyList : List Val → Nat → Items
    | [], _ => []
    | v :: rest, i => (.i (Int.ofNat i), dictify v) :: dictifyList rest (i + 1)
end

/-- Keys the flat form can express: ints; strings that are non-empty and — with the default
`flatten_complex_keys=True`, where keys are printed without brackets — free of `. [ ]`; with
`flatten_complex_keys=False`, bracket-balanced. -/
def keyOK (fck : Bool) : Key → Bool
  | .i _ => true
  | .s k => !k.isEmpty && (if fck then !hasSpecial k else bal 0 k == some 0)

mutual
  /-- CANONICAL: what `flatten` / `canonicalize` can tell apart. Dicts have distinct, expressible
  keys and are not "a list in disguise" (all keys ints forming exactly `0..n-1`); everything
  below is canonical. Empty containers and leaves are always canonical — except the missing-value
  placeholder, which `canonicalize` treats as "absent" (outside the model, see `Atom`). -/
  def canonical (fck : Bool) : Val → Bool
    | .leaf a => a != .missing
    | .dict items => !isListifiable items && canonicalItems fck items
    | .list items => canonicalList fck items
  def canonicalItems (fck : Bool) : Items → Bool
    | [] => true
    | (k, v) :: rest => !Assoc.hasKey rest k && keyOK fck k && canonical fck v && canonicalItems fck rest
  def canonicalList (fck : Bool) : List Val → Bool
    | [] => true
    | v :: rest => canonical fck v && canonicalList fck rest
end

/-! ### Lists as dicts -/

theorem rleavesList_eq : ∀ (l : List Val) (i : Nat), rleavesList l i = rleavesItems (enumItems i l) := by
  intro l
  induction l with
  | nil => intro i; rfl
  | cons v rest ih => intro i; simp [rleavesList, rleavesItems, enumItems, ih]

theorem dictifyList_eq : ∀ (l : List Val) (i : Nat), dictifyList l i = dictifyItems (enumItems i l) := by
  intro l
  induction l with
  | nil => intro i; rfl
  | cons v rest ih => intro i; simp [dictifyList, dictifyItems, enumItems, ih]

/-- the children of a container as dict items. -/
def kidsOf : Val → Items
  | .leaf _ => []
  | .dict items => items
  | .list l => enumItems 0 l

theorem rleaves_of_not_leafLike (v : Val) (h : isLeafLike v = false) : rleaves v = rleavesItems (kidsOf v) := by
  cases v with
  | leaf a => simp [isLeafLike] at h
  | dict items => cases items with
    | nil => simp [isLeafLike] at h
    | cons kv rest => simp [rleaves, kidsOf]
  | list l => cases l with
    | nil => simp [isLeafLike] at h
    | cons x rest => simp [rleaves, kidsOf, rleavesList_eq]

theorem rleaves_of_leafLike (v : Val) (h : isLeafLike v = true) : rleaves v = [([], v)] := by
  cases v with
  | leaf a => rfl
  | dict items => cases items with
    | nil => rfl
    | cons kv rest => simp [isLeafLike] at h
  | list l => cases l with
    | nil => rfl
    | cons x rest => simp [isLeafLike] at h

theorem dictify_of_not_leafLike (v : Val) (h : isLeafLike v = false) : dictify v = .dict (dictifyItems (kidsOf v)) := by
  cases v with
  | leaf a => simp [isLeafLike] at h
  | dict items => cases items with
    | nil => simp [isLeafLike] at h
    | cons kv rest => simp [dictify, kidsOf]
  | list l => cases l with
    | nil => simp [isLeafLike] at h
    | cons x rest => simp [dictify, kidsOf, dictifyList_eq]

theorem dictify_of_leafLike (v : Val) (h : isLeafLike v = true) : dictify v = v := by
  cases v with
  | leaf a => rfl
  | dict items => cases items with
    | nil => rfl
    | cons kv rest => simp [isLeafLike] at h
  | list l => cases l with
    | nil => rfl
    | cons x rest => simp [isLeafLike] at h

theorem rleaves_ne_nil : ∀ v : Val, rleaves v ≠ [] := by
  apply ind'
  · intro a; simp [rleaves]
  · intro items ih
    cases items with
    | nil => simp [rleaves]
    | cons kv rest =>
      obtain ⟨k, c⟩ := kv
      have := ih (k, c) (by simp)
      simp only [rleaves, rleavesItems]
      intro h
      rw [List.append_eq_nil_iff] at h
      exact this (by simpa using h.1)
  · intro l ih
    cases l with
    | nil => simp [rleaves]
    | cons x rest =>
      have := ih x (by simp)
      simp only [rleaves, rleavesList]
      intro h
      rw [List.append_eq_nil_iff] at h
      exact this (by simpa using h.1)

/-! ### Insertion of one path into the accumulator -/

/-- merging `nest r x` into the slot of a key. -/
def slotIns (slot : Option Val) (r : Path) (x : Val) : Except Err Val :=
  match slot with
  | none => .ok (nest r x)
  | some old => mergeTree old (nest r x)

/-- one iteration of the loop of `canonicalize` on an entry whose key parses to `p`. -/
def stepIns (d : Items) (p : Path) (x : Val) : Except Err Items :=
  match p with
  | [] => .error .key
  | k :: r =>
    match slotIns (Assoc.lookup d k) r x with
    | .ok nv => .ok (Assoc.set d k nv)
    | .error e => .error e

def foldIns : Items → List (Path × Val) → Except Err Items
  | d, [] => .ok d
  | d, (p, x) :: rest =>
    match stepIns d p x with
    | .ok d' => foldIns d' rest
    | .error e => .error e

/-- merging a sequence of nested one-key dicts into a value. -/
def foldVal : Val → List (Path × Val) → Except Err Val
  | old, [] => .ok old
  | old, (r, x) :: rest =>
    match mergeTree old (nest r x) with
    | .ok nv => foldVal nv rest
    | .error e => .error e

theorem mergeTree_dict_nest (d : Items) (k : Key) (r : Path) (x : Val) :
    mergeTree (.dict d) (nest (k :: r) x) =
      (match stepIns d (k :: r) x with
       | .ok d' => .ok (.dict d')
       | .error e => .error e) := by
  simp only [nest, mergeTree, mergeDD, stepIns, slotIns]
  cases Assoc.lookup d k with
  | none => simp [mergeDD]
  | some old =>
    simp only
    cases mergeTree old (nest r x) with
    | ok nv => simp [mergeDD]
    | error e => simp

theorem foldIns_append (d : Items) (a b : List (Path × Val)) :
    foldIns d (a ++ b) = (match foldIns d a with
      | .ok d' => foldIns d' b
      | .error e => .error e) := by
  induction a generalizing d with
  | nil => rfl
  | cons pv rest ih =>
    obtain ⟨p, x⟩ := pv
    simp only [List.cons_append, foldIns]
    cases stepIns d p x with
    | ok d' => exact ih d'
    | error e => rfl

/-- on paths that are all non-empty, merging into a dict value is insertion into its items. -/
theorem foldVal_dict (d : Items) (L : List (Path × Val)) (hne : ∀ pv ∈ L, pv.1 ≠ []) :
    foldVal (.dict d) L = (match foldIns d L with
      | .ok d' => .ok (.dict d')
      | .error e => .error e) := by
  induction L generalizing d with
  | nil => rfl
  | cons pv rest ih =>
    obtain ⟨p, x⟩ := pv
    have hp : p ≠ [] := hne (p, x) (by simp)
    cases p with
    | nil => exact absurd rfl hp
    | cons k r =>
      simp only [foldVal, foldIns, mergeTree_dict_nest]
      cases stepIns d (k :: r) x with
      | ok d' => exact ih d' (fun pv h => hne pv (by simp [h]))
      | error e => rfl

theorem set_set {α : Type} (d : List (Key × α)) (k : Key) (a b : α) :
    Assoc.set (Assoc.set d k a) k b = Assoc.set d k b := by
  induction d with
  | nil => simp [Assoc.set]
  | cons kv rest ih =>
    obtain ⟨k0, v0⟩ := kv
    simp only [Assoc.set]
    by_cases h0 : k0 = k
    · simp [h0, Assoc.set]
    · simp [h0, Assoc.set, ih]

theorem set_of_lookup_none {α : Type} (d : List (Key × α)) (k : Key) (a : α)
    (h : Assoc.lookup d k = none) : Assoc.set d k a = d ++ [(k, a)] := by
  induction d with
  | nil => rfl
  | cons kv rest ih =>
    obtain ⟨k0, v0⟩ := kv
    simp only [Assoc.lookup] at h
    by_cases h0 : k0 = k
    · simp [h0] at h
    · simp only [h0, if_false] at h
      simp [Assoc.set, h0, ih h]

theorem set_of_lookup_same {α : Type} (d : List (Key × α)) (k : Key) (a : α)
    (h : Assoc.lookup d k = some a) : Assoc.set d k a = d := by
  induction d with
  | nil => simp [Assoc.lookup] at h
  | cons kv rest ih =>
    obtain ⟨k0, v0⟩ := kv
    simp only [Assoc.lookup] at h
    by_cases h0 : k0 = k
    · simp only [h0, if_true, Option.some.injEq] at h
      subst h; simp [Assoc.set, h0]
    · simp only [h0, if_false] at h
      simp [Assoc.set, h0, ih h]

/-- inserting a batch of paths that all go through key `k`, whose slot is already occupied. -/
theorem foldIns_under_key (k : Key) : ∀ (L : List (Path × Val)) (d : Items) (old : Val),
    Assoc.lookup d k = some old →
    foldIns d (L.map (fun pv => (k :: pv.1, pv.2))) =
      (match foldVal old L with
       | .ok nv => .ok (Assoc.set d k nv)
       | .error e => .error e) := by
  intro L
  induction L with
  | nil => intro d old h; simp [foldIns, foldVal, set_of_lookup_same d k old h]
  | cons pv rest ih =>
    obtain ⟨r, x⟩ := pv
    intro d old h
    simp only [List.map_cons, foldIns, foldVal, stepIns, slotIns, h]
    cases mergeTree old (nest r x) with
    | error e => rfl
    | ok nv =>
      simp only
      rw [ih (Assoc.set d k nv) nv (by rw [Assoc.lookup_set]; simp)]
      cases foldVal nv rest with
      | ok nv' => simp [set_set]
      | error e => rfl

/-- processing the leaves of a value from an empty slot. -/
def fromEmptySlot (L : List (Path × Val)) : Except Err Val :=
  match L with
  | [] => .error .key
  | (r, x) :: rest => foldVal (nest r x) rest

/-- … inserting a first batch under a fresh key `k`. -/
theorem foldIns_fresh_key (k : Key) (L : List (Path × Val)) (d : Items)
    (h : Assoc.lookup d k = none) (hL : L ≠ []) :
    foldIns d (L.map (fun pv => (k :: pv.1, pv.2))) =
      (match fromEmptySlot L with
       | .ok nv => .ok (d ++ [(k, nv)])
       | .error e => .error e) := by
  cases L with
  | nil => exact absurd rfl hL
  | cons pv rest =>
    obtain ⟨r, x⟩ := pv
    simp only [List.map_cons, foldIns, stepIns, slotIns, h, fromEmptySlot]
    rw [foldIns_under_key k rest (Assoc.set d k (nest r x)) (nest r x) (by rw [Assoc.lookup_set]; simp)]
    cases foldVal (nest r x) rest with
    | ok nv => simp [set_set, set_of_lookup_none d k nv h]
    | error e => rfl

/-! ### Rebuilding the all-dict form -/

theorem lookup_append_none {α : Type} (d : List (Key × α)) (k k' : Key) (a : α)
    (h : Assoc.lookup d k' = none) (hk : k ≠ k') : Assoc.lookup (d ++ [(k, a)]) k' = none := by
  induction d with
  | nil => simp [Assoc.lookup, hk]
  | cons kv rest ih =>
    obtain ⟨k0, v0⟩ := kv
    simp only [Assoc.lookup] at h
    by_cases h0 : k0 = k'
    · simp [h0] at h
    · simp only [h0, if_false] at h
      simp [Assoc.lookup, h0, ih h]

theorem rleavesItems_paths_ne_nil (items : Items) : ∀ pv ∈ rleavesItems items, pv.1 ≠ [] := by
  induction items with
  | nil => intro pv h; simp [rleavesItems] at h
  | cons kv rest ih =>
    obtain ⟨k, c⟩ := kv
    intro pv h
    simp only [rleavesItems, List.mem_append, List.mem_map] at h
    rcases h with ⟨pv', _, rfl⟩ | h
    · simp
    · exact ih pv h

theorem fromEmptySlot_eq (L : List (Path × Val)) (hne : ∀ pv ∈ L, pv.1 ≠ []) (hL : L ≠ []) :
    fromEmptySlot L = foldVal (.dict []) L := by
  cases L with
  | nil => exact absurd rfl hL
  | cons pv rest =>
    obtain ⟨p, x⟩ := pv
    have hp : p ≠ [] := hne (p, x) (by simp)
    cases p with
    | nil => exact absurd rfl hp
    | cons k r =>
      simp only [fromEmptySlot, foldVal, mergeTree_dict_nest, stepIns, slotIns, Assoc.lookup, Assoc.set]
      rfl

/-- inserting the leaves of all children of a container rebuilds the children's all-dict forms,
in order (given this for each child). -/
theorem foldIns_items : ∀ (items : Items),
    (∀ kv ∈ items, fromEmptySlot (rleaves kv.2) = .ok (dictify kv.2)) →
    Assoc.nodup items = true →
    ∀ d0 : Items, (∀ kv ∈ items, Assoc.lookup d0 kv.1 = none) →
      foldIns d0 (rleavesItems items) = .ok (d0 ++ dictifyItems items) := by
  intro items
  induction items with
  | nil => intro _ _ d0 _; simp [rleavesItems, foldIns, dictifyItems]
  | cons kv rest ih =>
    obtain ⟨k, c⟩ := kv
    intro hI hn d0 hd
    simp only [Assoc.nodup, Bool.and_eq_true, Bool.not_eq_true'] at hn
    simp only [rleavesItems, foldIns_append]
    rw [foldIns_fresh_key k (rleaves c) d0 (hd (k, c) (by simp)) (rleaves_ne_nil c)]
    rw [hI (k, c) (by simp)]
    simp only [dictifyItems]
    rw [ih (fun kv h => hI kv (by simp [h])) hn.2 (d0 ++ [(k, dictify c)])]
    · simp
    · intro kv h
      apply lookup_append_none _ _ _ _ (hd kv (by simp [h]))
      intro e
      have := Assoc.lookup_isSome_of_mem rest kv.1 kv.2 h
      have h1 := hn.1
      unfold Assoc.hasKey at h1
      rw [← e, h1] at this
      cases this

theorem fromEmptySlot_items (items : Items) (hne : items ≠ [])
    (hI : ∀ kv ∈ items, fromEmptySlot (rleaves kv.2) = .ok (dictify kv.2))
    (hn : Assoc.nodup items = true) :
    fromEmptySlot (rleavesItems items) = .ok (.dict (dictifyItems items)) := by
  have hL : rleavesItems items ≠ [] := by
    cases items with
    | nil => exact absurd rfl hne
    | cons kv rest =>
      obtain ⟨k, c⟩ := kv
      simp only [rleavesItems]
      intro h
      rw [List.append_eq_nil_iff] at h
      exact rleaves_ne_nil c (by simpa using h.1)
  rw [fromEmptySlot_eq _ (rleavesItems_paths_ne_nil items) hL,
      foldVal_dict [] _ (rleavesItems_paths_ne_nil items),
      foldIns_items items hI hn [] (fun _ _ => rfl)]
  simp

theorem lookup_enumItems_lt : ∀ (l : List Val) (i j : Nat), i < j →
    Assoc.lookup (enumItems j l) (.i (Int.ofNat i)) = none := by
  intro l
  induction l with
  | nil => intro i j _; rfl
  | cons v rest ih =>
    intro i j h
    simp only [enumItems, Assoc.lookup]
    have : ¬ (Key.i (Int.ofNat j) = Key.i (Int.ofNat i)) := by
      intro e
      injection e with e
      have : (j : Int) = (i : Int) := e
      omega
    simp only [this, if_false]
    exact ih i (j + 1) (by omega)

theorem nodup_enumItems : ∀ (l : List Val) (i : Nat), Assoc.nodup (enumItems i l) = true := by
  intro l
  induction l with
  | nil => intro i; rfl
  | cons v rest ih =>
    intro i
    simp only [enumItems, Assoc.nodup, Bool.and_eq_true, Bool.not_eq_true', ih, and_true]
    unfold Assoc.hasKey
    rw [lookup_enumItems_lt rest i (i + 1) (by omega)]
    rfl

theorem mem_enumItems : ∀ (l : List Val) (i : Nat) (kv : Key × Val), kv ∈ enumItems i l → kv.2 ∈ l := by
  intro l
  induction l with
  | nil => intro i kv h; simp [enumItems] at h
  | cons v rest ih =>
    intro i kv h
    simp only [enumItems, List.mem_cons] at h
    rcases h with h | h
    · subst h; simp
    · exact List.mem_cons_of_mem _ (ih (i + 1) kv h)

theorem nodupItems_nodup : ∀ items : Items, nodupItems items = true → Assoc.nodup items = true := by
  intro items
  induction items with
  | nil => intro _; rfl
  | cons kv rest ih =>
    obtain ⟨k, c⟩ := kv
    intro h
    simp only [nodupItems, Bool.and_eq_true, Bool.not_eq_true'] at h
    simp [Assoc.nodup, h.1.1, ih h.2]

theorem nodupItems_mem : ∀ items : Items, nodupItems items = true → ∀ kv ∈ items, nodupVal kv.2 = true := by
  intro items
  induction items with
  | nil => intro _ kv h; cases h
  | cons kv0 rest ih =>
    obtain ⟨k, c⟩ := kv0
    intro h kv hm
    simp only [nodupItems, Bool.and_eq_true, Bool.not_eq_true'] at h
    rcases List.mem_cons.mp hm with e | hm
    · subst e; exact h.1.2
    · exact ih h.2 kv hm

theorem nodupList_mem : ∀ l : List Val, nodupList l = true → ∀ x ∈ l, nodupVal x = true := by
  intro l
  induction l with
  | nil => intro _ x h; cases h
  | cons v rest ih =>
    intro h x hm
    simp only [nodupList, Bool.and_eq_true] at h
    rcases List.mem_cons.mp hm with e | hm
    · subst e; exact h.1
    · exact ih h.2 x hm

/-- THE REBUILD LEMMA: inserting the leaves of `v` one by one, starting from nothing, yields the
all-dict form of `v` (for every value whose dicts have distinct keys). -/
theorem fromEmptySlot_rleaves : ∀ v : Val, nodupVal v = true → fromEmptySlot (rleaves v) = .ok (dictify v) := by
  apply ind'
  · intro a _; rfl
  · intro items ih hn
    cases items with
    | nil => rfl
    | cons kv rest =>
      simp only [nodupVal] at hn
      have := fromEmptySlot_items (kv :: rest) (by simp)
        (fun kv' h => ih kv' h (nodupItems_mem _ hn kv' h)) (nodupItems_nodup _ hn)
      simpa [rleaves, dictify] using this
  · intro l ih hn
    cases l with
    | nil => rfl
    | cons x rest =>
      simp only [nodupVal] at hn
      have := fromEmptySlot_items (enumItems 0 (x :: rest)) (by simp [enumItems])
        (fun kv' h => ih kv'.2 (mem_enumItems _ _ kv' h) (nodupList_mem _ hn kv'.2 (mem_enumItems _ _ kv' h)))
        (nodup_enumItems _ _)
      simpa [rleaves, dictify, rleavesList_eq, dictifyList_eq] using this

/-! ### `canonItems` on printed paths is `foldIns` -/

theorem canonicalize_leafLike (dc : DigitClass) (x : Val) (h : isLeafLike x = true) :
    canonicalize dc x = .ok x := by
  cases x with
  | leaf a => rfl
  | dict items => cases items with
    | nil => rfl
    | cons kv rest => simp [isLeafLike] at h
  | list l => cases l with
    | nil => rfl
    | cons y rest => simp [isLeafLike] at h

theorem canonItems_step {dc : DigitClass} (hdc : DigitLaws dc) (p : Path) (x : Val) (rest acc : Items)
    (hw : wfKeys p = true) (hx : isLeafLike x = true) :
    canonItems dc ((.s (pathStr p), x) :: rest) acc =
      (match stepIns acc p x with
       | .ok acc' => canonItems dc rest acc'
       | .error e => .error e) := by
  have hp := parse_pathStr hdc p hw
  have hc := canonicalize_leafLike dc x hx
  cases p with
  | nil => simp [canonItems, hp, stepIns]
  | cons k1 r =>
    cases r with
    | nil =>
      simp only [canonItems, hp, hc, stepIns, slotIns, nest]
      cases Assoc.lookup acc k1 with
      | none => rfl
      | some old =>
        simp only
        cases mergeTree old x <;> rfl
    | cons k2 more =>
      simp only [canonItems, hp, hc, mergeTree_dict_nest]
      cases stepIns acc (k1 :: k2 :: more) x <;> rfl

theorem canonItems_fold {dc : DigitClass} (hdc : DigitLaws dc) : ∀ (L : List (Path × Val)) (acc : Items),
    (∀ pv ∈ L, wfKeys pv.1 = true ∧ isLeafLike pv.2 = true) →
    canonItems dc (L.map (fun pv => (Key.s (pathStr pv.1), pv.2))) acc = foldIns acc L := by
  intro L
  induction L with
  | nil => intro acc _; rfl
  | cons pv rest ih =>
    obtain ⟨p, x⟩ := pv
    intro acc h
    have h0 := h (p, x) (by simp)
    simp only [List.map_cons, foldIns]
    rw [canonItems_step hdc p x _ acc h0.1 h0.2]
    cases stepIns acc p x with
    | ok acc' => exact ih acc' (fun pv hm => h pv (by simp [hm]))
    | error e => rfl

/-! ### `listifyAll` undoes `dictify` -/

/-- `[(i, v0), (i+1, v1), …]`. -/
def enumZ : Int → List Val → List (Int × Val)
  | _, [] => []
  | i, v :: rest => (i, v) :: enumZ (i + 1) rest

theorem intItems_enumItems : ∀ (l : List Val) (i : Nat), intItems (enumItems i l) = some (enumZ (Int.ofNat i) l) := by
  intro l
  induction l with
  | nil => intro i; rfl
  | cons v rest ih =>
    intro i
    have h := ih (i + 1)
    unfold intItems at h ⊢
    simp only [enumItems, List.mapM_cons]
    rw [h]
    rfl

theorem enumZ_length : ∀ (l : List Val) (i : Int), (enumZ i l).length = l.length := by
  intro l
  induction l with
  | nil => intro i; rfl
  | cons v rest ih => intro i; simp [enumZ, ih]

theorem sortInts_enumZ : ∀ (l : List Val) (i : Int), sortInts ((enumZ i l).map (·.1)) = (enumZ i l).map (·.1) := by
  intro l
  induction l with
  | nil => intro i; rfl
  | cons v rest ih =>
    intro i
    have h := ih (i + 1)
    unfold sortInts at h ⊢
    simp only [enumZ, List.map_cons, List.foldr_cons, h]
    cases rest with
    | nil => rfl
    | cons w rest' =>
      simp only [enumZ, List.map_cons, insertInt]
      have : i ≤ i + 1 := by omega
      simp [this]

theorem enumZ_head (l : List Val) (i : Int) (h : l ≠ []) : ((enumZ i l).map (·.1)).head? = some i := by
  cases l with
  | nil => exact absurd rfl h
  | cons v rest => rfl

theorem enumZ_getLast : ∀ (l : List Val) (i : Int), l ≠ [] →
    ((enumZ i l).map (·.1)).getLast? = some (i + (Int.ofNat l.length - 1)) := by
  intro l
  induction l with
  | nil => intro i h; exact absurd rfl h
  | cons v rest ih =>
    intro i _
    cases rest with
    | nil =>
      simp only [enumZ, List.map_cons, List.map_nil, List.getLast?_singleton, List.length_singleton]
      congr 1
      show i = i + (((1 : Nat) : Int) - 1)
      omega
    | cons w rest' =>
      have := ih (i + 1) (by simp)
      simp only [enumZ, List.map_cons] at this ⊢
      rw [List.getLast?_cons_cons, this]
      congr 1
      simp only [List.length_cons]
      show i + 1 + (((rest'.length + 1 : Nat) : Int) - 1) = i + (((rest'.length + 1 + 1 : Nat) : Int) - 1)
      omega

theorem listified_enumZ : ∀ (l : List Val) (i : Int) (pre : List (Int × Val)), (∀ p ∈ pre, p.1 < i) →
    ((enumZ i l).map (·.1)).filterMap
      (fun z => ((pre ++ enumZ i l).find? (fun p => p.1 == z)).map (·.2)) = l := by
  intro l
  induction l with
  | nil => intro i pre _; rfl
  | cons v rest ih =>
    intro i pre hpre
    have hnone : pre.find? (fun p => p.1 == i) = none := by
      rw [List.find?_eq_none]
      intro p hp
      have := hpre p hp
      simp only [beq_iff_eq]
      omega
    simp only [enumZ, List.map_cons, List.filterMap_cons]
    have hfind : ((pre ++ (i, v) :: enumZ (i + 1) rest).find? (fun p => p.1 == i)) = some (i, v) := by
      rw [List.find?_append, hnone]
      simp
    rw [hfind]
    simp only [Option.map_some]
    have := ih (i + 1) (pre ++ [(i, v)]) (by
      intro p hp
      rcases List.mem_append.mp hp with hp | hp
      · have := hpre p hp; omega
      · simp only [List.mem_singleton] at hp; subst hp; show i < i + 1; omega)
    rw [List.append_assoc] at this
    simp only [List.singleton_append] at this
    rw [this]

theorem tryListify_enumItems (l : List Val) (h : l ≠ []) : tryListify (enumItems 0 l) = .list l := by
  have hz := intItems_enumItems l 0
  have hlen := enumZ_length l (Int.ofNat 0)
  have hL : isListifiable (enumItems 0 l) = true := by
    unfold isListifiable
    rw [hz]
    simp only [sortInts_enumZ, enumZ_head l _ h, enumZ_getLast l _ h, hlen]
    cases l with
    | nil => exact absurd rfl h
    | cons v rest =>
      simp only [enumZ, List.isEmpty_cons, Bool.not_false, Bool.true_and, Bool.and_eq_true, beq_iff_eq]
      constructor
      · rfl
      · congr 1
        show ((0 : Nat) : Int) + _ = _
        omega
  unfold tryListify
  rw [hL, hz]
  simp only [if_true]
  congr 1
  unfold listifiedValues
  rw [sortInts_enumZ]
  exact listified_enumZ l _ [] (fun _ h => by cases h)

theorem listifyItems_dictifyItems : ∀ items : Items,
    (∀ kv ∈ items, listifyAll (dictify kv.2) = kv.2) → listifyItems (dictifyItems items) = items := by
  intro items
  induction items with
  | nil => intro _; rfl
  | cons kv rest ih =>
    obtain ⟨k, c⟩ := kv
    intro h
    simp only [dictifyItems, listifyItems]
    rw [h (k, c) (by simp), ih (fun kv hm => h kv (by simp [hm]))]

theorem canonicalItems_mem (fck : Bool) : ∀ items : Items, canonicalItems fck items = true →
    ∀ kv ∈ items, canonical fck kv.2 = true ∧ keyOK fck kv.1 = true := by
  intro items
  induction items with
  | nil => intro _ kv h; cases h
  | cons kv0 rest ih =>
    obtain ⟨k, c⟩ := kv0
    intro h kv hm
    simp only [canonicalItems, Bool.and_eq_true, Bool.not_eq_true'] at h
    rcases List.mem_cons.mp hm with e | hm
    · subst e; exact ⟨h.1.2, h.1.1.2⟩
    · exact ih h.2 kv hm

theorem canonicalList_mem (fck : Bool) : ∀ l : List Val, canonicalList fck l = true →
    ∀ x ∈ l, canonical fck x = true := by
  intro l
  induction l with
  | nil => intro _ x h; cases h
  | cons v rest ih =>
    intro h x hm
    simp only [canonicalList, Bool.and_eq_true] at h
    rcases List.mem_cons.mp hm with e | hm
    · subst e; exact h.1
    · exact ih h.2 x hm

theorem listifyAll_dictify (fck : Bool) : ∀ v : Val, canonical fck v = true → listifyAll (dictify v) = v := by
  apply ind'
  · intro a _; rfl
  · intro items ih hc
    cases items with
    | nil => rfl
    | cons kv rest =>
      simp only [canonical, Bool.and_eq_true, Bool.not_eq_true'] at hc
      simp only [dictify, listifyAll]
      rw [listifyItems_dictifyItems _ (fun kv' h => ih kv' h (canonicalItems_mem fck _ hc.2 kv' h).1)]
      unfold tryListify
      simp [hc.1]
  · intro l ih hc
    cases l with
    | nil => rfl
    | cons x rest =>
      simp only [canonical] at hc
      simp only [dictify, listifyAll, dictifyList_eq]
      rw [listifyItems_dictifyItems _ (fun kv' h =>
        ih kv'.2 (mem_enumItems _ _ kv' h) (canonicalList_mem fck _ hc kv'.2 (mem_enumItems _ _ kv' h)))]
      exact tryListify_enumItems (x :: rest) (by simp)

/-! ### The flatten side -/

theorem nodup_map_on {α β : Type} (f : α → β) : ∀ (l : List α),
    (∀ a ∈ l, ∀ b ∈ l, f a = f b → a = b) → l.Nodup → (l.map f).Nodup := by
  intro l
  induction l with
  | nil => intro _ _; simp
  | cons x rest ih =>
    intro hinj hn
    rw [List.nodup_cons] at hn
    simp only [List.map_cons, List.nodup_cons]
    refine ⟨?_, ih (fun a ha b hb e => hinj a (by simp [ha]) b (by simp [hb]) e) hn.2⟩
    intro hm
    obtain ⟨y, hy, e⟩ := List.mem_map.mp hm
    have := hinj y (by simp [hy]) x (by simp) e
    subst this
    exact hn.1 hy

theorem filter_visitsPostItems (items : Items)
    (ih : ∀ kv ∈ items, ∀ pre, (visitsPost kv.2 pre).filter (fun pv => isLeafLike pv.2) =
      (rleaves kv.2).map (fun pv => (pre ++ pv.1, pv.2))) :
    ∀ pre, (visitsPostItems items pre).filter (fun pv => isLeafLike pv.2) =
      (rleavesItems items).map (fun pv => (pre ++ pv.1, pv.2)) := by
  induction items with
  | nil => intro pre; rfl
  | cons kv rest ihl =>
    obtain ⟨k, c⟩ := kv
    intro pre
    simp only [visitsPostItems, rleavesItems, List.filter_append, List.map_append, List.map_map]
    rw [ih (k, c) (by simp) (pre ++ [k]), ihl (fun kv h => ih kv (by simp [h])) pre]
    congr 1
    apply List.map_congr_left
    intro pv _
    simp

theorem filter_visitsPostList (items : List Val)
    (ih : ∀ x ∈ items, ∀ pre, (visitsPost x pre).filter (fun pv => isLeafLike pv.2) =
      (rleaves x).map (fun pv => (pre ++ pv.1, pv.2))) :
    ∀ pre i, (visitsPostList items pre i).filter (fun pv => isLeafLike pv.2) =
      (rleavesList items i).map (fun pv => (pre ++ pv.1, pv.2)) := by
  induction items with
  | nil => intro pre i; rfl
  | cons x rest ihl =>
    intro pre i
    simp only [visitsPostList, rleavesList, List.filter_append, List.map_append, List.map_map]
    rw [ih x (by simp) (pre ++ [Key.i ((i : Nat) : Int)]), ihl (fun y h => ih y (by simp [h])) pre (i + 1)]
    congr 1
    apply List.map_congr_left
    intro pv _
    simp

/-- the leaf-like visits of the post-order walk are the leaves, in order. -/
theorem filter_visitsPost : ∀ (v : Val) (pre : Path),
    (visitsPost v pre).filter (fun pv => isLeafLike pv.2) = (rleaves v).map (fun pv => (pre ++ pv.1, pv.2)) := by
  apply ind'
  · intro a pre; simp [visitsPost, rleaves, isLeafLike]
  · intro items ih pre
    cases items with
    | nil => simp [visitsPost, visitsPostItems, rleaves, isLeafLike]
    | cons kv rest =>
      simp only [visitsPost, List.filter_append, filter_visitsPostItems (kv :: rest) ih pre, rleaves]
      simp [isLeafLike]
  · intro l ih pre
    cases l with
    | nil => simp [visitsPost, visitsPostList, rleaves, isLeafLike]
    | cons x rest =>
      simp only [visitsPost, List.filter_append, filter_visitsPostList (x :: rest) ih pre 0, rleaves]
      simp [isLeafLike]

theorem rleavesItems_head (items : Items) : ∀ pv ∈ rleavesItems items, ∃ kv ∈ items, ∃ r, pv.1 = kv.1 :: r := by
  induction items with
  | nil => intro pv h; simp [rleavesItems] at h
  | cons kv rest ih =>
    obtain ⟨k, c⟩ := kv
    intro pv h
    simp only [rleavesItems, List.mem_append, List.mem_map] at h
    rcases h with ⟨pv', _, rfl⟩ | h
    · exact ⟨(k, c), by simp, pv'.1, rfl⟩
    · obtain ⟨kv, hm, r, hr⟩ := ih pv h
      exact ⟨kv, by simp [hm], r, hr⟩

theorem nodup_rleavesItems (items : Items)
    (ih : ∀ kv ∈ items, ((rleaves kv.2).map (·.1)).Nodup) (hn : Assoc.nodup items = true) :
    ((rleavesItems items).map (·.1)).Nodup := by
  induction items with
  | nil => simp [rleavesItems]
  | cons kv rest ihl =>
    obtain ⟨k, c⟩ := kv
    simp only [Assoc.nodup, Bool.and_eq_true, Bool.not_eq_true'] at hn
    simp only [rleavesItems, List.map_append, List.map_map]
    rw [List.nodup_append]
    refine ⟨?_, ihl (fun kv h => ih kv (by simp [h])) hn.2, ?_⟩
    · have h0 := ih (k, c) (by simp)
      have : (List.map ((fun x => x.1) ∘ fun pv : Path × Val => (k :: pv.1, pv.2)) (rleaves c)) =
          ((rleaves c).map (·.1)).map (fun r => k :: r) := by
        simp [List.map_map]
      rw [this]
      exact nodup_map_on _ _ (fun a _ b _ e => by injection e) h0
    · intro a ha b hb e
      simp only [List.mem_map, Function.comp] at ha hb
      obtain ⟨pv, _, rfl⟩ := ha
      obtain ⟨pw, hw, rfl⟩ := hb
      obtain ⟨kv, hm, r, hr⟩ := rleavesItems_head rest pw hw
      rw [hr] at e
      injection e with e1 _
      have h1 := hn.1
      unfold Assoc.hasKey at h1
      have := Assoc.lookup_isSome_of_mem rest kv.1 kv.2 hm
      rw [← e1, h1] at this
      cases this

/-- no leaf path occurs twice. -/
theorem nodup_rleaves : ∀ v : Val, nodupVal v = true → ((rleaves v).map (·.1)).Nodup := by
  apply ind'
  · intro a _; simp [rleaves]
  · intro items ih hn
    cases items with
    | nil => simp [rleaves]
    | cons kv rest =>
      simp only [nodupVal] at hn
      simp only [rleaves]
      exact nodup_rleavesItems _ (fun kv' h => ih kv' h (nodupItems_mem _ hn kv' h)) (nodupItems_nodup _ hn)
  · intro l ih hn
    cases l with
    | nil => simp [rleaves]
    | cons x rest =>
      simp only [nodupVal] at hn
      simp only [rleaves, rleavesList_eq]
      exact nodup_rleavesItems _
        (fun kv' h => ih kv'.2 (mem_enumItems _ _ kv' h) (nodupList_mem _ hn kv'.2 (mem_enumItems _ _ kv' h)))
        (nodup_enumItems _ _)

/-- all keys of a path are expressible. -/
def keysOK (fck : Bool) (p : Path) : Bool := p.all (keyOK fck)

theorem canonical_nodupVal (fck : Bool) : ∀ v : Val, canonical fck v = true → nodupVal v = true := by
  apply ind'
  · intro a _; rfl
  · intro items ih hc
    simp only [canonical, Bool.and_eq_true, Bool.not_eq_true'] at hc
    have hc2 := hc.2
    clear hc
    simp only [nodupVal]
    induction items with
    | nil => rfl
    | cons kv rest ihl =>
      obtain ⟨k, c⟩ := kv
      simp only [canonicalItems, Bool.and_eq_true, Bool.not_eq_true'] at hc2
      simp only [nodupItems, Bool.and_eq_true, Bool.not_eq_true']
      exact ⟨⟨hc2.1.1.1, ih (k, c) (by simp) hc2.1.2⟩, ihl (fun kv h => ih kv (by simp [h])) hc2.2⟩
  · intro l ih hc
    simp only [canonical] at hc
    simp only [nodupVal]
    induction l with
    | nil => rfl
    | cons x rest ihl =>
      simp only [canonicalList, Bool.and_eq_true] at hc
      simp only [nodupList, Bool.and_eq_true]
      exact ⟨ih x (by simp) hc.1, ihl (fun y h => ih y (by simp [h])) hc.2⟩

theorem rleavesItems_ok (fck : Bool) (items : Items)
    (ih : ∀ kv ∈ items, ∀ pv ∈ rleaves kv.2, keysOK fck pv.1 = true ∧ isLeafLike pv.2 = true)
    (hk : ∀ kv ∈ items, keyOK fck kv.1 = true) :
    ∀ pv ∈ rleavesItems items, keysOK fck pv.1 = true ∧ isLeafLike pv.2 = true := by
  induction items with
  | nil => intro pv h; simp [rleavesItems] at h
  | cons kv rest ihl =>
    obtain ⟨k, c⟩ := kv
    intro pv h
    simp only [rleavesItems, List.mem_append, List.mem_map] at h
    rcases h with ⟨pv', hm, rfl⟩ | h
    · have := ih (k, c) (by simp) pv' hm
      have hk0 := hk (k, c) (by simp)
      simp only [keysOK, List.all_cons, Bool.and_eq_true] at this ⊢
      exact ⟨⟨hk0, this.1⟩, this.2⟩
    · exact ihl (fun kv hm => ih kv (by simp [hm])) (fun kv hm => hk kv (by simp [hm])) pv h

theorem keyOK_enumItems (fck : Bool) : ∀ (l : List Val) (i : Nat), ∀ kv ∈ enumItems i l, keyOK fck kv.1 = true := by
  intro l
  induction l with
  | nil => intro i kv h; simp [enumItems] at h
  | cons v rest ih =>
    intro i kv h
    simp only [enumItems, List.mem_cons] at h
    rcases h with h | h
    · subst h; rfl
    · exact ih (i + 1) kv h

/-- leaves of a canonical value: expressible paths, leaf-like values. -/
theorem rleaves_ok (fck : Bool) : ∀ v : Val, canonical fck v = true →
    ∀ pv ∈ rleaves v, keysOK fck pv.1 = true ∧ isLeafLike pv.2 = true := by
  apply ind'
  · intro a _ pv h
    simp only [rleaves, List.mem_singleton] at h
    subst h; exact ⟨rfl, rfl⟩
  · intro items ih hc pv h
    cases items with
    | nil =>
      simp only [rleaves, List.mem_singleton] at h
      subst h; exact ⟨rfl, rfl⟩
    | cons kv rest =>
      simp only [canonical, Bool.and_eq_true, Bool.not_eq_true'] at hc
      simp only [rleaves] at h
      exact rleavesItems_ok fck _
        (fun kv' hm => ih kv' hm (canonicalItems_mem fck _ hc.2 kv' hm).1)
        (fun kv' hm => (canonicalItems_mem fck _ hc.2 kv' hm).2) pv h
  · intro l ih hc pv h
    cases l with
    | nil =>
      simp only [rleaves, List.mem_singleton] at h
      subst h; exact ⟨rfl, rfl⟩
    | cons x rest =>
      simp only [canonical] at hc
      simp only [rleaves, rleavesList_eq] at h
      exact rleavesItems_ok fck _
        (fun kv' hm => ih kv'.2 (mem_enumItems _ _ kv' hm) (canonicalList_mem fck _ hc kv'.2 (mem_enumItems _ _ kv' hm)))
        (keyOK_enumItems fck _ _) pv h

theorem keyOK_wfKey (fck : Bool) (k : Key) (h : keyOK fck k = true) : wfKey k = true := by
  cases k with
  | i z => rfl
  | s name =>
    simp only [keyOK, Bool.and_eq_true, Bool.not_eq_true'] at h
    simp only [wfKey, Bool.and_eq_true, Bool.not_eq_true']
    refine ⟨h.1, ?_⟩
    cases fck with
    | false => simpa using h.2
    | true =>
      have : hasSpecial name = false := by simpa using h.2
      simp [bal_of_not_special 0 name this]

theorem keysOK_wfKeys (fck : Bool) (p : Path) (h : keysOK fck p = true) : wfKeys p = true := by
  unfold keysOK at h
  unfold wfKeys
  rw [List.all_eq_true] at h ⊢
  intro k hk
  exact keyOK_wfKey fck k (h k hk)

theorem keySeg_pc (fck : Bool) (first : Bool) (k : Key) (h : keyOK fck k = true) :
    keySeg (!fck) first k = keySeg true first k := by
  cases fck with
  | false => rfl
  | true =>
    cases k with
    | i z => rfl
    | s name =>
      simp only [keyOK, Bool.and_eq_true, Bool.not_eq_true'] at h
      have : hasSpecial name = false := by simpa using h.2
      simp [keySeg, this]

theorem segs_pc (fck : Bool) : ∀ (p : Path) (first : Bool), keysOK fck p = true →
    segs (!fck) first p = segs true first p := by
  intro p
  induction p with
  | nil => intro _ _; rfl
  | cons k rest ih =>
    intro first h
    simp only [keysOK, List.all_cons, Bool.and_eq_true] at h
    simp only [segs, keySeg_pc fck first k h.1]
    rw [ih false h.2]

/-- on expressible paths both printing modes of `flatten` print `str(path)`. -/
theorem pathStrPc_eq (fck : Bool) (p : Path) (h : keysOK fck p = true) : pathStrPc (!fck) p = pathStr p :=
  segs_pc fck p true h

theorem foldl_set_fresh {β : Type} (f : β → Key) (g : β → Val) : ∀ (L : List β) (acc : Items),
    (L.map f).Nodup → (∀ b ∈ L, Assoc.lookup acc (f b) = none) →
    L.foldl (fun acc b => Assoc.set acc (f b) (g b)) acc = acc ++ L.map (fun b => (f b, g b)) := by
  intro L
  induction L with
  | nil => intro acc _ _; simp
  | cons b rest ih =>
    intro acc hn hf
    simp only [List.map_cons, List.nodup_cons] at hn
    simp only [List.foldl_cons]
    rw [set_of_lookup_none acc (f b) (g b) (hf b (by simp))]
    rw [ih _ hn.2]
    · simp
    · intro b' hb'
      apply lookup_append_none _ _ _ _ (hf b' (by simp [hb']))
      intro e
      exact hn.1 (by rw [e]; exact List.mem_map_of_mem hb')

/-- `flatten` of a canonical container: the leaves keyed by `str(path)`. -/
theorem flatten_eq (fck : Bool) (v : Val) (hc : canonical fck v = true) (hl : isLeafLike v = false) :
    flatten fck v = .dict ((rleaves v).map (fun pv => (Key.s (pathStr pv.1), pv.2))) := by
  have hok := rleaves_ok fck v hc
  have hne : ∀ pv ∈ rleaves v, pv.1 ≠ [] := by
    rw [rleaves_of_not_leafLike v hl]
    exact rleavesItems_paths_ne_nil _
  have hfilter : (visitsPost v []).filter (fun pv => !pv.1.isEmpty && isLeafLike pv.2) = rleaves v := by
    have h1 := filter_visitsPost v []
    simp only [List.nil_append] at h1
    have h2 : (rleaves v).map (fun pv => (pv.1, pv.2)) = rleaves v := by simp
    rw [h2] at h1
    rw [← h1]
    apply List.filter_congr
    intro pv hpv
    by_cases hx : isLeafLike pv.2 = true
    · have : pv ∈ rleaves v := by
        rw [← h1]; exact List.mem_filter.mpr ⟨hpv, by simpa using hx⟩
      have := hne pv this
      cases hp : pv.1 with
      | nil => exact absurd hp this
      | cons _ _ => simp [hx]
    · simp [hx]
  unfold flatten
  simp only [hl, Bool.false_eq_true, if_false, hfilter]
  congr 1
  have hkeys : ∀ pv ∈ rleaves v, Key.s (pathStrPc (!fck) pv.1) = Key.s (pathStr pv.1) := by
    intro pv h; rw [pathStrPc_eq fck pv.1 (hok pv h).1]
  have hfold : (rleaves v).foldl (fun acc pv => Assoc.set acc (Key.s (pathStrPc (!fck) pv.1)) pv.2) [] =
      (rleaves v).foldl (fun acc pv => Assoc.set acc (Key.s (pathStr pv.1)) pv.2) [] := by
    generalize ([] : Items) = acc
    have : ∀ (L : List (Path × Val)) (acc : Items), (∀ pv ∈ L, Key.s (pathStrPc (!fck) pv.1) = Key.s (pathStr pv.1)) →
        L.foldl (fun acc pv => Assoc.set acc (Key.s (pathStrPc (!fck) pv.1)) pv.2) acc =
        L.foldl (fun acc pv => Assoc.set acc (Key.s (pathStr pv.1)) pv.2) acc := by
      intro L
      induction L with
      | nil => intro _ _; rfl
      | cons b rest ih =>
        intro acc h
        simp only [List.foldl_cons, h b (by simp)]
        exact ih _ (fun pv hm => h pv (by simp [hm]))
    exact this _ acc hkeys
  rw [hfold, foldl_set_fresh (fun pv : Path × Val => Key.s (pathStr pv.1)) (fun pv => pv.2) (rleaves v) []]
  · simp
  · -- printed keys are distinct: paths are distinct and printing is injective on WF paths
    have hnd := nodup_rleaves v (canonical_nodupVal fck v hc)
    have : (rleaves v).map (fun pv => Key.s (pathStr pv.1)) = ((rleaves v).map (·.1)).map (fun p => Key.s (pathStr p)) := by
      simp [List.map_map]
    rw [this]
    apply nodup_map_on _ _ _ hnd
    intro a ha b hb e
    simp only [List.mem_map] at ha hb
    obtain ⟨pa, hpa, rfl⟩ := ha
    obtain ⟨pb, hpb, rfl⟩ := hb
    injection e with e
    have h1 := parse_pathStr asciiClass_laws pa.1 (keysOK_wfKeys fck _ (hok pa hpa).1)
    have h2 := parse_pathStr asciiClass_laws pb.1 (keysOK_wfKeys fck _ (hok pb hpb).1)
    rw [e, h2] at h1
    injection h1 with h1
    exact h1.symm
  · intro _ _; rfl

/-- THE INVERSE LAW. -/
theorem canonicalize_flatten {dc : DigitClass} (hdc : DigitLaws dc) (fck : Bool) (v : Val)
    (hc : canonical fck v = true) : canonicalize dc (flatten fck v) = .ok v := by
  by_cases hl : isLeafLike v = true
  · have : flatten fck v = v := by simp [flatten, hl]
    rw [this]
    exact canonicalize_leafLike dc v hl
  · have hl' : isLeafLike v = false := by simpa using hl
    have hn := canonical_nodupVal fck v hc
    rw [flatten_eq fck v hc hl']
    simp only [canonicalize]
    rw [canonItems_fold hdc (rleaves v) [] (fun pv h =>
      ⟨keysOK_wfKeys fck _ (rleaves_ok fck v hc pv h).1, (rleaves_ok fck v hc pv h).2⟩)]
    have hrb := fromEmptySlot_rleaves v hn
    have hne : ∀ pv ∈ rleaves v, pv.1 ≠ [] := by
      rw [rleaves_of_not_leafLike v hl']
      exact rleavesItems_paths_ne_nil _
    rw [fromEmptySlot_eq _ hne (rleaves_ne_nil v), foldVal_dict [] _ hne] at hrb
    cases hf : foldIns [] (rleaves v) with
    | error e => rw [hf] at hrb; cases hrb
    | ok cd =>
      rw [hf] at hrb
      simp only [Except.ok.injEq] at hrb
      simp only [hrb]
      rw [listifyAll_dictify fck v hc]

end Val
end Pg.C10
