/-
  C10 — the inverse law `canonicalize (flatten v) = v`.

  Plan: `flatten v` is the list of the leaf-like nodes of `v` keyed by their printed paths
  (`rleaves`); `canonItems` inserts these one by one into an accumulator of nested one-key dicts
  (`stepIns` / `foldIns`), which rebuilds the all-dict form `dictify v` of `v`; the bottom-up
  `listifyAll` turns the int-keyed dicts `0..n-1` back into lists.
-/
import PgProofs.KeyPath
import PgProofs.Hier
namespace Pg.C10
namespace Val

/-! ### An induction principle for nested values -/

mutual
  theorem ind' {P : Val → Prop} (hleaf : ∀ a, P (.leaf a))
      (hdict : ∀ items : Items, (∀ kv ∈ items, P kv.2) → P (.dict items))
      (hlist : ∀ items : List Val, (∀ x ∈ items, P x) → P (.list items)) : ∀ v, P v
    | .leaf a => hleaf a
    | .dict items => hdict items (indItems hleaf hdict hlist items)
    | .list items => hlist items (indList hleaf hdict hlist items)
  theorem indItems {P : Val → Prop} (hleaf : ∀ a, P (.leaf a))
      (hdict : ∀ items : Items, (∀ kv ∈ items, P kv.2) → P (.dict items))
      (hlist : ∀ items : List Val, (∀ x ∈ items, P x) → P (.list items)) :
      ∀ items : Items, ∀ kv ∈ items, P kv.2
    | [], _, h => by cases h
    | (k, v) :: rest, kv, h => by
      rcases List.mem_cons.mp h with h | h
      · rw [h]; exact ind' hleaf hdict hlist v
      · exact indItems hleaf hdict hlist rest kv h
  theorem indList {P : Val → Prop} (hleaf : ∀ a, P (.leaf a))
      (hdict : ∀ items : Items, (∀ kv ∈ items, P kv.2) → P (.dict items))
      (hlist : ∀ items : List Val, (∀ x ∈ items, P x) → P (.list items)) :
      ∀ items : List Val, ∀ x ∈ items, P x
    | [], _, h => by cases h
    | v :: rest, x, h => by
      rcases List.mem_cons.mp h with h | h
      · rw [h]; exact ind' hleaf hdict hlist v
      · exact indList hleaf hdict hlist rest x h
end

/-! ### Definitions -/

/-- a list seen as the dict of its indices. -/
def enumItems : Nat → List Val → Items
  | _, [] => []
  | i, v :: rest => (.i (Int.ofNat i), v) :: enumItems (i + 1) rest

mutual
  /-- the leaf-like nodes of a value in document order, with their paths *relative* to the value. -/
  def rleaves : Val → List (Path × Val)
    | .leaf a => [([], .leaf a)]
    | .dict [] => [([], .dict [])]
    | .dict (kv :: rest) => rleavesItems (kv :: rest)
    | .list [] => [([], .list [])]
    | .list (x :: rest) => rleavesList (x :: rest) 0
  def rleavesItems : Items → List (Path × Val)
    | [] => []
    | (k, v) :: rest => (rleaves v).map (fun pv => (k :: pv.1, pv.2)) ++ rleavesItems rest
  def rleavesList : List Val → Nat → List (Path × Val)
    | [], _ => []
    | v :: rest, i => (rleaves v).map (fun pv => (.i (Int.ofNat i) :: pv.1, pv.2)) ++ rleavesList rest (i + 1)
end

mutual
  /-- the all-dict form: every non-empty list becomes the dict of its indices. -/
  def dictify : Val → Val
    | .leaf a => .leaf a
    | .dict [] => .dict []
    | .dict (kv :: rest) => .dict (dictifyItems (kv :: rest))
    | .list [] => .list []
    | .list (x :: rest) => .dict (dictifyList (x :: rest) 0)
  def dictifyItems : Items → Items
    | [] => []
    | (k, v) :: rest => (k, dictify v) :: dictifyItems rest
  def dictifyList : List Val → Nat → Items
    | [], _ => []
    | v :: rest, i => (.i (Int.ofNat i), dictify v) :: dictifyList rest (i + 1)
end

/-- Keys the flat form can express: ints; strings that are non-empty and — with the default
`flatten_complex_keys=True`, where keys are printed without brackets — free of `. [ ]`; with
`flatten_complex_keys=False`, bracket-balanced. -/
def keyOK (fck : Bool) : Key → Bool
  | .i _ => true
  | .s k => !k.isEmpty && (if fck then !hasSpecial k else bal 0 k == some 0)

mutual
  /-- CANONICAL: what `flatten` / `canonicalize` can tell apart. Dicts have distinct, expressible
  keys and are not "a list in disguise" (all keys ints forming exactly `0..n-1`); everything
  below is canonical. Empty containers and leaves are always canonical. -/
  def canonical (fck : Bool) : Val → Bool
    | .leaf _ => true
    | .dict items => !isListifiable items && canonicalItems fck items
    | .list items => canonicalList fck items
  def canonicalItems (fck : Bool) : Items → Bool
    | [] => true
    | (k, v) :: rest => !Assoc.hasKey rest k && keyOK fck k && canonical fck v && canonicalItems fck rest
  def canonicalList (fck : Bool) : List Val → Bool
    | [] => true
    | v :: rest => canonical fck v && canonicalList fck rest
end

/-! ### Lists as dicts -/

theorem rleavesList_eq : ∀ (l : List Val) (i : Nat), rleavesList l i = rleavesItems (enumItems i l) := by
  intro l
  induction l with
  | nil => intro i; rfl
  | cons v rest ih => intro i; simp [rleavesList, rleavesItems, enumItems, ih]

theorem dictifyList_eq : ∀ (l : List Val) (i : Nat), dictifyList l i = dictifyItems (enumItems i l) := by
  intro l
  induction l with
  | nil => intro i; rfl
  | cons v rest ih => intro i; simp [dictifyList, dictifyItems, enumItems, ih]

/-- the children of a container as dict items. -/
def kidsOf : Val → Items
  | .leaf _ => []
  | .dict items => items
  | .list l => enumItems 0 l

theorem rleaves_of_not_leafLike (v : Val) (h : isLeafLike v = false) : rleaves v = rleavesItems (kidsOf v) := by
  cases v with
  | leaf a => simp [isLeafLike] at h
  | dict items => cases items with
    | nil => simp [isLeafLike] at h
    | cons kv rest => simp [rleaves, kidsOf]
  | list l => cases l with
    | nil => simp [isLeafLike] at h
    | cons x rest => simp [rleaves, kidsOf, rleavesList_eq]

theorem rleaves_of_leafLike (v : Val) (h : isLeafLike v = true) : rleaves v = [([], v)] := by
  cases v with
  | leaf a => rfl
  | dict items => cases items with
    | nil => rfl
    | cons kv rest => simp [isLeafLike] at h
  | list l => cases l with
    | nil => rfl
    | cons x rest => simp [isLeafLike] at h

theorem dictify_of_not_leafLike (v : Val) (h : isLeafLike v = false) : dictify v = .dict (dictifyItems (kidsOf v)) := by
  cases v with
  | leaf a => simp [isLeafLike] at h
  | dict items => cases items with
    | nil => simp [isLeafLike] at h
    | cons kv rest => simp [dictify, kidsOf]
  | list l => cases l with
    | nil => simp [isLeafLike] at h
    | cons x rest => simp [dictify, kidsOf, dictifyList_eq]

theorem dictify_of_leafLike (v : Val) (h : isLeafLike v = true) : dictify v = v := by
  cases v with
  | leaf a => rfl
  | dict items => cases items with
    | nil => rfl
    | cons kv rest => simp [isLeafLike] at h
  | list l => cases l with
    | nil => rfl
    | cons x rest => simp [isLeafLike] at h

theorem rleaves_ne_nil : ∀ v : Val, rleaves v ≠ [] := by
  apply ind'
  · intro a; simp [rleaves]
  · intro items ih
    cases items with
    | nil => simp [rleaves]
    | cons kv rest =>
      obtain ⟨k, c⟩ := kv
      have := ih (k, c) (by simp)
      simp only [rleaves, rleavesItems]
      intro h
      rw [List.append_eq_nil_iff] at h
      exact this (by simpa using h.1)
  · intro l ih
    cases l with
    | nil => simp [rleaves]
    | cons x rest =>
      have := ih x (by simp)
      simp only [rleaves, rleavesList]
      intro h
      rw [List.append_eq_nil_iff] at h
      exact this (by simpa using h.1)

/-! ### Insertion of one path into the accumulator -/

/-- merging `nest r x` into the slot of a key. -/
def slotIns (slot : Option Val) (r : Path) (x : Val) : Except Err Val :=
  match slot with
  | none => .ok (nest r x)
  | some old => mergeTree old (nest r x)

/-- one iteration of the loop of `canonicalize` on an entry whose key parses to `p`. -/
def stepIns (d : Items) (p : Path) (x : Val) : Except Err Items :=
  match p with
  | [] => .error .key
  | k :: r =>
    match slotIns (Assoc.lookup d k) r x with
    | .ok nv => .ok (Assoc.set d k nv)
    | .error e => .error e

def foldIns : Items → List (Path × Val) → Except Err Items
  | d, [] => .ok d
  | d, (p, x) :: rest =>
    match stepIns d p x with
    | .ok d' => foldIns d' rest
    | .error e => .error e

/-- merging a sequence of nested one-key dicts into a value. -/
def foldVal : Val → List (Path × Val) → Except Err Val
  | old, [] => .ok old
  | old, (r, x) :: rest =>
    match mergeTree old (nest r x) with
    | .ok nv => foldVal nv rest
    | .error e => .error e

theorem mergeTree_dict_nest (d : Items) (k : Key) (r : Path) (x : Val) :
    mergeTree (.dict d) (nest (k :: r) x) =
      (match stepIns d (k :: r) x with
       | .ok d' => .ok (.dict d')
       | .error e => .error e) := by
  simp only [nest, mergeTree, mergeDD, stepIns, slotIns]
  cases Assoc.lookup d k with
  | none => simp [mergeDD]
  | some old =>
    simp only
    cases mergeTree old (nest r x) with
    | ok nv => simp [mergeDD]
    | error e => simp

theorem foldIns_append (d : Items) (a b : List (Path × Val)) :
    foldIns d (a ++ b) = (match foldIns d a with
      | .ok d' => foldIns d' b
      | .error e => .error e) := by
  induction a generalizing d with
  | nil => rfl
  | cons pv rest ih =>
    obtain ⟨p, x⟩ := pv
    simp only [List.cons_append, foldIns]
    cases stepIns d p x with
    | ok d' => exact ih d'
    | error e => rfl

/-- on paths that are all non-empty, merging into a dict value is insertion into its items. -/
theorem foldVal_dict (d : Items) (L : List (Path × Val)) (hne : ∀ pv ∈ L, pv.1 ≠ []) :
    foldVal (.dict d) L = (match foldIns d L with
      | .ok d' => .ok (.dict d')
      | .error e => .error e) := by
  induction L generalizing d with
  | nil => rfl
  | cons pv rest ih =>
    obtain ⟨p, x⟩ := pv
    have hp : p ≠ [] := hne (p, x) (by simp)
    cases p with
    | nil => exact absurd rfl hp
    | cons k r =>
      simp only [foldVal, foldIns, mergeTree_dict_nest]
      cases stepIns d (k :: r) x with
      | ok d' => exact ih d' (fun pv h => hne pv (by simp [h]))
      | error e => rfl

theorem set_set {α : Type} (d : List (Key × α)) (k : Key) (a b : α) :
    Assoc.set (Assoc.set d k a) k b = Assoc.set d k b := by
  induction d with
  | nil => simp [Assoc.set]
  | cons kv rest ih =>
    obtain ⟨k0, v0⟩ := kv
    simp only [Assoc.set]
    by_cases h0 : k0 = k
    · simp [h0, Assoc.set]
    · simp [h0, Assoc.set, ih]

theorem set_of_lookup_none {α : Type} (d : List (Key × α)) (k : Key) (a : α)
    (h : Assoc.lookup d k = none) : Assoc.set d k a = d ++ [(k, a)] := by
  induction d with
  | nil => rfl
  | cons kv rest ih =>
    obtain ⟨k0, v0⟩ := kv
    simp only [Assoc.lookup] at h
    by_cases h0 : k0 = k
    · simp [h0] at h
    · simp only [h0, if_false] at h
      simp [Assoc.set, h0, ih h]

theorem set_of_lookup_same {α : Type} (d : List (Key × α)) (k : Key) (a : α)
    (h : Assoc.lookup d k = some a) : Assoc.set d k a = d := by
  induction d with
  | nil => simp [Assoc.lookup] at h
  | cons kv rest ih =>
    obtain ⟨k0, v0⟩ := kv
    simp only [Assoc.lookup] at h
    by_cases h0 : k0 = k
    · simp only [h0, if_true, Option.some.injEq] at h
      subst h; simp [Assoc.set, h0]
    · simp only [h0, if_false] at h
      simp [Assoc.set, h0, ih h]

/-- inserting a batch of paths that all go through key `k`, whose slot is already occupied. -/
theorem foldIns_under_key (k : Key) : ∀ (L : List (Path × Val)) (d : Items) (old : Val),
    Assoc.lookup d k = some old →
    foldIns d (L.map (fun pv => (k :: pv.1, pv.2))) =
      (match foldVal old L with
       | .ok nv => .ok (Assoc.set d k nv)
       | .error e => .error e) := by
  intro L
  induction L with
  | nil => intro d old h; simp [foldIns, foldVal, set_of_lookup_same d k old h]
  | cons pv rest ih =>
    obtain ⟨r, x⟩ := pv
    intro d old h
    simp only [List.map_cons, foldIns, foldVal, stepIns, slotIns, h]
    cases mergeTree old (nest r x) with
    | error e => rfl
    | ok nv =>
      simp only
      rw [ih (Assoc.set d k nv) nv (by rw [Assoc.lookup_set]; simp)]
      cases foldVal nv rest with
      | ok nv' => simp [set_set]
      | error e => rfl

/-- processing the leaves of a value from an empty slot. -/
def fromEmptySlot (L : List (Path × Val)) : Except Err Val :=
  match L with
  | [] => .error .key
  | (r, x) :: rest => foldVal (nest r x) rest

/-- … inserting a first batch under a fresh key `k`. -/
theorem foldIns_fresh_key (k : Key) (L : List (Path × Val)) (d : Items)
    (h : Assoc.lookup d k = none) (hL : L ≠ []) :
    foldIns d (L.map (fun pv => (k :: pv.1, pv.2))) =
      (match fromEmptySlot L with
       | .ok nv => .ok (d ++ [(k, nv)])
       | .error e => .error e) := by
  cases L with
  | nil => exact absurd rfl hL
  | cons pv rest =>
    obtain ⟨r, x⟩ := pv
    simp only [List.map_cons, foldIns, stepIns, slotIns, h, fromEmptySlot]
    rw [foldIns_under_key k rest (Assoc.set d k (nest r x)) (nest r x) (by rw [Assoc.lookup_set]; simp)]
    cases foldVal (nest r x) rest with
    | ok nv => simp [set_set, set_of_lookup_none d k nv h]
    | error e => rfl

/-! ### Rebuilding the all-dict form -/

theorem lookup_append_none {α : Type} (d : List (Key × α)) (k k' : Key) (a : α)
    (h : Assoc.lookup d k' = none) (hk : k ≠ k') : Assoc.lookup (d ++ [(k, a)]) k' = none := by
  induction d with
  | nil => simp [Assoc.lookup, hk]
  | cons kv rest ih =>
    obtain ⟨k0, v0⟩ := kv
    simp only [Assoc.lookup] at h
    by_cases h0 : k0 = k'
    · simp [h0] at h
    · simp only [h0, if_false] at h
      simp [Assoc.lookup, h0, ih h]

theorem rleavesItems_paths_ne_nil (items : Items) : ∀ pv ∈ rleavesItems items, pv.1 ≠ [] := by
  induction items with
  | nil => intro pv h; simp [rleavesItems] at h
  | cons kv rest ih =>
    obtain ⟨k, c⟩ := kv
    intro pv h
    simp only [rleavesItems, List.mem_append, List.mem_map] at h
    rcases h with ⟨pv', _, rfl⟩ | h
    · simp
    · exact ih pv h

theorem fromEmptySlot_eq (L : List (Path × Val)) (hne : ∀ pv ∈ L, pv.1 ≠ []) (hL : L ≠ []) :
    fromEmptySlot L = foldVal (.dict []) L := by
  cases L with
  | nil => exact absurd rfl hL
  | cons pv rest =>
    obtain ⟨p, x⟩ := pv
    have hp : p ≠ [] := hne (p, x) (by simp)
    cases p with
    | nil => exact absurd rfl hp
    | cons k r =>
      simp only [fromEmptySlot, foldVal, mergeTree_dict_nest, stepIns, slotIns, Assoc.lookup, Assoc.set]
      rfl

/-- inserting the leaves of all children of a container rebuilds the children's all-dict forms,
in order (given this for each child). -/
theorem foldIns_items : ∀ (items : Items),
    (∀ kv ∈ items, fromEmptySlot (rleaves kv.2) = .ok (dictify kv.2)) →
    Assoc.nodup items = true →
    ∀ d0 : Items, (∀ kv ∈ items, Assoc.lookup d0 kv.1 = none) →
      foldIns d0 (rleavesItems items) = .ok (d0 ++ dictifyItems items) := by
  intro items
  induction items with
  | nil => intro _ _ d0 _; simp [rleavesItems, foldIns, dictifyItems]
  | cons kv rest ih =>
    obtain ⟨k, c⟩ := kv
    intro hI hn d0 hd
    simp only [Assoc.nodup, Bool.and_eq_true, Bool.not_eq_true'] at hn
    simp only [rleavesItems, foldIns_append]
    rw [foldIns_fresh_key k (rleaves c) d0 (hd (k, c) (by simp)) (rleaves_ne_nil c)]
    rw [hI (k, c) (by simp)]
    simp only [dictifyItems]
    rw [ih (fun kv h => hI kv (by simp [h])) hn.2 (d0 ++ [(k, dictify c)])]
    · simp
    · intro kv h
      apply lookup_append_none _ _ _ _ (hd kv (by simp [h]))
      intro e
      have := Assoc.lookup_isSome_of_mem rest kv.1 kv.2 h
      have h1 := hn.1
      unfold Assoc.hasKey at h1
      rw [← e, h1] at this
      cases this

theorem fromEmptySlot_items (items : Items) (hne : items ≠ [])
    (hI : ∀ kv ∈ items, fromEmptySlot (rleaves kv.2) = .ok (dictify kv.2))
    (hn : Assoc.nodup items = true) :
    fromEmptySlot (rleavesItems items) = .ok (.dict (dictifyItems items)) := by
  have hL : rleavesItems items ≠ [] := by
    cases items with
    | nil => exact absurd rfl hne
    | cons kv rest =>
      obtain ⟨k, c⟩ := kv
      simp only [rleavesItems]
      intro h
      rw [List.append_eq_nil_iff] at h
      exact rleaves_ne_nil c (by simpa using h.1)
  rw [fromEmptySlot_eq _ (rleavesItems_paths_ne_nil items) hL,
      foldVal_dict [] _ (rleavesItems_paths_ne_nil items),
      foldIns_items items hI hn [] (fun _ _ => rfl)]
  simp

theorem lookup_enumItems_lt : ∀ (l : List Val) (i j : Nat), i < j →
    Assoc.lookup (enumItems j l) (.i (Int.ofNat i)) = none := by
  intro l
  induction l with
  | nil => intro i j _; rfl
  | cons v rest ih =>
    intro i j h
    simp only [enumItems, Assoc.lookup]
    have : ¬ (Key.i (Int.ofNat j) = Key.i (Int.ofNat i)) := by
      intro e
      injection e with e
      have : (j : Int) = (i : Int) := e
      omega
    simp only [this, if_false]
    exact ih i (j + 1) (by omega)

theorem nodup_enumItems : ∀ (l : List Val) (i : Nat), Assoc.nodup (enumItems i l) = true := by
  intro l
  induction l with
  | nil => intro i; rfl
  | cons v rest ih =>
    intro i
    simp only [enumItems, Assoc.nodup, Bool.and_eq_true, Bool.not_eq_true', ih, and_true]
    unfold Assoc.hasKey
    rw [lookup_enumItems_lt rest i (i + 1) (by omega)]
    rfl

theorem mem_enumItems : ∀ (l : List Val) (i : Nat) (kv : Key × Val), kv ∈ enumItems i l → kv.2 ∈ l := by
  intro l
  induction l with
  | nil => intro i kv h; simp [enumItems] at h
  | cons v rest ih =>
    intro i kv h
    simp only [enumItems, List.mem_cons] at h
    rcases h with h | h
    · subst h; simp
    · exact List.mem_cons_of_mem _ (ih (i + 1) kv h)

theorem nodupItems_nodup : ∀ items : Items, nodupItems items = true → Assoc.nodup items = true := by
  intro items
  induction items with
  | nil => intro _; rfl
  | cons kv rest ih =>
    obtain ⟨k, c⟩ := kv
    intro h
    simp only [nodupItems, Bool.and_eq_true, Bool.not_eq_true'] at h
    simp [Assoc.nodup, h.1.1, ih h.2]

theorem nodupItems_mem : ∀ items : Items, nodupItems items = true → ∀ kv ∈ items, nodupVal kv.2 = true := by
  intro items
  induction items with
  | nil => intro _ kv h; cases h
  | cons kv0 rest ih =>
    obtain ⟨k, c⟩ := kv0
    intro h kv hm
    simp only [nodupItems, Bool.and_eq_true, Bool.not_eq_true'] at h
    rcases List.mem_cons.mp hm with e | hm
    · subst e; exact h.1.2
    · exact ih h.2 kv hm

theorem nodupList_mem : ∀ l : List Val, nodupList l = true → ∀ x ∈ l, nodupVal x = true := by
  intro l
  induction l with
  | nil => intro _ x h; cases h
  | cons v rest ih =>
    intro h x hm
    simp only [nodupList, Bool.and_eq_true] at h
    rcases List.mem_cons.mp hm with e | hm
    · subst e; exact h.1
    · exact ih h.2 x hm

/-- THE REBUILD LEMMA: inserting the leaves of `v` one by one, starting from nothing, yields the
all-dict form of `v` (for every value whose dicts have distinct keys). -/
theorem fromEmptySlot_rleaves : ∀ v : Val, nodupVal v = true → fromEmptySlot (rleaves v) = .ok (dictify v) := by
  apply ind'
  · intro a _; rfl
  · intro items ih hn
    cases items with
    | nil => rfl
    | cons kv rest =>
      simp only [nodupVal] at hn
      have := fromEmptySlot_items (kv :: rest) (by simp)
        (fun kv' h => ih kv' h (nodupItems_mem _ hn kv' h)) (nodupItems_nodup _ hn)
      simpa [rleaves, dictify] using this
  · intro l ih hn
    cases l with
    | nil => rfl
    | cons x rest =>
      simp only [nodupVal] at hn
      have := fromEmptySlot_items (enumItems 0 (x :: rest)) (by simp [enumItems])
        (fun kv' h => ih kv'.2 (mem_enumItems _ _ kv' h) (nodupList_mem _ hn kv'.2 (mem_enumItems _ _ kv' h)))
        (nodup_enumItems _ _)
      simpa [rleaves, dictify, rleavesList_eq, dictifyList_eq] using this

end Val
end Pg.C10
