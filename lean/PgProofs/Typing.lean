/-
  Helper lemmas for the value-spec model (C04, used by C03).
-/
import PgModel.Typing
namespace Pg.Typing

/-! ### `pyEq` is reflexive -/

theorem Num.eq_refl (a : Num) : Num.eq a a = true := by
  simp [Num.eq]

mutual
  theorem pyEq_refl (v : Val) : Val.pyEq v v = true := by
    cases v with
    | missing => simp [Val.pyEq]
    | none => simp [Val.pyEq]
    | bool b => simp [Val.pyEq]
    | int i => simp [Val.pyEq]
    | float n => simp [Val.pyEq, Num.eq_refl]
    | str s => simp [Val.pyEq]
    | list xs => simp [Val.pyEq, pyEqList_refl xs]
    | tuple xs => simp [Val.pyEq, pyEqList_refl xs]
    | dict kvs => simp [Val.pyEq, pyEqKvs_refl kvs]
    | obj c u p => simp [Val.pyEq]
  theorem pyEqList_refl (xs : List Val) : Val.pyEqList xs xs = true := by
    cases xs with
    | nil => simp [Val.pyEqList]
    | cons x xs => simp [Val.pyEqList, pyEq_refl x, pyEqList_refl xs]
  theorem pyEqKvs_refl (kvs : List (String × Val)) : Val.pyEqKvs kvs kvs = true := by
    cases kvs with
    | nil => simp [Val.pyEqKvs]
    | cons kv kvs =>
      obtain ⟨k, v⟩ := kv
      simp [Val.pyEqKvs, pyEq_refl v, pyEqKvs_refl kvs]
end

/-- A proper value: neither `MISSING_VALUE` nor `None`. -/
def Val.proper (v : Val) : Prop := v.isMissing = false ∧ v.isNone = false

/-! ### Type check -/

theorem convert_inst (env : Env) (v v' : Val) (ts : List Ty) (h : convert v ts = some v') :
    instOf env v' ts = true ∧ Val.proper v' := by
  unfold convert at h
  split at h
  · rename_i hts
    have hf : ∀ n, instOf env (.float n) ts = true := by
      intro n
      unfold instOf
      rw [List.any_eq_true] at hts ⊢
      obtain ⟨t, ht, hq⟩ := hts
      refine ⟨t, ht, ?_⟩
      simp only [Bool.or_eq_true, beq_iff_eq] at hq
      rcases hq with hq | hq <;> subst hq <;> simp [Val.ty, Ty.sub]
    cases v <;> simp at h <;> subst h <;> exact ⟨hf _, by simp [Val.proper, Val.isMissing, Val.isNone]⟩
  · cases h

theorem typeCheck_ok (env : Env) (vt : Option (List Ty)) (w w' : Val) (hw : Val.proper w)
    (h : typeCheck env vt w = .ok w') :
    typeCheck env vt w' = .ok w' ∧ Val.proper w' := by
  unfold typeCheck at h ⊢
  cases vt with
  | none => simp at h; subst h; exact ⟨rfl, hw⟩
  | some ts =>
    simp only at h ⊢
    by_cases hi : instOf env w ts = true
    · simp [hi] at h; subst h; simp [hi]; exact hw
    · simp [hi] at h
      cases hc : convert w ts with
      | none => simp [hc] at h
      | some c =>
        simp [hc] at h; subst h
        have := convert_inst env w c ts hc
        simp [this.1]; exact this.2

/-! ### The head of `apply` -/

theorem gate_idem (f : Flags) (p : Bool) (v v' : Val) (k : Val → R Val)
    (hk : ∀ w w', Val.proper w → k w = .ok w' → Val.proper w' ∧ k w' = .ok w')
    (h : gate f p v k = .ok v') : gate f p v' k = .ok v' := by
  unfold gate at h ⊢
  by_cases hf : f.frozen = true
  · simp only [hf, if_true] at h ⊢
    split at h
    · cases h
    · injection h with h; subst h
      simp [pyEq_refl]
  · simp only [hf] at h ⊢
    by_cases hm : v.isMissing = true
    · simp only [hm, if_true] at h
      by_cases hp : p = true
      · simp [hp] at h; subst h; simp [Val.isMissing, hp]
      · simp [hp] at h
    · simp only [hm] at h
      by_cases hn : v.isNone = true
      · simp only [hn, if_true] at h
        by_cases hq : f.noneable = true
        · simp [hq] at h; subst h; simp [Val.isMissing, Val.isNone, hq]
        · simp [hq] at h
      · simp only [hn] at h
        have hw : Val.proper v := ⟨by simpa using hm, by simpa using hn⟩
        obtain ⟨hp', hk'⟩ := hk v v' hw h
        simp [hp'.1, hp'.2, hk']

/-- Kind-specific continuation of the shape "type check, then a check that returns its input". -/
theorem tc_chk_idem (env : Env) (vt : Option (List Ty)) (chk : Val → R Val)
    (hchk : ∀ x r, chk x = .ok r → r = x) (w w' : Val) (hw : Val.proper w)
    (h : (typeCheck env vt w >>= chk) = .ok w') :
    Val.proper w' ∧ (typeCheck env vt w' >>= chk) = .ok w' := by
  cases ht : typeCheck env vt w with
  | error e => simp [ht, bind, Except.bind] at h
  | ok w1 =>
    simp only [ht, bind, Except.bind] at h
    have := hchk w1 w' h
    subst this
    obtain ⟨h1, h2⟩ := typeCheck_ok env vt w w' hw ht
    refine ⟨h2, ?_⟩
    simp only [h1, bind, Except.bind]
    exact h

/-! ### `mapM` over `Except` -/

theorem mapM_ok_length {α β : Type} (f : α → R β) (xs : List α) (ys : List β)
    (h : xs.mapM f = .ok ys) : ys.length = xs.length := by
  induction xs generalizing ys with
  | nil => simp [List.mapM_nil, pure, Except.pure] at h; subst h; rfl
  | cons x xs ih =>
    rw [List.mapM_cons] at h
    cases hx : f x with
    | error e => simp [hx, bind, Except.bind] at h
    | ok y =>
      cases hxs : xs.mapM f with
      | error e => simp [hx, hxs, bind, Except.bind] at h
      | ok ys' =>
        simp [hx, hxs, bind, Except.bind, pure, Except.pure] at h
        subst h
        simp [ih ys' hxs]

theorem mapM_idem {α : Type} (f : α → R α) (xs ys : List α)
    (hf : ∀ x ∈ xs, ∀ y, f x = .ok y → f y = .ok y)
    (h : xs.mapM f = .ok ys) : ys.mapM f = .ok ys := by
  induction xs generalizing ys with
  | nil => simp [List.mapM_nil, pure, Except.pure] at h; subst h; rfl
  | cons x xs ih =>
    rw [List.mapM_cons] at h
    cases hx : f x with
    | error e => simp [hx, bind, Except.bind] at h
    | ok y =>
      cases hxs : xs.mapM f with
      | error e => simp [hx, hxs, bind, Except.bind] at h
      | ok ys' =>
        simp [hx, hxs, bind, Except.bind, pure, Except.pure] at h
        subst h
        rw [List.mapM_cons]
        have h1 := hf x List.mem_cons_self y hx
        have h2 := ih ys' (fun a ha => hf a (List.mem_cons_of_mem _ ha)) hxs
        simp [h1, h2, bind, Except.bind, pure, Except.pure]

end Pg.Typing

namespace Pg.Typing

/-! ### Idempotence of `apply` on the union-free, schema-free fragment -/

mutual
  /-- Specs built from any / bool / int / float / str / enum / object / schema-less dict, lists and
  (fixed or variable) tuples of these, with arbitrary flags. -/
  def frag : Spec → Bool
    | .any _ | .bool _ | .int .. | .float .. | .str .. | .enum .. | .obj .. => true
    | .dict none _ => true
    | .dict (some _) _ => false
    | .list e _ _ _ => frag e
    | .tuple es _ _ _ => fragList es
    | .union .. => false
    | .callable .. => false
  def fragList : List Spec → Bool
    | [] => true
    | s :: ss => frag s && fragList ss
end

theorem rangeCheck_id (lo hi : Option Num) (x r : Val) (h : rangeCheck lo hi x = .ok r) : r = x := by
  unfold rangeCheck at h
  cases hn : x.num? with
  | none => simp [hn] at h
  | some n =>
    simp only [hn] at h
    cases hc : outOfRange lo hi n <;> simp [hc] at h
    exact h.symm

theorem applyZip_length (env : Env) (ss : List Spec) (p : Bool) (xs ys : List Val)
    (hl : xs.length = ss.length) (h : applyZip env ss p xs = .ok ys) : ys.length = xs.length := by
  induction ss generalizing xs ys with
  | nil =>
    cases xs with
    | nil => simp [applyZip] at h; subst h; rfl
    | cons x xs => simp at hl
  | cons s ss ih =>
    cases xs with
    | nil => simp at hl
    | cons x xs =>
      simp only [applyZip, bind, Except.bind] at h
      cases hx : apply env s p x with
      | error e => simp [hx] at h
      | ok y =>
        cases hxs : applyZip env ss p xs with
        | error e => simp [hx, hxs] at h
        | ok ys' =>
          simp [hx, hxs] at h; subst h
          simp [ih xs ys' (by simpa using hl) hxs]

mutual
  theorem apply_idem_frag (env : Env) (s : Spec) (hs : frag s = true) (p : Bool) (v v' : Val)
      (h : apply env s p v = .ok v') : apply env s p v' = .ok v' := by
    cases s with
    | any f =>
      simp only [apply] at h ⊢
      exact gate_idem f p v v' _ (fun w w' hw hk => by injection hk with hk; subst hk; exact ⟨hw, rfl⟩) h
    | bool f =>
      simp only [apply] at h ⊢
      refine gate_idem f p v v' _ (fun w w' hw hk => ?_) h
      have := typeCheck_ok env (some [.bool]) w w' hw hk
      exact ⟨this.2, this.1⟩
    | int lo hi f =>
      simp only [apply] at h ⊢
      refine gate_idem f p v v' _ (fun w w' hw hk => ?_) h
      exact tc_chk_idem env (some [.int]) _ (fun x r hr => rangeCheck_id _ _ x r hr) w w' hw hk
    | float lo hi f =>
      simp only [apply] at h ⊢
      refine gate_idem f p v v' _ (fun w w' hw hk => ?_) h
      exact tc_chk_idem env (some [.float]) _ (fun x r hr => rangeCheck_id _ _ x r hr) w w' hw hk
    | str rx f =>
      simp only [apply] at h ⊢
      refine gate_idem f p v v' _ (fun w w' hw hk => ?_) h
      refine tc_chk_idem env (some [.str]) _ (fun x r hr => ?_) w w' hw hk
      split at hr
      · split at hr
        · injection hr with hr; exact hr.symm
        · cases hr
      · injection hr with hr; exact hr.symm
    | enum vals f =>
      simp only [apply] at h ⊢
      refine gate_idem f p v v' _ (fun w w' hw hk => ?_) h
      refine tc_chk_idem env _ _ (fun x r hr => ?_) w w' hw hk
      split at hr
      · injection hr with hr; exact hr.symm
      · cases hr
    | obj c f =>
      simp only [apply] at h ⊢
      refine gate_idem f p v v' _ (fun w w' hw hk => ?_) h
      refine tc_chk_idem env _ _ (fun x r hr => ?_) w w' hw hk
      split at hr
      · split at hr
        · cases hr
        · injection hr with hr; exact hr.symm
      · injection hr with hr; exact hr.symm
    | dict fields f =>
      cases fields with
      | some fs => simp [frag] at hs
      | none =>
        simp only [apply] at h ⊢
        refine gate_idem f p v v' _ (fun w w' hw hk => ?_) h
        have := typeCheck_ok env (some [.dict]) w w' hw hk
        exact ⟨this.2, this.1⟩
    | union cands f => simp [frag] at hs
    | callable f => simp [frag] at hs
    | list elem mn mx f =>
      simp only [frag] at hs
      simp only [apply] at h ⊢
      refine gate_idem f p v v' _ (fun w w' hw hk => ?_) h
      simp only [bind, Except.bind] at hk ⊢
      cases ht : typeCheck env (some [.list]) w with
      | error e => simp [ht] at hk
      | ok w1 =>
        simp only [ht] at hk
        cases w1 with
        | list xs =>
          simp only at hk
          cases hm : xs.mapM (fun x => apply env elem p x) with
          | error e => simp [hm] at hk
          | ok ys =>
            simp only [hm] at hk
            cases hsz : sizeOk ys.length mn mx <;> simp [hsz] at hk
            subst hk
            have hmi := mapM_idem (fun x => apply env elem p x) xs ys
              (fun x _ y hxy => apply_idem_frag env elem hs p x y hxy) hm
            have htc : typeCheck env (some [.list]) (.list ys) = .ok (.list ys) := by
              simp [typeCheck, instOf, Val.ty, Ty.sub]
            refine ⟨by simp [Val.proper, Val.isMissing, Val.isNone], ?_⟩
            simp only [htc, hmi]
            simp [hsz]
        | _ => simp at hk
    | tuple elems mn mx f =>
      simp only [frag] at hs
      simp only [apply] at h ⊢
      refine gate_idem f p v v' _ (fun w w' hw hk => ?_) h
      simp only [bind, Except.bind] at hk ⊢
      cases ht : typeCheck env (some [.tuple]) w with
      | error e => simp [ht] at hk
      | ok w1 =>
        simp only [ht] at hk
        have htc : ∀ ys, typeCheck env (some [.tuple]) (.tuple ys) = .ok (.tuple ys) := by
          intro ys; simp [typeCheck, instOf, Val.ty, Ty.sub]
        cases w1 with
        | tuple xs =>
          simp only at hk
          by_cases hfx : fixedLen mn mx = true
          · simp only [hfx, if_true] at hk ⊢
            split at hk
            · cases hk
            · rename_i hlen
              cases hz : applyZip env elems p xs with
              | error e => simp [hz] at hk
              | ok ys =>
                simp only [hz] at hk
                injection hk with hk; subst hk
                have hl : xs.length = elems.length := by simpa using hlen
                have hyl := applyZip_length env elems p xs ys hl hz
                have hzi := applyZip_idem_frag env elems hs p xs ys hz
                refine ⟨by simp [Val.proper, Val.isMissing, Val.isNone], ?_⟩
                simp only [htc, hfx, if_true]
                simp [hyl, hl, hzi]
          · simp only [hfx] at hk ⊢
            cases hsz : sizeOk xs.length mn mx <;> simp [hsz] at hk
            cases hm : applyVar env elems p xs with
            | error err => simp [hm] at hk
            | ok ys =>
              simp only [hm] at hk
              injection hk with hk; subst hk
              obtain ⟨hmi, hyl⟩ := applyVar_idem_frag env elems hs p xs ys hm
              refine ⟨by simp [Val.proper, Val.isMissing, Val.isNone], ?_⟩
              simp only [htc, hfx]
              simp [hyl, hsz, hmi]
        | _ => simp at hk
  theorem applyVar_idem_frag (env : Env) (ss : List Spec) (hs : fragList ss = true) (p : Bool)
      (xs ys : List Val) (h : applyVar env ss p xs = .ok ys) :
      applyVar env ss p ys = .ok ys ∧ ys.length = xs.length := by
    cases ss with
    | nil =>
      simp only [applyVar] at h ⊢
      split at h
      · injection h with h; subst h
        rename_i hx
        simp at hx; subst hx; simp
      · cases h
    | cons e rest =>
      simp only [fragList, Bool.and_eq_true] at hs
      simp only [applyVar] at h ⊢
      exact ⟨mapM_idem (fun x => apply env e p x) xs ys
        (fun x _ y hxy => apply_idem_frag env e hs.1 p x y hxy) h, mapM_ok_length _ xs ys h⟩
  theorem applyZip_idem_frag (env : Env) (ss : List Spec) (hs : fragList ss = true) (p : Bool)
      (xs ys : List Val) (h : applyZip env ss p xs = .ok ys) : applyZip env ss p ys = .ok ys := by
    cases ss with
    | nil => simp [applyZip] at h ⊢; subst h; rfl
    | cons s ss =>
      simp only [fragList, Bool.and_eq_true] at hs
      cases xs with
      | nil => simp [applyZip] at h; subst h; simp [applyZip]
      | cons x xs =>
        simp only [applyZip, bind, Except.bind] at h
        cases hx : apply env s p x with
        | error e => simp [hx] at h
        | ok y =>
          cases hxs : applyZip env ss p xs with
          | error e => simp [hx, hxs] at h
          | ok ys' =>
            simp [hx, hxs] at h; subst h
            have h1 := apply_idem_frag env s hs.1 p x y hx
            have h2 := applyZip_idem_frag env ss hs.2 p xs ys' hxs
            simp [applyZip, bind, Except.bind, h1, h2]
end

end Pg.Typing
