/-
  Every step keeps the ids distinct and bounded and the payloads well-shaped (`Inv`): the
  presentation step `normalizeRoots`, then all operations of `step`.
-/
import PgProofs.SymInv
namespace Pg.Sym

/-! ### `normalizeRoots` only drops and reorders roots -/

theorem idsRoots_perm {a b : List Tree} (h : a.Perm b) (i : Nat) : (idsRoots a).count i = (idsRoots b).count i := by
  induction h with
  | nil => rfl
  | cons x _ ih => simp [idsRoots_cons, List.count_append, ih]
  | swap x y l => simp [idsRoots_cons, List.count_append]; omega
  | trans _ _ ih1 ih2 => rw [ih1, ih2]

theorem insertByIdx_perm (key : Tree → Nat) (x : Tree) : (l : List Tree) → (insertByIdx key x l).Perm (x :: l)
  | [] => List.Perm.refl _
  | y :: ys => by
    unfold insertByIdx
    split
    · exact List.Perm.refl _
    · exact ((insertByIdx_perm key x ys).cons y).trans (List.Perm.swap x y ys)

theorem sortByIdx_perm (key : Tree → Nat) : (l : List Tree) → (sortByIdx key l).Perm l
  | [] => List.Perm.refl _
  | x :: xs => (insertByIdx_perm key x (sortByIdx key xs)).trans ((sortByIdx_perm key xs).cons x)

theorem roots_filter_mono (p q : Tree → Bool) (hpq : ∀ r, p r = true → q r = true) (i : Nat) : (rs : List Tree) →
    (idsRoots (rs.filter p)).count i ≤ (idsRoots (rs.filter q)).count i
  | [] => Nat.le_refl _
  | r :: rs => by
    have ih := roots_filter_mono p q hpq i rs
    simp only [List.filter_cons]
    cases hp : p r with
    | true => simp only [hpq r hp, if_true, idsRoots_cons, List.count_append]; omega
    | false =>
      cases hq : q r <;> simp [idsRoots_cons, List.count_append] <;> omega

theorem roots_filter_split (pI p1 p2 : Tree → Bool) (hor : ∀ r, pI r = (p1 r || p2 r))
    (hdis : ∀ r, p1 r = true → p2 r = true → False) (i : Nat) : (rs : List Tree) →
    (idsRoots (rs.filter pI)).count i = (idsRoots (rs.filter p1)).count i + (idsRoots (rs.filter p2)).count i
  | [] => rfl
  | r :: rs => by
    have ih := roots_filter_split pI p1 p2 hor hdis i rs
    simp only [List.filter_cons, hor r]
    cases h1 : p1 r with
    | true =>
      cases h2 : p2 r with
      | true => exact absurd h2 (fun h => hdis r h1 h)
      | false => simp [idsRoots_cons, List.count_append]; omega
    | false =>
      cases h2 : p2 r with
      | true => simp [idsRoots_cons, List.count_append]; omega
      | false => simp; exact ih

theorem roots_find_le_filter (p : Tree → Bool) (i : Nat) : (rs : List Tree) →
    (idsRoots (rs.find? p).toList).count i ≤ (idsRoots (rs.filter p)).count i
  | [] => Nat.le_refl _
  | r :: rs => by
    simp only [List.find?_cons, List.filter_cons]
    cases hp : p r with
    | true => simp [idsRoots_cons, idsRoots, List.count_append]
    | false => simp only [Bool.false_eq_true, if_false]; exact roots_find_le_filter p i rs

def isOldIn (is : List Nat) (r : Tree) : Bool :=
  match r.id? with
  | some i => is.contains i
  | none => false

theorem surviving_le (rs : List Tree) (x : Nat) : (is : List Nat) → is.Nodup →
    (idsRoots (is.filterMap (fun i => rs.find? (fun r => r.id? == some i)))).count x ≤
      (idsRoots (rs.filter (isOldIn is))).count x
  | [], _ => by simp [idsRoots]
  | i :: is, hnd => by
    rw [List.nodup_cons] at hnd
    have ih := surviving_le rs x is hnd.2
    have hsplit := roots_filter_split (isOldIn (i :: is)) (fun r => r.id? == some i) (isOldIn is)
      (by
        intro r
        unfold isOldIn
        cases hr : r.id? with
        | none => simp
        | some j =>
          simp only [List.contains_cons, Option.some.injEq, beq_iff_eq]
          by_cases hji : j = i
          · simp [hji]
          · have : (j == i) = false := by simpa using hji
            simp [this, hji])
      (by
        intro r h1 h2
        simp only [beq_iff_eq] at h1
        unfold isOldIn at h2
        rw [h1] at h2
        simp only [List.contains_eq_mem, decide_eq_true_eq] at h2
        exact hnd.1 h2) x rs
    have hfind := roots_find_le_filter (fun r => r.id? == some i) x rs
    rw [hsplit]
    simp only [List.filterMap_cons]
    cases hf : rs.find? (fun r => r.id? == some i) with
    | none => simp only; omega
    | some r =>
      rw [hf] at hfind
      have e1 : idsRoots (Option.toList (some r)) = r.ids := by simp [idsRoots]
      rw [e1] at hfind
      simp only [idsRoots_cons, List.count_append]
      omega

theorem mem_idsRoots_of_root {rs : List Tree} {r : Tree} {i : Nat} (hr : r ∈ rs) (hid : r.id? = some i) : i ∈ idsRoots rs := by
  unfold idsRoots
  rw [List.mem_flatMap]
  refine ⟨r, hr, ?_⟩
  cases r with
  | leaf a => simp [Tree.id?, Tree.meta?] at hid
  | node m its =>
    simp only [Tree.id?, Tree.meta?, Option.map_some, Option.some.injEq] at hid
    simp [Tree.ids, hid]

theorem rootIds_nodup : (rs : List Tree) → (∀ i, (idsRoots rs).count i ≤ 1) → (rs.filterMap Tree.id?).Nodup
  | [], _ => List.nodup_nil
  | r :: rs, h => by
    have hrs : ∀ i, (idsRoots rs).count i ≤ 1 := by
      intro i; have := h i; simp only [idsRoots_cons, List.count_append] at this; omega
    have ih := rootIds_nodup rs hrs
    cases r with
    | leaf a =>
      have : (Tree.leaf a :: rs).filterMap Tree.id? = rs.filterMap Tree.id? := by
        simp [List.filterMap_cons, Tree.id?, Tree.meta?]
      rw [this]; exact ih
    | node m its =>
      have : (Tree.node m its :: rs).filterMap Tree.id? = m.id :: rs.filterMap Tree.id? := by
        simp [Tree.id?, Tree.meta?]
      rw [this, List.nodup_cons]
      refine ⟨?_, ih⟩
      intro hmem
      rw [List.mem_filterMap] at hmem
      obtain ⟨r', hr', hid⟩ := hmem
      have h1 := count_pos_of_mem (mem_idsRoots_of_root hr' hid)
      have h2 := h m.id
      simp only [idsRoots_cons, List.count_append, Tree.ids, List.count_cons_self] at h2
      omega

theorem normalize_count_core (rs : List Tree) (is : List Nat) (hnd : is.Nodup) (old q : Tree → Bool)
    (hold : ∀ r, old r = isOldIn is r) (others : List Tree) (hperm : others.Perm (rs.filter (fun r => !old r && q r))) (x : Nat) :
    (idsRoots (is.filterMap (fun i => rs.find? (fun r => r.id? == some i)) ++ others)).count x ≤ (idsRoots rs).count x := by
  rw [idsRoots_append, List.count_append, idsRoots_perm hperm x]
  have h1 := surviving_le rs x is hnd
  have h2 := roots_filter_mono (fun r => !old r && q r) (fun r => !isOldIn is r)
    (by intro r hr; simp only [Bool.and_eq_true] at hr; rw [← hold r]; exact hr.1) x rs
  have h3 := roots_filter_split (fun _ => true) (isOldIn is) (fun r => !isOldIn is r)
    (by intro r; cases isOldIn is r <;> rfl)
    (by intro r h1 h2; rw [h1] at h2; cases h2) x rs
  have h4 : rs.filter (fun _ => true) = rs := by simp
  rw [h4] at h3
  omega

theorem normalizeRoots_count (before after : Forest) (k : Bool) (hb : NB before) (x : Nat) :
    (normalizeRoots before after k).ids.count x ≤ after.ids.count x := by
  unfold normalizeRoots
  simp only [Forest.ids_eq]
  have hnd := rootIds_nodup before.roots hb.nodup
  refine normalize_count_core after.roots (before.roots.filterMap Tree.id?) hnd _ _ ?_ _ (sortByIdx_perm _ _) x
  intro r
  unfold isOldIn
  cases r.id? <;> rfl

theorem normalizeRoots_nextId (before after : Forest) (k : Bool) : (normalizeRoots before after k).nextId = after.nextId := rfl
theorem normalizeRoots_aliased (before after : Forest) (k : Bool) : (normalizeRoots before after k).aliased = after.aliased := rfl
theorem normalizeRoots_pool (before after : Forest) (k : Bool) : (normalizeRoots before after k).pool = [] := rfl

theorem normalizeRoots_inv (before after : Forest) (k : Bool) (hb : NB before) (ha : Inv after) :
    Inv (normalizeRoots before after k) := by
  constructor
  · exact ha.nb.of_count_le (normalizeRoots_nextId before after k) (normalizeRoots_count before after k hb)
  · constructor
    · intro r hr
      simp only [normalizeRoots, List.mem_append, List.mem_filterMap, mem_sortByIdx, List.mem_filter] at hr
      rcases hr with ⟨i, _, hfind⟩ | ⟨hmem, _⟩
      · exact ha.shape.roots r (List.mem_of_find?_eq_some hfind)
      · exact ha.shape.roots r hmem
    · intro r hr; rw [normalizeRoots_pool] at hr; cases hr

/-! ### replacement lists of a slice assignment -/

theorem zipIdx_fst_mem {α : Type} : (l : List α) → ∀ (k : Nat) (x : α × Nat), x ∈ l.zipIdx k → x.1 ∈ l
  | [], _, x, h => by simp at h
  | a :: l, k, x, h => by
    simp only [List.zipIdx_cons, List.mem_cons] at h ⊢
    rcases h with rfl | h
    · exact Or.inl rfl
    · exact Or.inr (zipIdx_fst_mem l (k + 1) x h)

def Keyed (repl : List (Bool × VE)) : Prop := ∀ x ∈ repl, x.2.keysDistinct = true

theorem keyed_zip {l : List VE} (h : ∀ v ∈ l, v.keysDistinct = true) (size : Nat) :
    Keyed (l.zipIdx.map (fun vi => (decide (size ≤ vi.2), vi.1))) := by
  intro x hx
  simp only [List.mem_map] at hx
  obtain ⟨vi, hvi, rfl⟩ := hx
  exact h _ (zipIdx_fst_mem l 0 vi hvi)

theorem keyed_map {l : List VE} (h : ∀ v ∈ l, v.keysDistinct = true) : Keyed (l.map (fun v => (false, v))) := by
  intro x hx
  simp only [List.mem_map] at hx
  obtain ⟨v, hv, rfl⟩ := hx
  exact h v hv

theorem keyed_pad {l : List VE} (h : ∀ v ∈ l, v.keysDistinct = true) (k : Nat) :
    Keyed (l.map (fun v => (false, v)) ++ List.replicate k (false, VE.atom .missing)) := by
  intro x hx
  rcases List.mem_append.mp hx with hx | hx
  · exact keyed_map h x hx
  · rw [List.mem_replicate] at hx; rw [hx.2]; rfl

theorem keyed_rev {l : List VE} (h : ∀ v ∈ l, v.keysDistinct = true) : Keyed (l.reverse.map (fun v => (false, v))) :=
  keyed_map (fun v hv => h v (List.mem_reverse.mp hv))

/-! ### every operation -/

theorem step_inv (cfg : Cfg) (f : Forest) (n : Bool) (op : Op) (hi : Inv f) (hk : wellKeyed op = true) :
    (step cfg f n op).forest.aliased = false → Inv (step cfg f n op).forest := by
  cases op with
  | new v =>
    cases v with
    | node kind sl aw pt items =>
      simp only [wellKeyed, Op.values, List.all_cons, List.all_nil, Bool.and_true] at hk
      simp only [step]
      intro hal
      rw [addRoot_aliased] at hal
      have hv := evalVE_shape cfg none (.node kind sl aw pt items) f none false false [] hi.shape hk
      exact ⟨newStep_nb cfg f _ hi.nb hal, hv.1.addRoot _ hv.2⟩
    | atom a => simp only [step]; exact fun _ => hi
    | fresh => simp only [step]; exact fun _ => hi
    | freshTuple k => simp only [step]; exact fun _ => hi
    | mkRef tg => simp only [step]; exact fun _ => hi
    | typedList items => simp only [step]; exact fun _ => hi
    | ref id => simp only [step]; exact fun _ => hi
  | clone t deep =>
    cases hfind : f.find? t with
    | none => simp only [step, hfind]; exact fun _ => hi
    | some tr =>
      simp only [step, hfind]
      exact fun _ => ⟨cloneStep_nb cfg f tr deep hi.nb, cloneStep_shape cfg f t tr deep hi.shape hfind⟩
  | setItem t k v =>
    simp only [wellKeyed, Op.values, List.all_cons, List.all_nil, Bool.and_true] at hk
    cases hfind : f.find? t with
    | none => simp only [step, hfind]; exact fun _ => hi
    | some tr =>
      cases tr with
      | leaf a => simp only [step, hfind]; exact fun _ => hi
      | node m its =>
        simp only [step, hfind]
        exact setItem_inv cfg f n m its k v hi (find_self hfind) hk
  | lAppend t v =>
    simp only [wellKeyed, Op.values, List.all_cons, List.all_nil, Bool.and_true] at hk
    cases hfind : f.find? t with
    | none => simp only [step, hfind]; exact fun _ => hi
    | some tr =>
      cases tr with
      | leaf a => simp only [step, hfind]; exact fun _ => hi
      | node m its =>
        simp only [step, hfind]
        split
        · exact fun _ => hi
        · exact finish_inv f n _ _ hi (rawSetList_inv cfg f m its _ false v hi (find_self hfind) hk)
  | lInsert t idx v =>
    simp only [wellKeyed, Op.values, List.all_cons, List.all_nil, Bool.and_true] at hk
    cases hfind : f.find? t with
    | none => simp only [step, hfind]; exact fun _ => hi
    | some tr =>
      cases tr with
      | leaf a => simp only [step, hfind]; exact fun _ => hi
      | node m its =>
        simp only [step, hfind]
        split
        · exact fun _ => hi
        · exact finish_inv f n _ _ hi (rawSetList_inv cfg f m its _ true v hi (find_self hfind) hk)
  | lExtend t vs =>
    simp only [wellKeyed, Op.values, List.all_eq_true] at hk
    cases hfind : f.find? t with
    | none => simp only [step, hfind]; exact fun _ => hi
    | some tr =>
      cases tr with
      | leaf a => simp only [step, hfind]; exact fun _ => hi
      | node m its =>
        simp only [step, hfind]
        split
        · exact fun _ => hi
        · exact finish_inv f n _ _ hi (extendLoop_inv cfg t vs f false hi hk)
  | lIMul t k =>
    cases hfind : f.find? t with
    | none => simp only [step, hfind]; exact fun _ => hi
    | some tr =>
      cases tr with
      | leaf a => simp only [step, hfind]; exact fun _ => hi
      | node m its =>
        simp only [step, hfind]
        split
        · split
          · exact fun _ => hi
          · exact fun _ => clearAndNotify_inv cfg f n t m its hi hfind
        · split
          · exact fun _ => hi
          · refine finish_inv f n _ _ hi (extendLoop_inv cfg t _ f false hi ?_)
            intro v hv
            simp only [List.mem_flatten, List.mem_replicate] at hv
            obtain ⟨l, ⟨_, rfl⟩, hv⟩ := hv
            simp only [List.mem_map] at hv
            obtain ⟨kv, _, rfl⟩ := hv
            split <;> rfl
  | lSetSlice t a b c vs =>
    simp only [wellKeyed, Op.values, List.all_eq_true] at hk
    cases hfind : f.find? t with
    | none => simp only [step, hfind]; exact fun _ => hi
    | some tr =>
      cases tr with
      | leaf a => simp only [step, hfind]; exact fun _ => hi
      | node m its =>
        simp only [step, hfind]
        split
        · exact fun _ => hi
        · split
          · exact fun _ => hi
          · split
            · exact fun _ => hi
            · next start stop stp hidx =>
              split
              · exact fun _ => hi
              have hp := fun h => slicePrepare_inv cfg m (sliceIx cfg start stp) vs f 0 hi hk h
              have run_inv : ∀ (st sp : Int) (repl : List (Bool × VE)),
                  ((slicePrepare cfg m (sliceIx cfg start stp) f 0 vs).1.aliased = false → Keyed repl) →
                  (match sliceLoop cfg t st sp (slicePrepare cfg m (sliceIx cfg start stp) f 0 vs).1 0 repl false with
                    | .error e => (⟨(slicePrepare cfg m (sliceIx cfg start stp) f 0 vs).1, .err e⟩ : Res)
                    | .ok (f', upd) => ⟨if (n && upd) = true then notify f' [m.id] else f', .ok⟩).forest.aliased = false →
                  Inv (match sliceLoop cfg t st sp (slicePrepare cfg m (sliceIx cfg start stp) f 0 vs).1 0 repl false with
                    | .error e => (⟨(slicePrepare cfg m (sliceIx cfg start stp) f 0 vs).1, .err e⟩ : Res)
                    | .ok (f', upd) => ⟨if (n && upd) = true then notify f' [m.id] else f', .ok⟩).forest := by
                intro st sp repl hrepl
                split
                · exact fun h => (hp h).1
                · next f' upd heq =>
                  intro hal
                  simp only at hal ⊢
                  have hal' : f'.aliased = false := by
                    split at hal
                    · rw [notify_aliased] at hal; exact hal
                    · exact hal
                  have hp1 := unal_of_rise (sliceLoop_rise cfg t st sp repl _ 0 false (f', upd) heq) hal'
                  have := sliceLoop_inv cfg t st sp repl _ 0 false (hp hp1).1 (hrepl hp1) (f', upd) heq hal'
                  split
                  · exact this.notify _
                  · exact this
              split
              · refine run_inv _ _ _ ?_
                intro h
                split
                · exact keyed_zip (hp h).2 _
                · exact keyed_pad (hp h).2 _
              · split
                · exact fun h => (hp h).1
                · split
                  · exact run_inv _ _ _ (fun h => keyed_rev (hp h).2)
                  · exact run_inv _ _ _ (fun h => keyed_map (hp h).2)
  | dSetDefault t k v =>
    simp only [wellKeyed, Op.values, List.all_cons, List.all_nil, Bool.and_true] at hk
    cases hfind : f.find? t with
    | none => simp only [step, hfind]; exact fun _ => hi
    | some tr =>
      cases tr with
      | leaf a => simp only [step, hfind]; exact fun _ => hi
      | node m its =>
        simp only [step, hfind]
        split
        · exact fun _ => hi
        · exact setItem_inv cfg f n m its k v hi (find_self hfind) hk
  | dUpdate t kvs =>
    simp only [wellKeyed, Op.values, List.all_eq_true] at hk
    cases hfind : f.find? t with
    | none => simp only [step, hfind]; exact fun _ => hi
    | some tr =>
      cases tr with
      | leaf a => simp only [step, hfind]; exact fun _ => hi
      | node m its =>
        simp only [step, hfind]
        refine doRebind_inv cfg f n t m _ _ _ hi ?_
        intro x hx
        simp only [List.mem_map] at hx
        obtain ⟨kv, hkv, rfl⟩ := hx
        exact hk kv.2 (List.mem_map.mpr ⟨kv, hkv, rfl⟩)
  | rebind t pairs skip =>
    simp only [wellKeyed, Op.values, List.all_eq_true] at hk
    cases hfind : f.find? t with
    | none => simp only [step, hfind]; exact fun _ => hi
    | some tr =>
      cases tr with
      | leaf a => simp only [step, hfind]; exact fun _ => hi
      | node m its =>
        simp only [step, hfind]
        refine doRebind_inv cfg f n t m _ _ _ hi ?_
        intro x hx
        exact hk x.2.2 (List.mem_map.mpr ⟨x, hx, rfl⟩)
  | lDelSlice t a b c =>
    cases hfind : f.find? t with
    | none => simp only [step, hfind]; exact fun _ => hi
    | some tr =>
      cases tr with
      | leaf a => simp only [step, hfind]; exact fun _ => hi
      | node m its =>
        simp only [step, hfind]
        split
        · exact fun _ => hi
        · split
          · exact fun _ => hi
          · split
            · exact fun _ => hi
            · split
              · exact fun _ => hi
              · have h1 : ∀ ps, Inv (rawDelMany cfg f m its ps) := fun ps =>
                  ⟨rawDelMany_nb cfg f m its ps hi.nb (find_self hfind), rawDelMany_shape cfg f m its ps hi.shape (find_self hfind)⟩
                split
                · exact fun _ => (h1 _).notify _
                · exact fun _ => h1 _
  | setSeal t flag =>
    cases hfind : f.find? t with
    | none => simp only [step, hfind]; exact fun _ => hi
    | some tr =>
      cases tr with
      | leaf a => simp only [step, hfind]; exact fun _ => hi
      | node m its =>
        simp only [step, hfind]
        exact fun _ => ⟨setSeal_nb f t flag hi.nb, setSeal_shape f t flag hi.shape⟩
  | delItem t k =>
    cases hfind : f.find? t with
    | none => simp only [step, hfind]; exact fun _ => hi
    | some tr =>
      cases tr with
      | leaf a => simp only [step, hfind]; exact fun _ => hi
      | node m its =>
        simp only [step, hfind]
        cases hkind : m.kind with
        | dict =>
          exact delItemDict_inv cfg f n m its k false hi (find_self hfind) (by rw [hkind]; exact fun h => Kind.noConfusion h)
        | list =>
          cases k with
          | s _ => exact fun _ => hi
          | i idx => exact fun _ => delItemList_inv cfg f n m its idx false hi (find_self hfind)
        | obj c => exact fun _ => hi
  | lPop t idx =>
    cases hfind : f.find? t with
    | none => simp only [step, hfind]; exact fun _ => hi
    | some tr =>
      cases tr with
      | leaf a => simp only [step, hfind]; exact fun _ => hi
      | node m its =>
        simp only [step, hfind]
        split
        · exact fun _ => hi
        · exact fun _ => delItemList_inv cfg f n m its _ true hi (find_self hfind)
  | lRemove t a =>
    cases hfind : f.find? t with
    | none => simp only [step, hfind]; exact fun _ => hi
    | some tr =>
      cases tr with
      | leaf a => simp only [step, hfind]; exact fun _ => hi
      | node m its =>
        simp only [step, hfind]
        split
        · exact fun _ => delItemList_inv cfg f n m its _ false hi (find_self hfind)
        · exact fun _ => hi
  | lClear t =>
    cases hfind : f.find? t with
    | none => simp only [step, hfind]; exact fun _ => hi
    | some tr =>
      cases tr with
      | leaf a => simp only [step, hfind]; exact fun _ => hi
      | node m its =>
        simp only [step, hfind]
        split
        · exact fun _ => hi
        · exact fun _ => clearAndNotify_inv cfg f n t m its hi hfind
  | lSort t ranks rev =>
    cases hfind : f.find? t with
    | none => simp only [step, hfind]; exact fun _ => hi
    | some tr =>
      cases tr with
      | leaf a => simp only [step, hfind]; exact fun _ => hi
      | node m its =>
        simp only [step, hfind]
        split
        · exact fun _ => hi
        · exact fun _ => permuteAndNotify_inv cfg f n t its _ (noNew_pySort ranks rev) (pySort_count ranks rev) hi
  | lReverse t =>
    cases hfind : f.find? t with
    | none => simp only [step, hfind]; exact fun _ => hi
    | some tr =>
      cases tr with
      | leaf a => simp only [step, hfind]; exact fun _ => hi
      | node m its =>
        simp only [step, hfind]
        split
        · exact fun _ => hi
        · exact fun _ => permuteAndNotify_inv cfg f n t its _ noNew_reverse reverse_count hi
  | dPop t k =>
    cases hfind : f.find? t with
    | none => simp only [step, hfind]; exact fun _ => hi
    | some tr =>
      cases tr with
      | leaf a => simp only [step, hfind]; exact fun _ => hi
      | node m its =>
        simp only [step, hfind]
        split
        · next hkind =>
          split
          · exact delItemDict_inv cfg f n m its k true hi (find_self hfind) (by rw [hkind]; exact fun h => Kind.noConfusion h)
          · exact fun _ => hi
        · exact fun _ => hi
  | dPopItem t =>
    cases hfind : f.find? t with
    | none => simp only [step, hfind]; exact fun _ => hi
    | some tr =>
      cases tr with
      | leaf a => simp only [step, hfind]; exact fun _ => hi
      | node m its =>
        simp only [step, hfind]
        split
        · exact fun _ => hi
        next hkind =>
        split
        · exact fun _ => hi
        · split
          · exact fun _ => hi
          · next k c hlast =>
            have hnode := hi.shape.node t m its hfind
            have h1 : Inv ((f.mapAt t (fun _ xs => eraseKey k xs)).addRoot
                (if cfg.detachOnRemove = true then detachFrom .dict c else c)) :=
              ⟨popItem_nb cfg f t m its k c hi.nb hfind (keysOk_nodup m.kind its hnode.1) hlast,
               popItem_shape cfg f t m its k c hi.nb hi.shape hfind hkind hlast⟩
            simp only
            split
            · exact fun _ => h1.notify _
            · exact fun _ => h1
  | dClear t =>
    cases hfind : f.find? t with
    | none => simp only [step, hfind]; exact fun _ => hi
    | some tr =>
      cases tr with
      | leaf a => simp only [step, hfind]; exact fun _ => hi
      | node m its =>
        simp only [step, hfind]
        split
        · exact fun _ => hi
        · exact fun _ => clearAndNotify_inv cfg f n t m its hi hfind

/-! ### the Bool checker `Forest.wf` and the propositional invariant -/

theorem nodupNat_iff : (l : List Nat) → (nodupNat l = true ↔ l.Nodup)
  | [] => by simp [nodupNat]
  | x :: xs => by
    simp only [nodupNat, Bool.and_eq_true, Bool.not_eq_true', List.contains_eq_mem, decide_eq_false_iff_not,
      List.nodup_cons, nodupNat_iff xs]

theorem wf_iff (f : Forest) : f.wf = true ↔ (f.ok = true ∧ Inv f ∧ f.aliased = false ∧ f.pool = []) := by
  unfold Forest.wf Forest.ok
  simp only [Bool.and_eq_true, Bool.not_eq_true', List.isEmpty_iff]
  constructor
  · rintro ⟨⟨⟨⟨⟨hok, hnd⟩, hsh⟩, hb⟩, hal⟩, hp⟩
    refine ⟨hok, ⟨⟨?_, ?_⟩, ⟨?_, ?_⟩⟩, hal, hp⟩
    · rw [nodupNat_iff, List.nodup_iff_count] at hnd
      exact hnd
    · intro i hi
      rw [List.count_eq_zero]
      intro hmem
      rw [List.all_eq_true] at hb
      have := hb i hmem
      simp only [decide_eq_true_eq] at this
      omega
    · rw [List.all_eq_true] at hsh; exact hsh
    · intro r hr; rw [hp] at hr; cases hr
  · rintro ⟨hok, ⟨⟨hnd, hb⟩, ⟨hsh, _⟩⟩, hal, hp⟩
    refine ⟨⟨⟨⟨⟨hok, ?_⟩, ?_⟩, ?_⟩, hal⟩, hp⟩
    · rw [nodupNat_iff, List.nodup_iff_count]; exact hnd
    · rw [List.all_eq_true]; exact hsh
    · rw [List.all_eq_true]
      intro i hmem
      simp only [decide_eq_true_eq]
      have h1 := count_pos_of_mem hmem
      cases Nat.lt_or_ge i f.nextId with
      | inl h => exact h
      | inr h => have := hb i h; omega

theorem stepN_inv (cfg : Cfg) (f : Forest) (n : Bool) (op : Op) (hi : Inv f) (hk : wellKeyed op = true)
    (hal : (stepN cfg f n op).forest.aliased = false) : Inv (stepN cfg f n op).forest := by
  unfold stepN at hal ⊢
  exact normalizeRoots_inv f _ _ hi.nb (step_inv cfg f n op hi hk hal)

theorem stepA_inv (cfg : Cfg) (f : Forest) (n : Bool) (op : Op) (hi : Inv f) (hk : wellKeyed op = true)
    (hal : (stepA cfg f n op).forest.aliased = false) : Inv (stepA cfg f n op).forest := by
  unfold stepA at hal ⊢
  split
  · exact hi
  · next hd => rw [if_neg hd] at hal; exact stepN_inv cfg f n op hi hk hal

theorem stepA_pool (cfg : Cfg) (f : Forest) (n : Bool) (op : Op) (hp : f.pool = []) : (stepA cfg f n op).forest.pool = [] := by
  unfold stepA
  split
  · exact hp
  · rfl

/-! ### the mark `aliased` is never cleared -/

theorem step_rise (cfg : Cfg) (f : Forest) (n : Bool) (op : Op) (ha : f.aliased = true) :
    (step cfg f n op).forest.aliased = true := by
  cases op with
  | new v =>
    cases v with
    | node kind sl aw pt items =>
      simp only [step]
      rw [addRoot_aliased]
      exact (evalVE_mono cfg none _ f none false false []).aliased ha
    | atom a => simp only [step]; exact ha
    | fresh => simp only [step]; exact ha
    | freshTuple k => simp only [step]; exact ha
    | mkRef tg => simp only [step]; exact ha
    | typedList items => simp only [step]; exact ha
    | ref id => simp only [step]; exact ha
  | clone t deep =>
    cases hfind : f.find? t with
    | none => simp only [step, hfind]; exact ha
    | some tr => simp only [step, hfind]; exact ha
  | setItem t k v =>
    cases hfind : f.find? t with
    | none => simp only [step, hfind]; exact ha
    | some tr =>
      cases tr with
      | leaf a => simp only [step, hfind]; exact ha
      | node m its => simp only [step, hfind]; exact setItem_rise cfg f n m its k v ha
  | lAppend t v =>
    cases hfind : f.find? t with
    | none => simp only [step, hfind]; exact ha
    | some tr =>
      cases tr with
      | leaf a => simp only [step, hfind]; exact ha
      | node m its =>
        simp only [step, hfind]
        split
        · exact ha
        · exact finish_rise f n _ _ (rawSetList_rise cfg f m its _ false v) ha
  | lInsert t idx v =>
    cases hfind : f.find? t with
    | none => simp only [step, hfind]; exact ha
    | some tr =>
      cases tr with
      | leaf a => simp only [step, hfind]; exact ha
      | node m its =>
        simp only [step, hfind]
        split
        · exact ha
        · exact finish_rise f n _ _ (rawSetList_rise cfg f m its _ true v) ha
  | lExtend t vs =>
    cases hfind : f.find? t with
    | none => simp only [step, hfind]; exact ha
    | some tr =>
      cases tr with
      | leaf a => simp only [step, hfind]; exact ha
      | node m its =>
        simp only [step, hfind]
        split
        · exact ha
        · exact finish_rise f n _ _ (extendLoop_rise cfg t vs f false) ha
  | lIMul t k =>
    cases hfind : f.find? t with
    | none => simp only [step, hfind]; exact ha
    | some tr =>
      cases tr with
      | leaf a => simp only [step, hfind]; exact ha
      | node m its =>
        simp only [step, hfind]
        split
        · split
          · exact ha
          · rw [clearAndNotify_aliased]; exact ha
        · split
          · exact ha
          · exact finish_rise f n _ _ (extendLoop_rise cfg t _ f false) ha
  | lSetSlice t a b c vs =>
    cases hfind : f.find? t with
    | none => simp only [step, hfind]; exact ha
    | some tr =>
      cases tr with
      | leaf a => simp only [step, hfind]; exact ha
      | node m its =>
        simp only [step, hfind]
        split
        · exact ha
        · split
          · exact ha
          · split
            · exact ha
            · next start stop stp hidx =>
              split
              · exact ha
              have hp := slicePrepare_rise cfg m (sliceIx cfg start stp) vs f 0 ha
              have run_rise : ∀ (st sp : Int) (repl : List (Bool × VE)),
                  (match sliceLoop cfg t st sp (slicePrepare cfg m (sliceIx cfg start stp) f 0 vs).1 0 repl false with
                    | .error e => (⟨(slicePrepare cfg m (sliceIx cfg start stp) f 0 vs).1, .err e⟩ : Res)
                    | .ok (f', upd) => ⟨if (n && upd) = true then notify f' [m.id] else f', .ok⟩).forest.aliased = true := by
                intro st sp repl
                split
                · exact hp
                · next f' upd heq =>
                  have := sliceLoop_rise cfg t st sp repl _ 0 false (f', upd) heq hp
                  simp only
                  split
                  · rw [notify_aliased]; exact this
                  · exact this
              split
              · exact run_rise _ _ _
              · split
                · exact hp
                · split
                  · exact run_rise _ _ _
                  · exact run_rise _ _ _
  | dSetDefault t k v =>
    cases hfind : f.find? t with
    | none => simp only [step, hfind]; exact ha
    | some tr =>
      cases tr with
      | leaf a => simp only [step, hfind]; exact ha
      | node m its =>
        simp only [step, hfind]
        split
        · exact ha
        · exact setItem_rise cfg f n m its k v ha
  | dUpdate t kvs =>
    cases hfind : f.find? t with
    | none => simp only [step, hfind]; exact ha
    | some tr =>
      cases tr with
      | leaf a => simp only [step, hfind]; exact ha
      | node m its => simp only [step, hfind]; exact doRebind_rise cfg f n t m _ _ _ ha
  | rebind t pairs skip =>
    cases hfind : f.find? t with
    | none => simp only [step, hfind]; exact ha
    | some tr =>
      cases tr with
      | leaf a => simp only [step, hfind]; exact ha
      | node m its => simp only [step, hfind]; exact doRebind_rise cfg f n t m _ _ _ ha
  | lDelSlice t a b c =>
    cases hfind : f.find? t with
    | none => simp only [step, hfind]; exact ha
    | some tr =>
      cases tr with
      | leaf a => simp only [step, hfind]; exact ha
      | node m its =>
        simp only [step, hfind]
        split
        · exact ha
        · split
          · exact ha
          · split
            · exact ha
            · split
              · exact ha
              · have h1 : ∀ ps, (rawDelMany cfg f m its ps).aliased = true := by
                  intro ps; unfold rawDelMany; simp only; rw [addRoots_aliased]; exact ha
                split
                · rw [notify_aliased]; exact h1 _
                · exact h1 _
  | setSeal t flag =>
    cases hfind : f.find? t with
    | none => simp only [step, hfind]; exact ha
    | some tr =>
      cases tr with
      | leaf a => simp only [step, hfind]; exact ha
      | node m its => simp only [step, hfind]; exact ha
  | delItem t k =>
    cases hfind : f.find? t with
    | none => simp only [step, hfind]; exact ha
    | some tr =>
      cases tr with
      | leaf a => simp only [step, hfind]; exact ha
      | node m its =>
        simp only [step, hfind]
        cases hkind : m.kind with
        | dict => exact delItemDict_rise cfg f n m its k false ha
        | list =>
          cases k with
          | s _ => exact ha
          | i idx => simp only; rw [delItemList_aliased]; exact ha
        | obj c => exact ha
  | lPop t idx =>
    cases hfind : f.find? t with
    | none => simp only [step, hfind]; exact ha
    | some tr =>
      cases tr with
      | leaf a => simp only [step, hfind]; exact ha
      | node m its =>
        simp only [step, hfind]
        split
        · exact ha
        · rw [delItemList_aliased]; exact ha
  | lRemove t a =>
    cases hfind : f.find? t with
    | none => simp only [step, hfind]; exact ha
    | some tr =>
      cases tr with
      | leaf a => simp only [step, hfind]; exact ha
      | node m its =>
        simp only [step, hfind]
        split
        · rw [delItemList_aliased]; exact ha
        · exact ha
  | lClear t =>
    cases hfind : f.find? t with
    | none => simp only [step, hfind]; exact ha
    | some tr =>
      cases tr with
      | leaf a => simp only [step, hfind]; exact ha
      | node m its =>
        simp only [step, hfind]
        split
        · exact ha
        · rw [clearAndNotify_aliased]; exact ha
  | lSort t ranks rev =>
    cases hfind : f.find? t with
    | none => simp only [step, hfind]; exact ha
    | some tr =>
      cases tr with
      | leaf a => simp only [step, hfind]; exact ha
      | node m its =>
        simp only [step, hfind]
        split
        · exact ha
        · rw [permuteAndNotify_aliased]; exact ha
  | lReverse t =>
    cases hfind : f.find? t with
    | none => simp only [step, hfind]; exact ha
    | some tr =>
      cases tr with
      | leaf a => simp only [step, hfind]; exact ha
      | node m its =>
        simp only [step, hfind]
        split
        · exact ha
        · rw [permuteAndNotify_aliased]; exact ha
  | dPop t k =>
    cases hfind : f.find? t with
    | none => simp only [step, hfind]; exact ha
    | some tr =>
      cases tr with
      | leaf a => simp only [step, hfind]; exact ha
      | node m its =>
        simp only [step, hfind]
        split
        · split
          · exact delItemDict_rise cfg f n m its k true ha
          · exact ha
        · exact ha
  | dPopItem t =>
    cases hfind : f.find? t with
    | none => simp only [step, hfind]; exact ha
    | some tr =>
      cases tr with
      | leaf a => simp only [step, hfind]; exact ha
      | node m its =>
        simp only [step, hfind]
        split
        · exact ha
        split
        · exact ha
        · split
          · exact ha
          · simp only
            split
            · rw [notify_aliased, addRoot_aliased]; exact ha
            · rw [addRoot_aliased]; exact ha
  | dClear t =>
    cases hfind : f.find? t with
    | none => simp only [step, hfind]; exact ha
    | some tr =>
      cases tr with
      | leaf a => simp only [step, hfind]; exact ha
      | node m its =>
        simp only [step, hfind]
        split
        · exact ha
        · rw [clearAndNotify_aliased]; exact ha

theorem stepA_rise (cfg : Cfg) (f : Forest) (n : Bool) (op : Op) (ha : f.aliased = true) :
    (stepA cfg f n op).forest.aliased = true := by
  unfold stepA
  split
  · exact ha
  · unfold stepN
    rw [normalizeRoots_aliased]
    exact step_rise cfg f n op ha

theorem repOk_iff (f : Forest) : f.repOk = true ↔ (Inv f ∧ f.pool = []) := by
  unfold Forest.repOk
  simp only [Bool.and_eq_true, List.isEmpty_iff]
  constructor
  · rintro ⟨⟨⟨hnd, hsh⟩, hb⟩, hp⟩
    refine ⟨⟨⟨?_, ?_⟩, ⟨?_, ?_⟩⟩, hp⟩
    · rw [nodupNat_iff, List.nodup_iff_count] at hnd
      exact hnd
    · intro i hi
      rw [List.count_eq_zero]
      intro hmem
      rw [List.all_eq_true] at hb
      have := hb i hmem
      simp only [decide_eq_true_eq] at this
      omega
    · rw [List.all_eq_true] at hsh; exact hsh
    · intro r hr; rw [hp] at hr; cases hr
  · rintro ⟨⟨⟨hnd, hb⟩, ⟨hsh, _⟩⟩, hp⟩
    refine ⟨⟨⟨?_, ?_⟩, ?_⟩, hp⟩
    · rw [nodupNat_iff, List.nodup_iff_count]; exact hnd
    · rw [List.all_eq_true]; exact hsh
    · rw [List.all_eq_true]
      intro i hmem
      simp only [decide_eq_true_eq]
      have h1 := count_pos_of_mem hmem
      cases Nat.lt_or_ge i f.nextId with
      | inl h => exact h
      | inr h => have := hb i h; omega

/-! ### histories -/

theorem runHist_append (cfg : Cfg) : (a b : List (Bool × Op)) → ∀ f, runHist cfg f (a ++ b) = runHist cfg (runHist cfg f a) b
  | [], _, _ => rfl
  | (n, op) :: a, b, f => by simp only [List.cons_append, runHist]; exact runHist_append cfg a b _

theorem runHist_rise (cfg : Cfg) : (hist : List (Bool × Op)) → ∀ f, f.aliased = true → (runHist cfg f hist).aliased = true
  | [], _, ha => ha
  | (n, op) :: rest, f, ha => by
    simp only [runHist]
    exact runHist_rise cfg rest _ (stepA_rise cfg f n op ha)

theorem runHist_prefix_unal (cfg : Cfg) (f : Forest) (hist : List (Bool × Op)) (k : Nat)
    (h : (runHist cfg f hist).aliased = false) : (runHist cfg f (hist.take k)).aliased = false := by
  have := runHist_append cfg (hist.take k) (hist.drop k) f
  rw [List.take_append_drop] at this
  rw [this] at h
  exact unal_of_rise (runHist_rise cfg (hist.drop k) _) h

end Pg.Sym
