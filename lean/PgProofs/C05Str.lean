/- String form: `_decode_int_keys ∘ _encode_int_keys` is the identity on what `to_json` produces
for `Encodable true` trees. -/
import PgProofs.C05Codec
import PgProofs.C05Keys
namespace Pg.C05

def keyPrefixed : Key → Bool
  | .s k => intKeyPrefix.isPrefixOf k
  | .i _ => false

theorem intKeyPrefix_eq' : intKeyPrefix = ['n', '_', ':'] := by decide

theorem decKey_encKey (k : Key) (h : keyPrefixed k = false) : decKey (encKey k) = .ok k := by
  cases k with
  | s name =>
    simp only [keyPrefixed] at h
    simp [decKey, encKey, h]
  | i n =>
    have hp : intKeyPrefix.isPrefixOf (intKeyPrefix ++ reprInt n) = true := by
      rw [intKeyPrefix_eq']; simp [List.isPrefixOf]
    have hd : (intKeyPrefix ++ reprInt n).drop 3 = reprInt n := by
      rw [intKeyPrefix_eq']; rfl
    simp only [decKey, encKey, hp, if_true, hd, parseInt_reprInt]

theorem encKey_inj (k k' : Key) (h : keyPrefixed k = false) (h' : keyPrefixed k' = false)
    (e : encKey k = encKey k') : k = k' := by
  have a := decKey_encKey k h
  have b := decKey_encKey k' h'
  rw [e, b] at a
  injection a with a
  exact a.symm

/-! ### The JSON values on which the key coding is lossless -/

def jkeysNodup : List (Key × JV) → Bool
  | [] => true
  | (k, _) :: r => !(r.any (fun p => p.1 == k)) && jkeysNodup r

mutual
  def JOk : JV → Bool
    | .arr xs => JOkL xs
    | .obj kvs => JOkKV kvs && jkeysNodup kvs
    | _ => true
  def JOkL : List JV → Bool
    | [] => true
    | x :: xs => JOk x && JOkL xs
  def JOkKV : List (Key × JV) → Bool
    | [] => true
    | (k, x) :: r => !keyPrefixed k && JOk x && JOkKV r
end

def encMap : List (Key × JV) → List (Str × JS)
  | [] => []
  | (k, x) :: r => (encKey k, encodeIntKeys x) :: encMap r

theorem dsetS_notin (k : Str) (v : JS) : (acc : List (Str × JS)) → k ∉ acc.map (·.1) →
    dsetS k v acc = acc ++ [(k, v)]
  | [], _ => rfl
  | (l, w) :: r, h => by
    simp only [List.map_cons, List.mem_cons, not_or] at h
    have hne : l ≠ k := fun e => h.1 e.symm
    simp only [dsetS, if_neg hne, List.cons_append, dsetS_notin k v r h.2]

theorem dsetK_notin (k : Key) (v : JV) : (acc : List (Key × JV)) → k ∉ acc.map (·.1) →
    dsetK k v acc = acc ++ [(k, v)]
  | [], _ => rfl
  | (l, w) :: r, h => by
    simp only [List.map_cons, List.mem_cons, not_or] at h
    have hne : l ≠ k := fun e => h.1 e.symm
    simp only [dsetK, if_neg hne, List.cons_append, dsetK_notin k v r h.2]

theorem JOkKV_keys : (kvs : List (Key × JV)) → JOkKV kvs = true → ∀ p ∈ kvs, keyPrefixed p.1 = false
  | [], _, _, hp => by cases hp
  | (k, x) :: r, h, p, hp => by
    simp only [JOkKV, Bool.and_eq_true, Bool.not_eq_true'] at h
    rcases List.mem_cons.mp hp with rfl | hp
    · exact h.1.1
    · exact JOkKV_keys r h.2 p hp

theorem jkeysNodup_head (k : Key) (x : JV) (r : List (Key × JV)) (h : jkeysNodup ((k, x) :: r) = true) :
    (∀ q ∈ r, q.1 ≠ k) ∧ jkeysNodup r = true := by
  simp only [jkeysNodup, Bool.and_eq_true, Bool.not_eq_true', List.any_eq_false, beq_iff_eq] at h
  exact ⟨fun q hq => h.1 q hq, h.2⟩

/-- The dict comprehension of `_encode_int_keys` does not merge anything. -/
theorem encodeKV_eq : (kvs : List (Key × JV)) → (acc : List (Str × JS)) →
    (∀ p ∈ kvs, keyPrefixed p.1 = false) → jkeysNodup kvs = true →
    (∀ p ∈ kvs, encKey p.1 ∉ acc.map (·.1)) → encodeKV kvs acc = acc ++ encMap kvs
  | [], acc, _, _, _ => by simp [encodeKV, encMap]
  | (k, x) :: r, acc, hpre, hnd, hacc => by
    obtain ⟨hne, hnd'⟩ := jkeysNodup_head k x r hnd
    have hk := hacc (k, x) (List.mem_cons_self ..)
    simp only [encodeKV, encMap]
    rw [dsetS_notin _ _ acc hk]
    rw [encodeKV_eq r _ (fun p hp => hpre p (List.mem_cons_of_mem _ hp)) hnd']
    · simp
    · intro p hp
      simp only [List.map_append, List.map_cons, List.map_nil, List.mem_append, List.mem_singleton, not_or]
      refine ⟨hacc p (List.mem_cons_of_mem _ hp), ?_⟩
      intro e
      exact hne p hp (encKey_inj p.1 k (hpre p (List.mem_cons_of_mem _ hp))
        (hpre (k, x) (List.mem_cons_self ..)) e)

mutual
  theorem dec_enc : (j : JV) → JOk j = true → decodeIntKeys (encodeIntKeys j) = .ok j
    | .null, _ => rfl
    | .bool _, _ => rfl
    | .int _, _ => rfl
    | .float _, _ => rfl
    | .str _, _ => rfl
    | .arr xs, h => by
      simp only [JOk] at h
      simp only [encodeIntKeys, decodeIntKeys, dec_encL xs h]
    | .obj kvs, h => by
      simp only [JOk, Bool.and_eq_true] at h
      have he := encodeKV_eq kvs [] (JOkKV_keys kvs h.1) h.2 (by simp)
      simp only [List.nil_append] at he
      have hd := dec_encKV kvs h.1 h.2 [] (by simp)
      simp only [encodeIntKeys, decodeIntKeys, he, hd, List.nil_append]
  theorem dec_encL : (xs : List JV) → JOkL xs = true → decodeL (encodeL xs) = .ok xs
    | [], _ => rfl
    | x :: xs, h => by
      simp only [JOkL, Bool.and_eq_true] at h
      simp only [encodeL, decodeL, dec_enc x h.1, dec_encL xs h.2]
  theorem dec_encKV : (kvs : List (Key × JV)) → JOkKV kvs = true → jkeysNodup kvs = true →
      (acc : List (Key × JV)) → (∀ p ∈ kvs, p.1 ∉ acc.map (·.1)) →
      decodeKV (encMap kvs) acc = .ok (acc ++ kvs)
    | [], _, _, acc, _ => by simp [encMap, decodeKV]
    | (k, x) :: r, h, hnd, acc, hacc => by
      simp only [JOkKV, Bool.and_eq_true, Bool.not_eq_true'] at h
      obtain ⟨hne, hnd'⟩ := jkeysNodup_head k x r hnd
      have hk := hacc (k, x) (List.mem_cons_self ..)
      simp only [encMap, decodeKV, decKey_encKey k h.1.1, dec_enc x h.1.2, dsetK_notin k x acc hk]
      rw [dec_encKV r h.2 hnd' (acc ++ [(k, x)])]
      · simp
      · intro p hp
        simp only [List.map_append, List.map_cons, List.map_nil, List.mem_append, List.mem_singleton, not_or]
        exact ⟨hacc p (List.mem_cons_of_mem _ hp), hne p hp⟩
end

end Pg.C05

namespace Pg.C05

/-! ### `Encodable true` implies `Encodable false` -/

mutual
  theorem enc_mono : (t : Tree) → Encodable true t = true → Encodable false t = true
    | .leaf a, h => by cases a <;> simp_all [Encodable]
    | .list xs, h => by
      simp only [Encodable, Bool.and_eq_true] at h ⊢
      exact ⟨h.1, enc_monoL xs h.2⟩
    | .tuple xs, h => by
      simp only [Encodable, Bool.and_eq_true] at h ⊢
      exact ⟨h.1, enc_monoL xs h.2⟩
    | .dict kvs, h => by
      simp only [Encodable] at h ⊢
      exact enc_monoKV kvs h
    | .obj c attrs, h => by
      simp only [Encodable] at h ⊢
      exact enc_monoA attrs h
  theorem enc_monoL : (xs : List Tree) → EncodableL true xs = true → EncodableL false xs = true
    | [], _ => rfl
    | x :: xs, h => by
      simp only [EncodableL, Bool.and_eq_true] at h ⊢
      exact ⟨enc_mono x h.1, enc_monoL xs h.2⟩
  theorem enc_monoKV : (xs : List (Key × Tree)) → EncodableKV true xs = true → EncodableKV false xs = true
    | [], _ => rfl
    | (k, x) :: xs, h => by
      simp only [EncodableKV, Bool.and_eq_true, Bool.not_eq_true'] at h ⊢
      refine ⟨⟨?_, enc_mono x h.1.2⟩, enc_monoKV xs h.2⟩
      cases k with
      | s name =>
        have := h.1.1
        simp only [keyReserved, Bool.true_and, Bool.or_eq_false_iff] at this
        simp [keyReserved, this.1]
      | i n => rfl
  theorem enc_monoA : (xs : List (Str × Tree)) → EncodableA true xs = true → EncodableA false xs = true
    | [], _ => rfl
    | (k, x) :: xs, h => by
      simp only [EncodableA, Bool.and_eq_true, Bool.or_eq_true] at h ⊢
      refine ⟨⟨⟨h.1.1.1, by simp⟩, ?_⟩, enc_monoA xs h.2⟩
      rcases h.1.2 with hm | he
      · exact .inl hm
      · exact .inr (enc_mono x he)
end

/-! ### `to_json` of an `Encodable true` conforming tree is `JOk` -/

theorem typeKey_not_prefixed : keyPrefixed (.s typeKey) = false := by decide

theorem jkeysNodup_toJsonKV (env : ClassEnv) : (kvs : List (Key × Tree)) → keysNodup kvs = true →
    jkeysNodup (toJsonKV env kvs) = true
  | [], _ => rfl
  | (k, x) :: r, h => by
    simp only [keysNodup, Bool.and_eq_true, Bool.not_eq_true', List.any_eq_false, beq_iff_eq] at h
    simp only [toJsonKV, jkeysNodup, Bool.and_eq_true, Bool.not_eq_true', List.any_eq_false, beq_iff_eq]
    refine ⟨?_, jkeysNodup_toJsonKV env r h.2⟩
    have hkeys : ∀ (l : List (Key × Tree)) (q : Key × JV), q ∈ toJsonKV env l → ∃ p ∈ l, p.1 = q.1 := by
      intro l
      induction l with
      | nil => intro q hq; simp [toJsonKV] at hq
      | cons p l ih =>
        obtain ⟨pk, pv⟩ := p
        intro q hq
        simp only [toJsonKV, List.mem_cons] at hq
        rcases hq with rfl | hq
        · exact ⟨(pk, pv), List.mem_cons_self .., rfl⟩
        · obtain ⟨p', hp', e⟩ := ih q hq
          exact ⟨p', List.mem_cons_of_mem _ hp', e⟩
    intro q hq
    obtain ⟨p, hp, e⟩ := hkeys r q hq
    rw [← e]; exact h.1 p hp

/-- Keys of the attribute part: `.s name` for a sub-list of the attribute names. -/
theorem toJsonA_keys (env : ClassEnv) (frozen : List Str) : (attrs : List (Str × Tree)) →
    ∀ q ∈ toJsonA env frozen attrs, ∃ k, q.1 = .s k ∧ k ∈ attrs.map (·.1)
  | [], q, hq => by simp [toJsonA] at hq
  | (k, x) :: r, q, hq => by
    simp only [toJsonA] at hq
    split at hq
    · obtain ⟨k', e, hk'⟩ := toJsonA_keys env frozen r q hq
      exact ⟨k', e, List.mem_cons_of_mem _ hk'⟩
    · rcases List.mem_cons.mp hq with rfl | hq
      · exact ⟨k, rfl, List.mem_cons_self ..⟩
      · obtain ⟨k', e, hk'⟩ := toJsonA_keys env frozen r q hq
        exact ⟨k', e, List.mem_cons_of_mem _ hk'⟩

theorem jkeysNodup_toJsonA (env : ClassEnv) (frozen : List Str) : (attrs : List (Str × Tree)) →
    (attrs.map (·.1)).Nodup → jkeysNodup (toJsonA env frozen attrs) = true
  | [], _ => rfl
  | (k, x) :: r, h => by
    simp only [List.map_cons, List.nodup_cons] at h
    have ih := jkeysNodup_toJsonA env frozen r h.2
    simp only [toJsonA]
    split
    · exact ih
    · simp only [jkeysNodup, Bool.and_eq_true, Bool.not_eq_true', List.any_eq_false, beq_iff_eq]
      refine ⟨?_, ih⟩
      intro q hq e
      obtain ⟨k', e', hk'⟩ := toJsonA_keys env frozen r q hq
      rw [e'] at e
      injection e with e
      exact h.1 (e ▸ hk')

mutual
  theorem jok_tree (env : ClassEnv) (hwf : env.WF = true) : (t : Tree) → Conforms env t = true →
      Encodable true t = true → JOk (toJson env t) = true
    | .leaf a, _, he => by cases a <;> simp_all [toJson, atomJ, JOk, Encodable]
    | .list xs, hc, he => by
      simp only [Encodable, Bool.and_eq_true] at he
      simp only [Conforms] at hc
      simp only [toJson, JOk, jok_list env hwf xs hc he.2]
    | .tuple xs, hc, he => by
      simp only [Encodable, Bool.and_eq_true] at he
      simp only [Conforms] at hc
      simp only [toJson, JOk, JOkL, jok_list env hwf xs hc he.2, Bool.and_self]
    | .dict kvs, hc, he => by
      simp only [Encodable] at he
      simp only [Conforms, Bool.and_eq_true] at hc
      simp only [toJson, JOk, jok_kv env hwf kvs hc.2 he, jkeysNodup_toJsonKV env kvs hc.1, Bool.and_self]
    | .obj c attrs, hc, he => by
      simp only [Encodable] at he
      simp only [Conforms, Bool.and_eq_true] at hc
      cases hfind : env.find c with
      | none => simp [hfind] at hc
      | some fs =>
        simp only [hfind] at hc
        have hnd := fieldsNodup_names fs (find_wf env hwf c fs hfind)
        have hA : (attrs.map (·.1)).Nodup := by rw [attrsOK_names fs attrs hc.1]; exact hnd
        have h1 := jok_attrs env hwf (env.frozenOf c) attrs hc.2 he
        have h2 := jkeysNodup_toJsonA env (env.frozenOf c) attrs hA
        have h3 : ∀ q ∈ toJsonA env (env.frozenOf c) attrs, q.1 ≠ Key.s typeKey := by
          intro q hq e
          obtain ⟨k, ek, hk⟩ := toJsonA_keys env (env.frozenOf c) attrs q hq
          rw [ek] at e
          injection e with e
          subst e
          -- `_type` is not an attribute name of an encodable object
          have : ∀ (l : List (Str × Tree)), EncodableA true l = true → typeKey ∉ l.map (·.1) := by
            intro l
            induction l with
            | nil => intro _ h; cases h
            | cons p l ih =>
              obtain ⟨pk, pv⟩ := p
              intro hl hm
              simp only [EncodableA, Bool.and_eq_true, bne_iff_ne, ne_eq] at hl
              rcases List.mem_cons.mp hm with e | hm
              · exact hl.1.1.1 e.symm
              · exact ih hl.2 hm
          exact this attrs he hk
        simp only [toJson, JOk, JOkKV, typeKey_not_prefixed, h1, jkeysNodup, h2, Bool.not_false,
          Bool.true_and, Bool.and_true, Bool.and_eq_true, Bool.not_eq_true', List.any_eq_false, beq_iff_eq]
        exact fun q hq => h3 q hq
  theorem jok_list (env : ClassEnv) (hwf : env.WF = true) : (xs : List Tree) → ConformsL env xs = true →
      EncodableL true xs = true → JOkL (toJsonL env xs) = true
    | [], _, _ => rfl
    | x :: xs, hc, he => by
      simp only [ConformsL, EncodableL, Bool.and_eq_true] at hc he
      simp only [toJsonL, JOkL, jok_tree env hwf x hc.1 he.1, jok_list env hwf xs hc.2 he.2, Bool.and_self]
  theorem jok_kv (env : ClassEnv) (hwf : env.WF = true) : (kvs : List (Key × Tree)) →
      ConformsKV env kvs = true → EncodableKV true kvs = true → JOkKV (toJsonKV env kvs) = true
    | [], _, _ => rfl
    | (k, x) :: xs, hc, he => by
      simp only [ConformsKV, EncodableKV, Bool.and_eq_true, Bool.not_eq_true'] at hc he
      have hk : keyPrefixed k = false := by
        cases k with
        | s name =>
          have := he.1.1
          simp only [keyReserved, Bool.true_and, Bool.or_eq_false_iff] at this
          simp [keyPrefixed, this.2]
        | i n => rfl
      simp only [toJsonKV, JOkKV, hk, jok_tree env hwf x hc.1 he.1.2, jok_kv env hwf xs hc.2 he.2,
        Bool.not_false, Bool.and_self]
  theorem jok_attrs (env : ClassEnv) (hwf : env.WF = true) (frozen : List Str) :
      (attrs : List (Str × Tree)) → ConformsA env attrs = true → EncodableA true attrs = true →
      JOkKV (toJsonA env frozen attrs) = true
    | [], _, _ => rfl
    | (k, x) :: xs, hc, he => by
      simp only [ConformsA, EncodableA, Bool.and_eq_true] at hc he
      have ih := jok_attrs env hwf frozen xs hc.2 he.2
      simp only [toJsonA]
      split
      · exact ih
      · rename_i hkeep
        have hnm : isMissing x = false := by
          cases hx : isMissing x with
          | false => rfl
          | true => simp [hx] at hkeep
        have hex : Encodable true x = true := by
          have := he.1.2; simp [hnm] at this; exact this
        have hk : keyPrefixed (.s k) = false := by
          have := he.1.1.2
          simpa [keyPrefixed] using this
        simp only [JOkKV, hk, jok_tree env hwf x hc.1 hex, ih, Bool.not_false, Bool.and_self]
end

end Pg.C05
