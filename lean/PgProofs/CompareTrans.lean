/-
  C06 helper lemmas, part 6: transitivity of `eq` on `Comparable` values of any depth.
-/
import PgProofs.CompareHash
namespace Pg.C06

variable {env : Env}

theorem eqList_trans_tuple (num : Bool) (xs : List Val) : ∀ ys zs : List Val,
    xs.all (tupleElemOk num) = true → ys.all (tupleElemOk num) = true → zs.all (tupleElemOk num) = true →
    eqList xs ys = true → eqList ys zs = true → eqList xs zs = true := by
  induction xs with
  | nil =>
    intro ys zs _ _ _ h1 h2
    cases ys with
    | nil => exact h2
    | cons y ys => simp [eqList] at h1
  | cons x xs ih =>
    intro ys zs hx hy hz h1 h2
    cases ys with
    | nil => simp [eqList] at h1
    | cons y ys =>
      cases zs with
      | nil => simp [eqList] at h2
      | cons z zs =>
        simp only [List.all_cons, Bool.and_eq_true] at hx hy hz
        simp only [eqList, Bool.and_eq_true] at h1 h2 ⊢
        refine ⟨?_, ih ys zs hx.2 hy.2 hz.2 h1.2 h2.2⟩
        cases x with
        | atom a => cases y with
          | atom b => cases z with
            | atom c =>
              simp only [eq] at h1 h2 ⊢
              exact atomEq_trans h1.1 h2.1
            | _ => simp [tupleElemOk] at hz
          | _ => simp [tupleElemOk] at hy
        | _ => simp [tupleElemOk] at hx

theorem eqD_cons_inv (ok : EnvOk env) {k k' : Atom} {v w : Val} {xs ys : List (Atom × Val)}
    (hx : ascKeys env ((k, v) :: xs) = true) (hy : ascKeys env ((k', w) :: ys) = true)
    (h : eqD ((k, v) :: xs) ((k', w) :: ys) = true) :
    atomEq k k' = true ∧ eq v w = true ∧ eqD xs ys = true := by
  cases hk : atomEq k k'
  · rw [eqD_cons_ne ok hx hy hk] at h; cases h
  · rw [eqD_cons_eq ok hx hy hk] at h
    simp only [Bool.and_eq_true] at h
    exact ⟨rfl, h.1, h.2⟩

mutual
  theorem eq_trans (ok : EnvOk env) (num : Bool) (x : Val) : ∀ y z : Val,
      comparable env num x = true → comparable env num y = true → comparable env num z = true →
      eq x y = true → eq y z = true → eq x z = true := by
    intro y z hx hy hz h1 h2
    cases x with
    | atom a =>
      cases y with
      | atom b => cases z with
        | atom c => simp only [eq] at h1 h2 ⊢; exact atomEq_trans h1 h2
        | _ => simp [eq] at h2
      | _ => simp [eq] at h1
    | list s xs =>
      cases y with
      | list t ys => cases z with
        | list u zs =>
          simp only [eq] at h1 h2 ⊢
          simp only [comparable] at hx hy hz
          exact eqList_trans ok num xs ys zs hx hy hz h1 h2
        | _ => simp [eq] at h2
      | _ => simp [eq] at h1
    | tuple xs =>
      cases y with
      | tuple ys => cases z with
        | tuple zs =>
          simp only [eq] at h1 h2 ⊢
          simp only [comparable] at hx hy hz
          exact eqList_trans_tuple num xs ys zs hx hy hz h1 h2
        | _ => simp [eq] at h2
      | _ => simp [eq] at h1
    | dict s xs =>
      cases y with
      | dict t ys => cases z with
        | dict u zs =>
          rw [eq_dict] at h1 h2 ⊢
          simp only [comparable, Bool.and_eq_true] at hx hy hz
          exact eqD_trans ok num xs ys zs hx.1 hx.2 hy.1 hy.2 hz.1 hz.2 h1 h2
        | _ => simp [eq] at h2
      | _ => simp [eq] at h1
    | obj c xs =>
      cases y with
      | obj d ys => cases z with
        | obj e zs =>
          rw [eq_obj] at h1 h2 ⊢
          simp only [Bool.and_eq_true, beq_iff_eq] at h1 h2 ⊢
          simp only [comparable, Bool.and_eq_true] at hx hy hz
          exact ⟨h1.1.trans h2.1, eqD_trans ok num xs ys zs hx.1 hx.2 hy.1 hy.2 hz.1 hz.2 h1.2 h2.2⟩
        | _ => simp [eq] at h2
      | _ => simp [eq] at h1
  termination_by structural x
  theorem eqList_trans (ok : EnvOk env) (num : Bool) (xs : List Val) : ∀ ys zs : List Val,
      comparableList env num xs = true → comparableList env num ys = true →
      comparableList env num zs = true →
      eqList xs ys = true → eqList ys zs = true → eqList xs zs = true := by
    intro ys zs hx hy hz h1 h2
    cases xs with
    | nil =>
      cases ys with
      | nil => exact h2
      | cons y ys => simp [eqList] at h1
    | cons x xs =>
      cases ys with
      | nil => simp [eqList] at h1
      | cons y ys =>
        cases zs with
        | nil => simp [eqList] at h2
        | cons z zs =>
          simp only [comparableList, Bool.and_eq_true] at hx hy hz
          simp only [eqList, Bool.and_eq_true] at h1 h2 ⊢
          exact ⟨eq_trans ok num x y z hx.1 hy.1 hz.1 h1.1 h2.1,
                 eqList_trans ok num xs ys zs hx.2 hy.2 hz.2 h1.2 h2.2⟩
  termination_by structural xs
  theorem eqD_trans (ok : EnvOk env) (num : Bool) (xs : List (Atom × Val)) : ∀ ys zs : List (Atom × Val),
      ascKeys env xs = true → comparableItems env num xs = true →
      ascKeys env ys = true → comparableItems env num ys = true →
      ascKeys env zs = true → comparableItems env num zs = true →
      eqD xs ys = true → eqD ys zs = true → eqD xs zs = true := by
    intro ys zs ax hx ay hy az hz h1 h2
    cases xs with
    | nil =>
      cases ys with
      | nil => exact h2
      | cons q ys => rw [eqD_nil_cons] at h1; cases h1
    | cons p xs =>
      cases ys with
      | nil => rw [eqD_cons_nil] at h1; cases h1
      | cons q ys =>
        cases zs with
        | nil => rw [eqD_cons_nil] at h2; cases h2
        | cons r zs =>
          obtain ⟨k, v⟩ := p
          obtain ⟨k', w⟩ := q
          obtain ⟨k'', u⟩ := r
          simp only [comparableItems, Bool.and_eq_true] at hx hy hz
          obtain ⟨e1, e2, e3⟩ := eqD_cons_inv ok ax ay h1
          obtain ⟨f1, f2, f3⟩ := eqD_cons_inv ok ay az h2
          rw [eqD_cons_eq ok ax az (atomEq_trans e1 f1),
            eq_trans ok num v w u hx.1 hy.1 hz.1 e2 f2,
            eqD_trans ok num xs ys zs (ascKeys_cons ax).2 hx.2 (ascKeys_cons ay).2 hy.2
              (ascKeys_cons az).2 hz.2 e3 f3]
          rfl
  termination_by structural xs
end

end Pg.C06
