/-
  C06 helper lemmas, part 6: transitivity of `eq` on `Comparable` values of any depth.
-/
import PgProofs.CompareHash
namespace Pg.C06

variable {env : Env}

theorem eqList_trans_tuple (num : Bool) (xs : List Val) : ∀ ys zs : List Val,
    xs.all (tupleElemOk num) = true → ys.all (tupleElemOk num) = true → zs.all (tupleElemOk num) = true →
    eqList xs ys = true → eqList ys zs = true → eqList xs zs = true := by
  induction xs with
  | nil =>
    intro ys zs _ _ _ h1 h2
    cases ys with
    | nil => exact h2
    | cons y ys => simp [eqList] at h1
  | cons x xs ih =>
    intro ys zs hx hy hz h1 h2
    cases ys with
    | nil => simp [eqList] at h1
    | cons y ys =>
      cases zs with
      | nil => simp [eqList] at h2
      | cons z zs =>
        simp only [List.all_cons, Bool.and_eq_true] at hx hy hz
        simp only [eqList, Bool.and_eq_true] at h1 h2 ⊢
        refine ⟨?_, ih ys zs hx.2 hy.2 hz.2 h1.2 h2.2⟩
        cases x with
        | atom a => cases y with
          | atom b => cases z with
            | atom c =>
              simp only [eq] at h1 h2 ⊢
              exact atomEq_trans h1.1 h2.1
            | _ => simp [tupleElemOk] at hz
          | _ => simp [tupleElemOk] at hy
        | _ => simp [tupleElemOk] at hx

theorem eqD_cons_inv (ok : EnvOk env) {sh : Option (List Atom)} {k k' : Atom} {v w : Val} {xs ys : List (Atom × Val)}
    (hx : keysOk env sh ((k, v) :: xs) = true) (hy : keysOk env sh ((k', w) :: ys) = true)
    (h : eqD ((k, v) :: xs) ((k', w) :: ys) = true) :
    atomEq k k' = true ∧ eq v w = true ∧ eqD xs ys = true := by
  cases hk : atomEq k k'
  · rw [eqD_cons_ne ok hx hy hk] at h; cases h
  · rw [eqD_cons_eq ok hx hy hk] at h
    simp only [Bool.and_eq_true] at h
    exact ⟨rfl, h.1, h.2⟩

mutual
  theorem eq_trans (ok : EnvOk env) (num : Bool) (x : Val) : ∀ y z : Val,
      comparable env num x = true → comparable env num y = true → comparable env num z = true →
      eq x y = true → eq y z = true → eq x z = true := by
    intro y z hx hy hz h1 h2
    cases x with
    | atom a =>
      cases y with
      | atom b => cases z with
        | atom c => simp only [eq] at h1 h2 ⊢; exact atomEq_trans h1 h2
        | _ => simp [eq] at h2
      | _ => simp [eq] at h1
    | list s xs =>
      cases y with
      | list t ys => cases z with
        | list u zs =>
          simp only [eq] at h1 h2 ⊢
          simp only [comparable] at hx hy hz
          exact eqList_trans ok num xs ys zs hx hy hz h1 h2
        | _ => simp [eq] at h2
      | _ => simp [eq] at h1
    | tuple xs =>
      cases y with
      | tuple ys => cases z with
        | tuple zs =>
          simp only [eq] at h1 h2 ⊢
          simp only [comparable] at hx hy hz
          exact eqList_trans_tuple num xs ys zs hx hy hz h1 h2
        | _ => simp [eq] at h2
      | _ => simp [eq] at h1
    | dict s xs =>
      cases y with
      | dict t ys => cases z with
        | dict u zs =>
          rw [eq_dict] at h1 h2 ⊢
          simp only [comparable, Bool.and_eq_true] at hx hy hz
          exact eqD_trans ok num none xs ys zs hx.1 hx.2 hy.1 hy.2 hz.1 hz.2 h1 h2
        | _ => simp [eq] at h2
      | _ => simp [eq] at h1
    | obj c xs =>
      cases y with
      | obj d ys => cases z with
        | obj e zs =>
          rw [eq_obj] at h1 h2 ⊢
          simp only [Bool.and_eq_true, beq_iff_eq] at h1 h2 ⊢
          simp only [comparable, Bool.and_eq_true] at hx hy hz
          obtain ⟨hcd, g1⟩ := h1
          obtain ⟨hde, g2⟩ := h2
          subst hcd; subst hde
          exact ⟨rfl, eqD_trans ok num (objSh env c) xs ys zs hx.1 hx.2 hy.1 hy.2 hz.1 hz.2 g1 g2⟩
        | _ => simp [eq] at h2
      | _ => simp [eq] at h1
  termination_by structural x
  theorem eqList_trans (ok : EnvOk env) (num : Bool) (xs : List Val) : ∀ ys zs : List Val,
      comparableList env num xs = true → comparableList env num ys = true →
      comparableList env num zs = true →
      eqList xs ys = true → eqList ys zs = true → eqList xs zs = true := by
    intro ys zs hx hy hz h1 h2
    cases xs with
    | nil =>
      cases ys with
      | nil => exact h2
      | cons y ys => simp [eqList] at h1
    | cons x xs =>
      cases ys with
      | nil => simp [eqList] at h1
      | cons y ys =>
        cases zs with
        | nil => simp [eqList] at h2
        | cons z zs =>
          simp only [comparableList, Bool.and_eq_true] at hx hy hz
          simp only [eqList, Bool.and_eq_true] at h1 h2 ⊢
          exact ⟨eq_trans ok num x y z hx.1 hy.1 hz.1 h1.1 h2.1,
                 eqList_trans ok num xs ys zs hx.2 hy.2 hz.2 h1.2 h2.2⟩
  termination_by structural xs
  theorem eqD_trans (ok : EnvOk env) (num : Bool) (sh : Option (List Atom)) (xs : List (Atom × Val)) : ∀ ys zs : List (Atom × Val),
      keysOk env sh xs = true → comparableItems env num xs = true →
      keysOk env sh ys = true → comparableItems env num ys = true →
      keysOk env sh zs = true → comparableItems env num zs = true →
      eqD xs ys = true → eqD ys zs = true → eqD xs zs = true := by
    intro ys zs ax hx ay hy az hz h1 h2
    cases xs with
    | nil =>
      cases ys with
      | nil => exact h2
      | cons q ys => rw [eqD_nil_cons] at h1; cases h1
    | cons p xs =>
      cases ys with
      | nil => rw [eqD_cons_nil] at h1; cases h1
      | cons q ys =>
        cases zs with
        | nil => rw [eqD_cons_nil] at h2; cases h2
        | cons r zs =>
          obtain ⟨k, v⟩ := p
          obtain ⟨k', w⟩ := q
          obtain ⟨k'', u⟩ := r
          simp only [comparableItems, Bool.and_eq_true] at hx hy hz
          obtain ⟨e1, e2, e3⟩ := eqD_cons_inv ok ax ay h1
          obtain ⟨f1, f2, f3⟩ := eqD_cons_inv ok ay az h2
          rw [eqD_cons_eq ok ax az (atomEq_trans e1 f1),
            eq_trans ok num v w u hx.1 hy.1 hz.1 e2 f2,
            eqD_trans ok num (shTail sh) xs ys zs (keysOk_tail ax) hx.2 (keysOk_tail ay) hy.2
              (keysOk_tail az) hz.2 e3 f3]
          rfl
  termination_by structural xs
end

end Pg.C06

namespace Pg.C06
variable {env : Env}

/-! ### Congruence of `eq`, determinism of `Tri` -/

theorem eq_congr_left (ok : EnvOk env) (num : Bool) {x y : Val} (z : Val)
    (hx : comparable env num x = true) (hy : comparable env num y = true)
    (hz : comparable env num z = true) (h : eq x y = true) : eq x z = eq y z := by
  have hyx : eq y x = true := by rw [(tri ok num x y hx hy).2]; exact h
  cases h1 : eq x z <;> cases h2 : eq y z <;> try rfl
  · rw [eq_trans ok num x y z hx hy hz h h2] at h1; cases h1
  · rw [eq_trans ok num y x z hy hx hz hyx h1] at h2; cases h2

theorem eq_congr_right (ok : EnvOk env) (num : Bool) (x : Val) {y z : Val}
    (hx : comparable env num x = true) (hy : comparable env num y = true)
    (hz : comparable env num z = true) (h : eq y z = true) : eq x y = eq x z := by
  rw [← (tri ok num x y hx hy).2, ← (tri ok num x z hx hz).2]
  exact eq_congr_left ok num x hy hz hx h

theorem Tri.det {a a' b : Except Err Bool} {e : Bool} (h1 : Tri a e b) (h2 : Tri a' e b) : a = a' := by
  rcases h1 with ⟨p1, p2, p3⟩ | ⟨p1, p2, p3⟩ | ⟨p1, p2, p3⟩ <;>
    rcases h2 with ⟨q1, q2, q3⟩ | ⟨q1, q2, q3⟩ | ⟨q1, q2, q3⟩ <;> simp_all

theorem atomEq_congr_left {a b : Atom} (c : Atom) (h : atomEq a b = true) : atomEq a c = atomEq b c := by
  have hba : atomEq b a = true := by rw [atomEq_symm]; exact h
  cases h1 : atomEq a c <;> cases h2 : atomEq b c <;> try rfl
  · rw [atomEq_trans h h2] at h1; cases h1
  · rw [atomEq_trans hba h1] at h2; cases h2

theorem atomEq_congr_right (c : Atom) {a b : Atom} (h : atomEq a b = true) : atomEq c a = atomEq c b := by
  rw [atomEq_symm c a, atomEq_symm c b]; exact atomEq_congr_left c h

theorem comparable_of_tupleElem {num : Bool} {x : Val} (h : tupleElemOk num x = true) :
    comparable env num x = true := by
  cases x with
  | atom a => rfl
  | _ => simp [tupleElemOk] at h

theorem comparableList_of_tuple {num : Bool} (xs : List Val) (h : xs.all (tupleElemOk num) = true) :
    comparableList env num xs = true := by
  induction xs with
  | nil => rfl
  | cons x xs ih =>
    simp only [List.all_cons, Bool.and_eq_true] at h
    simp [comparableList, comparable_of_tupleElem h.1, ih h.2]

/-- On tuples of numbers (or of strings) the native `<` coincides with the symbolic list order. -/
theorem pySeqLt_eq_ltList (num : Bool) (xs : List Val) : ∀ ys : List Val,
    xs.all (tupleElemOk num) = true → ys.all (tupleElemOk num) = true →
    pySeqLt xs ys = ltList env xs ys := by
  induction xs with
  | nil => intro ys _ _; cases ys <;> rfl
  | cons x xs ih =>
    intro ys hx hy
    cases ys with
    | nil => rfl
    | cons y ys =>
      simp only [List.all_cons, Bool.and_eq_true] at hx hy
      simp only [pySeqLt, ltList, ih ys hx.2 hy.2]
      have : pyLt x y = lt env x y := by
        cases x with
        | atom a => cases y with
          | atom b =>
            cases num
            · cases a <;> simp [tupleElemOk] at hx
              cases b <;> simp [tupleElemOk] at hy
              rw [atomLt_eq_lt, atomLt, rankCmp_same (by rfl)]; rfl
            · cases a <;> simp [tupleElemOk] at hx
              cases b <;> simp [tupleElemOk] at hy
              rw [atomLt_eq_lt, atomLt, rankCmp_same (by rfl)]; rfl
          | _ => simp [tupleElemOk] at hy
        | _ => simp [tupleElemOk] at hx
      rw [this]

/-! ### `lt` respects `eq` in its left argument -/

mutual
  theorem lt_congr_left (ok : EnvOk env) (num : Bool) (x : Val) : ∀ y z : Val,
      comparable env num x = true → comparable env num y = true → comparable env num z = true →
      eq x y = true → lt env x z = lt env y z := by
    intro y z hx hy hz h
    have hk := eq_kind h
    by_cases hkz : kindOf x = kindOf z
    · have hkz' : kindOf y = kindOf z := hk ▸ hkz
      cases x with
      | atom a =>
        cases y with
        | atom b => cases z with
          | atom c =>
            rw [atomLt_eq_lt, atomLt_eq_lt]
            exact atomLt_congr_left c (by simpa [eq] using h)
          | _ => cases a <;> simp [kindOf, atomKind] at hkz
        | _ => simp [eq] at h
      | list s xs =>
        cases y with
        | list t ys => cases z with
          | list u zs =>
            simp only [lt, rankCmp_same hkz, rankCmp_same hkz']
            simp only [comparable] at hx hy hz
            exact ltList_congr_left ok num xs ys zs hx hy hz (by simpa [eq] using h)
          | atom c => cases c <;> simp [kindOf, atomKind] at hkz
          | _ => simp [kindOf] at hkz
        | _ => simp [eq] at h
      | tuple xs =>
        cases y with
        | tuple ys => cases z with
          | tuple zs =>
            simp only [lt, rankCmp_same hkz, rankCmp_same hkz']
            simp only [comparable] at hx hy hz
            rw [pySeqLt_eq_ltList (env := env) num xs zs hx hz, pySeqLt_eq_ltList (env := env) num ys zs hy hz]
            exact ltList_congr_left ok num xs ys zs (comparableList_of_tuple xs hx)
              (comparableList_of_tuple ys hy) (comparableList_of_tuple zs hz) (by simpa [eq] using h)
          | atom c => cases c <;> simp [kindOf, atomKind] at hkz
          | _ => simp [kindOf] at hkz
        | _ => simp [eq] at h
      | dict s xs =>
        cases y with
        | dict t ys => cases z with
          | dict u zs =>
            simp only [lt, rankCmp_same hkz, rankCmp_same hkz']
            simp only [comparable, Bool.and_eq_true] at hx hy hz
            rw [eq_dict] at h
            exact ltItems_congr_left ok num none xs ys zs hx.1 hx.2 hy.1 hy.2 hz.2 h
          | atom c => cases c <;> simp [kindOf, atomKind] at hkz
          | _ => simp [kindOf] at hkz
        | _ => simp [eq] at h
      | obj c xs =>
        cases y with
        | obj d ys => cases z with
          | obj e zs =>
            rw [eq_obj] at h
            simp only [Bool.and_eq_true, beq_iff_eq] at h
            have hcd : c = d := h.1
            have hce : c = e := by simpa [kindOf] using hkz
            subst hcd; subst hce
            simp only [lt, rankCmp_same hkz, rankCmp_same hkz', if_true]
            simp only [comparable, Bool.and_eq_true] at hx hy hz
            exact ltItems_congr_left ok num (objSh env c) xs ys zs hx.1 hx.2 hy.1 hy.2 hz.2 h.2
          | _ => simp [kindOf] at hkz
        | _ => simp [eq] at h
    · have hkz' : kindOf y ≠ kindOf z := hk ▸ hkz
      obtain ⟨h1, _⟩ := rankCmp_diff ok hkz
      obtain ⟨h2, _⟩ := rankCmp_diff ok hkz'
      rw [lt_of_rankCmp h1, lt_of_rankCmp h2, rank_eq_kind env x, rank_eq_kind env y, hk]
  termination_by structural x
  theorem ltList_congr_left (ok : EnvOk env) (num : Bool) (xs : List Val) : ∀ ys zs : List Val,
      comparableList env num xs = true → comparableList env num ys = true →
      comparableList env num zs = true → eqList xs ys = true →
      ltList env xs zs = ltList env ys zs := by
    intro ys zs hx hy hz h
    cases xs with
    | nil =>
      cases ys with
      | nil => rfl
      | cons y ys => simp [eqList] at h
    | cons x xs =>
      cases ys with
      | nil => simp [eqList] at h
      | cons y ys =>
        cases zs with
        | nil => rfl
        | cons z zs =>
          simp only [comparableList, Bool.and_eq_true] at hx hy hz
          simp only [eqList, Bool.and_eq_true] at h
          simp only [ltList, eq_congr_left ok num z hx.1 hy.1 hz.1 h.1,
            lt_congr_left ok num x y z hx.1 hy.1 hz.1 h.1,
            ltList_congr_left ok num xs ys zs hx.2 hy.2 hz.2 h.2]
  termination_by structural xs
  theorem ltItems_congr_left (ok : EnvOk env) (num : Bool) (sh : Option (List Atom)) (xs : List (Atom × Val)) :
      ∀ ys zs : List (Atom × Val),
      keysOk env sh xs = true → comparableItems env num xs = true →
      keysOk env sh ys = true → comparableItems env num ys = true →
      comparableItems env num zs = true → eqD xs ys = true →
      ltItems env xs zs = ltItems env ys zs := by
    intro ys zs ax hx ay hy hz h
    cases xs with
    | nil =>
      cases ys with
      | nil => rfl
      | cons q ys => rw [eqD_nil_cons] at h; cases h
    | cons p xs =>
      cases ys with
      | nil => rw [eqD_cons_nil] at h; cases h
      | cons q ys =>
        cases zs with
        | nil => rfl
        | cons r zs =>
          obtain ⟨k, v⟩ := p
          obtain ⟨k', w⟩ := q
          obtain ⟨k'', u⟩ := r
          simp only [comparableItems, Bool.and_eq_true] at hx hy hz
          obtain ⟨e1, e2, e3⟩ := eqD_cons_inv ok ax ay h
          simp only [ltItems, atomEq_congr_left k'' e1, atomLt_congr_left k'' e1,
            eq_congr_left ok num u hx.1 hy.1 hz.1 e2,
            lt_congr_left ok num v w u hx.1 hy.1 hz.1 e2,
            ltItems_congr_left ok num (shTail sh) xs ys zs (keysOk_tail ax) hx.2 (keysOk_tail ay) hy.2 hz.2 e3]
  termination_by structural xs
end

/-- … and in its right argument. -/
theorem lt_congr_right (ok : EnvOk env) (num : Bool) (x y z : Val)
    (hx : comparable env num x = true) (hy : comparable env num y = true)
    (hz : comparable env num z = true) (h : eq y z = true) : lt env x y = lt env x z := by
  have t1 := (tri ok num x y hx hy).1
  have t2 := (tri ok num x z hx hz).1
  rw [← eq_congr_right ok num x hx hy hz h, ← lt_congr_left ok num y z x hy hz hx h] at t2
  exact Tri.det t1 t2

end Pg.C06

namespace Pg.C06
variable {env : Env}

/-! ### Transitivity of `lt` -/

theorem lex_trans {exy eyz exz : Bool} {lxy lyz lxz rxy ryz rxz : Except Err Bool}
    (A : exy = true → eyz = true → exz = true)
    (CL : exy = true → exz = eyz ∧ lxz = lyz)
    (CR : eyz = true → exz = exy ∧ lxz = lxy)
    (D : exy = false → eyz = false → lxy = .ok true → lyz = .ok true → lxz = .ok true ∧ exz = false)
    (T : rxy = .ok true → ryz = .ok true → rxz = .ok true)
    (h1 : (if exy = true then rxy else lxy) = .ok true)
    (h2 : (if eyz = true then ryz else lyz) = .ok true) :
    (if exz = true then rxz else lxz) = .ok true := by
  cases exy <;> cases eyz <;> simp at h1 h2
  · obtain ⟨d1, d2⟩ := D rfl rfl h1 h2
    simp [d1, d2]
  · obtain ⟨c1, c2⟩ := CR rfl
    simp [c1, c2, h1]
  · obtain ⟨c1, c2⟩ := CL rfl
    simp [c1, c2, h2]
  · simp [A rfl rfl, T h1 h2]

theorem eq_false_of_lt (ok : EnvOk env) (num : Bool) {x z : Val}
    (hx : comparable env num x = true) (hz : comparable env num z = true)
    (h : lt env x z = .ok true) : eq x z = false := by
  rcases (tri ok num x z hx hz).1 with ⟨_, h2, _⟩ | ⟨h1, _, _⟩ | ⟨h1, _, _⟩
  · exact h2
  · rw [h] at h1; cases h1
  · rw [h] at h1; cases h1

theorem lt_diff (ok : EnvOk env) {x y : Val} (hk : kindOf x ≠ kindOf y) :
    lt env x y = .ok (lexLt (rank env x) (rank env y)) :=
  lt_of_rankCmp (rankCmp_diff ok hk).1

theorem rank_of_kind {x y : Val} (h : kindOf x = kindOf y) : rank env x = rank env y := by
  rw [rank_eq_kind, rank_eq_kind, h]

mutual
  theorem lt_trans (ok : EnvOk env) (num : Bool) (x : Val) : ∀ y z : Val,
      comparable env num x = true → comparable env num y = true → comparable env num z = true →
      lt env x y = .ok true → lt env y z = .ok true → lt env x z = .ok true := by
    intro y z hx hy hz h1 h2
    by_cases kxy : kindOf x = kindOf y
    · by_cases kyz : kindOf y = kindOf z
      · have kxz : kindOf x = kindOf z := kxy.trans kyz
        cases x with
        | atom a =>
          cases y with
          | atom b => cases z with
            | atom c =>
              rw [atomLt_eq_lt] at *
              exact atomLt_trans ok h1 h2
            | _ => cases a <;> simp [kindOf, atomKind] at kxz
          | _ => cases a <;> simp [kindOf, atomKind] at kxy
        | list s xs =>
          cases y with
          | list t ys => cases z with
            | list u zs =>
              simp only [lt, rankCmp_same kxy, rankCmp_same kyz, rankCmp_same kxz] at h1 h2 ⊢
              simp only [comparable] at hx hy hz
              exact ltList_trans ok num xs ys zs hx hy hz h1 h2
            | atom c => cases c <;> simp [kindOf, atomKind] at kxz
            | _ => simp [kindOf] at kxz
          | atom c => cases c <;> simp [kindOf, atomKind] at kxy
          | _ => simp [kindOf] at kxy
        | tuple xs =>
          cases y with
          | tuple ys => cases z with
            | tuple zs =>
              simp only [lt, rankCmp_same kxy, rankCmp_same kyz, rankCmp_same kxz] at h1 h2 ⊢
              simp only [comparable] at hx hy hz
              rw [pySeqLt_eq_ltList (env := env) num _ _ hx hy] at h1
              rw [pySeqLt_eq_ltList (env := env) num _ _ hy hz] at h2
              rw [pySeqLt_eq_ltList (env := env) num _ _ hx hz]
              exact ltList_trans ok num xs ys zs (comparableList_of_tuple xs hx)
                (comparableList_of_tuple ys hy) (comparableList_of_tuple zs hz) h1 h2
            | atom c => cases c <;> simp [kindOf, atomKind] at kxz
            | _ => simp [kindOf] at kxz
          | atom c => cases c <;> simp [kindOf, atomKind] at kxy
          | _ => simp [kindOf] at kxy
        | dict s xs =>
          cases y with
          | dict t ys => cases z with
            | dict u zs =>
              simp only [lt, rankCmp_same kxy, rankCmp_same kyz, rankCmp_same kxz] at h1 h2 ⊢
              simp only [comparable, Bool.and_eq_true] at hx hy hz
              exact ltItems_trans ok num xs ys zs hx.2 hy.2 hz.2 h1 h2
            | atom c => cases c <;> simp [kindOf, atomKind] at kxz
            | _ => simp [kindOf] at kxz
          | atom c => cases c <;> simp [kindOf, atomKind] at kxy
          | _ => simp [kindOf] at kxy
        | obj c xs =>
          cases y with
          | obj d ys => cases z with
            | obj e zs =>
              have hcd : c = d := by simpa [kindOf] using kxy
              have hce : c = e := by simpa [kindOf] using kxz
              subst hcd; subst hce
              simp only [lt, rankCmp_same kxy, rankCmp_same kyz, rankCmp_same kxz, if_true] at h1 h2 ⊢
              simp only [comparable, Bool.and_eq_true] at hx hy hz
              exact ltItems_trans ok num xs ys zs hx.2 hy.2 hz.2 h1 h2
            | _ => simp [kindOf] at kxz
          | _ => simp [kindOf] at kxy
      · -- x ~ y (kind), y < z by rank
        have kxz : kindOf x ≠ kindOf z := kxy ▸ kyz
        rw [lt_diff ok kyz] at h2
        rw [lt_diff ok kxz, rank_of_kind kxy]
        exact h2
    · rw [lt_diff ok kxy] at h1
      by_cases kyz : kindOf y = kindOf z
      · have kxz : kindOf x ≠ kindOf z := kyz ▸ kxy
        rw [lt_diff ok kxz, ← rank_of_kind kyz]
        exact h1
      · rw [lt_diff ok kyz] at h2
        have h13 : lexLt (rank env x) (rank env z) = true :=
          lexLt_trans (by simpa using h1) (by simpa using h2)
        have kxz : kindOf x ≠ kindOf z := by
          intro hk
          rw [rank_of_kind hk, lexLt_irrefl] at h13
          cases h13
        rw [lt_diff ok kxz, h13]
  termination_by structural x
  theorem ltList_trans (ok : EnvOk env) (num : Bool) (xs : List Val) : ∀ ys zs : List Val,
      comparableList env num xs = true → comparableList env num ys = true →
      comparableList env num zs = true →
      ltList env xs ys = .ok true → ltList env ys zs = .ok true → ltList env xs zs = .ok true := by
    intro ys zs hx hy hz h1 h2
    cases xs with
    | nil =>
      cases ys with
      | nil => simp [ltList] at h1
      | cons y ys => cases zs with
        | nil => simp [ltList] at h2
        | cons z zs => rfl
    | cons x xs =>
      cases ys with
      | nil => simp [ltList] at h1
      | cons y ys =>
        cases zs with
        | nil => simp [ltList] at h2
        | cons z zs =>
          simp only [comparableList, Bool.and_eq_true] at hx hy hz
          simp only [ltList] at h1 h2 ⊢
          exact lex_trans
            (fun a b => eq_trans ok num x y z hx.1 hy.1 hz.1 a b)
            (fun a => ⟨eq_congr_left ok num z hx.1 hy.1 hz.1 a, lt_congr_left ok num x y z hx.1 hy.1 hz.1 a⟩)
            (fun a => ⟨(eq_congr_right ok num x hx.1 hy.1 hz.1 a).symm,
                       (lt_congr_right ok num x y z hx.1 hy.1 hz.1 a).symm⟩)
            (fun _ _ a b =>
              have l := lt_trans ok num x y z hx.1 hy.1 hz.1 a b
              ⟨l, eq_false_of_lt ok num hx.1 hz.1 l⟩)
            (fun a b => ltList_trans ok num xs ys zs hx.2 hy.2 hz.2 a b)
            h1 h2
  termination_by structural xs
  theorem ltItems_trans (ok : EnvOk env) (num : Bool) (xs : List (Atom × Val)) :
      ∀ ys zs : List (Atom × Val),
      comparableItems env num xs = true → comparableItems env num ys = true →
      comparableItems env num zs = true →
      ltItems env xs ys = .ok true → ltItems env ys zs = .ok true → ltItems env xs zs = .ok true := by
    intro ys zs hx hy hz h1 h2
    cases xs with
    | nil =>
      cases ys with
      | nil => simp [ltItems] at h1
      | cons q ys => cases zs with
        | nil => simp [ltItems] at h2
        | cons r zs => rfl
    | cons p xs =>
      cases ys with
      | nil => simp [ltItems] at h1
      | cons q ys =>
        cases zs with
        | nil => simp [ltItems] at h2
        | cons r zs =>
          obtain ⟨k, v⟩ := p
          obtain ⟨k', w⟩ := q
          obtain ⟨k'', u⟩ := r
          simp only [comparableItems, Bool.and_eq_true] at hx hy hz
          simp only [ltItems] at h1 h2 ⊢
          -- outer level: keys; inner level: values, then the tails
          refine lex_trans (exy := atomEq k k') (eyz := atomEq k' k'') (exz := atomEq k k'')
            (lxy := atomLt env k k') (lyz := atomLt env k' k'') (lxz := atomLt env k k'')
            (fun a b => atomEq_trans a b)
            (fun a => ⟨atomEq_congr_left k'' a, atomLt_congr_left k'' a⟩)
            (fun a => ⟨(atomEq_congr_right k a).symm, (atomLt_congr_right k a).symm⟩)
            (fun _ _ a b =>
              have l := atomLt_trans ok a b
              ⟨l, (atom_ne_of_lt ok l).1⟩)
            ?_ h1 h2
          intro g1 g2
          exact lex_trans
            (fun a b => eq_trans ok num v w u hx.1 hy.1 hz.1 a b)
            (fun a => ⟨eq_congr_left ok num u hx.1 hy.1 hz.1 a, lt_congr_left ok num v w u hx.1 hy.1 hz.1 a⟩)
            (fun a => ⟨(eq_congr_right ok num v hx.1 hy.1 hz.1 a).symm,
                       (lt_congr_right ok num v w u hx.1 hy.1 hz.1 a).symm⟩)
            (fun _ _ a b =>
              have l := lt_trans ok num v w u hx.1 hy.1 hz.1 a b
              ⟨l, eq_false_of_lt ok num hx.1 hz.1 l⟩)
            (fun a b => ltItems_trans ok num xs ys zs hx.2 hy.2 hz.2 a b)
            g1 g2
  termination_by structural xs
end

end Pg.C06
