/-
  C20 helper lemmas, part 3: the tree-view skeleton renders to the print-out of a well-formed
  document (`renderDoc`) whenever every emission site escapes.
-/
import PgProofs.HtmlEscape
import PgProofs.HtmlParse
namespace Pg.C20

theorem parseHtml_print (ns : List HNode) (h : wfNodes ns = true) :
    parseHtml (printNodes ns) = some ns := by
  unfold parseHtml
  rw [← printToks_toksOfAll ns, lex_print _ (wfToks_toksOfAll ns [] h rfl)]
  simp [build_print]

theorem printNodes_append (a b : List HNode) : printNodes (a ++ b) = printNodes a ++ printNodes b := by
  induction a with
  | nil => rfl
  | cons n a ih => simp [printNodes, ih]

/-! ### document-level counterparts of the string-level builders -/

/-- A text node, or nothing for the empty string. -/
def txt (s : Str) : List HNode := if s.isEmpty then [] else [.text s]

theorem printNodes_txt (s : Str) : printNodes (txt s) = s := by
  unfold txt
  split
  · rename_i h; simp [printNodes, List.isEmpty_iff.1 h]
  · simp [printNodes, printNode]

/-- `Html.element` without keyword properties, at document level. -/
def el (tag : Str) (opts cls : List Str) (styles : List (Str × Option Str)) (children : List HNode) :
    HNode :=
  .elem tag (elementAttrs opts cls styles []) children

theorem element_print (tag : Str) (opts cls : List Str) (styles : List (Str × Option Str))
    (chs : List Str) (doc : List HNode) (h : concatStrs chs = printNodes doc) :
    element tag opts cls styles [] chs = printNode (el tag opts cls styles doc) := by
  simp [element, el, printNode, h]

def tooltipDoc (css : List Str) (text : Str) : HNode :=
  el c!"span" [] (c!"tooltip" :: css) [] (txt (escape text))

def summaryDoc (c : Ctx) (top : Top) (name : Option Str) (t : Tree) : HNode :=
  el c!"summary" [] [] []
    ((match name with
      | some n => [el c!"div" [] (c!"summary-name" :: top.cssClasses) (colorStyles top.summaryColor)
                    (txt (escape n)
                      ++ (if c.enableKeyTooltip then [tooltipDoc top.cssClasses t.ptip] else []))]
      | none => [])
     ++ [el c!"div" [] (c!"summary-title" :: top.cssClasses) [] (txt (titleText top t))]
     ++ (if c.enableSummaryTooltip then [tooltipDoc top.cssClasses t.tip] else []))

def objectKeyDoc (c : Ctx) (t : Tree) : List HNode :=
  el c!"span" [] [c!"object-key", t.key.typeName] (colorStyles c.keyColor) (txt (escape t.key.text))
  :: (if c.enableKeyTooltip then [tooltipDoc [] t.ptip] else [])

def simpleValueDoc (c : Ctx) (css : List Str) (t : Tree) : HNode :=
  el c!"span" [] (c!"simple-value" :: t.cssName :: css) [] (txt (escape (leafText c t)))

def detailsDoc (c : Ctx) (top : Top) (name : Option Str) (path : List Key) (t : Tree)
    (content : HNode) : HNode :=
  if hasSummary c top name t then
    el c!"details" [if shouldCollapse c name.isSome path t then [] else c!"open"]
      (c!"pyglove" :: t.cssName :: top.cssClasses) [] [summaryDoc c top name t, content]
  else content

def complexDoc (kind : NodeKind) (css : List Str) (body : List HNode) : HNode :=
  el c!"div" [] (c!"complex-value" :: kind.cssName :: css) [] body

def rowDoc (keyCell valueCell : List HNode) : HNode :=
  el c!"tr" [] [] [] [el c!"td" [] [] [] keyCell, el c!"td" [] [] [] valueCell]

/-- The highlight / lowlight wrapper: at most ONE `div` around the child. -/
def wrapDoc (c : Ctx) (path : List Key) (n : HNode) : HNode :=
  if (hlClasses c path).isEmpty then n else el c!"div" [] (hlClasses c path) [] [n]

/-- What `render_child_value` writes for a child, at document level. -/
def childValueDocs (c : Ctx) (path : List Key) (n : HNode) : List HNode :=
  if childHidden c path then
    (if (hlClasses c path).isEmpty then [] else [el c!"div" [] (hlClasses c path) [] []])
  else [wrapDoc c path n]

mutual
  def renderDoc (c : Ctx) (top : Top) (name : Option Str) (path : List Key) : Tree → HNode
    | .leaf k p kind repr raw tip =>
      detailsDoc c top name path (.leaf k p kind repr raw tip)
        (simpleValueDoc c (contentCss c top name (.leaf k p kind repr raw tip))
          (.leaf k p kind repr raw tip))
    | .node k p kind tip children =>
      detailsDoc c top name path (.node k p kind tip children)
        (complexDoc kind (contentCss c top name (.node k p kind tip children))
          (summaryChildrenDoc c kind.isSeq path children
           ++ (if anyChild (fun q => childShown c q && childLabel c kind.isSeq q) path children then
                 [el c!"table" [] [] [] (rowsDoc c kind.isSeq path children)]
               else [])
           ++ (if hasChild c kind.isSeq path children then []
               else [el c!"span" [] [c!"empty-container"] [] []])))
  def summaryChildrenDoc (c : Ctx) (seq : Bool) (path : List Key) : List Tree → List HNode
    | [] => []
    | t :: ts =>
      (if childShown c (path ++ [t.key]) && !childLabel c seq (path ++ [t.key]) then
         childValueDocs c (path ++ [t.key])
           (renderDoc (childCtx c) {} (some t.key.summaryName) (path ++ [t.key]) t)
       else [])
      ++ summaryChildrenDoc c seq path ts
  def rowsDoc (c : Ctx) (seq : Bool) (path : List Key) : List Tree → List HNode
    | [] => []
    | t :: ts =>
      (if childShown c (path ++ [t.key]) && childLabel c seq (path ++ [t.key])
            && childVisible c (path ++ [t.key]) then
         [rowDoc (objectKeyDoc (childCtx c) t)
           (childValueDocs c (path ++ [t.key]) (renderDoc (childCtx c) {} none (path ++ [t.key]) t))]
       else [])
      ++ rowsDoc c seq path ts
end

/-! ### render = print ∘ renderDoc -/

theorem complexEl_print (kind : NodeKind) (css : List Str) (body : Str) (doc : List HNode)
    (h : body = printNodes doc) :
    complexEl kind css body = printNode (complexDoc kind css doc) := by
  unfold complexEl complexDoc
  apply element_print
  simp [concatStrs, h]

theorem rowEl_print (k v : Str) (kd vd : List HNode) (hk : k = printNodes kd)
    (hv : v = printNodes vd) : rowEl k v = printNode (rowDoc kd vd) := by
  unfold rowEl rowDoc
  apply element_print
  simp [concatStrs, printNodes, printNode, el, elementAttrs, openTag, closeTag, attrsStr, tdOpen, tdClose,
    hk, hv, optAttr, joinSp, dedup, styleStr, propAttrs]

theorem wrapHL_print (c : Ctx) (path : List Key) (html : Str) (n : HNode) (h : html = printNode n) :
    wrapHL c path html = printNode (wrapDoc c path n) := by
  unfold wrapHL wrapDoc
  split
  · exact h
  · apply element_print
    simp [concatStrs, printNodes, h]

theorem childValue_print (c : Ctx) (path : List Key) (html : Str) (n : HNode) (h : html = printNode n) :
    childValue c path html = printNodes (childValueDocs c path n) := by
  unfold childValue childValueDocs
  split
  · unfold wrapHL
    split
    · rfl
    · simp only [printNodes, List.append_nil]
      exact element_print _ _ _ _ _ _ (by simp [concatStrs, printNodes])
  · simp only [printNodes, List.append_nil]
    exact wrapHL_print c path html n h

section
variable (st : Sites) (hst : st.allEscaped = true)
include hst

theorem sites_all : st.summaryName = true ∧ st.objectKey = true ∧ st.simpleValue = true
    ∧ st.tooltipContent = true := by
  simp only [Sites.allEscaped, Bool.and_eq_true] at hst
  exact ⟨hst.1.1.1, hst.1.1.2, hst.1.2, hst.2⟩

theorem tooltipEl_print (css : List Str) (text : Str) :
    tooltipEl st css text = printNode (tooltipDoc css text) := by
  obtain ⟨_, _, _, h4⟩ := sites_all st hst
  unfold tooltipEl tooltipDoc
  apply element_print
  simp [concatStrs, emit, h4, printNodes_txt]

theorem summaryEl_print (c : Ctx) (top : Top) (name : Option Str) (t : Tree) :
    summaryEl st c top name t = printNode (summaryDoc c top name t) := by
  obtain ⟨h1, _, _, _⟩ := sites_all st hst
  unfold summaryEl summaryDoc
  apply element_print
  have ht := tooltipEl_print st hst
  have htt := element_print c!"div" [] (c!"summary-title" :: top.cssClasses) [] [titleText top t]
    (txt (titleText top t)) (by simp [concatStrs, printNodes_txt])
  cases name with
  | none =>
    simp only [concatStrs, List.append_nil, List.nil_append]
    rw [htt]
    by_cases h2 : c.enableSummaryTooltip = true
    · simp [printNodes, h2, ht]
    · simp [printNodes, h2]
  | some n =>
    have hn : element c!"div" [] (c!"summary-name" :: top.cssClasses) (colorStyles top.summaryColor) []
          [emit st.summaryName n, if c.enableKeyTooltip then tooltipEl st top.cssClasses t.ptip else []]
        = printNode (el c!"div" [] (c!"summary-name" :: top.cssClasses) (colorStyles top.summaryColor)
            (txt (escape n)
              ++ (if c.enableKeyTooltip then [tooltipDoc top.cssClasses t.ptip] else []))) := by
      apply element_print
      by_cases h3 : c.enableKeyTooltip = true
      · simp [concatStrs, printNodes_append, printNodes_txt, emit, h1, h3, ht, printNodes]
      · simp [concatStrs, printNodes_append, printNodes_txt, emit, h1, h3, printNodes]
    simp only [concatStrs, List.append_nil]
    rw [hn, htt]
    by_cases h2 : c.enableSummaryTooltip = true
    · simp [printNodes, h2, ht]
    · simp [printNodes, h2]

theorem objectKeyEl_print (c : Ctx) (t : Tree) :
    objectKeyEl st c t = printNodes (objectKeyDoc c t) := by
  obtain ⟨_, h2, _, _⟩ := sites_all st hst
  unfold objectKeyEl objectKeyDoc
  have ht := tooltipEl_print st hst
  have hk : element c!"span" [] [c!"object-key", t.key.typeName] (colorStyles c.keyColor) []
        [emit st.objectKey t.key.text]
      = printNode (el c!"span" [] [c!"object-key", t.key.typeName] (colorStyles c.keyColor)
          (txt (escape t.key.text))) := by
    apply element_print
    simp [concatStrs, emit, h2, printNodes_txt]
  by_cases h3 : c.enableKeyTooltip = true
  · simp [printNodes, h3, ht, hk]
  · simp [printNodes, h3, hk]

theorem simpleValueEl_print (c : Ctx) (css : List Str) (t : Tree) :
    simpleValueEl st c css t = printNode (simpleValueDoc c css t) := by
  obtain ⟨_, _, h3, _⟩ := sites_all st hst
  unfold simpleValueEl simpleValueDoc
  apply element_print
  simp [concatStrs, emit, h3, printNodes_txt]

theorem detailsEl_print (c : Ctx) (top : Top) (name : Option Str) (path : List Key) (t : Tree)
    (content : Str) (doc : HNode) (h : content = printNode doc) :
    detailsEl st c top name path t content = printNode (detailsDoc c top name path t doc) := by
  unfold detailsEl detailsDoc
  split
  · apply element_print
    simp [concatStrs, printNodes, summaryEl_print st hst, h]
  · exact h

mutual
  theorem render_print (c : Ctx) (top : Top) (name : Option Str) (path : List Key) (t : Tree) :
      render st c top name path t = printNode (renderDoc c top name path t) := by
    cases t with
    | leaf k p kind repr raw tip =>
      simp only [render, renderDoc]
      exact detailsEl_print st hst _ _ _ _ _ _ _ (simpleValueEl_print st hst _ _ _)
    | node k p kind tip children =>
      simp only [render, renderDoc]
      apply detailsEl_print st hst
      apply complexEl_print
      rw [printNodes_append, printNodes_append, summaryChildren_print c kind.isSeq path children]
      congr 1
      congr 1
      · split
        · have := rows_print c kind.isSeq path children
          simp [printNodes, printNode, el, elementAttrs, openTag, closeTag, attrsStr, this, optAttr, joinSp,
            dedup, styleStr, propAttrs]
        · rfl
      · split
        · rfl
        · simp only [emptySpan, printNodes, List.append_nil]
          exact element_print _ _ _ _ _ _ rfl
  theorem summaryChildren_print (c : Ctx) (seq : Bool) (path : List Key) (ts : List Tree) :
      summaryChildren st c seq path ts = printNodes (summaryChildrenDoc c seq path ts) := by
    cases ts with
    | nil => rfl
    | cons t ts =>
      simp only [summaryChildren, summaryChildrenDoc, printNodes_append]
      rw [summaryChildren_print c seq path ts]
      congr 1
      split
      · exact childValue_print c _ _ _ (render_print (childCtx c) {} _ _ t)
      · rfl
  theorem rows_print (c : Ctx) (seq : Bool) (path : List Key) (ts : List Tree) :
      rows st c seq path ts = printNodes (rowsDoc c seq path ts) := by
    cases ts with
    | nil => rfl
    | cons t ts =>
      simp only [rows, rowsDoc, printNodes_append]
      rw [rows_print c seq path ts]
      congr 1
      split
      · simp only [printNodes, List.append_nil]
        exact rowEl_print _ _ _ _ (objectKeyEl_print st hst _ _)
          (childValue_print c _ _ _ (render_print (childCtx c) {} none _ t))
      · rfl
end

end

/-! ### the rendered document is well-formed and uses the library's vocabulary only -/

mutual
  /-- Well-formed, and every element / attribute name is one the library emits. -/
  def okNode : HNode → Bool
    | .text s => wfText s
    | .elem tag attrs cs =>
      libraryTags.contains tag && validName tag
      && attrs.all (fun a => wfAttr a && libraryAttrs.contains a.name) && okNodes cs
  def okNodes : List HNode → Bool
    | [] => true
    | n :: ns => okNode n && noAdjText n ns && okNodes ns
end

mutual
  theorem okNode_wf (n : HNode) (h : okNode n = true) : wfNode n = true := by
    cases n with
    | text s => simpa [okNode, wfNode] using h
    | elem tag attrs cs =>
      simp only [okNode, Bool.and_eq_true, List.all_eq_true] at h
      simp only [wfNode, Bool.and_eq_true, List.all_eq_true]
      exact ⟨⟨h.1.1.2, fun a ha => (h.1.2 a ha).1⟩, okNodes_wf cs h.2⟩
  theorem okNodes_wf (ns : List HNode) (h : okNodes ns = true) : wfNodes ns = true := by
    cases ns with
    | nil => rfl
    | cons n ns =>
      simp only [okNodes, Bool.and_eq_true] at h
      simp only [wfNodes, Bool.and_eq_true]
      exact ⟨⟨okNode_wf n h.1.1, h.1.2⟩, okNodes_wf ns h.2⟩
end

mutual
  theorem okNode_tags (n : HNode) (h : okNode n = true) : ∀ t ∈ tagsOf n, t ∈ libraryTags := by
    cases n with
    | text s => intro t ht; simp [tagsOf] at ht
    | elem tag attrs cs =>
      simp only [okNode, Bool.and_eq_true, List.contains_iff_mem] at h
      intro t ht
      simp only [tagsOf, List.mem_cons] at ht
      rcases ht with rfl | ht
      · exact h.1.1.1
      · exact okNodes_tags cs h.2 t ht
  theorem okNodes_tags (ns : List HNode) (h : okNodes ns = true) :
      ∀ t ∈ tagsOfAll ns, t ∈ libraryTags := by
    cases ns with
    | nil => intro t ht; simp [tagsOfAll] at ht
    | cons n ns =>
      simp only [okNodes, Bool.and_eq_true] at h
      intro t ht
      simp only [tagsOfAll, List.mem_append] at ht
      rcases ht with ht | ht
      · exact okNode_tags n h.1.1 t ht
      · exact okNodes_tags ns h.2 t ht
end

mutual
  theorem okNode_attrs (n : HNode) (h : okNode n = true) : ∀ a ∈ attrNamesOf n, a ∈ libraryAttrs := by
    cases n with
    | text s => intro t ht; simp [attrNamesOf] at ht
    | elem tag attrs cs =>
      simp only [okNode, Bool.and_eq_true, List.all_eq_true, List.contains_iff_mem] at h
      intro t ht
      simp only [attrNamesOf, List.mem_append, List.mem_map] at ht
      rcases ht with ⟨a, ha, rfl⟩ | ht
      · exact (h.1.2 a ha).2
      · exact okNodes_attrs cs h.2 t ht
  theorem okNodes_attrs (ns : List HNode) (h : okNodes ns = true) :
      ∀ a ∈ attrNamesOfAll ns, a ∈ libraryAttrs := by
    cases ns with
    | nil => intro t ht; simp [attrNamesOfAll] at ht
    | cons n ns =>
      simp only [okNodes, Bool.and_eq_true] at h
      intro t ht
      simp only [attrNamesOfAll, List.mem_append] at ht
      rcases ht with ht | ht
      · exact okNode_attrs n h.1.1 t ht
      · exact okNodes_attrs ns h.2 t ht
end

/-- No `<` (what a text node needs). -/
def noLt (s : Str) : Bool := s.all (fun c => c != '<')
/-- No `"` and no `<` (what an attribute value needs). -/
def safeVal (s : Str) : Bool := s.all isValueChar

theorem okNodes_txt (s : Str) (h : noLt s = true) : okNodes (txt s) = true := by
  unfold txt
  split
  · rfl
  · rename_i he
    simp [okNodes, okNode, wfText, he, noAdjText]
    simpa [noLt] using h

theorem noLt_escape (s : Str) : noLt (escape s) = true := by
  simp only [noLt, List.all_eq_true, bne_iff_ne]
  intro c hc hlt
  have := escape_clean s c hc
  subst hlt
  simp [isMeta] at this

theorem dedup_subset (l : List Str) : ∀ s ∈ dedup l, s ∈ l := by
  induction l with
  | nil => intro s hs; simp [dedup] at hs
  | cons x l ih =>
    intro s hs
    simp only [dedup, List.mem_cons, List.mem_filter] at hs
    rcases hs with rfl | ⟨hs, _⟩
    · exact List.mem_cons_self
    · exact List.mem_cons_of_mem _ (ih s hs)

theorem safeVal_joinSp (l : List Str) (h : ∀ s ∈ l, safeVal s = true) : safeVal (joinSp l) = true := by
  induction l with
  | nil => rfl
  | cons x l ih =>
    cases l with
    | nil => simpa [joinSp] using h x List.mem_cons_self
    | cons y l =>
      have hx := h x List.mem_cons_self
      have hr := ih (fun s hs => h s (List.mem_cons_of_mem _ hs))
      simp only [safeVal, List.all_eq_true] at hx hr ⊢
      intro c hc
      simp only [joinSp, List.mem_append, List.mem_cons] at hc
      rcases hc with hc | rfl | hc
      · exact hx c hc
      · decide
      · exact hr c (by simpa [joinSp] using hc)

/-- The `options` lists the tree view uses: none, a suppressed one, or `open`. -/
def optsOk (opts : List Str) : Bool := opts == [] || opts == [[]] || opts == [c!"open"]

def safeColor (c : Option (Option Str × Option Str)) : Bool :=
  match c with
  | none => true
  | some (a, b) => (match a with | none => true | some x => safeVal x)
                   && (match b with | none => true | some x => safeVal x)

theorem safeVal_append (a b : Str) (ha : safeVal a = true) (hb : safeVal b = true) :
    safeVal (a ++ b) = true := by
  simp only [safeVal, List.all_append, Bool.and_eq_true] at *
  exact ⟨ha, hb⟩

theorem safeVal_styleStr (l : List (Str × Option Str))
    (h : ∀ p ∈ l, safeVal (dashed p.1) = true ∧ ∀ v, p.2 = some v → safeVal v = true) :
    safeVal (styleStr l) = true := by
  induction l with
  | nil => rfl
  | cons p l ih =>
    obtain ⟨k, v⟩ := p
    have hp := h (k, v) List.mem_cons_self
    have hr := ih (fun q hq => h q (List.mem_cons_of_mem _ hq))
    cases v with
    | none => simpa [styleStr] using hr
    | some x =>
      have hk := hp.1
      have hx := hp.2 x rfl
      have c1 : isValueChar ':' = true := by decide
      have c2 : isValueChar ';' = true := by decide
      simp only [safeVal] at hk hx hr ⊢
      simp [styleStr, List.all_append, hk, hx, hr, c1, c2]

theorem safeVal_colorStyles (c : Option (Option Str × Option Str)) (h : safeColor c = true) :
    safeVal (styleStr (colorStyles c)) = true := by
  apply safeVal_styleStr
  cases c with
  | none =>
    intro p hp
    simp only [colorStyles, List.mem_cons, List.mem_nil_iff, or_false] at hp
    rcases hp with rfl | rfl
    · exact ⟨by decide, fun v hv => by cases hv⟩
    · exact ⟨by decide, fun v hv => by cases hv⟩
  | some q =>
    obtain ⟨a, b⟩ := q
    simp only [safeColor, Bool.and_eq_true] at h
    intro p hp
    simp only [colorStyles, List.mem_cons, List.mem_nil_iff, or_false] at hp
    rcases hp with rfl | rfl
    · refine ⟨(by decide : safeVal (dashed c!"color") = true), fun v hv => ?_⟩
      simp only at hv
      subst hv
      exact h.1
    · refine ⟨(by decide : safeVal (dashed c!"background_color") = true), fun v hv => ?_⟩
      simp only at hv
      subst hv
      exact h.2

theorem okNode_el (tag : Str) (opts cls : List Str) (styles : List (Str × Option Str))
    (children : List HNode)
    (ht : libraryTags.contains tag = true) (hv : validName tag = true) (ho : optsOk opts = true)
    (hc : ∀ s ∈ cls, safeVal s = true) (hs : safeVal (styleStr styles) = true)
    (hch : okNodes children = true) :
    okNode (el tag opts cls styles children) = true := by
  have hjoin : safeVal (joinSp (dedup cls)) = true :=
    safeVal_joinSp _ (fun s hs => hc s (dedup_subset cls s hs))
  simp only [el, okNode, ht, hv, hch, Bool.and_true, Bool.true_and, List.all_eq_true]
  intro a ha
  simp only [elementAttrs, propAttrs, List.append_nil, List.mem_append] at ha
  have hcls : a ∈ optAttr c!"class" (joinSp (dedup cls)) →
      (wfAttr a && libraryAttrs.contains a.name) = true := by
    intro ha
    unfold optAttr at ha
    split at ha
    · cases ha
    · simp only [List.mem_singleton] at ha
      subst ha
      simp only [wfAttr, Bool.and_eq_true]
      exact ⟨⟨by decide, hjoin⟩, by decide⟩
  have hstyle : a ∈ optAttr c!"style" (styleStr styles) →
      (wfAttr a && libraryAttrs.contains a.name) = true := by
    intro ha
    unfold optAttr at ha
    split at ha
    · cases ha
    · simp only [List.mem_singleton] at ha
      subst ha
      simp only [wfAttr, Bool.and_eq_true]
      exact ⟨⟨by decide, hs⟩, by decide⟩
  simp only [optsOk, Bool.or_eq_true, beq_iff_eq] at ho
  rcases ho with (rfl | rfl) | rfl
  · rcases ha with (ha | ha) | ha
    · simp [dedup, joinSp] at ha
    · exact hcls ha
    · exact hstyle ha
  · rcases ha with (ha | ha) | ha
    · simp [dedup, joinSp] at ha
    · exact hcls ha
    · exact hstyle ha
  · rcases ha with (ha | ha) | ha
    · have : a = ⟨c!"open", none⟩ := by simpa [dedup, joinSp] using ha
      subst this; decide
    · exact hcls ha
    · exact hstyle ha

theorem okNodes_cons_el (tag : Str) (opts cls : List Str) (styles : List (Str × Option Str))
    (children rest : List HNode) :
    okNodes (el tag opts cls styles children :: rest)
      = (okNode (el tag opts cls styles children) && okNodes rest) := by
  simp [okNodes, el, noAdjText]

theorem okNodes_txt_then (s : Str) (h : noLt s = true) (tag : Str) (opts cls : List Str)
    (styles : List (Str × Option Str))
    (children : List HNode) (hel : okNode (el tag opts cls styles children) = true) :
    okNodes (txt s ++ [el tag opts cls styles children]) = true := by
  unfold txt
  split
  · simp [okNodes_cons_el, hel, okNodes]
  · rename_i he
    have : okNode (.text s) = true := by
      simp [okNode, wfText, he]; simpa [noLt] using h
    simp only [el] at hel
    simp [okNodes, this, hel, el, noAdjText]

/-! ### safe trees: class names of rendered objects are identifiers -/

def safeKind : NodeKind → Bool
  | .obj n css => noLt n && safeVal css
  | _ => true

def safeLeafKind : LeafKind → Bool
  | .num n css => noLt n && safeVal css
  | .other n css => noLt n && safeVal css
  | _ => true

mutual
  def safeTree : Tree → Bool
    | .leaf _ _ kind _ _ _ => safeLeafKind kind
    | .node _ _ kind _ children => safeKind kind && safeTrees children
  def safeTrees : List Tree → Bool
    | [] => true
    | t :: ts => safeTree t && safeTrees ts
end

theorem safeTrees_iff (ts : List Tree) : safeTrees ts = true ↔ ∀ t ∈ ts, safeTree t = true := by
  induction ts with
  | nil => simp [safeTrees]
  | cons t ts ih => simp [safeTrees, ih]

theorem leafKind_css_safe (k : LeafKind) (h : safeLeafKind k = true) : safeVal k.cssName = true := by
  cases k with
  | num n css => simp only [safeLeafKind, Bool.and_eq_true] at h; exact h.2
  | other n css => simp only [safeLeafKind, Bool.and_eq_true] at h; exact h.2
  | _ => decide

theorem noLt_append (a b : Str) (ha : noLt a = true) (hb : noLt b = true) : noLt (a ++ b) = true := by
  simp only [noLt, List.all_append, Bool.and_eq_true] at *
  exact ⟨ha, hb⟩

theorem leafKind_title_noLt (k : LeafKind) (h : safeLeafKind k = true) : noLt k.title = true := by
  cases k with
  | num n css => simp only [safeLeafKind, Bool.and_eq_true] at h; exact h.1
  | other n css =>
    simp only [safeLeafKind, Bool.and_eq_true] at h
    exact noLt_append _ _ h.1 (by decide)
  | _ => decide

theorem nodeKind_css_safe (k : NodeKind) (h : safeKind k = true) : safeVal k.cssName = true := by
  cases k with
  | obj n css => simp only [safeKind, Bool.and_eq_true] at h; exact h.2
  | _ => decide

theorem nodeKind_title_noLt (k : NodeKind) (h : safeKind k = true) : noLt k.title = true := by
  cases k with
  | obj n css =>
    simp only [safeKind, Bool.and_eq_true] at h
    exact noLt_append _ _ h.1 (by decide)
  | _ => decide

theorem tree_css_safe (t : Tree) (h : safeTree t = true) : safeVal t.cssName = true := by
  cases t with
  | leaf k p kind repr raw tip => exact leafKind_css_safe kind h
  | node k p kind tip ch =>
    simp only [safeTree, Bool.and_eq_true] at h
    exact nodeKind_css_safe kind h.1

theorem tree_title_noLt (t : Tree) (h : safeTree t = true) : noLt t.title = true := by
  cases t with
  | leaf k p kind repr raw tip => exact leafKind_title_noLt kind h
  | node k p kind tip ch =>
    simp only [safeTree, Bool.and_eq_true] at h
    exact nodeKind_title_noLt kind h.1

theorem key_typeName_safe (k : Key) : safeVal k.typeName = true := by cases k <;> rfl

/-! ### okNode of the pieces -/

theorem isText_el (tag : Str) (opts cls : List Str) (st : List (Str × Option Str)) (ch : List HNode) :
    isText (el tag opts cls st ch) = false := rfl

theorem okNodes_singleton (n : HNode) (h : okNode n = true) : okNodes [n] = true := by
  cases n <;> simp [okNodes, h, noAdjText]

theorem okNodes_pair_el (n : HNode) (hn : okNode n = true) (hne : isText n = false)
    (m : HNode) (hm : okNode m = true) : okNodes [m, n] = true := by
  cases n with
  | text s => simp [isText] at hne
  | elem tag attrs cs => cases m <;> simp [okNodes, hn, hm, noAdjText]



/-! ### safe options: css classes, colours and the title are caller-chosen markup-level text -/

/-- Root-only options: css classes and colours fit into an attribute value, the title has no `<`. -/
def safeTop (top : Top) : Bool :=
  top.cssClasses.all safeVal && safeColor top.summaryColor
  && (match top.title with | none => true | some s => noLt s)

def safeCtx (c : Ctx) : Bool := safeColor c.keyColor

theorem safeTop_default : safeTop {} = true := rfl
theorem safeCtx_child (c : Ctx) : safeCtx (childCtx c) = safeCtx c := rfl

theorem safeTop_css (top : Top) (h : safeTop top = true) : ∀ s ∈ top.cssClasses, safeVal s = true := by
  simp only [safeTop, Bool.and_eq_true, List.all_eq_true] at h
  exact h.1.1

theorem titleText_noLt (top : Top) (t : Tree) (h : safeTop top = true) (ht : safeTree t = true) :
    noLt (titleText top t) = true := by
  simp only [safeTop, Bool.and_eq_true] at h
  unfold titleText
  cases hti : top.title with
  | none => exact tree_title_noLt t ht
  | some s =>
    have := h.2
    rw [hti] at this
    simp only
    split
    · exact tree_title_noLt t ht
    · exact this

theorem mem_cons_css {x : Str} {css : List Str} (hcss : ∀ s ∈ css, safeVal s = true)
    (hx : safeVal x = true) : ∀ s ∈ x :: css, safeVal s = true := by
  intro s hs
  simp only [List.mem_cons] at hs
  rcases hs with rfl | hs
  · exact hx
  · exact hcss s hs

theorem ok_tooltipDoc (css : List Str) (text : Str) (hcss : ∀ s ∈ css, safeVal s = true) :
    okNode (tooltipDoc css text) = true := by
  unfold tooltipDoc
  exact okNode_el _ _ _ _ _ (by decide) (by decide) (by decide) (mem_cons_css hcss (by decide)) rfl
    (okNodes_txt _ (noLt_escape _))

theorem no_css : ∀ s ∈ ([] : List Str), safeVal s = true := by intro s hs; cases hs

theorem ok_summaryDoc (c : Ctx) (top : Top) (name : Option Str) (t : Tree) (ht : safeTree t = true)
    (htop : safeTop top = true) : okNode (summaryDoc c top name t) = true := by
  unfold summaryDoc
  have hcss := safeTop_css top htop
  have hcol : safeColor top.summaryColor = true := by
    simp only [safeTop, Bool.and_eq_true] at htop; exact htop.1.2
  have htitle : okNode (el c!"div" [] (c!"summary-title" :: top.cssClasses) []
      (txt (titleText top t))) = true :=
    okNode_el _ _ _ _ _ (by decide) (by decide) (by decide) (mem_cons_css hcss (by decide)) rfl
      (okNodes_txt _ (titleText_noLt top t htop ht))
  have htail : okNodes ([el c!"div" [] (c!"summary-title" :: top.cssClasses) [] (txt (titleText top t))]
      ++ (if c.enableSummaryTooltip then [tooltipDoc top.cssClasses t.tip] else [])) = true := by
    split
    · exact okNodes_pair_el _ (ok_tooltipDoc _ t.tip hcss) rfl _ htitle
    · exact okNodes_singleton _ htitle
  refine okNode_el _ _ _ _ _ (by decide) (by decide) (by decide) no_css rfl ?_
  cases name with
  | none => simpa using htail
  | some n =>
    have hname : okNode (el c!"div" [] (c!"summary-name" :: top.cssClasses) (colorStyles top.summaryColor)
        (txt (escape n) ++ (if c.enableKeyTooltip then [tooltipDoc top.cssClasses t.ptip] else [])))
        = true := by
      refine okNode_el _ _ _ _ _ (by decide) (by decide) (by decide) (mem_cons_css hcss (by decide))
        (safeVal_colorStyles _ hcol) ?_
      split
      · exact okNodes_txt_then _ (noLt_escape n) _ _ _ _ _ (ok_tooltipDoc _ t.ptip hcss)
      · simpa using okNodes_txt _ (noLt_escape n)
    simp only [List.cons_append, List.nil_append]
    rw [okNodes_cons_el, hname]
    simpa using htail

theorem ok_objectKeyDoc (c : Ctx) (t : Tree) (hc : safeCtx c = true) :
    okNodes (objectKeyDoc c t) = true := by
  unfold objectKeyDoc
  have hk : okNode (el c!"span" [] [c!"object-key", t.key.typeName] (colorStyles c.keyColor)
      (txt (escape t.key.text))) = true := by
    refine okNode_el _ _ _ _ _ (by decide) (by decide) (by decide) ?_ (safeVal_colorStyles _ hc)
      (okNodes_txt _ (noLt_escape _))
    exact mem_cons_css (mem_cons_css no_css (key_typeName_safe _)) (by decide)
  split
  · exact okNodes_pair_el _ (ok_tooltipDoc [] t.ptip no_css) rfl _ hk
  · exact okNodes_singleton _ hk

theorem ok_simpleValueDoc (c : Ctx) (css : List Str) (t : Tree) (ht : safeTree t = true)
    (hcss : ∀ s ∈ css, safeVal s = true) : okNode (simpleValueDoc c css t) = true := by
  unfold simpleValueDoc
  exact okNode_el _ _ _ _ _ (by decide) (by decide) (by decide)
    (mem_cons_css (mem_cons_css hcss (tree_css_safe t ht)) (by decide)) rfl
    (okNodes_txt _ (noLt_escape _))

theorem contentCss_safe (c : Ctx) (top : Top) (name : Option Str) (t : Tree) (h : safeTop top = true) :
    ∀ s ∈ contentCss c top name t, safeVal s = true := by
  unfold contentCss
  split
  · exact no_css
  · exact safeTop_css top h

theorem ok_detailsDoc (c : Ctx) (top : Top) (name : Option Str) (path : List Key) (t : Tree)
    (content : HNode) (ht : safeTree t = true) (htop : safeTop top = true)
    (hc : okNode content = true) (hne : isText content = false) :
    okNode (detailsDoc c top name path t content) = true
      ∧ isText (detailsDoc c top name path t content) = false := by
  unfold detailsDoc
  split
  · refine ⟨okNode_el _ _ _ _ _ (by decide) (by decide) ?_ ?_ rfl ?_, rfl⟩
    · split <;> decide
    · exact mem_cons_css (mem_cons_css (safeTop_css top htop) (tree_css_safe t ht)) (by decide)
    · exact okNodes_pair_el content hc hne _ (ok_summaryDoc c top name t ht htop)
  · exact ⟨hc, hne⟩

theorem ok_complexDoc (kind : NodeKind) (css : List Str) (body : List HNode) (hk : safeKind kind = true)
    (hcss : ∀ s ∈ css, safeVal s = true) (hb : okNodes body = true) :
    okNode (complexDoc kind css body) = true := by
  unfold complexDoc
  exact okNode_el _ _ _ _ _ (by decide) (by decide) (by decide)
    (mem_cons_css (mem_cons_css hcss (nodeKind_css_safe kind hk)) (by decide)) rfl hb

theorem ok_rowDoc (kc vc : List HNode) (hk : okNodes kc = true) (hv : okNodes vc = true) :
    okNode (rowDoc kc vc) = true := by
  unfold rowDoc
  refine okNode_el _ _ _ _ _ (by decide) (by decide) (by decide) no_css rfl ?_
  rw [okNodes_cons_el, okNodes_cons_el]
  have h1 : okNode (el c!"td" [] [] [] kc) = true :=
    okNode_el _ _ _ _ _ (by decide) (by decide) (by decide) no_css rfl hk
  have h2 : okNode (el c!"td" [] [] [] vc) = true :=
    okNode_el _ _ _ _ _ (by decide) (by decide) (by decide) no_css rfl hv
  simp [h1, h2, okNodes]

theorem hlClasses_safe (c : Ctx) (path : List Key) : ∀ s ∈ hlClasses c path, safeVal s = true := by
  intro s hs
  unfold hlClasses at hs
  simp only [List.mem_append] at hs
  rcases hs with hs | hs
  · split at hs
    · simp only [List.mem_singleton] at hs; subst hs; decide
    · cases hs
  · split at hs
    · simp only [List.mem_singleton] at hs; subst hs; decide
    · cases hs

theorem ok_wrapDoc (c : Ctx) (path : List Key) (n : HNode) (hn : okNode n = true)
    (hne : isText n = false) :
    okNode (wrapDoc c path n) = true ∧ isText (wrapDoc c path n) = false := by
  unfold wrapDoc
  split
  · exact ⟨hn, hne⟩
  · exact ⟨okNode_el _ _ _ _ _ (by decide) (by decide) (by decide) (hlClasses_safe c path) rfl
      (okNodes_singleton n hn), rfl⟩

theorem okNodes_cons_of (n : HNode) (ns : List HNode) (hn : okNode n = true) (hne : isText n = false)
    (hns : okNodes ns = true) : okNodes (n :: ns) = true := by
  cases n with
  | text s => simp [isText] at hne
  | elem tag attrs cs => simp [okNodes, hn, hns, noAdjText]

/-- No text node at the top level of the list. -/
def noText : List HNode → Bool
  | [] => true
  | n :: ns => !isText n && noText ns

theorem okNodes_append (a b : List HNode) (ha : okNodes a = true) (hb : okNodes b = true)
    (hn : noText a = true) : okNodes (a ++ b) = true := by
  induction a with
  | nil => simpa using hb
  | cons n a ih =>
    simp only [noText, Bool.and_eq_true, Bool.not_eq_true'] at hn
    simp only [okNodes, Bool.and_eq_true] at ha
    cases n with
    | text s => simp [isText] at hn
    | elem tag attrs cs =>
      simp only [List.cons_append, okNodes, ha.1.1, noAdjText, ih ha.2 hn.2, Bool.and_self]

theorem noText_append (a b : List HNode) (ha : noText a = true) (hb : noText b = true) :
    noText (a ++ b) = true := by
  induction a with
  | nil => simpa using hb
  | cons n a ih =>
    simp only [noText, Bool.and_eq_true] at ha
    simp only [List.cons_append, noText, ha.1, ih ha.2, Bool.and_self]

theorem ok_childValueDocs (c : Ctx) (path : List Key) (n : HNode) (hn : okNode n = true)
    (hne : isText n = false) :
    okNodes (childValueDocs c path n) = true ∧ noText (childValueDocs c path n) = true := by
  unfold childValueDocs
  split
  · split
    · exact ⟨rfl, rfl⟩
    · exact ⟨okNodes_singleton _ (okNode_el _ _ _ _ _ (by decide) (by decide) (by decide)
        (hlClasses_safe c path) rfl rfl), rfl⟩
  · have hw := ok_wrapDoc c path n hn hne
    exact ⟨okNodes_singleton _ hw.1, by simp [noText, hw.2]⟩

mutual
  theorem ok_renderDoc (c : Ctx) (top : Top) (name : Option Str) (path : List Key) (t : Tree)
      (ht : safeTree t = true) (htop : safeTop top = true) (hc : safeCtx c = true) :
      okNode (renderDoc c top name path t) = true ∧ isText (renderDoc c top name path t) = false := by
    cases t with
    | leaf k p kind repr raw tip =>
      simp only [renderDoc]
      exact ok_detailsDoc c top name path _ _ ht htop
        (ok_simpleValueDoc c _ _ ht (contentCss_safe c top name _ htop)) rfl
    | node k p kind tip children =>
      simp only [renderDoc]
      have ht' := ht
      simp only [safeTree, Bool.and_eq_true] at ht'
      refine ok_detailsDoc c top name path _ _ ht htop
        (ok_complexDoc kind _ _ ht'.1 (contentCss_safe c top name _ htop) ?_) rfl
      have hs := ok_summaryChildrenDoc c kind.isSeq path children ht'.2 hc
      have htab : okNodes (if anyChild (fun q => childShown c q && childLabel c kind.isSeq q) path children
          then [el c!"table" [] [] [] (rowsDoc c kind.isSeq path children)] else []) = true
          ∧ noText (if anyChild (fun q => childShown c q && childLabel c kind.isSeq q) path children
          then [el c!"table" [] [] [] (rowsDoc c kind.isSeq path children)] else []) = true := by
        split
        · exact ⟨okNodes_singleton _ (okNode_el c!"table" [] [] [] _ (by decide) (by decide) (by decide)
            no_css rfl (ok_rowsDoc c kind.isSeq path children ht'.2 hc).1), rfl⟩
        · exact ⟨rfl, rfl⟩
      have hemp : okNodes (if hasChild c kind.isSeq path children then []
          else [el c!"span" [] [c!"empty-container"] [] []]) = true := by
        split
        · rfl
        · exact okNodes_singleton _ (okNode_el c!"span" [] [c!"empty-container"] [] [] (by decide) (by decide)
            (by decide) (mem_cons_css no_css (by decide)) rfl rfl)
      exact okNodes_append _ _ (okNodes_append _ _ hs.1 htab.1 hs.2) hemp (noText_append _ _ hs.2 htab.2)
  theorem ok_summaryChildrenDoc (c : Ctx) (seq : Bool) (path : List Key) (ts : List Tree)
      (hts : safeTrees ts = true) (hc : safeCtx c = true) :
      okNodes (summaryChildrenDoc c seq path ts) = true ∧ noText (summaryChildrenDoc c seq path ts) = true := by
    cases ts with
    | nil => exact ⟨rfl, rfl⟩
    | cons t ts =>
      simp only [safeTrees, Bool.and_eq_true] at hts
      simp only [summaryChildrenDoc]
      have hr := ok_summaryChildrenDoc c seq path ts hts.2 hc
      split
      · have h := ok_renderDoc (childCtx c) {} (some t.key.summaryName) (path ++ [t.key]) t hts.1 rfl hc
        have hv := ok_childValueDocs c (path ++ [t.key]) _ h.1 h.2
        exact ⟨okNodes_append _ _ hv.1 hr.1 hv.2, noText_append _ _ hv.2 hr.2⟩
      · simpa using hr
  theorem ok_rowsDoc (c : Ctx) (seq : Bool) (path : List Key) (ts : List Tree)
      (hts : safeTrees ts = true) (hc : safeCtx c = true) :
      okNodes (rowsDoc c seq path ts) = true ∧ noText (rowsDoc c seq path ts) = true := by
    cases ts with
    | nil => exact ⟨rfl, rfl⟩
    | cons t ts =>
      simp only [safeTrees, Bool.and_eq_true] at hts
      simp only [rowsDoc]
      have hr := ok_rowsDoc c seq path ts hts.2 hc
      split
      · have h := ok_renderDoc (childCtx c) {} none (path ++ [t.key]) t hts.1 rfl hc
        have hv := ok_childValueDocs c (path ++ [t.key]) _ h.1 h.2
        have hrow := ok_rowDoc (objectKeyDoc (childCtx c) t) _ (ok_objectKeyDoc (childCtx c) t hc) hv.1
        have h1 : noText [rowDoc (objectKeyDoc (childCtx c) t)
            (childValueDocs c (path ++ [t.key]) (renderDoc (childCtx c) {} none (path ++ [t.key]) t))] = true := rfl
        exact ⟨okNodes_append _ _ (okNodes_singleton _ hrow) hr.1 h1, noText_append _ _ h1 hr.2⟩
      · simpa using hr
end

/-! ### every leaf text and every shown key is a text node of the document -/

theorem textsOfAll_append (a b : List HNode) : textsOfAll (a ++ b) = textsOfAll a ++ textsOfAll b := by
  induction a with
  | nil => rfl
  | cons n a ih => simp [textsOfAll, ih]

theorem escape_ne_nil (s : Str) (h : s ≠ []) : escape s ≠ [] := by
  intro he
  have := unescape_escape s
  rw [he] at this
  exact h (by simpa [unescape] using this.symm)

theorem mem_texts_txt (s : Str) (h : s ≠ []) : s ∈ textsOfAll (txt s) := by
  unfold txt
  have : s.isEmpty = false := by cases s <;> simp_all
  simp [this, textsOfAll, textsOf]

theorem texts_el (tag : Str) (o cl : List Str) (st : List (Str × Option Str)) (ch : List HNode) :
    textsOf (el tag o cl st ch) = textsOfAll ch := rfl

theorem mem_detailsDoc_of_content (c : Ctx) (top : Top) (name : Option Str) (path : List Key) (t : Tree)
    (content : HNode) (x : Str) (h : x ∈ textsOf content) :
    x ∈ textsOf (detailsDoc c top name path t content) := by
  unfold detailsDoc
  split
  · simp [texts_el, textsOfAll, h]
  · exact h

theorem name_mem_detailsDoc (c : Ctx) (top : Top) (n : Str) (path : List Key) (t : Tree) (content : HNode)
    (hs : hasSummary c top (some n) t = true) (hn : n ≠ []) :
    escape n ∈ textsOf (detailsDoc c top (some n) path t content) := by
  unfold detailsDoc
  simp only [hs, if_true, texts_el, textsOfAll, List.mem_append]
  refine Or.inl ?_
  unfold summaryDoc
  simp only [texts_el, List.cons_append, List.nil_append, textsOfAll, textsOfAll_append, List.mem_append]
  exact Or.inl (Or.inl (mem_texts_txt _ (escape_ne_nil n hn)))

theorem leaf_mem_simpleValueDoc (c : Ctx) (css : List Str) (t : Tree) (h : leafText c t ≠ []) :
    escape (leafText c t) ∈ textsOf (simpleValueDoc c css t) := by
  unfold simpleValueDoc
  rw [texts_el]
  exact mem_texts_txt _ (escape_ne_nil _ h)

theorem texts_rowDoc (kc vc : List HNode) :
    textsOf (rowDoc kc vc) = textsOfAll kc ++ textsOfAll vc := by
  simp [rowDoc, texts_el, textsOfAll]

theorem mem_wrapDoc (c : Ctx) (path : List Key) (n : HNode) (x : Str) (h : x ∈ textsOf n) :
    x ∈ textsOf (wrapDoc c path n) := by
  unfold wrapDoc
  split
  · exact h
  · simpa [texts_el, textsOfAll] using h

theorem mem_childValueDocs (c : Ctx) (path : List Key) (n : HNode) (x : Str)
    (hh : childHidden c path = false) (h : x ∈ textsOf n) :
    x ∈ textsOfAll (childValueDocs c path n) := by
  unfold childValueDocs
  simp only [hh, Bool.false_eq_true, if_false, textsOfAll, List.append_nil]
  exact mem_wrapDoc c path n x h

theorem childVisible_of_not_hidden (c : Ctx) (path : List Key) (hh : childHidden c path = false) :
    childVisible c path = true := by
  simp [childVisible, hh]

theorem key_mem_objectKeyDoc (c : Ctx) (t : Tree) (h : t.key.text ≠ []) :
    escape t.key.text ∈ textsOfAll (objectKeyDoc c t) := by
  unfold objectKeyDoc
  simp only [textsOfAll, texts_el, List.mem_append]
  exact Or.inl (mem_texts_txt _ (escape_ne_nil _ h))

theorem rowsDoc_none (c : Ctx) (seq : Bool) (path : List Key) (ts : List Tree)
    (h : anyChild (fun q => childShown c q && childLabel c seq q) path ts = false) :
    rowsDoc c seq path ts = [] := by
  induction ts with
  | nil => rfl
  | cons t ts ih =>
    simp only [anyChild, Bool.or_eq_false_iff] at h
    simp [rowsDoc, h.1, ih h.2]

/-- Texts of the body of a container: those of the summary part or of the rows. -/
theorem mem_body (c : Ctx) (seq : Bool) (path : List Key) (children : List Tree) (x : Str)
    (h : x ∈ textsOfAll (summaryChildrenDoc c seq path children)
      ∨ x ∈ textsOfAll (rowsDoc c seq path children)) :
    x ∈ textsOfAll (summaryChildrenDoc c seq path children
      ++ (if anyChild (fun q => childShown c q && childLabel c seq q) path children then
            [el c!"table" [] [] [] (rowsDoc c seq path children)] else [])
      ++ (if hasChild c seq path children then [] else [el c!"span" [] [c!"empty-container"] [] []])) := by
  simp only [textsOfAll_append, List.mem_append]
  rcases h with h | h
  · exact Or.inl (Or.inl h)
  · left; right
    have hl : anyChild (fun q => childShown c q && childLabel c seq q) path children = true := by
      cases hh : anyChild (fun q => childShown c q && childLabel c seq q) path children with
      | true => rfl
      | false => rw [rowsDoc_none c seq path children hh] at h; simp [textsOfAll] at h
    simp only [hl, if_true, textsOfAll, texts_el, List.append_nil]
    exact h

mutual
  theorem leafTexts_mem (c : Ctx) (top : Top) (name : Option Str) (path : List Key) (t : Tree) :
      ∀ x ∈ leafTextsOf c path t, x ≠ [] → escape x ∈ textsOf (renderDoc c top name path t) := by
    cases t with
    | leaf k p kind repr raw tip =>
      intro x hx hne
      simp only [leafTextsOf, List.mem_singleton] at hx
      subst hx
      simp only [renderDoc]
      exact mem_detailsDoc_of_content _ _ _ _ _ _ _ (leaf_mem_simpleValueDoc c _ _ hne)
    | node k p kind tip children =>
      intro x hx hne
      simp only [leafTextsOf] at hx
      simp only [renderDoc]
      apply mem_detailsDoc_of_content
      unfold complexDoc
      rw [texts_el]
      exact mem_body c kind.isSeq path children _ (leafTexts_mem_children c kind.isSeq path children x hx hne)
  theorem leafTexts_mem_children (c : Ctx) (seq : Bool) (path : List Key) (ts : List Tree) :
      ∀ x ∈ leafTextsOfAll c path ts, x ≠ [] →
        escape x ∈ textsOfAll (summaryChildrenDoc c seq path ts)
        ∨ escape x ∈ textsOfAll (rowsDoc c seq path ts) := by
    cases ts with
    | nil => intro x hx; simp [leafTextsOfAll] at hx
    | cons t ts =>
      intro x hx hne
      simp only [leafTextsOfAll, List.mem_append] at hx
      simp only [summaryChildrenDoc, rowsDoc, textsOfAll_append, List.mem_append]
      rcases hx with hx | hx
      · by_cases hs : (childShown c (path ++ [t.key]) && !childHidden c (path ++ [t.key])) = true
        · simp only [hs, if_true] at hx
          simp only [Bool.and_eq_true, Bool.not_eq_true'] at hs
          have hvis := childVisible_of_not_hidden c _ hs.2
          by_cases hl : childLabel c seq (path ++ [t.key]) = true
          · right; left
            simp only [hs.1, hl, hvis, Bool.and_self, if_true, textsOfAll, texts_rowDoc, List.append_nil,
              List.mem_append]
            exact Or.inr (mem_childValueDocs _ _ _ _ hs.2 (leafTexts_mem (childCtx c) {} _ _ t x hx hne))
          · left; left
            have hl' : childLabel c seq (path ++ [t.key]) = false := by simpa using hl
            simp only [hs.1, hl', Bool.not_false, Bool.and_self, if_true]
            exact mem_childValueDocs _ _ _ _ hs.2 (leafTexts_mem (childCtx c) {} _ _ t x hx hne)
        · simp only [hs, Bool.false_eq_true, if_false] at hx
          cases hx
      · rcases leafTexts_mem_children c seq path ts x hx hne with h | h
        · exact Or.inl (Or.inr h)
        · exact Or.inr (Or.inr h)
end

mutual
  theorem keyTexts_mem (c : Ctx) (top : Top) (name : Option Str) (path : List Key) (t : Tree) :
      ∀ x ∈ keyTextsOf true c path t, x ≠ [] → escape x ∈ textsOf (renderDoc c top name path t) := by
    cases t with
    | leaf k p kind repr raw tip => intro x hx; simp [keyTextsOf] at hx
    | node k p kind tip children =>
      intro x hx hne
      simp only [keyTextsOf] at hx
      simp only [renderDoc]
      apply mem_detailsDoc_of_content
      unfold complexDoc
      rw [texts_el]
      exact mem_body c kind.isSeq path children _ (keyTexts_mem_children c kind.isSeq path children x hx hne)
  theorem keyTexts_mem_children (c : Ctx) (seq : Bool) (path : List Key) (ts : List Tree) :
      ∀ x ∈ keyTextsOfAll true c seq path ts, x ≠ [] →
        escape x ∈ textsOfAll (summaryChildrenDoc c seq path ts)
        ∨ escape x ∈ textsOfAll (rowsDoc c seq path ts) := by
    cases ts with
    | nil => intro x hx; simp [keyTextsOfAll] at hx
    | cons t ts =>
      intro x hx hne
      simp only [keyTextsOfAll, List.mem_append] at hx
      simp only [summaryChildrenDoc, rowsDoc, textsOfAll_append, List.mem_append]
      rcases hx with hx | hx
      · by_cases hs : (childShown c (path ++ [t.key]) && !childHidden c (path ++ [t.key])) = true
        · simp only [hs, if_true, List.mem_append] at hx
          simp only [Bool.and_eq_true, Bool.not_eq_true'] at hs
          have hvis := childVisible_of_not_hidden c _ hs.2
          by_cases hl : childLabel c seq (path ++ [t.key]) = true
          · right; left
            simp only [hs.1, hl, hvis, Bool.and_self, if_true, textsOfAll, texts_rowDoc, List.append_nil,
              List.mem_append]
            simp only [hl, if_true, List.mem_singleton] at hx
            rcases hx with hx | hx
            · subst hx
              exact Or.inl (key_mem_objectKeyDoc _ t hne)
            · exact Or.inr (mem_childValueDocs _ _ _ _ hs.2 (keyTexts_mem (childCtx c) {} _ _ t x hx hne))
          · left; left
            have hl' : childLabel c seq (path ++ [t.key]) = false := by simpa using hl
            simp only [hs.1, hl', Bool.not_false, Bool.and_self, if_true]
            simp only [hl', Bool.false_eq_true, if_false, Bool.not_true, Bool.false_or] at hx
            apply mem_childValueDocs _ _ _ _ hs.2
            rcases hx with hx | hx
            · split at hx
              · rename_i hns
                simp only [List.mem_singleton] at hx
                subst hx
                have hs' : hasSummary (childCtx c) {} (some t.key.summaryName) t = true := by
                  simpa [hasSummary] using hns
                cases t with
                | leaf k p kind repr raw tip =>
                  simp only [renderDoc]
                  exact name_mem_detailsDoc _ _ _ _ _ _ hs' hne
                | node k p kind tip children =>
                  simp only [renderDoc]
                  exact name_mem_detailsDoc _ _ _ _ _ _ hs' hne
              · cases hx
            · exact keyTexts_mem (childCtx c) {} _ _ t x hx hne
        · simp only [hs, Bool.false_eq_true, if_false] at hx
          cases hx
      · rcases keyTexts_mem_children c seq path ts x hx hne with h | h
        · exact Or.inl (Or.inr h)
        · exact Or.inr (Or.inr h)
end

theorem concatStrs_map_print (chs : List (List HNode)) :
    concatStrs (chs.map printNodes) = printNodes chs.flatten := by
  induction chs with
  | nil => rfl
  | cons c chs ih => simp [concatStrs, printNodes_append, ih]

theorem safeVal_escape (s : Str) : safeVal (escape s) = true := by
  simp only [safeVal, List.all_eq_true]
  intro c hc
  have := escape_clean s c hc
  simp only [isMeta, Bool.or_eq_false_iff, beq_eq_false_iff_ne] at this
  simp [isValueChar, this.1.1.1, this.1.2]

theorem selectChildren_subset (inc exc : Option (List Key)) (children : List Tree) :
    ∀ t ∈ selectChildren inc exc children, t ∈ children := by
  intro t ht
  unfold selectChildren at ht
  have h1 : ∀ t ∈ (match inc with
      | none => children
      | some ks => ks.filterMap (fun k => children.find? (fun t => decide (t.key = k)))), t ∈ children := by
    intro t ht
    cases inc with
    | none => exact ht
    | some ks =>
      simp only [List.mem_filterMap] at ht
      obtain ⟨k, _, hk⟩ := ht
      exact List.mem_of_find?_eq_some hk
  cases exc with
  | none => exact h1 t ht
  | some ks => exact h1 t (List.mem_filter.1 ht).1

theorem safeTree_displayed (o : Opts) (v : Tree) (h : safeTree v = true) :
    safeTree (displayed o v) = true := by
  cases v with
  | leaf k p kind repr raw tip => exact h
  | node k p kind tip children =>
    simp only [safeTree, Bool.and_eq_true] at h
    simp only [displayed, safeTree, Bool.and_eq_true]
    refine ⟨h.1, ?_⟩
    rw [safeTrees_iff] at h ⊢
    intro t ht
    exact h.2 t (selectChildren_subset _ _ _ t ht)


/-- The document the tree view renders to (root name and key filter applied). -/
def docOf (o : Opts) (v : Tree) : HNode :=
  renderDoc o.toCtx o.top (o.name.map Key.summaryName) [] (displayed o v)

/-- Everything the caller writes into attributes / the title fits there. -/
def safeOpts (o : Opts) : Bool := safeTop o.top && safeCtx o.toCtx

theorem ok_docOf (o : Opts) (v : Tree) (hv : safeTree v = true) (ho : safeOpts o = true) :
    okNodes [docOf o v] = true := by
  simp only [safeOpts, Bool.and_eq_true] at ho
  exact okNodes_singleton _ (ok_renderDoc o.toCtx o.top (o.name.map Key.summaryName) []
    (displayed o v) (safeTree_displayed o v hv) ho.1 ho.2).1

theorem parse_renderTree (st : Sites) (hst : st.allEscaped = true) (o : Opts) (v : Tree)
    (hv : safeTree v = true) (ho : safeOpts o = true) :
    parseHtml (renderTree st o v) = some [docOf o v] := by
  have : renderTree st o v = printNodes [docOf o v] := by
    simp [renderTree, printNodes, render_print st hst, docOf]
  rw [this]
  exact parseHtml_print _ (okNodes_wf _ (ok_docOf o v hv ho))


end Pg.C20
