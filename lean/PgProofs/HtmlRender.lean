/-
  C20 helper lemmas, part 3: the tree-view skeleton renders to the print-out of a well-formed
  document (`renderDoc`) whenever every emission site escapes.
-/
import PgProofs.HtmlEscape
import PgProofs.HtmlParse
namespace Pg.C20

theorem parseHtml_print (ns : List HNode) (h : wfNodes ns = true) :
    parseHtml (printNodes ns) = some ns := by
  unfold parseHtml
  rw [← printToks_toksOfAll ns, lex_print _ (wfToks_toksOfAll ns [] h rfl)]
  simp [build_print]

theorem printNodes_append (a b : List HNode) : printNodes (a ++ b) = printNodes a ++ printNodes b := by
  induction a with
  | nil => rfl
  | cons n a ih => simp [printNodes, ih]

/-! ### document-level counterparts of the string-level builders -/

/-- A text node, or nothing for the empty string. -/
def txt (s : Str) : List HNode := if s.isEmpty then [] else [.text s]

theorem printNodes_txt (s : Str) : printNodes (txt s) = s := by
  unfold txt
  split
  · rename_i h; simp [printNodes, List.isEmpty_iff.1 h]
  · simp [printNodes, printNode]

/-- `Html.element` without styles / properties, at document level. -/
def el (tag : Str) (opts cls : List Str) (children : List HNode) : HNode :=
  .elem tag (elementAttrs opts cls [] []) children

theorem element_print (tag : Str) (opts cls : List Str) (chs : List Str) (doc : List HNode)
    (h : concatStrs chs = printNodes doc) :
    element tag opts cls [] [] chs = printNode (el tag opts cls doc) := by
  simp [element, el, printNode, h]

def tooltipDoc (text : Str) : HNode := el c!"span" [] [c!"tooltip"] (txt (escape text))

def summaryDoc (c : Ctx) (name : Option Str) (t : Tree) : HNode :=
  el c!"summary" [] []
    ((match name with
      | some n => [el c!"div" [] [c!"summary-name"]
                    (txt (escape n) ++ (if c.enableKeyTooltip then [tooltipDoc t.ptip] else []))]
      | none => [])
     ++ [el c!"div" [] [c!"summary-title"] (txt t.title)]
     ++ (if c.enableSummaryTooltip then [tooltipDoc t.tip] else []))

def objectKeyDoc (c : Ctx) (t : Tree) : List HNode :=
  el c!"span" [] [c!"object-key", t.key.typeName] (txt (escape t.key.text))
  :: (if c.enableKeyTooltip then [tooltipDoc t.ptip] else [])

def simpleValueDoc (c : Ctx) (t : Tree) : HNode :=
  el c!"span" [] [c!"simple-value", t.cssName] (txt (escape (leafText c t)))

def detailsDoc (c : Ctx) (name : Option Str) (path : List Key) (t : Tree) (content : HNode) : HNode :=
  if needsSummary c name.isSome t then
    el c!"details" [if shouldCollapse c name.isSome path t then [] else c!"open"]
      [c!"pyglove", t.cssName] [summaryDoc c name t, content]
  else content

def complexDoc (kind : NodeKind) (body : List HNode) : HNode :=
  el c!"div" [] [c!"complex-value", kind.cssName] body

def rowDoc (keyCell : List HNode) (valueCell : HNode) : HNode :=
  el c!"tr" [] [] [el c!"td" [] [] keyCell, el c!"td" [] [] [valueCell]]

mutual
  def renderDoc (c : Ctx) (name : Option Str) (path : List Key) : Tree → HNode
    | .leaf k p kind repr raw tip =>
      detailsDoc c name path (.leaf k p kind repr raw tip) (simpleValueDoc c (.leaf k p kind repr raw tip))
    | .node k p kind tip children =>
      detailsDoc c name path (.node k p kind tip children)
        (complexDoc kind
          (match children with
           | [] => [el c!"span" [] [c!"empty-container"] []]
           | _ :: _ =>
             if kind.isSeq || c.keyStyle == .label then [el c!"table" [] [] (rowsDoc c path children)]
             else summaryChildrenDoc c path children))
  def summaryChildrenDoc (c : Ctx) (path : List Key) : List Tree → List HNode
    | [] => []
    | t :: ts =>
      renderDoc (childCtx c) (some t.key.summaryName) (path ++ [t.key]) t :: summaryChildrenDoc c path ts
  def rowsDoc (c : Ctx) (path : List Key) : List Tree → List HNode
    | [] => []
    | t :: ts =>
      rowDoc (objectKeyDoc (childCtx c) t) (renderDoc (childCtx c) none (path ++ [t.key]) t)
      :: rowsDoc c path ts
end

/-! ### render = print ∘ renderDoc -/

theorem complexEl_print (kind : NodeKind) (body : Str) (doc : List HNode) (h : body = printNodes doc) :
    complexEl kind body = printNode (complexDoc kind doc) := by
  unfold complexEl complexDoc
  apply element_print
  simp [concatStrs, h]

theorem rowEl_print (k v : Str) (kd : List HNode) (vd : HNode) (hk : k = printNodes kd)
    (hv : v = printNode vd) : rowEl k v = printNode (rowDoc kd vd) := by
  unfold rowEl rowDoc
  apply element_print
  simp [concatStrs, printNodes, printNode, el, elementAttrs, openTag, closeTag, attrsStr, tdOpen, tdClose,
    hk, hv, optAttr, joinSp, dedup, styleStr, propAttrs]

section
variable (st : Sites) (hst : st.allEscaped = true)
include hst

theorem sites_all : st.summaryName = true ∧ st.objectKey = true ∧ st.simpleValue = true
    ∧ st.tooltipContent = true := by
  simp only [Sites.allEscaped, Bool.and_eq_true] at hst
  exact ⟨hst.1.1.1, hst.1.1.2, hst.1.2, hst.2⟩

theorem tooltipEl_print (text : Str) : tooltipEl st text = printNode (tooltipDoc text) := by
  obtain ⟨_, _, _, h4⟩ := sites_all st hst
  unfold tooltipEl tooltipDoc
  apply element_print
  simp [concatStrs, emit, h4, printNodes_txt]

theorem summaryEl_print (c : Ctx) (name : Option Str) (t : Tree) :
    summaryEl st c name t = printNode (summaryDoc c name t) := by
  obtain ⟨h1, _, _, _⟩ := sites_all st hst
  unfold summaryEl summaryDoc
  apply element_print
  have ht := tooltipEl_print st hst
  cases name with
  | none =>
    by_cases h2 : c.enableSummaryTooltip = true
    · simp [concatStrs, printNodes, printNodes_append, h2, ht, ← element_print _ _ _ [t.title] (txt t.title) (by simp [concatStrs, printNodes_txt])]
    · simp [concatStrs, printNodes, printNodes_append, h2, ← element_print _ _ _ [t.title] (txt t.title) (by simp [concatStrs, printNodes_txt])]
  | some n =>
    have hn : element c!"div" [] [c!"summary-name"] [] []
          [emit st.summaryName n, if c.enableKeyTooltip then tooltipEl st t.ptip else []]
        = printNode (el c!"div" [] [c!"summary-name"]
            (txt (escape n) ++ (if c.enableKeyTooltip then [tooltipDoc t.ptip] else []))) := by
      apply element_print
      by_cases h3 : c.enableKeyTooltip = true
      · simp [concatStrs, printNodes_append, printNodes_txt, emit, h1, h3, ht, printNodes]
      · simp [concatStrs, printNodes_append, printNodes_txt, emit, h1, h3, printNodes]
    have htt := element_print c!"div" [] [c!"summary-title"] [t.title] (txt t.title)
      (by simp [concatStrs, printNodes_txt])
    simp only [concatStrs, List.append_nil]
    rw [hn, htt]
    by_cases h2 : c.enableSummaryTooltip = true
    · simp [printNodes, h2, ht]
    · simp [printNodes, h2]

theorem objectKeyEl_print (c : Ctx) (t : Tree) :
    objectKeyEl st c t = printNodes (objectKeyDoc c t) := by
  obtain ⟨_, h2, _, _⟩ := sites_all st hst
  unfold objectKeyEl objectKeyDoc
  have ht := tooltipEl_print st hst
  have hk : element c!"span" [] [c!"object-key", t.key.typeName] [] [] [emit st.objectKey t.key.text]
      = printNode (el c!"span" [] [c!"object-key", t.key.typeName] (txt (escape t.key.text))) := by
    apply element_print
    simp [concatStrs, emit, h2, printNodes_txt]
  by_cases h3 : c.enableKeyTooltip = true
  · simp [printNodes, h3, ht, hk]
  · simp [printNodes, h3, hk]

theorem simpleValueEl_print (c : Ctx) (t : Tree) :
    simpleValueEl st c t = printNode (simpleValueDoc c t) := by
  obtain ⟨_, _, h3, _⟩ := sites_all st hst
  unfold simpleValueEl simpleValueDoc
  apply element_print
  simp [concatStrs, emit, h3, printNodes_txt]

theorem detailsEl_print (c : Ctx) (name : Option Str) (path : List Key) (t : Tree)
    (content : Str) (doc : HNode) (h : content = printNode doc) :
    detailsEl st c name path t content = printNode (detailsDoc c name path t doc) := by
  unfold detailsEl detailsDoc
  split
  · apply element_print
    simp [concatStrs, printNodes, summaryEl_print st hst, h]
  · exact h

mutual
  theorem render_print (c : Ctx) (name : Option Str) (path : List Key) (t : Tree) :
      render st c name path t = printNode (renderDoc c name path t) := by
    cases t with
    | leaf k p kind repr raw tip =>
      simp only [render, renderDoc]
      exact detailsEl_print st hst _ _ _ _ _ _ (simpleValueEl_print st hst _ _)
    | node k p kind tip children =>
      simp only [render, renderDoc]
      apply detailsEl_print st hst
      apply complexEl_print
      cases children with
      | nil =>
        show emptySpan = printNodes [el c!"span" [] [c!"empty-container"] []]
        simp only [emptySpan, printNodes, List.append_nil]
        exact element_print _ _ _ _ _ rfl
      | cons t ts =>
        show (if (kind.isSeq || c.keyStyle == KeyStyle.label) = true then
            c!"<table>" ++ rows st c path (t :: ts) ++ c!"</table>"
          else summaryChildren st c path (t :: ts)) =
          printNodes (if (kind.isSeq || c.keyStyle == KeyStyle.label) = true then
            [el c!"table" [] [] (rowsDoc c path (t :: ts))]
          else summaryChildrenDoc c path (t :: ts))
        split
        · have := rows_print c path (t :: ts)
          simp [printNodes, printNode, el, elementAttrs, openTag, closeTag, attrsStr, this, optAttr, joinSp,
            dedup, styleStr, propAttrs]
        · exact summaryChildren_print c path (t :: ts)
  theorem summaryChildren_print (c : Ctx) (path : List Key) (ts : List Tree) :
      summaryChildren st c path ts = printNodes (summaryChildrenDoc c path ts) := by
    cases ts with
    | nil => rfl
    | cons t ts =>
      simp only [summaryChildren, summaryChildrenDoc, printNodes]
      rw [render_print (childCtx c) _ _ t, summaryChildren_print c path ts]
  theorem rows_print (c : Ctx) (path : List Key) (ts : List Tree) :
      rows st c path ts = printNodes (rowsDoc c path ts) := by
    cases ts with
    | nil => rfl
    | cons t ts =>
      simp only [rows, rowsDoc, printNodes]
      rw [rows_print c path ts]
      rw [rowEl_print _ _ _ _ (objectKeyEl_print st hst _ _) (render_print (childCtx c) none _ t)]
end

end

end Pg.C20

namespace Pg.C20

/-! ### the rendered document is well-formed and uses the library's vocabulary only -/

mutual
  /-- Well-formed, and every element / attribute name is one the library emits. -/
  def okNode : HNode → Bool
    | .text s => wfText s
    | .elem tag attrs cs =>
      libraryTags.contains tag && validName tag
      && attrs.all (fun a => wfAttr a && libraryAttrs.contains a.name) && okNodes cs
  def okNodes : List HNode → Bool
    | [] => true
    | n :: ns => okNode n && noAdjText n ns && okNodes ns
end

mutual
  theorem okNode_wf (n : HNode) (h : okNode n = true) : wfNode n = true := by
    cases n with
    | text s => simpa [okNode, wfNode] using h
    | elem tag attrs cs =>
      simp only [okNode, Bool.and_eq_true, List.all_eq_true] at h
      simp only [wfNode, Bool.and_eq_true, List.all_eq_true]
      exact ⟨⟨h.1.1.2, fun a ha => (h.1.2 a ha).1⟩, okNodes_wf cs h.2⟩
  theorem okNodes_wf (ns : List HNode) (h : okNodes ns = true) : wfNodes ns = true := by
    cases ns with
    | nil => rfl
    | cons n ns =>
      simp only [okNodes, Bool.and_eq_true] at h
      simp only [wfNodes, Bool.and_eq_true]
      exact ⟨⟨okNode_wf n h.1.1, h.1.2⟩, okNodes_wf ns h.2⟩
end

mutual
  theorem okNode_tags (n : HNode) (h : okNode n = true) : ∀ t ∈ tagsOf n, t ∈ libraryTags := by
    cases n with
    | text s => intro t ht; simp [tagsOf] at ht
    | elem tag attrs cs =>
      simp only [okNode, Bool.and_eq_true, List.contains_iff_mem] at h
      intro t ht
      simp only [tagsOf, List.mem_cons] at ht
      rcases ht with rfl | ht
      · exact h.1.1.1
      · exact okNodes_tags cs h.2 t ht
  theorem okNodes_tags (ns : List HNode) (h : okNodes ns = true) :
      ∀ t ∈ tagsOfAll ns, t ∈ libraryTags := by
    cases ns with
    | nil => intro t ht; simp [tagsOfAll] at ht
    | cons n ns =>
      simp only [okNodes, Bool.and_eq_true] at h
      intro t ht
      simp only [tagsOfAll, List.mem_append] at ht
      rcases ht with ht | ht
      · exact okNode_tags n h.1.1 t ht
      · exact okNodes_tags ns h.2 t ht
end

mutual
  theorem okNode_attrs (n : HNode) (h : okNode n = true) : ∀ a ∈ attrNamesOf n, a ∈ libraryAttrs := by
    cases n with
    | text s => intro t ht; simp [attrNamesOf] at ht
    | elem tag attrs cs =>
      simp only [okNode, Bool.and_eq_true, List.all_eq_true, List.contains_iff_mem] at h
      intro t ht
      simp only [attrNamesOf, List.mem_append, List.mem_map] at ht
      rcases ht with ⟨a, ha, rfl⟩ | ht
      · exact (h.1.2 a ha).2
      · exact okNodes_attrs cs h.2 t ht
  theorem okNodes_attrs (ns : List HNode) (h : okNodes ns = true) :
      ∀ a ∈ attrNamesOfAll ns, a ∈ libraryAttrs := by
    cases ns with
    | nil => intro t ht; simp [attrNamesOfAll] at ht
    | cons n ns =>
      simp only [okNodes, Bool.and_eq_true] at h
      intro t ht
      simp only [attrNamesOfAll, List.mem_append] at ht
      rcases ht with ht | ht
      · exact okNode_attrs n h.1.1 t ht
      · exact okNodes_attrs ns h.2 t ht
end

/-- No `<` (what a text node needs). -/
def noLt (s : Str) : Bool := s.all (fun c => c != '<')
/-- No `"` and no `<` (what an attribute value needs). -/
def safeVal (s : Str) : Bool := s.all isValueChar

theorem okNodes_txt (s : Str) (h : noLt s = true) : okNodes (txt s) = true := by
  unfold txt
  split
  · rfl
  · rename_i he
    simp [okNodes, okNode, wfText, he, noAdjText]
    simpa [noLt] using h

theorem noLt_escape (s : Str) : noLt (escape s) = true := by
  simp only [noLt, List.all_eq_true, bne_iff_ne]
  intro c hc hlt
  have := escape_clean s c hc
  subst hlt
  simp [isMeta] at this

theorem dedup_subset (l : List Str) : ∀ s ∈ dedup l, s ∈ l := by
  induction l with
  | nil => intro s hs; simp [dedup] at hs
  | cons x l ih =>
    intro s hs
    simp only [dedup, List.mem_cons, List.mem_filter] at hs
    rcases hs with rfl | ⟨hs, _⟩
    · exact List.mem_cons_self
    · exact List.mem_cons_of_mem _ (ih s hs)

theorem safeVal_joinSp (l : List Str) (h : ∀ s ∈ l, safeVal s = true) : safeVal (joinSp l) = true := by
  induction l with
  | nil => rfl
  | cons x l ih =>
    cases l with
    | nil => simpa [joinSp] using h x List.mem_cons_self
    | cons y l =>
      have hx := h x List.mem_cons_self
      have hr := ih (fun s hs => h s (List.mem_cons_of_mem _ hs))
      simp only [safeVal, List.all_eq_true] at hx hr ⊢
      intro c hc
      simp only [joinSp, List.mem_append, List.mem_cons] at hc
      rcases hc with hc | rfl | hc
      · exact hx c hc
      · decide
      · exact hr c (by simpa [joinSp] using hc)

/-- The `options` lists the tree view uses: none, a suppressed one, or `open`. -/
def optsOk (opts : List Str) : Bool := opts == [] || opts == [[]] || opts == [c!"open"]

theorem okNode_el (tag : Str) (opts cls : List Str) (children : List HNode)
    (ht : libraryTags.contains tag = true) (hv : validName tag = true) (ho : optsOk opts = true)
    (hc : ∀ s ∈ cls, safeVal s = true) (hch : okNodes children = true) :
    okNode (el tag opts cls children) = true := by
  have hjoin : safeVal (joinSp (dedup cls)) = true :=
    safeVal_joinSp _ (fun s hs => hc s (dedup_subset cls s hs))
  simp only [el, okNode, ht, hv, hch, Bool.and_true, Bool.true_and, List.all_eq_true]
  intro a ha
  simp only [elementAttrs, styleStr, propAttrs, List.append_nil, List.mem_append] at ha
  have hcls : a ∈ optAttr c!"class" (joinSp (dedup cls)) →
      (wfAttr a && libraryAttrs.contains a.name) = true := by
    intro ha
    unfold optAttr at ha
    split at ha
    · cases ha
    · simp only [List.mem_singleton] at ha
      subst ha
      simp only [wfAttr, Bool.and_eq_true]
      exact ⟨⟨by decide, hjoin⟩, by decide⟩
  have hstyle : a ∉ optAttr c!"style" [] := by simp [optAttr]
  simp only [optsOk, Bool.or_eq_true, beq_iff_eq] at ho
  rcases ho with (rfl | rfl) | rfl
  · rcases ha with (ha | ha) | ha
    · simp [dedup, joinSp] at ha
    · exact hcls ha
    · exact absurd ha hstyle
  · rcases ha with (ha | ha) | ha
    · simp [dedup, joinSp] at ha
    · exact hcls ha
    · exact absurd ha hstyle
  · rcases ha with (ha | ha) | ha
    · have : a = ⟨c!"open", none⟩ := by simpa [dedup, joinSp] using ha
      subst this; decide
    · exact hcls ha
    · exact absurd ha hstyle

theorem okNodes_cons_el (tag : Str) (opts cls : List Str) (children rest : List HNode) :
    okNodes (el tag opts cls children :: rest)
      = (okNode (el tag opts cls children) && okNodes rest) := by
  simp [okNodes, el, noAdjText]

theorem okNodes_txt_then (s : Str) (h : noLt s = true) (tag : Str) (opts cls : List Str)
    (children : List HNode) (hel : okNode (el tag opts cls children) = true) :
    okNodes (txt s ++ [el tag opts cls children]) = true := by
  unfold txt
  split
  · simp [okNodes_cons_el, hel, okNodes]
  · rename_i he
    have : okNode (.text s) = true := by
      simp [okNode, wfText, he]; simpa [noLt] using h
    simp only [el] at hel
    simp [okNodes, this, hel, el, noAdjText]

/-! ### safe trees: class names of rendered objects are identifiers -/

def safeKind : NodeKind → Bool
  | .obj n css => noLt n && safeVal css
  | _ => true

mutual
  def safeTree : Tree → Bool
    | .leaf .. => true
    | .node _ _ kind _ children => safeKind kind && safeTrees children
  def safeTrees : List Tree → Bool
    | [] => true
    | t :: ts => safeTree t && safeTrees ts
end

theorem safeTrees_iff (ts : List Tree) : safeTrees ts = true ↔ ∀ t ∈ ts, safeTree t = true := by
  induction ts with
  | nil => simp [safeTrees]
  | cons t ts ih => simp [safeTrees, ih]

theorem leafKind_css_safe (k : LeafKind) : safeVal k.cssName = true := by cases k <;> decide
theorem leafKind_title_noLt (k : LeafKind) : noLt k.title = true := by cases k <;> decide

theorem noLt_append (a b : Str) (ha : noLt a = true) (hb : noLt b = true) : noLt (a ++ b) = true := by
  simp only [noLt, List.all_append, Bool.and_eq_true] at *
  exact ⟨ha, hb⟩

theorem nodeKind_css_safe (k : NodeKind) (h : safeKind k = true) : safeVal k.cssName = true := by
  cases k with
  | obj n css => simp only [safeKind, Bool.and_eq_true] at h; exact h.2
  | _ => decide

theorem nodeKind_title_noLt (k : NodeKind) (h : safeKind k = true) : noLt k.title = true := by
  cases k with
  | obj n css =>
    simp only [safeKind, Bool.and_eq_true] at h
    exact noLt_append _ _ h.1 (by decide)
  | _ => decide

theorem tree_css_safe (t : Tree) (h : safeTree t = true) : safeVal t.cssName = true := by
  cases t with
  | leaf k p kind repr raw tip => exact leafKind_css_safe kind
  | node k p kind tip ch =>
    simp only [safeTree, Bool.and_eq_true] at h
    exact nodeKind_css_safe kind h.1

theorem tree_title_noLt (t : Tree) (h : safeTree t = true) : noLt t.title = true := by
  cases t with
  | leaf k p kind repr raw tip => exact leafKind_title_noLt kind
  | node k p kind tip ch =>
    simp only [safeTree, Bool.and_eq_true] at h
    exact nodeKind_title_noLt kind h.1

theorem key_typeName_safe (k : Key) : safeVal k.typeName = true := by cases k <;> rfl

/-! ### okNode of the pieces -/

theorem isText_el (tag : Str) (opts cls : List Str) (ch : List HNode) : isText (el tag opts cls ch) = false := rfl

theorem okNodes_singleton (n : HNode) (h : okNode n = true) : okNodes [n] = true := by
  cases n <;> simp [okNodes, h, noAdjText]

theorem okNodes_pair_el (n : HNode) (hn : okNode n = true) (hne : isText n = false)
    (m : HNode) (hm : okNode m = true) : okNodes [m, n] = true := by
  cases n with
  | text s => simp [isText] at hne
  | elem tag attrs cs => cases m <;> simp [okNodes, hn, hm, noAdjText]


theorem ok_tooltipDoc (text : Str) : okNode (tooltipDoc text) = true := by
  unfold tooltipDoc
  refine okNode_el _ _ _ _ (by decide) (by decide) (by decide) ?_ (okNodes_txt _ (noLt_escape _))
  intro s hs
  simp only [List.mem_singleton] at hs
  subst hs; decide

theorem ok_summaryDoc (c : Ctx) (name : Option Str) (t : Tree) (ht : safeTree t = true) :
    okNode (summaryDoc c name t) = true := by
  unfold summaryDoc
  have htitle : okNode (el c!"div" [] [c!"summary-title"] (txt t.title)) = true := by
    refine okNode_el _ _ _ _ (by decide) (by decide) (by decide) ?_ (okNodes_txt _ (tree_title_noLt t ht))
    intro s hs
    simp only [List.mem_singleton] at hs
    subst hs; decide
  have htail : okNodes ([el c!"div" [] [c!"summary-title"] (txt t.title)]
      ++ (if c.enableSummaryTooltip then [tooltipDoc t.tip] else [])) = true := by
    split
    · exact okNodes_pair_el _ (ok_tooltipDoc t.tip) rfl _ htitle
    · exact okNodes_singleton _ htitle
  refine okNode_el _ _ _ _ (by decide) (by decide) (by decide) (by intro s hs; cases hs) ?_
  cases name with
  | none => simpa using htail
  | some n =>
    have hname : okNode (el c!"div" [] [c!"summary-name"]
        (txt (escape n) ++ (if c.enableKeyTooltip then [tooltipDoc t.ptip] else []))) = true := by
      refine okNode_el _ _ _ _ (by decide) (by decide) (by decide) ?_ ?_
      · intro s hs
        simp only [List.mem_singleton] at hs
        subst hs; decide
      · split
        · exact okNodes_txt_then _ (noLt_escape n) _ _ _ _ (ok_tooltipDoc t.ptip)
        · simpa using okNodes_txt _ (noLt_escape n)
    simp only [List.cons_append, List.nil_append, List.append_assoc]
    rw [okNodes_cons_el, hname]
    simpa using htail

theorem ok_objectKeyDoc (c : Ctx) (t : Tree) : okNodes (objectKeyDoc c t) = true := by
  unfold objectKeyDoc
  have hk : okNode (el c!"span" [] [c!"object-key", t.key.typeName] (txt (escape t.key.text))) = true := by
    refine okNode_el _ _ _ _ (by decide) (by decide) (by decide) ?_ (okNodes_txt _ (noLt_escape _))
    intro s hs
    simp only [List.mem_cons, List.mem_nil_iff, or_false] at hs
    rcases hs with rfl | rfl
    · decide
    · exact key_typeName_safe _
  split
  · exact okNodes_pair_el _ (ok_tooltipDoc t.ptip) rfl _ hk
  · exact okNodes_singleton _ hk

theorem ok_simpleValueDoc (c : Ctx) (t : Tree) (ht : safeTree t = true) :
    okNode (simpleValueDoc c t) = true := by
  unfold simpleValueDoc
  refine okNode_el _ _ _ _ (by decide) (by decide) (by decide) ?_ (okNodes_txt _ (noLt_escape _))
  intro s hs
  simp only [List.mem_cons, List.mem_nil_iff, or_false] at hs
  rcases hs with rfl | rfl
  · decide
  · exact tree_css_safe t ht

theorem ok_detailsDoc (c : Ctx) (name : Option Str) (path : List Key) (t : Tree) (content : HNode)
    (ht : safeTree t = true) (hc : okNode content = true) (hne : isText content = false) :
    okNode (detailsDoc c name path t content) = true ∧ isText (detailsDoc c name path t content) = false := by
  unfold detailsDoc
  split
  · refine ⟨okNode_el _ _ _ _ (by decide) (by decide) ?_ ?_ ?_, rfl⟩
    · split <;> decide
    · intro s hs
      simp only [List.mem_cons, List.mem_nil_iff, or_false] at hs
      rcases hs with rfl | rfl
      · decide
      · exact tree_css_safe t ht
    · exact okNodes_pair_el content hc hne _ (ok_summaryDoc c name t ht)
  · exact ⟨hc, hne⟩

theorem ok_complexDoc (kind : NodeKind) (body : List HNode) (hk : safeKind kind = true)
    (hb : okNodes body = true) : okNode (complexDoc kind body) = true := by
  unfold complexDoc
  refine okNode_el _ _ _ _ (by decide) (by decide) (by decide) ?_ hb
  intro s hs
  simp only [List.mem_cons, List.mem_nil_iff, or_false] at hs
  rcases hs with rfl | rfl
  · decide
  · exact nodeKind_css_safe kind hk

theorem ok_rowDoc (kc : List HNode) (vc : HNode) (hk : okNodes kc = true) (hv : okNode vc = true) :
    okNode (rowDoc kc vc) = true := by
  unfold rowDoc
  refine okNode_el _ _ _ _ (by decide) (by decide) (by decide) (by intro s hs; cases hs) ?_
  rw [okNodes_cons_el, okNodes_cons_el]
  have h1 : okNode (el c!"td" [] [] kc) = true :=
    okNode_el _ _ _ _ (by decide) (by decide) (by decide) (by intro s hs; cases hs) hk
  have h2 : okNode (el c!"td" [] [] [vc]) = true :=
    okNode_el _ _ _ _ (by decide) (by decide) (by decide) (by intro s hs; cases hs) (okNodes_singleton vc hv)
  simp [h1, h2, okNodes]

mutual
  theorem ok_renderDoc (c : Ctx) (name : Option Str) (path : List Key) (t : Tree)
      (ht : safeTree t = true) :
      okNode (renderDoc c name path t) = true ∧ isText (renderDoc c name path t) = false := by
    cases t with
    | leaf k p kind repr raw tip =>
      simp only [renderDoc]
      exact ok_detailsDoc c name path _ _ ht (ok_simpleValueDoc c _ ht) rfl
    | node k p kind tip children =>
      simp only [renderDoc]
      have ht' := ht
      simp only [safeTree, Bool.and_eq_true] at ht'
      refine ok_detailsDoc c name path _ _ ht (ok_complexDoc kind _ ht'.1 ?_) rfl
      cases children with
      | nil =>
        show okNodes [el c!"span" [] [c!"empty-container"] []] = true
        exact okNodes_singleton _ (okNode_el _ _ _ _ (by decide) (by decide) (by decide)
          (by intro s hs; simp only [List.mem_singleton] at hs; subst hs; decide) rfl)
      | cons t ts =>
        show okNodes (if (kind.isSeq || c.keyStyle == KeyStyle.label) = true then
            [el c!"table" [] [] (rowsDoc c path (t :: ts))]
          else summaryChildrenDoc c path (t :: ts)) = true
        split
        · exact okNodes_singleton _ (okNode_el _ _ _ _ (by decide) (by decide) (by decide)
            (by intro s hs; cases hs) (ok_rowsDoc c path (t :: ts) ht'.2))
        · exact ok_summaryChildrenDoc c path (t :: ts) ht'.2
  theorem ok_summaryChildrenDoc (c : Ctx) (path : List Key) (ts : List Tree)
      (hts : safeTrees ts = true) : okNodes (summaryChildrenDoc c path ts) = true := by
    cases ts with
    | nil => rfl
    | cons t ts =>
      simp only [safeTrees, Bool.and_eq_true] at hts
      simp only [summaryChildrenDoc, okNodes, Bool.and_eq_true]
      have h := ok_renderDoc (childCtx c) (some t.key.summaryName) (path ++ [t.key]) t hts.1
      refine ⟨⟨h.1, ?_⟩, ok_summaryChildrenDoc c path ts hts.2⟩
      cases hr : renderDoc (childCtx c) (some t.key.summaryName) (path ++ [t.key]) t with
      | text s => rw [hr] at h; simp [isText] at h
      | elem tag attrs cs => rfl
  theorem ok_rowsDoc (c : Ctx) (path : List Key) (ts : List Tree)
      (hts : safeTrees ts = true) : okNodes (rowsDoc c path ts) = true := by
    cases ts with
    | nil => rfl
    | cons t ts =>
      simp only [safeTrees, Bool.and_eq_true] at hts
      simp only [rowsDoc]
      unfold rowDoc
      rw [okNodes_cons_el]
      have h := ok_renderDoc (childCtx c) none (path ++ [t.key]) t hts.1
      have := ok_rowDoc (objectKeyDoc (childCtx c) t) _ (ok_objectKeyDoc (childCtx c) t) h.1
      unfold rowDoc at this
      simp [this, ok_rowsDoc c path ts hts.2]
end

end Pg.C20

namespace Pg.C20

/-! ### every leaf text and every shown key is a text node of the document -/

theorem textsOfAll_append (a b : List HNode) : textsOfAll (a ++ b) = textsOfAll a ++ textsOfAll b := by
  induction a with
  | nil => rfl
  | cons n a ih => simp [textsOfAll, ih]

theorem escape_ne_nil (s : Str) (h : s ≠ []) : escape s ≠ [] := by
  intro he
  have := unescape_escape s
  rw [he] at this
  exact h (by simpa [unescape] using this.symm)

theorem mem_texts_txt (s : Str) (h : s ≠ []) : s ∈ textsOfAll (txt s) := by
  unfold txt
  have : s.isEmpty = false := by cases s <;> simp_all
  simp [this, textsOfAll, textsOf]

theorem texts_el (tag : Str) (o cl : List Str) (ch : List HNode) :
    textsOf (el tag o cl ch) = textsOfAll ch := rfl

theorem mem_detailsDoc_of_content (c : Ctx) (name : Option Str) (path : List Key) (t : Tree)
    (content : HNode) (x : Str) (h : x ∈ textsOf content) :
    x ∈ textsOf (detailsDoc c name path t content) := by
  unfold detailsDoc
  split
  · simp [texts_el, textsOfAll, h]
  · exact h

theorem name_mem_detailsDoc (c : Ctx) (n : Str) (path : List Key) (t : Tree) (content : HNode)
    (hs : needsSummary c true t = true) (hn : n ≠ []) :
    escape n ∈ textsOf (detailsDoc c (some n) path t content) := by
  unfold detailsDoc
  simp only [Option.isSome_some, hs, if_true, texts_el, textsOfAll, List.mem_append]
  refine Or.inl ?_
  unfold summaryDoc
  simp only [texts_el, List.cons_append, List.nil_append, textsOfAll, textsOfAll_append, List.mem_append]
  exact Or.inl (Or.inl (mem_texts_txt _ (escape_ne_nil n hn)))

theorem leaf_mem_simpleValueDoc (c : Ctx) (t : Tree) (h : leafText c t ≠ []) :
    escape (leafText c t) ∈ textsOf (simpleValueDoc c t) := by
  unfold simpleValueDoc
  rw [texts_el]
  exact mem_texts_txt _ (escape_ne_nil _ h)

theorem texts_rowDoc (kc : List HNode) (vc : HNode) :
    textsOf (rowDoc kc vc) = textsOfAll kc ++ textsOf vc := by
  simp [rowDoc, texts_el, textsOfAll]

theorem key_mem_objectKeyDoc (c : Ctx) (t : Tree) (h : t.key.text ≠ []) :
    escape t.key.text ∈ textsOfAll (objectKeyDoc c t) := by
  unfold objectKeyDoc
  simp only [textsOfAll, texts_el, List.mem_append]
  exact Or.inl (mem_texts_txt _ (escape_ne_nil _ h))

mutual
  theorem leafTexts_mem (c : Ctx) (name : Option Str) (path : List Key) (t : Tree) :
      ∀ x ∈ leafTextsOf c t, x ≠ [] → escape x ∈ textsOf (renderDoc c name path t) := by
    cases t with
    | leaf k p kind repr raw tip =>
      intro x hx hne
      simp only [leafTextsOf, List.mem_singleton] at hx
      subst hx
      simp only [renderDoc]
      exact mem_detailsDoc_of_content _ _ _ _ _ _ (leaf_mem_simpleValueDoc c _ hne)
    | node k p kind tip children =>
      intro x hx hne
      simp only [leafTextsOf] at hx
      simp only [renderDoc]
      apply mem_detailsDoc_of_content
      unfold complexDoc
      rw [texts_el]
      cases children with
      | nil => simp [leafTextsOfAll] at hx
      | cons t ts =>
        show escape x ∈ textsOfAll (if (kind.isSeq || c.keyStyle == KeyStyle.label) = true then
            [el c!"table" [] [] (rowsDoc c path (t :: ts))]
          else summaryChildrenDoc c path (t :: ts))
        split
        · simp only [textsOfAll, texts_el, List.append_nil]
          exact leafTexts_mem_rows c path (t :: ts) x hx hne
        · exact leafTexts_mem_summary c path (t :: ts) x hx hne
  theorem leafTexts_mem_summary (c : Ctx) (path : List Key) (ts : List Tree) :
      ∀ x ∈ leafTextsOfAll (childCtx c) ts, x ≠ [] →
        escape x ∈ textsOfAll (summaryChildrenDoc c path ts) := by
    cases ts with
    | nil => intro x hx; simp [leafTextsOfAll] at hx
    | cons t ts =>
      intro x hx hne
      simp only [leafTextsOfAll, List.mem_append] at hx
      simp only [summaryChildrenDoc, textsOfAll, List.mem_append]
      rcases hx with hx | hx
      · exact Or.inl (leafTexts_mem (childCtx c) _ _ t x hx hne)
      · exact Or.inr (leafTexts_mem_summary c path ts x hx hne)
  theorem leafTexts_mem_rows (c : Ctx) (path : List Key) (ts : List Tree) :
      ∀ x ∈ leafTextsOfAll (childCtx c) ts, x ≠ [] →
        escape x ∈ textsOfAll (rowsDoc c path ts) := by
    cases ts with
    | nil => intro x hx; simp [leafTextsOfAll] at hx
    | cons t ts =>
      intro x hx hne
      simp only [leafTextsOfAll, List.mem_append] at hx
      simp only [rowsDoc, textsOfAll, texts_rowDoc, List.mem_append]
      rcases hx with hx | hx
      · exact Or.inl (Or.inr (leafTexts_mem (childCtx c) _ _ t x hx hne))
      · exact Or.inr (leafTexts_mem_rows c path ts x hx hne)
end

mutual
  theorem keyTexts_mem (c : Ctx) (name : Option Str) (path : List Key) (t : Tree) :
      ∀ x ∈ keyTextsOf true c t, x ≠ [] → escape x ∈ textsOf (renderDoc c name path t) := by
    cases t with
    | leaf k p kind repr raw tip => intro x hx; simp [keyTextsOf] at hx
    | node k p kind tip children =>
      intro x hx hne
      simp only [keyTextsOf] at hx
      simp only [renderDoc]
      apply mem_detailsDoc_of_content
      unfold complexDoc
      rw [texts_el]
      cases children with
      | nil => simp [keyTextsOfAll] at hx
      | cons t ts =>
        show escape x ∈ textsOfAll (if (kind.isSeq || c.keyStyle == KeyStyle.label) = true then
            [el c!"table" [] [] (rowsDoc c path (t :: ts))]
          else summaryChildrenDoc c path (t :: ts))
        split
        · rename_i hl
          rw [hl] at hx
          simp only [textsOfAll, texts_el, List.append_nil]
          exact keyTexts_mem_rows c path (t :: ts) x hx hne
        · rename_i hl
          have hl' : (kind.isSeq || c.keyStyle == KeyStyle.label) = false := by simpa using hl
          rw [hl'] at hx
          exact keyTexts_mem_summary c path (t :: ts) x hx hne
  theorem keyTexts_mem_summary (c : Ctx) (path : List Key) (ts : List Tree) :
      ∀ x ∈ keyTextsOfAll true c false ts, x ≠ [] →
        escape x ∈ textsOfAll (summaryChildrenDoc c path ts) := by
    cases ts with
    | nil => intro x hx; simp [keyTextsOfAll] at hx
    | cons t ts =>
      intro x hx hne
      simp only [keyTextsOfAll, Bool.false_eq_true, if_false, Bool.not_true, Bool.false_or,
        List.mem_append] at hx
      simp only [summaryChildrenDoc, textsOfAll, List.mem_append]
      rcases hx with (hx | hx) | hx
      · left
        split at hx
        · rename_i hs
          simp only [List.mem_singleton] at hx
          subst hx
          cases t with
          | leaf k p kind repr raw tip =>
            simp only [renderDoc]
            exact name_mem_detailsDoc _ _ _ _ _ hs hne
          | node k p kind tip children =>
            simp only [renderDoc]
            exact name_mem_detailsDoc _ _ _ _ _ hs hne
        · cases hx
      · exact Or.inl (keyTexts_mem (childCtx c) _ _ t x hx hne)
      · exact Or.inr (keyTexts_mem_summary c path ts x hx hne)
  theorem keyTexts_mem_rows (c : Ctx) (path : List Key) (ts : List Tree) :
      ∀ x ∈ keyTextsOfAll true c true ts, x ≠ [] →
        escape x ∈ textsOfAll (rowsDoc c path ts) := by
    cases ts with
    | nil => intro x hx; simp [keyTextsOfAll] at hx
    | cons t ts =>
      intro x hx hne
      simp only [keyTextsOfAll, if_true, List.mem_append, List.mem_singleton] at hx
      simp only [rowsDoc, textsOfAll, texts_rowDoc, List.mem_append]
      rcases hx with (hx | hx) | hx
      · subst hx
        exact Or.inl (Or.inl (key_mem_objectKeyDoc _ t hne))
      · exact Or.inl (Or.inr (keyTexts_mem (childCtx c) _ _ t x hx hne))
      · exact Or.inr (keyTexts_mem_rows c path ts x hx hne)
end

end Pg.C20

namespace Pg.C20

theorem concatStrs_map_print (chs : List (List HNode)) :
    concatStrs (chs.map printNodes) = printNodes chs.flatten := by
  induction chs with
  | nil => rfl
  | cons c chs ih => simp [concatStrs, printNodes_append, ih]

theorem safeVal_escape (s : Str) : safeVal (escape s) = true := by
  simp only [safeVal, List.all_eq_true]
  intro c hc
  have := escape_clean s c hc
  simp only [isMeta, Bool.or_eq_false_iff, beq_eq_false_iff_ne] at this
  simp [isValueChar, this.1.1.1, this.1.2]

theorem selectChildren_subset (inc exc : Option (List Key)) (children : List Tree) :
    ∀ t ∈ selectChildren inc exc children, t ∈ children := by
  intro t ht
  unfold selectChildren at ht
  have h1 : ∀ t ∈ (match inc with
      | none => children
      | some ks => ks.filterMap (fun k => children.find? (fun t => decide (t.key = k)))), t ∈ children := by
    intro t ht
    cases inc with
    | none => exact ht
    | some ks =>
      simp only [List.mem_filterMap] at ht
      obtain ⟨k, _, hk⟩ := ht
      exact List.mem_of_find?_eq_some hk
  cases exc with
  | none => exact h1 t ht
  | some ks => exact h1 t (List.mem_filter.1 ht).1

theorem safeTree_displayed (o : Opts) (v : Tree) (h : safeTree v = true) :
    safeTree (displayed o v) = true := by
  cases v with
  | leaf k p kind repr raw tip => exact h
  | node k p kind tip children =>
    simp only [safeTree, Bool.and_eq_true] at h
    simp only [displayed, safeTree, Bool.and_eq_true]
    refine ⟨h.1, ?_⟩
    rw [safeTrees_iff] at h ⊢
    intro t ht
    exact h.2 t (selectChildren_subset _ _ _ t ht)

end Pg.C20

namespace Pg.C20

/-- The document the tree view renders to (root name and key filter applied). -/
def docOf (o : Opts) (v : Tree) : HNode :=
  renderDoc o.toCtx (o.name.map Key.summaryName) [] (displayed o v)

theorem parse_renderTree (st : Sites) (hst : st.allEscaped = true) (o : Opts) (v : Tree)
    (hv : safeTree v = true) : parseHtml (renderTree st o v) = some [docOf o v] := by
  have hok := ok_renderDoc o.toCtx (o.name.map Key.summaryName) [] (displayed o v)
    (safeTree_displayed o v hv)
  have : renderTree st o v = printNodes [docOf o v] := by
    simp [renderTree, printNodes, render_print st hst, docOf]
  rw [this]
  exact parseHtml_print _ (okNodes_wf _ (okNodes_singleton _ hok.1))

end Pg.C20
