/- C16 — one lemma per action: `Inv` is preserved (each lemma names the flags it needs). -/
import PgProofs.Conc
namespace Pg.C16

/-- `split at h`, closing the branches in which `h : none = some _`. -/
macro "split_ok" " at " h:ident : tactic =>
  `(tactic| (split at $h:ident <;> first | (cases $h:ident; done) | skip))

/-- Get-or-create of the named study under one lock hold (needs `getOrCreateAtomic`, which is what
enables the action). -/
theorem inv_gocAtomic {cfg : LockCfg} {s s' : State} {w : Nat} (hi : Inv s)
    (h : exec cfg s w .gocAtomic = some s') : Inv s' := by
  simp only [exec] at h
  split_ok at h
  split_ok at h
  rename_i hw hc
  simp only [Bool.and_eq_true, beq_iff_eq] at hc
  obtain ⟨-, hpc⟩ := hc
  have hs' := Option.some.inj h
  subst hs'
  unfold gocAtomic
  rcases hi.shape with ⟨hs, hr⟩ | ⟨st, hs, hr⟩
  · -- first caller: creates and registers the study
    simp only [hr, hs, List.nil_append, List.length_nil]
    have hfresh := hi.fresh (hi.noStudy hs).2
    have hstart := (hi.noStudy hs).1
    constructor
    · intro i
      simp only [State.setW]
      by_cases hiw : i = w <;> simp [hiw, hi.wstudy i]
    · intro i
      simp only [State.setW]
      by_cases hiw : i = w <;> simp [hiw, okPc, hi.pcOk i]
      exact hi.pcOk i
    · right; exact ⟨Study.new, rfl, rfl⟩
    · intro h0; cases h0
    · intro i
      simp only [State.setW]
      by_cases hiw : i = w
      · simp [hiw, pastSetup]
      · simp only [hiw, if_false]; intro hp; rw [hstart i] at hp; cases hp
    · intro _
      refine ⟨hfresh.1, hfresh.2.1, hfresh.2.2.1, ?_⟩
      intro st hst
      have : st = Study.new := by simpa [State.setW] using hst
      subst this; rfl
    · intro st hst
      have : st = Study.new := by simpa [State.setW] using hst
      subst this
      refine ⟨studyInv_new _ _ hfresh.1 hfresh.2.1 hfresh.2.2.1, ?_⟩
      constructor
      · intro i t
        simp only [State.setW]
        by_cases hiw : i = w
        · simp [hiw]
        · simp only [hiw, if_false]; intro hp; rw [hstart i] at hp; cases hp
      · intro i
        simp only [State.setW]
        by_cases hiw : i = w
        · simp [hiw]
        · simp only [hiw, if_false]; intro hp; rw [hstart i] at hp; cases hp
      · intro i
        simp only [State.setW]
        by_cases hiw : i = w
        · simp [hiw]
        · simp only [hiw, if_false]; intro hp; rw [hstart i] at hp; cases hp
      · intro t ht; simp [Study.new] at ht
    · intro i
      simp only [State.setW]
      by_cases hiw : i = w
      · simp [hiw]
      · simp only [hiw, if_false]; intro hp; rw [hstart i] at hp; cases hp
  · -- later caller: fetches the registered study
    simp only [hr]
    have : s.setW w { s.workers w with study := 0, pc := .preSetup } = s.setPc w .preSetup := by
      simp only [State.setW, State.setPc]
      congr 1; funext j
      by_cases hj : j = w
      · simp only [hj, if_true]
        have := hi.wstudy w
        cases hwk : s.workers w with
        | mk g st pc tmp => rw [hwk] at this; simp at this; simp [this]
      · simp [hj]
    rw [this]
    apply hi.updWorker' w .preSetup (by intro h0; cases h0) rfl
    · intro hp; cases hp
    · intro h0; rw [hs] at h0; cases h0
    · intro st _; exact ⟨fun t ht => (nomatch ht), fun ht => (nomatch ht)⟩

/-- Set-up of the shared algorithm under one lock hold (needs `algoSetupAtomic`). -/
theorem inv_setupAtomic {cfg : LockCfg} {s s' : State} {w : Nat} (hi : Inv s)
    (h : exec cfg s w .setupAtomic = some s') : Inv s' := by
  simp only [exec] at h
  split_ok at h
  split_ok at h
  rename_i hw hc
  simp only [Bool.and_eq_true, beq_iff_eq] at hc
  obtain ⟨-, hpc⟩ := hc
  have hs' := Option.some.inj h
  subst hs'
  unfold setupAtomic
  obtain ⟨st, hs⟩ := studies_of_pc hi w (by rw [hpc]; intro h0; cases h0)
  by_cases hset : s.algo.isSetup = true
  · simp only [hset, if_true]
    apply hi.updWorker' w .loop (by intro h0; cases h0) rfl (fun _ => hset)
    · intro h0; rw [hs] at h0; cases h0
    · intro st _; exact ⟨fun t ht => (nomatch ht), fun ht => (nomatch ht)⟩
  · have hset' : s.algo.isSetup = false := by simpa using hset
    simp only [hset', Bool.false_eq_true, if_false]
    have hfresh := hi.fresh hset'
    have hst : st.trials = [] := hfresh.2.2.2 st (by rw [hs]; simp)
    have hI := (hi.study st (by rw [hs]; simp))
    have hinv1 : Inv { s with algo := s.algo.setup } := by
      have := hi.updStudy st st s.algo.setup hs (by simp [Algo.setup]) (hI.1.setup hfresh.1 hst) id
        (by intro he; simpa [Algo.spaceExhausted, Algo.setup, hfresh.2.1] using he)
      rw [← hs] at this
      exact this
    apply hinv1.updWorker' w .loop (by intro h0; cases h0) rfl
    · intro _; simp [Algo.setup]
    · intro h0; simp only [] at h0; rw [hs] at h0; cases h0
    · intro st _; exact ⟨fun t ht => (nomatch ht), fun ht => (nomatch ht)⟩

/-- `is_active` test of backend.next() (a single unprotected read; needs no flag). -/
theorem inv_checkActive {cfg : LockCfg} {s s' : State} {w : Nat} (hi : Inv s)
    (h : exec cfg s w .checkActive = some s') : Inv s' := by
  simp only [exec] at h
  split_ok at h
  split_ok at h
  rename_i hw hc
  simp only [beq_iff_eq] at hc
  obtain ⟨st, hs⟩ := studies_of_pc hi w (by rw [hc]; intro h0; cases h0)
  rw [studyOf_eq hi w hs] at h
  have hs' := Option.some.inj h
  subst hs'
  have hsetup := hi.setupFirst w (by rw [hc]; rfl)
  by_cases ha : st.active = true
  · simp only [ha, if_true]
    apply hi.updWorker' w .next (by intro h0; cases h0) rfl (fun _ => hsetup)
    · intro h0; rw [hs] at h0; cases h0
    · intro st _; exact ⟨fun t ht => (nomatch ht), fun ht => (nomatch ht)⟩
  · simp only [ha, if_false]
    apply hi.updWorker' w .finished (by intro h0; cases h0) rfl (fun _ => hsetup)
    · intro h0; rw [hs] at h0; cases h0
    · intro st' hst'
      rw [hs] at hst'; simp only [List.mem_singleton] at hst'; subst hst'
      exact ⟨fun t ht => (nomatch ht), fun _ hact => absurd hact ha⟩

/-- The user code goes to the next iteration (no shared access). -/
theorem inv_release {cfg : LockCfg} {s s' : State} {w : Nat} (hi : Inv s)
    (h : exec cfg s w .release = some s') : Inv s' := by
  simp only [exec] at h
  split_ok at h
  split_ok at h
  rename_i hw t hpc
  have hs' := Option.some.inj h
  subst hs'
  obtain ⟨st, hs⟩ := studies_of_pc hi w (by rw [hpc]; intro h0; cases h0)
  have hsetup := hi.setupFirst w (by rw [hpc]; rfl)
  apply hi.updWorker' w .loop (by intro h0; cases h0) rfl (fun _ => hsetup)
  · intro h0; rw [hs] at h0; cases h0
  · intro st _; exact ⟨fun t ht => (nomatch ht), fun ht => (nomatch ht)⟩

/-- end_loop(): a single unprotected write of `_is_active` (needs no flag). -/
theorem inv_endLoop {cfg : LockCfg} {s s' : State} {w : Nat} (hi : Inv s)
    (h : exec cfg s w .endLoop = some s') : Inv s' := by
  simp only [exec] at h
  split_ok at h
  rename_i hw
  obtain ⟨st, hs⟩ : ∃ st, s.studies = [st] := by
    rcases hi.shape with ⟨h1, _⟩ | ⟨st, h1, _⟩
    · have := (hi.noStudy h1).1 w
      rw [this] at h; simp at h
    · exact ⟨st, h1⟩
  rw [studyOf_eq hi w hs] at h
  split_ok at h
  rename_i t st0 hpc hst0
  have := Option.some.inj hst0; subst this
  have hs' := Option.some.inj h
  subst hs'
  rw [setStudy_eq hi w hs]
  have hsetup := hi.setupFirst w (by rw [hpc]; rfl)
  obtain ⟨hS, hW⟩ := hi.study st (by rw [hs]; simp)
  have := hi.updStudy st { st with active := false } s.algo hs hsetup
    hS.setActive
    (fun hW => ⟨hW.holdOk, fun i _ hact => (nomatch hact), fun i _ hact => (nomatch hact), hW.groupOk⟩) id
  exact this

/-- `_add_measurement` under the study lock (needs `addMeasurementAtomic`). -/
theorem inv_measure {cfg : LockCfg} {s s' : State} {w : Nat} {r : Int} (hi : Inv s)
    (h : exec cfg s w (.measure r) = some s') : Inv s' := by
  simp only [exec] at h
  split_ok at h
  split_ok at h
  rename_i hw hc
  obtain ⟨st, hs⟩ : ∃ st, s.studies = [st] := by
    rcases hi.shape with ⟨h1, _⟩ | ⟨st, h1, _⟩
    · have := (hi.noStudy h1).1 w
      rw [this] at h; simp at h
    · exact ⟨st, h1⟩
  rw [studyOf_eq hi w hs] at h
  split_ok at h
  rename_i t st0 hpc hst0
  have := Option.some.inj hst0; subst this
  have hs' := Option.some.inj h
  subst hs'
  unfold measureAtomic
  split <;> first | exact hi | skip
  rw [setStudy_eq hi w hs]
  have hsetup := hi.setupFirst w (by rw [hpc]; rfl)
  obtain ⟨hS, hW⟩ := hi.study st (by rw [hs]; simp)
  have hS' := hS.updCore t (fun x => { x with meas := x.meas ++ [r] }) (fun _ => rfl) (fun _ => rfl)
    (fun _ => rfl) (fun _ => rfl) (fun _ => rfl)
  have := hi.updStudy st (st.addMeas t r) s.algo hs hsetup hS' (by
    intro hW
    constructor
    · intro i t' hp
      obtain ⟨tr, htr, h1, h2⟩ := hW.holdOk i t' hp
      refine ⟨_, mem_updTrial_of_mem (k := t) (f := fun x => { x with meas := x.meas ++ [r] }) htr, ?_, ?_⟩
      · split <;> exact h1
      · split <;> exact h2
    · intro i hp hact
      obtain ⟨h1, h2⟩ := hW.finOk i hp hact
      refine ⟨by simpa [Study.addMeas, updTrial_length] using h1, ?_⟩
      intro k hk
      exact isPending_updTrial_false st t k _ (fun _ => rfl) (fun _ hc => hc) (h2 k hk)
    · intro i hp hact k hk
      exact isPending_updTrial_false st t k _ (fun _ => rfl) (fun _ hc => hc) (hW.exhOk i hp hact k hk)
    · intro x hx
      obtain ⟨y, hy, rfl⟩ := mem_updTrial hx
      obtain ⟨i, hi', hg⟩ := hW.groupOk y hy
      refine ⟨i, hi', ?_⟩
      by_cases hk : y.id = t <;> simp [hk, hg]) id
  exact this

theorem isPending_congr {st1 st2 : Study} (h : st1.trials = st2.trials) (k : Nat) :
    st1.isPending k = st2.isPending k := by
  unfold Study.isPending; rw [h]

/-- Workers' view after a status transition `f` of trial `k` followed by `_complete_trial`. -/
theorem WorkersInv.finish {maxT : Option Nat} {n : Nat} {workers : Nat → Worker} {st : Study}
    (hW : WorkersInv maxT n workers st) (k : Nat) (f : Trial → Trial)
    (hid : ∀ x, (f x).id = x.id) (hg : ∀ x, (f x).group = x.group)
    (hc : ∀ x, x.completed = true → (f x).completed = true) :
    WorkersInv maxT n workers (({ st with trials := updTrial k f st.trials } : Study).complete k) := by
  constructor
  · intro i t' hp
    obtain ⟨tr, htr, h1, h2⟩ := hW.holdOk i t' hp
    rw [complete_trials]
    refine ⟨_, mem_updTrial_of_mem (k := k) (f := f) htr, ?_, ?_⟩
    · split
      · rw [hid]; exact h1
      · exact h1
    · split
      · rw [hg]; exact h2
      · exact h2
  · intro i hp hact
    rw [complete_active] at hact
    obtain ⟨h1, h2⟩ := hW.finOk i hp hact
    rw [complete_trials, complete_latest]
    refine ⟨by simpa [updTrial_length] using h1, ?_⟩
    intro k' hk'
    rw [isPending_congr (complete_trials _ k) k']
    exact isPending_updTrial_false st k k' f hid hc (h2 k' hk')
  · intro i hp hact
    rw [complete_active] at hact
    rw [complete_latest]
    intro k' hk'
    rw [isPending_congr (complete_trials _ k) k']
    exact isPending_updTrial_false st k k' f hid hc (hW.exhOk i hp hact k' hk')
  · intro x hx
    rw [complete_trials] at hx
    obtain ⟨y, hy, rfl⟩ := mem_updTrial hx
    obtain ⟨i, hi', hgr⟩ := hW.groupOk y hy
    refine ⟨i, hi', ?_⟩
    split
    · rw [hg]; exact hgr
    · exact hgr

/-- backend.next() under one hold of the study lock, with `dna_fn()` called before any bookkeeping
(`early = false`): reuse of the group's pending trial, StopIteration by budget, a proposer that
raises (exhausted space: StopIteration; `err`: a transient exception) — the study and the algorithm
are then left untouched —, or creation of the next trial. -/
theorem inv_nextAtomic_core {s : State} {w : Nat} (hi : Inv s) (hw : w < s.nWorkers)
    (hpc : (s.workers w).pc = .next) {st : Study} (hs : s.studies = [st]) (err : Bool) :
    Inv (nextAtomic s w st err false) := by
  have hsetup := hi.setupFirst w (by rw [hpc]; rfl)
  obtain ⟨hS, hW⟩ := hi.study st (by rw [hs]; simp)
  have hne : s.studies ≠ [] := by rw [hs]; simp
  -- the create_trial part, given that the group has no pending latest trial
  have hcreate : (∀ k, st.latest (s.workers w).group = some k → st.isPending k = false) →
      Inv (createAtomic s w st err false) := by
    intro hlat
    unfold createAtomic
    by_cases hex : exhausted s.maxTrials st = true
    · simp only [hex, if_true]
      apply hi.updWorker' w .finished (by intro h0; cases h0) rfl (fun _ => hsetup) (fun h0 => absurd h0 hne)
      intro st' hst'
      rw [hs] at hst'; simp only [List.mem_singleton] at hst'; subst hst'
      refine ⟨fun t ht => (nomatch ht), fun _ _ => ⟨?_, hlat⟩⟩
      unfold exhausted at hex
      cases hm : s.maxTrials with
      | none => rw [hm] at hex; cases hex
      | some m =>
        rw [hm] at hex
        have hb := hS.bound m hm
        exact ⟨m, rfl, by have : st'.trials.length + 1 > m := by simpa using hex
                          omega⟩
    · have hex' : exhausted s.maxTrials st = false := by simpa using hex
      simp only [hex', Bool.false_eq_true, if_false]
      by_cases hx : s.algo.spaceExhausted = true
      · -- StopIteration raised by the proposer inside the critical section: nothing changes
        simp only [hx, Bool.true_or, if_true]
        apply hi.updWorker w .exhausted rfl (fun _ => hsetup) (fun h0 => absurd h0 hne)
        · intro st' hst'
          rw [hs] at hst'; simp only [List.mem_singleton] at hst'; subst hst'
          exact ⟨fun t ht => (nomatch ht), fun ht => (nomatch ht), fun _ _ => hlat⟩
        · intro _; exact hx
      · have hx' : s.algo.spaceExhausted = false := by simpa using hx
        simp only [hx', Bool.false_or, Bool.false_eq_true, if_false]
        cases err with
        | true =>
          -- a transient exception of the proposer: nothing changes, the worker leaves the loop
          simp only [if_true]
          apply hi.updWorker' w .crashed (by intro h0; cases h0) rfl (fun _ => hsetup) (fun h0 => absurd h0 hne)
          intro st' _
          exact ⟨fun t ht => (nomatch ht), fun ht => (nomatch ht)⟩
        | false =>
          simp only [Bool.false_eq_true, if_false]
          have hst1 : ({ s with algo := s.algo.propose } : State).setStudy w (st.create (s.workers w).group)
              = { s with studies := [st.create (s.workers w).group], algo := s.algo.propose } := by
            simp [State.setStudy, hi.wstudy w, hs]
          rw [hst1]
          have hinv1 := hi.updStudy st (st.create (s.workers w).group) s.algo.propose hs
            (by simpa [Algo.propose] using hsetup) (hS.create _ hex' hx' hlat) (by
              intro hW
              constructor
              · intro i t hp
                obtain ⟨tr, htr, h1, h2⟩ := hW.holdOk i t hp
                exact ⟨tr, by simp [Study.create, htr], h1, h2⟩
              · intro i hp hact
                exfalso
                obtain ⟨⟨m, hm, hlen⟩, -⟩ := hW.finOk i hp (by simpa [Study.create] using hact)
                simp [exhausted, hm] at hex'
                omega
              · intro i hp _
                exfalso
                have := hi.exhAlgo i hp
                rw [hx'] at this; cases this
              · intro x hx
                simp only [Study.create, List.mem_append, List.mem_singleton] at hx
                rcases hx with hx | rfl
                · exact hW.groupOk x hx
                · exact ⟨w, hw, rfl⟩) spaceExhausted_propose
          apply hinv1.updWorker' w (.hold (st.trials.length + 1)) (by intro h0; cases h0) rfl
            (fun _ => by simpa [Algo.propose] using hsetup)
          · intro h0; cases h0
          · intro st' hst'
            simp only [List.mem_singleton] at hst'; subst hst'
            refine ⟨?_, fun ht => (nomatch ht)⟩
            intro t ht
            have : st.trials.length + 1 = t := by injection ht
            subst this
            exact ⟨newTrial (st.trials.length + 1) (s.workers w).group, by simp [Study.create], rfl, rfl⟩
  unfold nextAtomic
  cases hl : st.latest (s.workers w).group with
  | none => exact hcreate (by intro k hk; rw [hl] at hk; cases hk)
  | some t =>
    simp only []
    by_cases hp : st.isPending t = true
    · simp only [hp, if_true]
      apply hi.updWorker' w (.hold t) (by intro h0; cases h0) rfl (fun _ => hsetup) (fun h0 => absurd h0 hne)
      intro st' hst'
      rw [hs] at hst'; simp only [List.mem_singleton] at hst'; subst hst'
      refine ⟨?_, fun ht => (nomatch ht)⟩
      intro t' ht'
      have : t = t' := by injection ht'
      subst this
      exact hS.latestSome _ _ hl
    · simp only [hp]
      apply hcreate
      intro k hk
      rw [hl] at hk
      have : t = k := Option.some.inj hk
      subst this
      simpa using hp

/-- backend.next() (needs `nextReuseAtomic`, `createTrialAtomic`, `proposeBeforeBookkeeping`). -/
theorem inv_nextAtomic {cfg : LockCfg} {s s' : State} {w : Nat} (hpb : cfg.proposeBeforeBookkeeping = true)
    (hi : Inv s) (h : exec cfg s w .nextAtomic = some s') : Inv s' := by
  simp only [exec] at h
  split_ok at h
  split_ok at h
  rename_i hw hc
  simp only [Bool.and_eq_true, beq_iff_eq] at hc
  obtain ⟨-, hpc⟩ := hc
  obtain ⟨st, hs⟩ := studies_of_pc hi w (by rw [hpc]; intro h0; cases h0)
  rw [studyOf_eq hi w hs] at h
  have hs' := Option.some.inj h
  subst hs'
  simp only [hpb, Bool.not_true]
  exact inv_nextAtomic_core hi hw hpc hs false

/-- backend.next() when the proposer raises a transient exception (same flags). -/
theorem inv_nextAtomicErr {cfg : LockCfg} {s s' : State} {w : Nat} (hpb : cfg.proposeBeforeBookkeeping = true)
    (hi : Inv s) (h : exec cfg s w .nextAtomicErr = some s') : Inv s' := by
  simp only [exec] at h
  split_ok at h
  split_ok at h
  rename_i hw hc
  simp only [Bool.and_eq_true, beq_iff_eq] at hc
  obtain ⟨-, hpc⟩ := hc
  obtain ⟨st, hs⟩ := studies_of_pc hi w (by rw [hpc]; intro h0; cases h0)
  rw [studyOf_eq hi w hs] at h
  have hs' := Option.some.inj h
  subst hs'
  simp only [hpb, Bool.not_true]
  exact inv_nextAtomic_core hi hw hpc hs true

/-- done() under the study lock: status test, transition, feedback and bookkeeping are one region
(needs `doneCheckAndSetAtomic`, `completeTrialAtomic`, `generatorCountersAtomic`). -/
theorem inv_doneAtomic {cfg : LockCfg} {s s' : State} {w : Nat} (hi : Inv s)
    (h : exec cfg s w .doneAtomic = some s') : Inv s' := by
  simp only [exec] at h
  split_ok at h
  split_ok at h
  rename_i hw hc
  obtain ⟨st, hs⟩ : ∃ st, s.studies = [st] := by
    rcases hi.shape with ⟨h1, _⟩ | ⟨st, h1, _⟩
    · have := (hi.noStudy h1).1 w
      rw [this] at h; simp at h
    · exact ⟨st, h1⟩
  rw [studyOf_eq hi w hs] at h
  split_ok at h
  rename_i t st0 hpc hst0
  have := Option.some.inj hst0; subst this
  have hs' := Option.some.inj h
  subst hs'
  unfold doneAtomic
  split <;> first | exact hi | skip
  split <;> first | exact hi | skip
  rename_i hpend hmeas
  have hsetup := hi.setupFirst w (by rw [hpc]; rfl)
  obtain ⟨hS, hW⟩ := hi.study st (by rw [hs]; simp)
  obtain ⟨tr, htr, hid, hcomp⟩ := isPending_elim hpend
  subst hid
  have hfind := findTrial_of_mem hS.nodup htr
  have hr : ∃ r, lastInt tr.meas = some r := by
    unfold Study.hasMeas at hmeas
    rw [hfind] at hmeas
    exact lastInt_some (by simpa using hmeas)
  obtain ⟨r, hr⟩ := hr
  have hinf : tr.infeasible = false := by
    cases hi' : tr.infeasible with
    | false => rfl
    | true => have := hS.infCompleted tr htr hi'; rw [hcomp] at this; cases this
  have hfin := hS.finish htr hcomp (fun t => { t with completed := true, final := lastInt t.meas })
    (fun _ => rfl) (fun _ => rfl) rfl r hr
  simp only [hinf, Bool.false_eq_true, if_false] at hfin
  have hst1 : ({ s with algo := s.algo.feedback tr.id } : State).setStudy w ((st.markDone tr.id).complete tr.id)
      = { s with studies := [(st.markDone tr.id).complete tr.id], algo := s.algo.feedback tr.id } := by
    simp [State.setStudy, hi.wstudy w, hs]
  rw [hst1]
  exact hi.updStudy st _ _ hs (by simpa [Algo.feedback] using hsetup) hfin
    (fun hW => hW.finish tr.id _ (fun _ => rfl) (fun _ => rfl) (fun _ _ => rfl))
    (spaceExhausted_feedback tr.id)

/-- skip() under the study lock (needs `skipCheckAndSetAtomic`, `completeTrialAtomic`). -/
theorem inv_skipAtomic {cfg : LockCfg} {s s' : State} {w : Nat} (hi : Inv s)
    (h : exec cfg s w .skipAtomic = some s') : Inv s' := by
  simp only [exec] at h
  split_ok at h
  split_ok at h
  rename_i hw hc
  obtain ⟨st, hs⟩ : ∃ st, s.studies = [st] := by
    rcases hi.shape with ⟨h1, _⟩ | ⟨st, h1, _⟩
    · have := (hi.noStudy h1).1 w
      rw [this] at h; simp at h
    · exact ⟨st, h1⟩
  rw [studyOf_eq hi w hs] at h
  split_ok at h
  rename_i t st0 hpc hst0
  have := Option.some.inj hst0; subst this
  have hs' := Option.some.inj h
  subst hs'
  unfold skipAtomic
  split <;> first | exact hi | skip
  rename_i hpend
  have hsetup := hi.setupFirst w (by rw [hpc]; rfl)
  obtain ⟨hS, hW⟩ := hi.study st (by rw [hs]; simp)
  obtain ⟨tr, htr, hid, hcomp⟩ := isPending_elim hpend
  subst hid
  have hfin := hS.finish htr hcomp (fun t => { t with completed := true, infeasible := true, final := some 0 })
    (fun _ => rfl) (fun _ => rfl) rfl 0 rfl
  simp only [if_true] at hfin
  rw [setStudy_eq hi w hs]
  have := hi.updStudy st _ s.algo hs hsetup hfin
    (fun hW => hW.finish tr.id _ (fun _ => rfl) (fun _ => rfl) (fun _ _ => rfl)) id
  exact this

/-- Every step preserves the invariant when all regions are atomic. The actions that are pieces of
a region are not enabled (their flag is `true`); `fbAtomic` / `completeAtomic` are enabled only at
program counters that do not occur. -/
theorem inv_step {cfg : LockCfg} (hc : cfg.allAtomic = true) {s s' : State} {w : Nat} {a : Act}
    (hi : Inv s) (h : exec cfg s w a = some s') : Inv s' := by
  simp only [LockCfg.allAtomic, Bool.and_eq_true] at hc
  obtain ⟨⟨⟨⟨⟨⟨⟨⟨⟨⟨⟨f1, f2⟩, f3⟩, f4⟩, f5⟩, f6⟩, f7⟩, f8⟩, f9⟩, f10⟩, f11⟩, f12⟩ := hc
  have hpc := hi.pcOk w
  cases a with
  | gocAtomic => exact inv_gocAtomic hi h
  | setupAtomic => exact inv_setupAtomic hi h
  | checkActive => exact inv_checkActive hi h
  | nextAtomic => exact inv_nextAtomic f12 hi h
  | nextAtomicErr => exact inv_nextAtomicErr f12 hi h
  | poll =>
    simp only [exec] at h
    split_ok at h
    cases h; exact hi
  | release => exact inv_release hi h
  | endLoop => exact inv_endLoop hi h
  | measure r => exact inv_measure hi h
  | doneAtomic => exact inv_doneAtomic hi h
  | skipAtomic => exact inv_skipAtomic hi h
  | fbAtomic =>
    exfalso
    cases hp : (s.workers w).pc <;> simp [exec, hp, okPc] at h hpc
  | completeAtomic =>
    exfalso
    cases hp : (s.workers w).pc <;> simp [exec, hp, okPc] at h hpc
  | _ => exfalso; simp [exec, f1, f2, f3, f4, f5, f6, f7, f8, f9] at h

end Pg.C16
