/- C14 — `Uniform` mutation keeps alignment. -/
import PgProofs.EvoAlign
namespace Pg.C14

def innerAligned : DNA → Bool
  | .sub _ _ d => aligned d
  | d => aligned d

theorem innerAligned_of_entryAligned {p : Nat} {e : DNA} (h : entryAligned p e = true) : innerAligned e = true := by
  cases e <;> simp_all [entryAligned, innerAligned]

theorem inner_of_alignedFrom {l : List DNA} {k : Nat} (h : alignedFrom k l = true) :
    ∀ e ∈ l, innerAligned e = true := by
  intro e he
  rw [alignedFrom_iff] at h
  obtain ⟨i, hi, rfl⟩ := List.getElem_of_mem he
  exact innerAligned_of_entryAligned (h i hi)

theorem alignedFrom_realign : ∀ (l : List DNA) (k : Nat), (∀ e ∈ l, innerAligned e = true) →
    alignedFrom k (realign k l) = true := by
  intro l
  induction l with
  | nil => intro k _; simp [realign, alignedFrom]
  | cons x rest ih =>
    intro k h
    have hx := h x List.mem_cons_self
    have hr := ih (k + 1) (fun e he => h e (List.mem_cons_of_mem _ he))
    cases x <;> simp_all [realign, alignedFrom, innerAligned]

theorem alignedFrom_mkSubs : ∀ (vs : List Nat) (ds : List DNA) (i : Nat), (∀ d ∈ ds, aligned d = true) →
    alignedFrom i (mkSubs i vs ds) = true := by
  intro vs
  induction vs with
  | nil => intro ds i _; simp [mkSubs, alignedFrom]
  | cons v vs ih =>
    intro ds i h
    cases ds with
    | nil => simp [mkSubs, alignedFrom]
    | cons d ds =>
      simp only [mkSubs, alignedFrom, Bool.and_eq_true, decide_eq_true_eq]
      exact ⟨⟨trivial, h d List.mem_cons_self⟩, ih ds (i + 1) (fun d' hd' => h d' (List.mem_cons_of_mem _ hd'))⟩

theorem alignedAll_iff (ds : List DNA) : alignedAll ds = true ↔ ∀ d ∈ ds, aligned d = true := by
  induction ds with
  | nil => simp [alignedAll]
  | cons d ds ih => simp [alignedAll, ih]

theorem randomDna_aligned : ∀ (fuel : Nat) (g : GSpec) (s : St) (d : DNA) (s' : St),
    randomDna fuel g s = .ok (d, s') → aligned d = true := by
  intro fuel
  induction fuel with
  | zero => intro g s d s' h; simp only [randomDna] at h; exact ((fail_ok _ _ _).mp h).elim
  | succ f ih =>
    intro g s d s' h
    cases g with
    | space es =>
      simp only [randomDna] at h
      rw [bind_ok] at h
      obtain ⟨ds, s1, h1, h2⟩ := h
      rw [pure_ok] at h2
      obtain ⟨rfl, rfl⟩ := h2
      obtain ⟨hf, _⟩ := forEachM_spec (randomDna f) (fun _ => True) (fun _ d => aligned d = true) es
        (by intro e _ t b t' _ hb; exact ⟨ih e t b t' hb, trivial⟩) s ds s1 trivial h1
      simp only [aligned]
      rw [alignedAll_iff]
      intro d hd
      obtain ⟨_, _, h⟩ := all2_out hf d hd
      exact h
    | float lo hi =>
      simp only [randomDna] at h
      rw [bind_ok] at h
      obtain ⟨q, s1, _, h2⟩ := h
      rw [pure_ok] at h2
      obtain ⟨rfl, rfl⟩ := h2
      simp [aligned]
    | choices k cands dist srt =>
      have tail : ∀ (vs : List Nat) (s1 : St),
          (do let ds ← forEachM (fun v => match cands[v]? with
                                  | some c => randomDna f c
                                  | none => fail .desync) (if srt = true then sortNats vs else vs)
              pure (DNA.choices (mkSubs 0 (if srt = true then sortNats vs else vs) ds)) : M DNA) s1
            = .ok (d, s') → aligned d = true := by
        intro vs s1 h2
        rw [bind_ok] at h2
        obtain ⟨ds, s2, h3, h4⟩ := h2
        rw [pure_ok] at h4
        obtain ⟨rfl, rfl⟩ := h4
        obtain ⟨hf, _⟩ := forEachM_spec
          (fun v => match cands[v]? with | some c => randomDna f c | none => fail .desync)
          (fun _ => True) (fun _ d => aligned d = true) _
          (by intro v _ t b t' _ hb
              cases hc : cands[v]? with
              | none => rw [hc] at hb; exact ((fail_ok _ _ _).mp hb).elim
              | some c => rw [hc] at hb; exact ⟨ih c t b t' hb, trivial⟩) s1 ds s2 trivial h3
        simp only [aligned]
        apply alignedFrom_mkSubs
        intro d hd
        obtain ⟨_, _, h⟩ := all2_out hf d hd
        exact h
      cases dist with
      | true =>
        simp only [randomDna, if_true] at h
        rw [bind_ok] at h
        obtain ⟨vs, s1, _, h2⟩ := h
        exact tail vs s1 h2
      | false =>
        simp only [randomDna, Bool.false_eq_true, if_false] at h
        rw [bind_ok] at h
        obtain ⟨vs, s1, _, h2⟩ := h
        exact tail vs s1 h2

theorem finish_aligned (k : Nat) (srt : Bool) (l : List DNA) (h : alignedFrom 0 l = true) :
    aligned (if k > 1 && srt then DNA.choices (realign 0 (sortSubs l)) else DNA.choices l) = true := by
  split
  · simp only [aligned]
    apply alignedFrom_realign
    intro e he
    have hperm : (sortSubs l).Perm l := List.mergeSort_perm l _
    exact inner_of_alignedFrom h e (hperm.mem_iff.mp he)
  · simpa [aligned] using h

theorem mutEntry_aligned (fuel k : Nat) (cands : List GSpec) (dist srt : Bool) (subs : List DNA) (j : Nat)
    (s : St) (d : DNA) (s' : St)
    (hv : valid (.choices k cands dist srt) (.choices subs) = true)
    (ha : alignedFrom 0 subs = true)
    (h : mutEntry fuel k cands dist srt subs j s = .ok (d, s')) : aligned d = true := by
  obtain ⟨_, hall, _, _⟩ := (valid_choices_iff _ _ _ _ _).mp hv
  unfold mutEntry at h
  simp only [] at h
  cases hj : subs[j]? with
  | none => rw [hj] at h; exact ((fail_ok _ _ _).mp h).elim
  | some e =>
    rw [hj] at h
    simp only [] at h
    -- the entry at `j` is a `sub` bound to `j`
    have hjlt := (List.getElem?_eq_some_iff.mp hj).1
    have hej : entryAligned j e = true := by
      have := (alignedFrom_iff subs 0).mp ha j hjlt
      rw [(List.getElem?_eq_some_iff.mp hj).2] at this
      simpa using this
    have hbel : subBelief e = j := by
      have hok := hall e (List.mem_of_getElem? hj)
      cases e with
      | sub b v d0 => simp only [entryAligned, Bool.and_eq_true, decide_eq_true_eq] at hej; exact hej.1
      | space _ => simp [entryOk] at hok
      | choices _ => simp [entryOk] at hok
      | float _ => simp [entryOk] at hok
    have tail : ∀ (nv : Nat) (nd : DNA), aligned nd = true →
        aligned (if k > 1 && srt then DNA.choices (realign 0 (sortSubs (subs.set j (.sub (subBelief e) nv nd))))
                 else DNA.choices (subs.set j (.sub (subBelief e) nv nd))) = true := by
      intro nv nd hnd
      apply finish_aligned
      apply alignedFrom_set ha
      simp [entryAligned, hbel, hnd]
    by_cases hk1 : (k == 1) = true
    · rw [if_pos hk1] at h
      exact randomDna_aligned _ _ _ _ _ h
    · rw [if_neg hk1] at h
      by_cases hd : dist = true
      · rw [if_pos hd] at h
        split at h
        · rw [pure_ok] at h
          obtain ⟨rfl, rfl⟩ := h
          simpa [aligned] using ha
        · rw [bind_ok] at h
          obtain ⟨r, s1, _, h2⟩ := h
          cases hfr : ((List.range cands.length).filter
              (fun c => !(subs.map subVal).contains c))[r]? with
          | none => rw [hfr] at h2; exact ((fail_ok _ _ _).mp h2).elim
          | some nv =>
            rw [hfr] at h2
            simp only [] at h2
            cases hc : cands[nv]? with
            | none => rw [hc] at h2; exact ((fail_ok _ _ _).mp h2).elim
            | some c =>
              rw [hc] at h2
              simp only [] at h2
              rw [bind_ok] at h2
              obtain ⟨nd, s2, h3, h4⟩ := h2
              rw [pure_ok] at h4
              obtain ⟨rfl, rfl⟩ := h4
              exact tail nv nd (randomDna_aligned _ _ _ _ _ h3)
      · rw [if_neg hd] at h
        rw [bind_ok] at h
        obtain ⟨nv, s1, _, h2⟩ := h
        cases hc : cands[nv]? with
        | none => rw [hc] at h2; exact ((fail_ok _ _ _).mp h2).elim
        | some c =>
          rw [hc] at h2
          simp only [] at h2
          rw [bind_ok] at h2
          obtain ⟨nd, s2, h3, h4⟩ := h2
          rw [pure_ok] at h4
          obtain ⟨rfl, rfl⟩ := h4
          exact tail nv nd (randomDna_aligned _ _ _ _ _ h3)

mutual
  theorem mutNode_aligned (w : Where) (fuel : Nat) : ∀ (d : DNA) (g : GSpec) (coll : Bool) (i : Nat) (s : St) (d' : DNA) (s' : St),
      valid g d = true → aligned d = true → mutNode w fuel g coll d i s = .ok (d', s') → aligned d' = true
    | .space ds, g, coll, i, s, d', s', hv, ha, h => by
        cases g with
        | space es =>
          simp only [mutNode] at h
          rw [bind_ok] at h
          obtain ⟨ds', s1, h1, h2⟩ := h
          rw [pure_ok] at h2
          obtain ⟨rfl, rfl⟩ := h2
          simp only [valid] at hv
          simp only [aligned] at ha ⊢
          exact mutElems_aligned w fuel ds es _ i s ds' s1 hv ha h1
        | choices k cands dist srt => simp [valid] at hv
        | float lo hi => simp [valid] at hv
    | .choices subs, g, coll, i, s, d', s', hv, ha, h => by
        cases g with
        | space es => simp [valid] at hv
        | float lo hi => simp [valid] at hv
        | choices k cands dist srt =>
          simp only [mutNode] at h
          simp only [aligned] at ha
          split at h
          · exact randomDna_aligned _ _ _ _ _ h
          · rw [bind_ok] at h
            obtain ⟨r, s1, h1, h2⟩ := h
            obtain ⟨_, hall, _, _⟩ := (valid_choices_iff _ _ _ _ _).mp hv
            have hvs : validSubs cands subs = true := by
              rw [validSubs_eq_all, List.all_eq_true]; exact hall
            have hr := mutSubs_aligned w fuel k subs cands _ 0 s r s1 hvs ha h1
            cases r with
            | inl l =>
              simp only [] at h2 hr
              rw [pure_ok] at h2
              obtain ⟨rfl, rfl⟩ := h2
              simpa [aligned] using hr
            | inr j =>
              simp only [] at h2
              exact mutEntry_aligned _ _ _ _ _ _ _ _ _ _ hv ha h2
    | .float v, g, coll, i, s, d', s', hv, ha, h => by
        cases g with
        | space es => simp [valid] at hv
        | choices k cands dist srt => simp [valid] at hv
        | float lo hi =>
          simp only [mutNode] at h
          exact randomDna_aligned _ _ _ _ _ h
    | .sub b v d, g, coll, i, s, d', s', hv, ha, h => by
        cases g <;> simp [valid] at hv
  theorem mutElems_aligned (w : Where) (fuel : Nat) : ∀ (ds : List DNA) (es : List GSpec) (c : Bool) (i : Nat) (s : St)
      (ds' : List DNA) (s' : St),
      validElems es ds = true → alignedAll ds = true → mutElems w fuel es c ds i s = .ok (ds', s') →
      alignedAll ds' = true
    | [], es, c, i, s, ds', s', hv, ha, h => by
        cases es <;> (simp only [mutElems] at h; exact ((fail_ok _ _ _).mp h).elim)
    | d :: ds, es, c, i, s, ds', s', hv, ha, h => by
        cases es with
        | nil => simp only [mutElems] at h; exact ((fail_ok _ _ _).mp h).elim
        | cons e es =>
          simp only [validElems, Bool.and_eq_true] at hv
          simp only [alignedAll, Bool.and_eq_true] at ha
          simp only [mutElems] at h
          split at h
          · rw [bind_ok] at h
            obtain ⟨d1, s1, h1, h2⟩ := h
            rw [pure_ok] at h2
            obtain ⟨rfl, rfl⟩ := h2
            simp only [alignedAll, Bool.and_eq_true]
            exact ⟨mutNode_aligned w fuel d e c i s d1 s1 hv.1 ha.1 h1, ha.2⟩
          · rw [bind_ok] at h
            obtain ⟨ds1, s1, h1, h2⟩ := h
            rw [pure_ok] at h2
            obtain ⟨rfl, rfl⟩ := h2
            simp only [alignedAll, Bool.and_eq_true]
            exact ⟨ha.1, mutElems_aligned w fuel ds es c _ s ds1 s1 hv.2 ha.2 h1⟩
  theorem mutSubs_aligned (w : Where) (fuel kk : Nat) : ∀ (subs : List DNA) (cands : List GSpec) (i k : Nat) (s : St)
      (r : List DNA ⊕ Nat) (s' : St),
      validSubs cands subs = true → alignedFrom k subs = true →
      mutSubs w fuel kk cands subs i s = .ok (r, s') →
      (match r with
       | .inl l => alignedFrom k l = true
       | .inr _ => True)
    | [], cands, i, k, s, r, s', hv, ha, h => by
        simp only [mutSubs] at h; exact ((fail_ok _ _ _).mp h).elim
    | .space _ :: rest, cands, i, k, s, r, s', hv, ha, h => by simp [validSubs] at hv
    | .choices _ :: rest, cands, i, k, s, r, s', hv, ha, h => by simp [validSubs] at hv
    | .float _ :: rest, cands, i, k, s, r, s', hv, ha, h => by simp [validSubs] at hv
    | .sub b v d :: rest, cands, i, k, s, r, s', hv, ha, h => by
        simp only [validSubs, Bool.and_eq_true] at hv
        simp only [alignedFrom, Bool.and_eq_true, decide_eq_true_eq] at ha
        simp only [mutSubs] at h
        split at h
        · rw [pure_ok] at h
          obtain ⟨rfl, rfl⟩ := h
          trivial
        · cases hc : cands[v]? with
          | none => rw [hc] at h; exact ((fail_ok _ _ _).mp h).elim
          | some c =>
            rw [hc] at h hv
            simp only [] at h hv
            generalize (if w (entryInfo kk b v) = true then i - 1 else i) = i1 at h
            split at h
            · rw [bind_ok] at h
              obtain ⟨d1, s1, h1, h2⟩ := h
              rw [pure_ok] at h2
              obtain ⟨rfl, rfl⟩ := h2
              have := mutNode_aligned w fuel d c true _ s d1 s1 hv.1 ha.1.2 h1
              simp only [alignedFrom, Bool.and_eq_true, decide_eq_true_eq]
              exact ⟨⟨ha.1.1, this⟩, ha.2⟩
            · rw [bind_ok] at h
              obtain ⟨r1, s1, h1, h2⟩ := h
              have hr := mutSubs_aligned w fuel kk rest cands _ (k + 1) s r1 s1 hv.2 ha.2 h1
              cases r1 with
              | inl l =>
                simp only [] at h2 hr
                rw [pure_ok] at h2
                obtain ⟨rfl, rfl⟩ := h2
                simp only [alignedFrom, Bool.and_eq_true, decide_eq_true_eq]
                exact ⟨ha.1, hr⟩
              | inr j =>
                simp only [] at h2
                rw [pure_ok] at h2
                obtain ⟨rfl, rfl⟩ := h2
                trivial
end

theorem mutUniformOne_aligned (w : Where) (fuel : Nat) (g : GSpec) (d : DNA) (s : St) (d' : DNA) (s' : St)
    (hv : valid g d = true) (ha : aligned d = true) (h : mutUniformOne w fuel g d s = .ok (d', s')) :
    aligned d' = true := by
  simp only [mutUniformOne] at h
  split at h
  · exact ((fail_ok _ _ _).mp h).elim
  · rw [bind_ok] at h
    obtain ⟨i, s1, _, h2⟩ := h
    exact mutNode_aligned w fuel d g false i s1 d' s' hv ha h2

theorem mutUniformW_aligned (w : Where) (fuel : Nat) (g : GSpec) (pop : Pop) (st : St) (out : Pop) (st' : St)
    (hp : ∀ x ∈ pop, valid g x.dna = true ∧ aligned x.dna = true)
    (h : mutUniformW w fuel g pop st = .ok (out, st')) :
    ∀ y ∈ out, valid g y.dna = true ∧ aligned y.dna = true := by
  simp only [mutUniformW] at h
  obtain ⟨_, hall⟩ := mapChild_spec (mutUniformOne w fuel g)
    (fun _ d' => valid g d' = true ∧ aligned d' = true) pop
    (fun x hx s d' s' hd => by
      obtain ⟨hv, hu⟩ := mutUniformOne_spec w fuel g x.dna s d' s' (hp x hx).1 hd
      exact ⟨⟨hv, mutUniformOne_aligned w fuel g x.dna s d' s' (hp x hx).1 (hp x hx).2 hd⟩, hu⟩) st out st' h
  intro y hy
  obtain ⟨x, _, hr⟩ := all2_out hall y hy
  exact hr.1

theorem mutUniform_aligned (fuel : Nat) (g : GSpec) (pop : Pop) (st : St) (out : Pop) (st' : St)
    (hp : ∀ x ∈ pop, valid g x.dna = true ∧ aligned x.dna = true)
    (h : mutUniform fuel g pop st = .ok (out, st')) :
    ∀ y ∈ out, valid g y.dna = true ∧ aligned y.dna = true :=
  mutUniformW_aligned _ fuel g pop st out st' hp h

end Pg.C14
