/-
  C02 helper lemmas: dict primitives (lookup, erase, the write primitive vs. the reference assignment).
-/
import PgProofs.ContainerExt
namespace Pg.C02

/-- State invariant of a dict: every stored value is a `GoodVal`. -/
def GoodD (kvs : List (Key × Val)) : Prop := ∀ p ∈ kvs, GoodVal p.2

theorem hasKey_eq_lookup (kvs : List (Key × Val)) (k : Key) : hasKey kvs k = (lookupKey k kvs).isSome := by
  induction kvs with
  | nil => rfl
  | cons p rest ih =>
    obtain ⟨k', v⟩ := p
    unfold hasKey at ih ⊢
    simp only [List.any_cons, lookupKey]
    cases h : k'.eqv k with
    | true => simp
    | false => simp [ih]

theorem lookupKey_mem {kvs : List (Key × Val)} {k : Key} {v : Val} (h : lookupKey k kvs = some v) :
    ∃ p ∈ kvs, p.2 = v := by
  induction kvs with
  | nil => cases h
  | cons p rest ih =>
    obtain ⟨k', v'⟩ := p
    unfold lookupKey at h
    split at h
    · injection h with h; subst h; exact ⟨(k', v'), List.mem_cons_self, rfl⟩
    · obtain ⟨p, hp, he⟩ := ih h
      exact ⟨p, List.mem_cons_of_mem _ hp, he⟩

theorem dictErase_nokey {kvs : List (Key × Val)} {k : Key} (h : hasKey kvs k = false) :
    dictErase kvs k = kvs := by
  unfold dictErase
  rw [List.filter_eq_self]
  intro p hp
  unfold hasKey at h
  rw [List.any_eq_false] at h
  have := h p hp
  simpa using this

theorem setItemRaw_eq_assign {kvs : List (Key × Val)} {k : Key} {v : Val} (hv : missingFree v = true) :
    (PgDict.setItemRaw kvs k v).1 = PyDict.assign kvs k v := by
  unfold PgDict.setItemRaw PyDict.assign
  cases hm : v.isMissing with
  | true =>
    simp only [if_true]
    cases hk : hasKey kvs k with
    | true => simp
    | false => simp [dictErase_nokey hk]
  | false => simp [conv_eq_self v hv]

theorem setAll_eq_assignAll {kvs pairs : List (Key × Val)} (hv : ∀ p ∈ pairs, missingFree p.2 = true) :
    PgDict.setAll kvs pairs = PyDict.assignAll kvs pairs := by
  induction pairs generalizing kvs with
  | nil => rfl
  | cons p rest ih =>
    obtain ⟨k, v⟩ := p
    simp only [PgDict.setAll, PyDict.assignAll]
    rw [setItemRaw_eq_assign (hv (k, v) List.mem_cons_self)]
    exact ih (fun q hq => hv q (List.mem_cons_of_mem _ hq))

theorem dictSet_nokey {kvs : List (Key × Val)} {k : Key} (v : Val) (h : hasKey kvs k = false) :
    dictSet kvs k v = kvs ++ [(k, v)] := by
  unfold dictSet; simp [h]

end Pg.C02
