/-
  C06 helper lemmas, part 2: the type-rank table, atoms (values and dict keys).
-/
import PgProofs.CompareNum
namespace Pg.C06

def TypeKind.idx : TypeKind → Nat
  | .missing => 0 | .none => 1 | .num => 2 | .str => 3 | .list => 4 | .tuple => 5 | .set => 6 | .dict => 7

/-- What the theorems need from the (generated) rank table and from the class names. -/
structure EnvOk (env : Env) : Prop where
  /-- the builtin rows are ranked in the documented order -/
  mono : ∀ a b : TypeKind, a.idx < b.idx → lexLt (env.rankOf a) (env.rankOf b) = true
  /-- every builtin rank string sorts before every class `__qualname__` -/
  qual_gt : ∀ (k : TypeKind) (c : Nat), lexLt (env.rankOf k) (env.qual c) = true
  /-- distinct classes have distinct `__qualname__`s -/
  qual_inj : ∀ c d : Nat, env.qual c = env.qual d → c = d

inductive Kind | b (k : TypeKind) | user (c : Nat)
  deriving DecidableEq

def Kind.rank (env : Env) : Kind → Str
  | .b k => env.rankOf k
  | .user c => env.qual c

def atomKind : Atom → TypeKind
  | .missing => .missing | .none => .none | .num _ => .num | .str _ => .str

def kindOf : Val → Kind
  | .atom a => .b (atomKind a)
  | .list _ _ => .b .list
  | .tuple _ => .b .tuple
  | .dict _ _ => .b .dict
  | .obj c _ => .user c

theorem rank_eq_kind (env : Env) (x : Val) : rank env x = (kindOf x).rank env := by
  cases x with
  | atom a => cases a <;> rfl
  | _ => rfl

theorem idx_inj (a b : TypeKind) (h : a.idx = b.idx) : a = b := by
  cases a <;> cases b <;> simp [TypeKind.idx] at h <;> rfl

theorem Kind.rank_inj {env : Env} (h : EnvOk env) (k1 k2 : Kind) (he : k1.rank env = k2.rank env) : k1 = k2 := by
  cases k1 with
  | b a => cases k2 with
    | b b =>
      by_cases hab : a = b
      · rw [hab]
      · exfalso
        have : a.idx < b.idx ∨ b.idx < a.idx := by
          rcases Nat.lt_trichotomy a.idx b.idx with h1 | h1 | h1
          · exact Or.inl h1
          · exact absurd (idx_inj a b h1) hab
          · exact Or.inr h1
        simp only [Kind.rank] at he
        rcases this with h1 | h1
        · have := h.mono a b h1; rw [he, lexLt_irrefl] at this; cases this
        · have := h.mono b a h1; rw [he, lexLt_irrefl] at this; cases this
    | user c =>
      exfalso; simp only [Kind.rank] at he
      have := h.qual_gt a c; rw [he, lexLt_irrefl] at this; cases this
  | user c => cases k2 with
    | b b =>
      exfalso; simp only [Kind.rank] at he
      have := h.qual_gt b c; rw [← he, lexLt_irrefl] at this; cases this
    | user d => simp only [Kind.rank] at he; rw [h.qual_inj c d he]

/-- The three-way outcome of a pair of comparisons. -/
def Tri (a : Except Err Bool) (e : Bool) (b : Except Err Bool) : Prop :=
  (a = .ok true ∧ e = false ∧ b = .ok false) ∨
  (a = .ok false ∧ e = true ∧ b = .ok false) ∨
  (a = .ok false ∧ e = false ∧ b = .ok true)

theorem Tri.of_lex {r s : Str} (h : r ≠ s) :
    Tri (.ok (lexLt r s)) false (.ok (lexLt s r)) := by
  rcases lexLt_trichotomy r s with ⟨h1, _, h3⟩ | ⟨_, h2, _⟩ | ⟨h1, _, h3⟩
  · rw [h1, h3]; exact Or.inl ⟨rfl, rfl, rfl⟩
  · exact absurd h2 h
  · rw [h1, h3]; exact Or.inr (Or.inr ⟨rfl, rfl, rfl⟩)

theorem rankCmp_same {env : Env} {x y : Val} (h : kindOf x = kindOf y) : rankCmp env x y = none := by
  simp [rankCmp, rank_eq_kind, h]

theorem rankCmp_diff {env : Env} (ok : EnvOk env) {x y : Val} (h : kindOf x ≠ kindOf y) :
    rankCmp env x y = some (lexLt (rank env x) (rank env y)) ∧ rank env x ≠ rank env y := by
  have : rank env x ≠ rank env y := by
    rw [rank_eq_kind, rank_eq_kind]; exact fun he => h (Kind.rank_inj ok _ _ he)
  simp [rankCmp, this]

/-! ### Atoms -/

theorem atomEq_refl (a : Atom) : atomEq a a = true := by
  cases a <;> simp [atomEq, Num.eq_refl]

theorem atomEq_symm (a b : Atom) : atomEq a b = atomEq b a := by
  cases a <;> cases b <;> simp [atomEq, Num.eq_symm, eq_comm]

theorem atomEq_trans {a b c : Atom} (h1 : atomEq a b = true) (h2 : atomEq b c = true) : atomEq a c = true := by
  cases a <;> cases b <;> simp [atomEq] at h1 <;> cases c <;> simp [atomEq] at h2 ⊢
  · exact Num.eq_trans h1 h2
  · rw [h1, h2]

theorem atomEq_kind {a b : Atom} (h : atomEq a b = true) : atomKind a = atomKind b := by
  cases a <;> cases b <;> simp [atomEq] at h <;> rfl

theorem atomLt_eq_lt (env : Env) (a b : Atom) : lt env (.atom a) (.atom b) = atomLt env a b := by
  simp only [lt, atomLt]

/-- Atoms are totally ordered by `lt` (never raises), consistently with `==`. -/
theorem atomTri {env : Env} (ok : EnvOk env) (a b : Atom) :
    Tri (atomLt env a b) (atomEq a b) (atomLt env b a) := by
  by_cases hk : atomKind a = atomKind b
  · have h1 : rankCmp env (.atom a) (.atom b) = none := rankCmp_same (by simp [kindOf, hk])
    have h2 : rankCmp env (.atom b) (.atom a) = none := rankCmp_same (by simp [kindOf, hk])
    simp only [atomLt, h1, h2]
    cases a <;> cases b <;> simp [atomKind] at hk
    · exact Or.inr (Or.inl ⟨rfl, rfl, rfl⟩)
    · exact Or.inr (Or.inl ⟨rfl, rfl, rfl⟩)
    · rename_i n m
      simp only [atomLtSame, atomEq]
      rcases Num.trichotomy n m with ⟨h1, h2, h3⟩ | ⟨h1, h2, h3⟩ | ⟨h1, h2, h3⟩ <;> rw [h1, h2, h3]
      · exact Or.inl ⟨rfl, rfl, rfl⟩
      · exact Or.inr (Or.inl ⟨rfl, rfl, rfl⟩)
      · exact Or.inr (Or.inr ⟨rfl, rfl, rfl⟩)
    · rename_i s t
      simp only [atomLtSame, atomEq]
      rcases lexLt_trichotomy s t with ⟨h1, h2, h3⟩ | ⟨h1, h2, h3⟩ | ⟨h1, h2, h3⟩ <;> rw [h1, h3]
      · exact Or.inl ⟨rfl, by simpa using h2, rfl⟩
      · exact Or.inr (Or.inl ⟨rfl, by simpa using h2, rfl⟩)
      · exact Or.inr (Or.inr ⟨rfl, by simpa using h2, rfl⟩)
  · have hk' : kindOf (.atom a) ≠ kindOf (.atom b) := by simpa [kindOf] using hk
    have hk'' : kindOf (.atom b) ≠ kindOf (.atom a) := fun h => hk' h.symm
    obtain ⟨h1, hne⟩ := rankCmp_diff ok hk'
    obtain ⟨h2, _⟩ := rankCmp_diff ok hk''
    have he : atomEq a b = false := by
      cases hq : atomEq a b
      · rfl
      · exact absurd (atomEq_kind hq) hk
    simp only [atomLt, h1, h2, he]
    exact Tri.of_lex hne

theorem atomLt_ok {env : Env} (ok : EnvOk env) (a b : Atom) : ∃ r, atomLt env a b = .ok r := by
  rcases atomTri ok a b with ⟨h, _, _⟩ | ⟨h, _, _⟩ | ⟨h, _, _⟩ <;> exact ⟨_, h⟩

theorem atomLt_congr_left {env : Env} {a b : Atom} (c : Atom) (h : atomEq a b = true) :
    atomLt env a c = atomLt env b c := by
  have hk := atomEq_kind h
  have hr : rankCmp env (.atom a) (.atom c) = rankCmp env (.atom b) (.atom c) := by
    simp [rankCmp, rank_eq_kind, kindOf, hk]
  simp only [atomLt, hr]
  cases a <;> cases b <;> simp [atomEq] at h
  · rfl
  · rfl
  · cases c <;> simp [atomLtSame, Num.lt_congr_left _ h]
  · subst h; rfl

theorem atomLt_congr_right {env : Env} {a b : Atom} (c : Atom) (h : atomEq a b = true) :
    atomLt env c a = atomLt env c b := by
  have hk := atomEq_kind h
  have hr : rankCmp env (.atom c) (.atom a) = rankCmp env (.atom c) (.atom b) := by
    simp [rankCmp, rank_eq_kind, kindOf, hk]
  simp only [atomLt, hr]
  cases a <;> cases b <;> simp [atomEq] at h
  · rfl
  · rfl
  · cases c <;> simp [atomLtSame, Num.lt_congr_right _ h]
  · subst h; rfl

theorem atomLt_trans {env : Env} (ok : EnvOk env) {a b c : Atom}
    (h1 : atomLt env a b = .ok true) (h2 : atomLt env b c = .ok true) : atomLt env a c = .ok true := by
  by_cases hab : atomKind a = atomKind b
  · by_cases hbc : atomKind b = atomKind c
    · -- all of one kind
      have r1 : rankCmp env (.atom a) (.atom b) = none := rankCmp_same (by simp [kindOf, hab])
      have r2 : rankCmp env (.atom b) (.atom c) = none := rankCmp_same (by simp [kindOf, hbc])
      have r3 : rankCmp env (.atom a) (.atom c) = none := rankCmp_same (by simp [kindOf, hab, hbc])
      simp only [atomLt, r1, r2, r3] at *
      cases a <;> cases b <;> simp [atomKind] at hab <;> cases c <;> simp [atomKind] at hbc <;>
        simp [atomLtSame] at h1 h2 ⊢
      · exact Num.lt_trans h1 h2
      · exact lexLt_trans h1 h2
    · -- a ~ b, b < c by rank
      have hac : atomKind a ≠ atomKind c := by rw [hab]; exact hbc
      obtain ⟨r2, _⟩ := rankCmp_diff ok (x := .atom b) (y := .atom c) (by simpa [kindOf] using hbc)
      obtain ⟨r3, _⟩ := rankCmp_diff ok (x := .atom a) (y := .atom c) (by simpa [kindOf] using hac)
      simp only [atomLt, r2, r3] at h2 ⊢
      have : rank env (.atom a) = rank env (.atom b) := by simp [rank_eq_kind, kindOf, hab]
      rw [this]; exact h2
  · obtain ⟨r1, _⟩ := rankCmp_diff ok (x := .atom a) (y := .atom b) (by simpa [kindOf] using hab)
    by_cases hbc : atomKind b = atomKind c
    · have hac : atomKind a ≠ atomKind c := by rw [← hbc]; exact hab
      obtain ⟨r3, _⟩ := rankCmp_diff ok (x := .atom a) (y := .atom c) (by simpa [kindOf] using hac)
      simp only [atomLt, r1, r3] at h1 ⊢
      have : rank env (.atom c) = rank env (.atom b) := by simp [rank_eq_kind, kindOf, hbc]
      rw [this]; exact h1
    · obtain ⟨r2, _⟩ := rankCmp_diff ok (x := .atom b) (y := .atom c) (by simpa [kindOf] using hbc)
      simp only [atomLt, r1, r2] at h1 h2
      have h13 : lexLt (rank env (.atom a)) (rank env (.atom c)) = true :=
        lexLt_trans (by simpa using h1) (by simpa using h2)
      have hne : rank env (.atom a) ≠ rank env (.atom c) := by
        intro he; rw [he, lexLt_irrefl] at h13; cases h13
      simp only [atomLt, rankCmp, hne, if_false, h13]

end Pg.C06
