/-
  C02 helper lemmas: extended-slice assignment (positive and negative steps) and rebind.
-/
import PgProofs.ContainerWrite
namespace Pg.C02
open PgList

/-! ### Extended slices -/

theorem setItemRaw_plain_nonneg {xs : List Val} {p : Int} {w : Val} (h : 0 ≤ p ∧ p < xs.length) :
    setItemRaw xs p (.plain w) = .ok (setAt xs p (conv w), true) := by
  obtain ⟨P, rfl⟩ := Int.eq_ofNat_of_zero_le h.1
  have hp : P < xs.length := by exact_mod_cast h.2
  rw [setItemRaw_plain_nat hp]
  unfold setAt
  have : ¬ ((P : Int) < 0) := by omega
  simp only [this, if_false, Int.toNat_natCast]

theorem setAt_length (xs : List Val) (p : Int) (w : Val) : (setAt xs p w).length = xs.length := by
  unfold setAt; split <;> simp

theorem writeRun_plain_pos {xs : List Val} {k : Nat} {p c : Int} {ws : List Val} (u : Bool)
    (hlen : ws.length = k) (hr : ∀ x ∈ posList k p c, 0 ≤ x ∧ x < xs.length)
    (hw : ∀ w ∈ ws, missingFree w = true) :
    writeRun xs p c u (ws.map Arg.plain) =
      (PyList.assignAll xs (posList k p c) ws, u || !ws.isEmpty, Option.none) := by
  induction ws generalizing xs k p u with
  | nil => subst hlen; simp [writeRun, posList, PyList.assignAll]
  | cons w ws ih =>
    subst hlen
    simp only [List.length_cons, posList] at hr ⊢
    simp only [List.map_cons, writeRun, setItemRaw_plain_nonneg (hr p List.mem_cons_self),
      conv_eq_self w (hw w List.mem_cons_self), PyList.assignAll]
    rw [ih _ rfl (by
        intro x hx
        rw [setAt_length]
        exact hr x (List.mem_cons_of_mem _ hx))
      (fun v hv => hw v (List.mem_cons_of_mem _ hv))]
    simp

theorem posList_snoc (k : Nat) (p c : Int) : posList (k + 1) p c = posList k p c ++ [p + k * c] := by
  induction k generalizing p with
  | zero => simp [posList]
  | succ k ih =>
    rw [posList, ih (p + c)]
    simp only [posList, List.cons_append]
    congr 3
    push_cast; ring

theorem posList_reverse (k : Nat) (p c : Int) :
    (posList k p c).reverse = posList k (p + ((k : Int) - 1) * c) (-c) := by
  induction k generalizing p with
  | zero => rfl
  | succ k ih =>
    rw [posList_snoc k (p + (((k + 1 : Nat) : Int) - 1) * c) (-c)]
    simp only [posList, List.reverse_cons, ih (p + c)]
    congr 1
    · congr 1; push_cast; ring
    · congr 1; push_cast; ring

theorem setAt_comm (xs : List Val) {p q : Int} (v w : Val) (h : p ≠ q) :
    setAt (setAt xs q w) p v = setAt (setAt xs p v) q w := by
  unfold setAt
  by_cases hp : p < 0 <;> by_cases hq : q < 0 <;> simp only [hp, hq, if_true, if_false]
  exact List.set_comm _ _ (by omega)

theorem setAt_assignAll_comm {xs : List Val} {ps : List Int} {vs : List Val} {p : Int} {v : Val}
    (hp : p ∉ ps) : setAt (PyList.assignAll xs ps vs) p v = PyList.assignAll (setAt xs p v) ps vs := by
  induction ps generalizing xs vs with
  | nil => simp [PyList.assignAll]
  | cons q qs ih =>
    cases vs with
    | nil => simp [PyList.assignAll]
    | cons w ws =>
      simp only [PyList.assignAll]
      rw [ih (fun h => hp (List.mem_cons_of_mem _ h))]
      rw [setAt_comm xs v w (fun h => hp (by simp [h]))]

theorem assignAll_snoc {xs : List Val} {ps : List Int} {vs : List Val} {p : Int} {v : Val}
    (h : ps.length = vs.length) :
    PyList.assignAll xs (ps ++ [p]) (vs ++ [v]) = setAt (PyList.assignAll xs ps vs) p v := by
  induction ps generalizing xs vs with
  | nil =>
    cases vs with
    | nil => simp [PyList.assignAll]
    | cons _ _ => simp at h
  | cons q qs ih =>
    cases vs with
    | nil => simp at h
    | cons w ws =>
      simp only [List.length_cons, Nat.add_right_cancel_iff] at h
      simp only [List.cons_append, PyList.assignAll, ih h]

theorem assignAll_reverse {xs : List Val} {ps : List Int} {vs : List Val}
    (hn : ps.Nodup) (h : ps.length = vs.length) :
    PyList.assignAll xs ps.reverse vs.reverse = PyList.assignAll xs ps vs := by
  induction ps generalizing xs vs with
  | nil =>
    cases vs with
    | nil => rfl
    | cons _ _ => simp at h
  | cons q qs ih =>
    cases vs with
    | nil => simp at h
    | cons w ws =>
      simp only [List.length_cons, Nat.add_right_cancel_iff] at h
      rw [List.nodup_cons] at hn
      simp only [List.reverse_cons]
      rw [assignAll_snoc (by simp [h]), ih hn.2 h, setAt_assignAll_comm hn.1]
      rfl

theorem clean_setAt {xs : List Val} {p : Int} {v : Val} (h : Clean xs) (hv : v.isMissing = false) :
    Clean (setAt xs p v) := by
  unfold setAt; split
  · exact h
  · exact clean_set h hv

theorem clean_assignAll {xs : List Val} {ps : List Int} {vs : List Val} (h : Clean xs)
    (hv : ∀ v ∈ vs, v.isMissing = false) : Clean (PyList.assignAll xs ps vs) := by
  induction ps generalizing xs vs with
  | nil => simpa [PyList.assignAll] using h
  | cons q qs ih =>
    cases vs with
    | nil => simpa [PyList.assignAll] using h
    | cons w ws =>
      simp only [PyList.assignAll]
      exact ih (clean_setAt h (hv w List.mem_cons_self)) (fun v hv' => hv v (List.mem_cons_of_mem _ hv'))

theorem good_setAt {xs : List Val} {p : Int} {v : Val} (h : Good xs) (hv : GoodVal v) :
    Good (setAt xs p v) := by
  unfold setAt; split
  · exact h
  · exact good_set h hv

theorem good_assignAll {xs : List Val} {ps : List Int} {vs : List Val} (h : Good xs)
    (hv : ∀ v ∈ vs, GoodVal v) : Good (PyList.assignAll xs ps vs) := by
  induction ps generalizing xs vs with
  | nil => simpa [PyList.assignAll] using h
  | cons q qs ih =>
    cases vs with
    | nil => simpa [PyList.assignAll] using h
    | cons w ws =>
      simp only [PyList.assignAll]
      exact ih (good_setAt h (hv w List.mem_cons_self)) (fun v hv' => hv v (List.mem_cons_of_mem _ hv'))

theorem assignAll_nil_vals (xs : List Val) (ps : List Int) : PyList.assignAll xs ps [] = xs := by
  cases ps <;> rfl

theorem posList_nodup {k : Nat} {p c : Int} (hc : c ≠ 0) : (posList k p c).Nodup := by
  by_cases h : 0 < c
  · exact (posList_pairwise_lt (k := k) (p := p) h).imp (fun hab => by omega)
  · exact (posList_pairwise_gt (k := k) (p := p) (by omega : c < 0)).imp (fun hab => by omega)

/-- Extended-slice assignment (`step ≠ 1`). -/
theorem step_setSlice_ext {xs vs : List Val} {s : Slice} {nt : Bool} {a b c : Int}
    (hs : sliceIndices s xs.length = .ok (a, b, c)) (hc1 : c ≠ 1) (hx : Clean xs)
    (hv : ∀ v ∈ vs, missingFree v = true)
    (hn : nt = true ∨ (∀ v ∈ vs, v.isMissing = false)) :
    implL xs ⟨.setSlice s vs, nt⟩ = specL xs ⟨.setSlice s vs, nt⟩ := by
  have hc0 := (sliceIndices_bounds hs).1
  have hr := pyRange_inrange hs
  simp only [implL, specL, PyList.setSlice, hs, hc1, if_false]
  by_cases hsz : (pyRange a b c).length ≠ vs.length
  · rw [if_pos hsz, if_pos hsz]
  · rw [if_neg hsz, if_neg hsz]
    have hsz' : (pyRange a b c).length = vs.length := by simpa using hsz
    have hpl := pyRange_eq_posList a b c
    -- what closes the step on both sides
    have hfin : ∀ ys : List Val, ys = PyList.assignAll xs (pyRange a b c) vs →
        okNone (notifyIf nt (false || !vs.isEmpty) ys) = okNone (purge (PyList.assignAll xs (pyRange a b c) vs)) := by
      intro ys hy
      subst hy
      simp only [okNone]
      congr 1
      apply notifyIf_eq_purge
      rcases hn with hn | hn
      · by_cases he : vs = []
        · subst he
          right
          rw [assignAll_nil_vals]; exact hx
        · left
          refine ⟨hn, ?_⟩
          cases vs with
          | nil => exact absurd rfl he
          | cons _ _ => simp
      · exact Or.inr (clean_assignAll hx hn)
    by_cases hneg : c < 0
    · simp only [hneg, if_true]
      have hrev : posList vs.length (a + ((pyRange a b c).length - 1) * c) (-c) = (pyRange a b c).reverse := by
        rw [hsz']
        conv => rhs; rw [hpl, hsz']
        exact (posList_reverse _ _ _).symm
      have hmap : List.map Arg.plain vs.reverse = (vs.reverse).map Arg.plain := rfl
      rw [writeRun_plain_pos (k := vs.length) false (by simp)
        (by rw [hrev]; intro x hx'; exact hr x (List.mem_reverse.mp hx'))
        (fun v hv' => hv v (List.mem_reverse.mp hv'))]
      rw [hrev]
      have hnd : (pyRange a b c).Nodup := by rw [hpl]; exact posList_nodup hc0
      have := hfin (PyList.assignAll xs (pyRange a b c).reverse vs.reverse)
        (assignAll_reverse hnd hsz')
      simpa using this
    · simp only [hneg, if_false]
      rw [writeRun_plain_pos (k := vs.length) false rfl
        (by rw [← hsz', ← hpl]; exact hr) hv]
      have e : posList vs.length a c = pyRange a b c := by rw [← hsz']; exact hpl.symm
      rw [e]
      exact hfin _ rfl

/-! ### rebind -/

theorem setItemRaw_eq_rebindOne {xs : List Val} {k : Int} {a : Arg}
    (ha : match a with | .plain v => missingFree v = true | .ins v => missingFree v = true) :
    (setItemRaw xs k a).map Prod.fst = PyList.rebindOne xs k a := by
  cases a with
  | ins v =>
    simp only [] at ha
    rw [setItemRaw_ins, conv_eq_self v ha]
    unfold PyList.rebindOne
    simp only [Except.map]
    split
    · rfl
    · rw [pyInsert_ge v (by omega)]
  | plain v =>
    simp only [] at ha
    unfold setItemRaw PyList.rebindOne
    by_cases hk : k ≥ (xs.length : Int)
    · have hk' : ¬ k < (xs.length : Int) := by omega
      cases hm : v.isMissing with
      | true => simp [Arg.isPlainMissing, hm, hk, hk', Except.map]
      | false => simp [Arg.isPlainMissing, hm, hk, hk', Except.map, conv_eq_self v ha]
    · have hk' : k < (xs.length : Int) := by omega
      simp only [hk, false_and, if_false, hk', if_true, PyList.setItem, conv_eq_self v ha]
      cases normIndex xs.length k <;> rfl

def ArgOk : Arg → Prop
  | .plain v => missingFree v = true
  | .ins v => missingFree v = true

def Arg.notMissing : Arg → Prop
  | .plain v => v.isMissing = false
  | .ins v => v.isMissing = false

theorem rebindRun_eq {xs : List Val} {u : Bool} {ps : List (Int × Arg)} (h : ∀ p ∈ ps, ArgOk p.2) :
    (PyList.rebindAll xs ps) =
      ((rebindRun xs u ps).1,
        match (rebindRun xs u ps).2.2 with
        | Option.none => .ok .none
        | some e => .error e) := by
  induction ps generalizing xs u with
  | nil => rfl
  | cons p ps ih =>
    obtain ⟨k, a⟩ := p
    have hk := setItemRaw_eq_rebindOne (xs := xs) (k := k) (a := a) (by
      have := h (k, a) List.mem_cons_self
      cases a <;> exact this)
    unfold PyList.rebindAll rebindRun
    rw [← hk]
    cases hs : setItemRaw xs k a with
    | error e => rfl
    | ok t =>
      obtain ⟨ys, u1⟩ := t
      simp only [Except.map]
      exact ih (fun p hp => h p (List.mem_cons_of_mem _ hp))

theorem setItemRaw_noupd {xs ys : List Val} {k : Int} {a : Arg} (h : setItemRaw xs k a = .ok (ys, false)) :
    ys = xs := by
  cases a with
  | ins v => rw [setItemRaw_ins] at h; simp at h
  | plain v =>
    unfold setItemRaw at h
    simp only [] at h
    split at h
    · simp at h; exact h.symm
    · (repeat' split at h) <;> simp at h

theorem clean_setItemRaw {xs ys : List Val} {k : Int} {a : Arg} {u : Bool} (hx : Clean xs)
    (ha : ArgOk a) (hm : a.notMissing) (h : setItemRaw xs k a = .ok (ys, u)) : Clean ys := by
  have h2 := setItemRaw_eq_rebindOne (xs := xs) (k := k) (a := a) (by cases a <;> exact ha)
  rw [h] at h2
  simp only [Except.map] at h2
  cases a with
  | ins v =>
    unfold PyList.rebindOne at h2
    simp only [] at h2
    split at h2
    · injection h2 with h2; rw [h2]; exact clean_pyInsert hx hm
    · injection h2 with h2; rw [h2]
      exact hx.append (by intro x hx'; simp at hx'; subst hx'; exact hm)
  | plain v =>
    unfold PyList.rebindOne at h2
    simp only [] at h2
    split at h2
    · unfold PyList.setItem at h2
      split at h2
      · injection h2 with h2; rw [h2]; exact clean_set hx hm
      · cases h2
    · split at h2
      · injection h2 with h2; rw [h2]; exact hx
      · injection h2 with h2; rw [h2]
        exact hx.append (by intro x hx'; simp at hx'; subst hx'; exact hm)

theorem rebindRun_flags {xs : List Val} {u : Bool} {ps : List (Int × Arg)} {ys : List Val} {u' : Bool}
    (h : rebindRun xs u ps = (ys, u', Option.none)) :
    (u' = false → ys = xs ∧ u = false) ∧
    (Clean xs → (∀ p ∈ ps, ArgOk p.2 ∧ p.2.notMissing) → Clean ys) := by
  induction ps generalizing xs u with
  | nil =>
    simp only [rebindRun, Prod.mk.injEq] at h
    obtain ⟨h1, h2, _⟩ := h
    subst h1; subst h2
    exact ⟨fun hu => ⟨rfl, hu⟩, fun hc _ => hc⟩
  | cons p ps ih =>
    obtain ⟨k, a⟩ := p
    unfold rebindRun at h
    cases hs : setItemRaw xs k a with
    | error e => rw [hs] at h; simp at h
    | ok t =>
      obtain ⟨zs, u1⟩ := t
      rw [hs] at h
      simp only [] at h
      obtain ⟨ih1, ih2⟩ := ih h
      refine ⟨?_, ?_⟩
      · intro hu
        obtain ⟨e1, e2⟩ := ih1 hu
        have hu1 : u1 = false := by cases u <;> cases u1 <;> simp_all
        have hu0 : u = false := by cases u <;> cases u1 <;> simp_all
        subst hu1
        rw [e1, setItemRaw_noupd hs]
        exact ⟨rfl, hu0⟩
      · intro hc hp
        have hka := hp (k, a) List.mem_cons_self
        exact ih2 (clean_setItemRaw hc hka.1 hka.2 hs) (fun p hp' => hp p (List.mem_cons_of_mem _ hp'))

theorem mem_insertDesc {p q : Int × Arg} {qs : List (Int × Arg)} (h : q ∈ insertDesc p qs) :
    q = p ∨ q ∈ qs := by
  induction qs with
  | nil => simp [insertDesc] at h; exact Or.inl h
  | cons r rs ih =>
    unfold insertDesc at h
    split at h
    · simpa using h
    · rcases List.mem_cons.mp h with h | h
      · exact Or.inr (by simp [h])
      · rcases ih h with h | h
        · exact Or.inl h
        · exact Or.inr (List.mem_cons_of_mem _ h)

theorem mem_sortDesc_aux {q : Int × Arg} (ps acc : List (Int × Arg))
    (h : q ∈ ps.foldl (fun acc p => insertDesc p acc) acc) : q ∈ acc ∨ q ∈ ps := by
  induction ps generalizing acc with
  | nil => exact Or.inl h
  | cons p ps ih =>
    rcases ih _ h with h | h
    · rcases mem_insertDesc h with h | h
      · exact Or.inr (by simp [h])
      · exact Or.inl h
    · exact Or.inr (List.mem_cons_of_mem _ h)

theorem mem_sortDesc {q : Int × Arg} {ps : List (Int × Arg)} (h : q ∈ sortDesc ps) : q ∈ ps := by
  rcases mem_sortDesc_aux ps [] h with h | h
  · cases h
  · exact h

theorem step_rebind (xs : List Val) (pairs : List (Int × Arg)) (nt : Bool) (hx : Clean xs)
    (ha : ∀ p ∈ pairs, ArgOk p.2) (hn : nt = true ∨ ∀ p ∈ pairs, p.2.notMissing) :
    implL xs ⟨.rebind pairs, nt⟩ = specL xs ⟨.rebind pairs, nt⟩ := by
  simp only [implL, specL]
  split
  · rfl
  · have ha' : ∀ p ∈ sortDesc pairs, ArgOk p.2 := fun p hp => ha p (mem_sortDesc hp)
    rw [rebindRun_eq (u := false) ha']
    cases hrun : rebindRun xs false (sortDesc pairs) with
    | mk ys rest =>
      obtain ⟨u', eo⟩ := rest
      cases eo with
      | some e => rfl
      | none =>
        simp only [okNone]
        congr 1
        obtain ⟨f1, f2⟩ := rebindRun_flags hrun
        apply notifyIf_eq_purge
        cases hu : u' with
        | false =>
          right
          rw [(f1 hu).1]; exact hx
        | true =>
          rcases hn with hn | hn
          · exact Or.inl ⟨hn, rfl⟩
          · right
            exact f2 hx (fun p hp => ⟨ha' p hp, hn p (mem_sortDesc hp)⟩)

end Pg.C02
