/-
  The representation invariant of payloads (`shapeOk`: list keys are the positions, dict / object
  keys are distinct) is preserved by every building block of the operations.
-/
import PgProofs.SymNB
namespace Pg.Sym

/-! ### keys -/

theorem nodupKeys_iff : (ks : List Key) → (nodupKeys ks = true ↔ ks.Nodup)
  | [] => by simp [nodupKeys]
  | k :: ks => by
    simp only [nodupKeys, Bool.and_eq_true, Bool.not_eq_true', List.contains_eq_mem, decide_eq_false_iff_not,
      List.nodup_cons, nodupKeys_iff ks]

theorem keysOf_cons (k : Key) (c : Tree) (r : Items) : keysOf ((k, c) :: r) = k :: keysOf r := rfl

theorem keysOf_append (a b : Items) : keysOf (a ++ b) = keysOf a ++ keysOf b := by
  simp [keysOf]

theorem keysOk_congr (kind : Kind) {a b : Items} (h : keysOf a = keysOf b) : keysOk kind a = keysOk kind b := by
  unfold keysOk; rw [h]

theorem keysOk_of_positional (kind : Kind) (its : Items) (h : positional 0 (keysOf its) = true) :
    keysOk kind its = true := by
  unfold keysOk
  cases kind with
  | list => exact h
  | dict => exact positional_nodup 0 _ h
  | obj c => exact positional_nodup 0 _ h

theorem positional_renumberFrom : (n : Nat) → (its : Items) → positional n (keysOf (renumberFrom n its)) = true
  | _, [] => by simp [renumberFrom, keysOf, positional]
  | n, (k, c) :: r => by
    simp only [renumberFrom, keysOf_cons, positional, Bool.and_eq_true, beq_self_eq_true, true_and]
    exact positional_renumberFrom (n + 1) r

theorem keysOk_renumber (kind : Kind) (its : Items) : keysOk kind (renumber its) = true :=
  keysOk_of_positional kind _ (positional_renumberFrom 0 its)

theorem keysOf_setPathItems (p : List Key) : (its : Items) → keysOf (setPathItems p its) = keysOf its
  | [] => rfl
  | (k, c) :: r => by simp only [setPathItems, keysOf_cons, keysOf_setPathItems p r]

theorem keysOf_sealItems (s : Bool) : (its : Items) → keysOf (sealItems s its) = keysOf its
  | [] => rfl
  | (k, c) :: r => by simp only [sealItems, keysOf_cons, keysOf_sealItems s r]

theorem keysOf_mapVal (g : Key × Tree → Tree) (its : Items) : keysOf (its.map (fun kv => (kv.1, g kv))) = keysOf its := by
  simp [keysOf, List.map_map, Function.comp_def]

theorem mem_keysOf_of_getKey {its : Items} {k : Key} {c : Tree} (h : getKey its k = some c) : k ∈ keysOf its := by
  unfold getKey at h
  cases hf : its.find? (fun kv => kv.1 == k) with
  | none => rw [hf] at h; cases h
  | some kv =>
    have h1 := List.find?_some hf
    have h2 := List.mem_of_find?_eq_some hf
    simp only [beq_iff_eq] at h1
    exact List.mem_map.mpr ⟨kv, h2, h1⟩

theorem keysOf_setKey_mem (k : Key) (v : Tree) : (its : Items) → k ∈ keysOf its → keysOf (setKey k v its) = keysOf its
  | [], h => by simp [keysOf] at h
  | (k', c) :: r, h => by
    unfold setKey
    split
    · next he => rw [he]; rfl
    · next hne =>
      simp only [keysOf_cons, List.mem_cons] at h ⊢
      rcases h with h | h
      · exact absurd h.symm hne
      · rw [keysOf_setKey_mem k v r h]

theorem keysOf_setKey_not_mem (k : Key) (v : Tree) : (its : Items) → k ∉ keysOf its →
    keysOf (setKey k v its) = keysOf its ++ [k]
  | [], _ => rfl
  | (k', c) :: r, h => by
    simp only [keysOf_cons, List.mem_cons, not_or] at h
    unfold setKey
    rw [if_neg (fun he => h.1 he.symm)]
    simp only [keysOf_cons, List.cons_append, keysOf_setKey_not_mem k v r h.2]

theorem nodupKeys_setKey (k : Key) (v : Tree) (its : Items) (h : nodupKeys (keysOf its) = true) :
    nodupKeys (keysOf (setKey k v its)) = true := by
  by_cases hm : k ∈ keysOf its
  · rw [keysOf_setKey_mem k v its hm]; exact h
  · rw [keysOf_setKey_not_mem k v its hm]
    rw [nodupKeys_iff] at h ⊢
    rw [List.nodup_append]
    refine ⟨h, by simp, ?_⟩
    intro a ha b hb
    simp only [List.mem_singleton] at hb
    subst hb
    intro he; subst he; exact hm ha

theorem eraseKey_sublist (k : Key) : (its : Items) → (eraseKey k its).Sublist its
  | [] => List.Sublist.refl _
  | (k', c) :: r => by
    unfold eraseKey
    split
    · exact List.sublist_cons_self _ _
    · exact (eraseKey_sublist k r).cons_cons _

theorem nodupKeys_sublist {a b : Items} (hs : a.Sublist b) (h : nodupKeys (keysOf b) = true) :
    nodupKeys (keysOf a) = true := by
  rw [nodupKeys_iff] at h ⊢
  exact List.Nodup.sublist (hs.map _) h

/-! ### shape of items, by membership -/

theorem shapeOkItems_iff : (its : Items) → (shapeOkItems its = true ↔ ∀ kv ∈ its, kv.2.shapeOk = true)
  | [] => by simp [shapeOkItems]
  | (k, c) :: r => by
    simp only [shapeOkItems, Bool.and_eq_true, List.mem_cons, forall_eq_or_imp, shapeOkItems_iff r]

theorem shapeOk_node (m : Meta) (its : Items) :
    ((Tree.node m its).shapeOk = true) ↔ (keysOk m.kind its = true ∧ shapeOkItems its = true) := by
  simp only [Tree.shapeOk, Bool.and_eq_true]

theorem shapeOkItems_of_vals {xs ys : Items} (hx : shapeOkItems xs = true)
    (hv : ∀ kv ∈ ys, ∃ kv' ∈ xs, kv'.2 = kv.2) : shapeOkItems ys = true := by
  rw [shapeOkItems_iff] at hx ⊢
  intro kv hkv
  obtain ⟨kv', h1, h2⟩ := hv kv hkv
  rw [← h2]; exact hx kv' h1

theorem shapeOkItems_sublist {a b : Items} (hs : a.Sublist b) (h : shapeOkItems b = true) : shapeOkItems a = true := by
  rw [shapeOkItems_iff] at h ⊢
  intro kv hkv; exact h kv (hs.subset hkv)

theorem shapeOkItems_append {a b : Items} (ha : shapeOkItems a = true) (hb : shapeOkItems b = true) :
    shapeOkItems (a ++ b) = true := by
  rw [shapeOkItems_iff] at *
  intro kv hkv
  rcases List.mem_append.mp hkv with h | h
  · exact ha kv h
  · exact hb kv h

theorem shapeOkItems_renumber {its : Items} (h : shapeOkItems its = true) : shapeOkItems (renumber its) = true :=
  shapeOkItems_of_vals h (renumberFrom_vals 0 its)

/-! ### belief-only rewrites keep the shape -/

theorem setParent_shape (par : Option Nat) (t : Tree) : (t.setParent par).shapeOk = t.shapeOk := by
  cases t <;> rfl

mutual
  theorem setPath_shape (p : List Key) : (t : Tree) → (t.setPath p).shapeOk = t.shapeOk
    | .leaf _ => rfl
    | .node m its => by
      unfold Tree.setPath
      split
      · rfl
      · simp only [Tree.shapeOk]
        rw [setPathItems_shape p its, keysOk_congr m.kind (keysOf_setPathItems p its)]
  theorem setPathItems_shape (p : List Key) : (its : Items) → shapeOkItems (setPathItems p its) = shapeOkItems its
    | [] => rfl
    | (k, c) :: r => by
      simp only [setPathItems, shapeOkItems]
      rw [setPath_shape (p ++ [k]) c, setPathItems_shape p r]
end

mutual
  theorem seal_shape (s : Bool) : (t : Tree) → (t.seal s).shapeOk = t.shapeOk
    | .leaf _ => rfl
    | .node m its => by
      simp only [Tree.seal, Tree.shapeOk]
      rw [sealItems_shape s its, keysOk_congr m.kind (keysOf_sealItems s its)]
  theorem sealItems_shape (s : Bool) : (its : Items) → shapeOkItems (sealItems s its) = shapeOkItems its
    | [] => rfl
    | (k, c) :: r => by
      simp only [sealItems, shapeOkItems]
      rw [seal_shape s c, sealItems_shape s r]
end

theorem sealIf_shape (b : Bool) (t : Tree) : (sealIf b t).shapeOk = t.shapeOk := by
  unfold sealIf; split
  · exact seal_shape true t
  · rfl

theorem adopt_shape (a b : Bool) (t : Tree) : (adoptPartial a b t).shapeOk = t.shapeOk := by
  cases t with
  | leaf x => rfl
  | node m its => simp only [adoptPartial]; split <;> rfl

theorem detachFrom_shape (kind : Kind) (t : Tree) : (detachFrom kind t).shapeOk = t.shapeOk := by
  unfold detachFrom
  cases kind <;> simp only [setPath_shape, setParent_shape]

theorem reindex_shape (m : Meta) (its : Items) : shapeOkItems (reindex m its) = shapeOkItems its :=
  setPathItems_shape m.path its

theorem keysOf_reindex (m : Meta) (its : Items) : keysOf (reindex m its) = keysOf its :=
  keysOf_setPathItems m.path its

/-! ### subtrees of a well-shaped tree -/

mutual
  theorem find?_shape (id : Nat) : (t : Tree) → t.shapeOk = true → ∀ s, t.find? id = some s → s.shapeOk = true
    | .leaf _, _, s, h => by simp [Tree.find?] at h
    | .node m its, hsh, s, h => by
      unfold Tree.find? at h
      split at h
      · cases h; exact hsh
      · exact findItems?_shape id its ((shapeOk_node m its).mp hsh).2 s h
  theorem findItems?_shape (id : Nat) : (its : Items) → shapeOkItems its = true → ∀ s, findItems? id its = some s →
      s.shapeOk = true
    | [], _, s, h => by simp [findItems?] at h
    | (k, c) :: r, hsh, s, h => by
      simp only [shapeOkItems, Bool.and_eq_true] at hsh
      unfold findItems? at h
      split at h
      · next t ht => cases h; exact find?_shape id c hsh.1 _ ht
      · exact findItems?_shape id r hsh.2 s h
end

theorem roots_find_shape (id : Nat) : (rs : List Tree) → (∀ r ∈ rs, r.shapeOk = true) → ∀ s,
    rs.findSome? (Tree.find? id) = some s → s.shapeOk = true
  | [], _, s, h => by simp at h
  | r :: rs, hsh, s, h => by
    simp only [List.findSome?_cons] at h
    split at h
    · next s' hs => cases h; exact find?_shape id r (hsh r (by simp)) _ hs
    · exact roots_find_shape id rs (fun x hx => hsh x (by simp [hx])) s h

/-! ### clones -/

mutual
  theorem clone_shape (cfg : Cfg) (deep : Bool) (next : Nat) (par : Option Nat) (p : List Key) :
      (t : Tree) → t.shapeOk = true → (t.clone cfg deep next par p).1.shapeOk = true
    | .leaf a, _ => by
      cases a <;> cases deep <;> simp [Tree.clone, Tree.shapeOk]
    | .node m its, hsh => by
      rw [shapeOk_node] at hsh
      unfold Tree.clone
      simp only
      rw [sealIf_shape, shapeOk_node]
      have ih := cloneItems_shape cfg deep (next + 1) next p its hsh.2
      cases hk : m.kind with
      | list =>
        simp only
        refine ⟨?_, ?_⟩
        · rw [keysOk_congr _ (keysOf_setPathItems p _)]; exact keysOk_renumber _ _
        · rw [setPathItems_shape]
          exact shapeOkItems_renumber (shapeOkItems_sublist List.filter_sublist ih.1)
      | dict =>
        simp only
        refine ⟨?_, ih.1⟩
        have := hsh.1
        rw [hk] at this
        rw [keysOk_congr _ ih.2]; exact this
      | obj c =>
        simp only
        refine ⟨?_, ?_⟩
        · have := hsh.1
          rw [hk] at this
          rw [keysOk_congr _ ((keysOf_mapVal _ _).trans ih.2)]; exact this
        · have h1 := ih.1
          rw [shapeOkItems_iff] at h1 ⊢
          intro kv hkv
          simp only [List.mem_map] at hkv
          obtain ⟨kv0, h0, rfl⟩ := hkv
          simp only [adopt_shape]; exact h1 kv0 h0
  theorem cloneItems_shape (cfg : Cfg) (deep : Bool) (next : Nat) (h : Nat) (p : List Key) :
      (its : Items) → shapeOkItems its = true →
        shapeOkItems (cloneItems cfg deep next h p its).1 = true ∧ keysOf (cloneItems cfg deep next h p its).1 = keysOf its
    | [], _ => by simp [cloneItems, shapeOkItems, keysOf]
    | (k, c) :: r, hsh => by
      simp only [shapeOkItems, Bool.and_eq_true] at hsh
      unfold cloneItems
      simp only [shapeOkItems, Bool.and_eq_true, keysOf_cons]
      have ih := cloneItems_shape cfg deep (c.clone cfg deep next (some h) (p ++ [k])).2 h p r hsh.2
      exact ⟨⟨clone_shape cfg deep next (some h) (p ++ [k]) c hsh.1, ih.1⟩, by rw [ih.2]⟩
end

/-! ### a local rewrite of one node -/

theorem keysOf_updateAtItems (t : Nat) (g : Meta → Items → Items) : (its : Items) →
    keysOf (updateAtItems t g its) = keysOf its
  | [] => rfl
  | (k, c) :: r => by simp only [updateAtItems, keysOf_cons, keysOf_updateAtItems t g r]

/-- `g` keeps the representation invariant of whatever payload it is applied to. -/
def LocalShape (g : Meta → Items → Items) : Prop :=
  ∀ m its, keysOk m.kind its = true → shapeOkItems its = true →
    keysOk m.kind (g m its) = true ∧ shapeOkItems (g m its) = true

mutual
  theorem updateAt_shape (t : Nat) (g : Meta → Items → Items) (hg : LocalShape g) :
      (tr : Tree) → tr.shapeOk = true → (tr.updateAt t g).shapeOk = true
    | .leaf _, _ => rfl
    | .node m its, hsh => by
      rw [shapeOk_node] at hsh
      unfold Tree.updateAt
      split
      · rw [shapeOk_node]; exact hg m its hsh.1 hsh.2
      · rw [shapeOk_node]
        exact ⟨by rw [keysOk_congr _ (keysOf_updateAtItems t g its)]; exact hsh.1, updateAtItems_shape t g hg its hsh.2⟩
  theorem updateAtItems_shape (t : Nat) (g : Meta → Items → Items) (hg : LocalShape g) :
      (its : Items) → shapeOkItems its = true → shapeOkItems (updateAtItems t g its) = true
    | [], _ => rfl
    | (k, c) :: r, hsh => by
      simp only [shapeOkItems, Bool.and_eq_true] at hsh
      simp only [updateAtItems, shapeOkItems, Bool.and_eq_true]
      exact ⟨updateAt_shape t g hg c hsh.1, updateAtItems_shape t g hg r hsh.2⟩
end

mutual
  /-- … or only of the payload of the (unique) node it is applied to. -/
  theorem updateAt_shape_at (t : Nat) (g : Meta → Items → Items) (m : Meta) (its : Items)
      (hk : keysOk m.kind (g m its) = true) (hs : shapeOkItems (g m its) = true) :
      (tr : Tree) → tr.shapeOk = true → tr.ids.count t ≤ 1 → tr.find? t = some (.node m its) →
        (tr.updateAt t g).shapeOk = true
    | .leaf _, _, _, hf => by simp [Tree.find?] at hf
    | .node m0 xs, hsh, hc, hf => by
      rw [shapeOk_node] at hsh
      unfold Tree.find? at hf
      unfold Tree.updateAt
      split at hf
      · next heq =>
        cases hf
        rw [if_pos heq, shapeOk_node]; exact ⟨hk, hs⟩
      · next hne =>
        rw [if_neg hne, shapeOk_node]
        have hc' : (idsItems xs).count t ≤ 1 := by
          simp only [Tree.ids, List.count_cons] at hc; omega
        exact ⟨by rw [keysOk_congr _ (keysOf_updateAtItems t g xs)]; exact hsh.1,
          updateAtItems_shape_at t g m its hk hs xs hsh.2 hc' hf⟩
  theorem updateAtItems_shape_at (t : Nat) (g : Meta → Items → Items) (m : Meta) (its : Items)
      (hk : keysOk m.kind (g m its) = true) (hs : shapeOkItems (g m its) = true) :
      (xs : Items) → shapeOkItems xs = true → (idsItems xs).count t ≤ 1 → findItems? t xs = some (.node m its) →
        shapeOkItems (updateAtItems t g xs) = true
    | [], _, _, hf => by simp [findItems?] at hf
    | (k, c) :: r, hsh, hc, hf => by
      simp only [shapeOkItems, Bool.and_eq_true] at hsh
      simp only [idsItems, List.count_append] at hc
      have hcc : c.ids.count t ≤ 1 := by omega
      have hcr : (idsItems r).count t ≤ 1 := by omega
      unfold findItems? at hf
      simp only [updateAtItems, shapeOkItems, Bool.and_eq_true]
      split at hf
      · next s hsf =>
        cases hf
        have hmem := (find?_some t c _ hsf).2
        have h1 := count_pos_of_mem hmem
        have hr0 : (idsItems r).count t = 0 := by omega
        rw [updateAtItems_noop t g r (not_mem_of_count_zero hr0)]
        exact ⟨updateAt_shape_at t g m its hk hs c hsh.1 hcc hsf, hsh.2⟩
      · next hsf =>
        rw [(updateAt_count t g c hcc).1 hsf]
        exact ⟨hsh.1, updateAtItems_shape_at t g m its hk hs r hsh.2 hcr hf⟩
end

/-! ### forests -/

/-- every tree the program holds, and every node object moved during the current call, has a
well-shaped payload. -/
structure ShapeF (f : Forest) : Prop where
  roots : ∀ r ∈ f.roots, r.shapeOk = true
  pool : ∀ r ∈ f.pool, r.shapeOk = true

theorem ShapeF.find {f : Forest} (h : ShapeF f) (id : Nat) (s : Tree) (hs : f.find? id = some s) : s.shapeOk = true :=
  roots_find_shape id f.roots h.roots s hs

theorem ShapeF.node {f : Forest} (h : ShapeF f) (id : Nat) (m : Meta) (its : Items)
    (hs : f.find? id = some (.node m its)) : keysOk m.kind its = true ∧ shapeOkItems its = true :=
  (shapeOk_node m its).mp (h.find id _ hs)

theorem ShapeF.mapAt {f : Forest} (h : ShapeF f) (t : Nat) (g : Meta → Items → Items) (hg : LocalShape g) :
    ShapeF (f.mapAt t g) := by
  constructor
  · intro r hr
    simp only [Forest.mapAt, List.mem_map] at hr
    obtain ⟨r0, hr0, rfl⟩ := hr
    exact updateAt_shape t g hg r0 (h.roots r0 hr0)
  · exact h.pool

theorem roots_update_shape_at (t : Nat) (g : Meta → Items → Items) (m : Meta) (its : Items)
    (hk : keysOk m.kind (g m its) = true) (hs : shapeOkItems (g m its) = true) :
    (rs : List Tree) → (∀ r ∈ rs, r.shapeOk = true) → (idsRoots rs).count t ≤ 1 →
      rs.findSome? (Tree.find? t) = some (.node m its) → ∀ r ∈ rs.map (Tree.updateAt t g), r.shapeOk = true
  | [], _, _, hf => by simp at hf
  | r0 :: rs, hsh, hc, hf => by
    simp only [idsRoots_cons, List.count_append] at hc
    have hc0 : r0.ids.count t ≤ 1 := by omega
    have hcr : (idsRoots rs).count t ≤ 1 := by omega
    simp only [List.findSome?_cons] at hf
    intro r hr
    simp only [List.map_cons, List.mem_cons] at hr
    split at hf
    · next s hsf =>
      cases hf
      rcases hr with rfl | hr
      · exact updateAt_shape_at t g m its hk hs r0 (hsh r0 (by simp)) hc0 hsf
      · have hmem := (find?_some t r0 _ hsf).2
        have h1 := count_pos_of_mem hmem
        have hr0 : (idsRoots rs).count t = 0 := by omega
        rw [roots_map_noop t g rs (not_mem_of_count_zero hr0)] at hr
        exact hsh r (by simp [hr])
    · next hsf =>
      rcases hr with rfl | hr
      · rw [(updateAt_count t g r0 hc0).1 hsf]; exact hsh r0 (by simp)
      · exact roots_update_shape_at t g m its hk hs rs (fun x hx => hsh x (by simp [hx])) hcr hf r hr

theorem ShapeF.mapAt_at {f : Forest} (h : ShapeF f) (hn : NB f) (t : Nat) (g : Meta → Items → Items) (m : Meta) (its : Items)
    (hfind : f.find? t = some (.node m its))
    (hk : keysOk m.kind (g m its) = true) (hs : shapeOkItems (g m its) = true) : ShapeF (f.mapAt t g) :=
  ⟨roots_update_shape_at t g m its hk hs f.roots h.roots (hn.nodup t) hfind, h.pool⟩

theorem ShapeF.addRoot {f : Forest} (h : ShapeF f) (t : Tree) (ht : t.shapeOk = true) : ShapeF (f.addRoot t) := by
  unfold Forest.addRoot
  split
  · constructor
    · intro r hr
      simp only [List.mem_append, List.mem_singleton] at hr
      rcases hr with hr | rfl
      · exact h.roots r hr
      · exact ht
    · exact h.pool
  · exact h

theorem ShapeF.addRoots (ts : List Tree) : ∀ {f : Forest}, ShapeF f → (∀ t ∈ ts, t.shapeOk = true) → ShapeF (addRoots f ts) := by
  induction ts with
  | nil => intro f h _; exact h
  | cons t ts ih =>
    intro f h hts
    simp only [Pg.Sym.addRoots, List.foldl_cons]
    exact ih (h.addRoot t (hts t (by simp))) (fun x hx => hts x (by simp [hx]))

theorem ShapeF.clearConsumed {f : Forest} (h : ShapeF f) : ShapeF f.clearConsumed := ⟨h.roots, h.pool⟩

/-! ### evaluation of offered values -/

theorem ShapeF.with_next {f : Forest} (h : ShapeF f) (n : Nat) : ShapeF { f with nextId := n } := ⟨h.roots, h.pool⟩

theorem pool_find_shape (id : Nat) : (rs : List Tree) → (∀ r ∈ rs, r.shapeOk = true) → ∀ s,
    rs.findSome? (Tree.find? id) = some s → s.shapeOk = true := roots_find_shape id

theorem relocateRef_shape (cfg : Cfg) (f : Forest) (pending par : Option Nat) (hobj : Bool) (p : List Key) (rid : Nat)
    (h : ShapeF f) : ShapeF (relocateRef cfg f pending par hobj p rid).1 ∧ (relocateRef cfg f pending par hobj p rid).2.shapeOk = true := by
  unfold relocateRef
  split
  · split
    · next t ht =>
      exact ⟨h.with_next _, clone_shape _ _ _ _ _ t (pool_find_shape rid f.pool h.pool t ht)⟩
    · exact ⟨h, rfl⟩
  · exact ⟨h, rfl⟩
  · next m its hfind =>
    have hs : (Tree.node m its).shapeOk = true := h.find rid _ hfind
    have hpool : ∀ r ∈ f.pool ++ [Tree.node m its], r.shapeOk = true := by
      intro r hr
      simp only [List.mem_append, List.mem_singleton] at hr
      rcases hr with hr | rfl
      · exact h.pool r hr
      · exact hs
    split
    · refine ⟨⟨h.roots, hpool⟩, ?_⟩
      rw [setParent_shape, setPath_shape, setPath_shape, setParent_shape]; exact hs
    · split
      · split
        · refine ⟨⟨?_, hpool⟩, ?_⟩
          · intro r hr
            simp only [Forest.removeRoot, List.mem_filter] at hr
            exact h.roots r hr.1
          · rw [setParent_shape, setPath_shape]; exact hs
        · refine ⟨⟨h.roots, h.pool⟩, ?_⟩
          rw [setParent_shape, setPath_shape]; exact hs
      · exact ⟨h.with_next _, clone_shape _ _ _ _ _ _ hs⟩

theorem normObj_keys (cls : Nat) (its : Items) : keysOf (normObjItems cls its) = clsFields cls := by
  unfold normObjItems keysOf
  simp [List.map_map, Function.comp_def]

theorem getKey_mem {its : Items} {k : Key} {c : Tree} (h : getKey its k = some c) : ∃ kv ∈ its, kv.2 = c := by
  unfold getKey at h
  cases hf : its.find? (fun kv => kv.1 == k) with
  | none => rw [hf] at h; cases h
  | some kv =>
    rw [hf] at h
    simp only [Option.map_some, Option.some.injEq] at h
    exact ⟨kv, List.mem_of_find?_eq_some hf, h⟩

theorem getKey_shape {its : Items} (hs : shapeOkItems its = true) (k : Key) :
    ((getKey its k).getD (.leaf .none)).shapeOk = true := by
  cases hg : getKey its k with
  | none => rfl
  | some c =>
    obtain ⟨kv, hkv, rfl⟩ := getKey_mem hg
    rw [shapeOkItems_iff] at hs
    exact hs kv hkv

theorem normObj_shape (cls : Nat) (its : Items) (hs : shapeOkItems its = true) : shapeOkItems (normObjItems cls its) = true := by
  rw [shapeOkItems_iff]
  intro kv hkv
  simp only [normObjItems, List.mem_map] at hkv
  obtain ⟨k, _, rfl⟩ := hkv
  exact getKey_shape hs k

theorem adoptItems_shape (b : Bool) (its : Items) (hs : shapeOkItems its = true) :
    shapeOkItems (its.map (fun kv => (kv.1, adoptPartial true b kv.2))) = true := by
  rw [shapeOkItems_iff] at hs ⊢
  intro kv hkv
  simp only [List.mem_map] at hkv
  obtain ⟨kv0, h0, rfl⟩ := hkv
  simp only [adopt_shape]; exact hs kv0 h0

mutual
  theorem evalVE_shape (cfg : Cfg) (pending : Option Nat) : (ve : VE) → ∀ (f : Forest) (par : Option Nat)
      (hobj hpart : Bool) (p : List Key), ShapeF f → ve.keysDistinct = true →
      ShapeF (evalVE cfg f pending par hobj hpart p ve).1 ∧ (evalVE cfg f pending par hobj hpart p ve).2.shapeOk = true
    | .atom a, f, _, _, _, _, h, _ => by simp only [evalVE]; exact ⟨h, rfl⟩
    | .fresh, f, _, _, _, _, h, _ => by simp only [evalVE]; exact ⟨h.with_next _, rfl⟩
    | .freshTuple n, f, _, _, _, _, h, _ => by simp only [evalVE]; exact ⟨h.with_next _, rfl⟩
    | .mkRef tgt, f, _, _, _, _, h, _ => by
      simp only [evalVE]
      exact ⟨h.with_next _, by simp [Tree.shapeOk, keysOk, keysOf, nodupKeys, shapeOkItems]⟩
    | .ref id, f, par, hobj, _, p, h, _ => by
      simp only [evalVE]
      exact relocateRef_shape cfg f pending par hobj p id h
    | .typedList items, f, par, _, _, p, h, hk => by
      simp only [VE.keysDistinct] at hk
      simp only [evalVE]
      have ih := evalItems_shape cfg pending items { f with nextId := f.nextId + 1 } f.nextId false false p (some 0)
        (h.with_next _) hk
      refine ⟨ih.1, ?_⟩
      rw [shapeOk_node]
      exact ⟨ih.2.2.1 0 rfl, ih.2.1⟩
    | .node kind sl aw pt items, f, par, hobj, hpart, p, h, hk => by
      simp only [VE.keysDistinct, Bool.and_eq_true] at hk
      cases kind with
      | dict =>
        simp only [evalVE]
        have ih := evalItems_shape cfg pending items { f with nextId := f.nextId + 1 } f.nextId false
          (if (par.isSome && !sl && aw && !pt && !false) = true then hpart else pt) p none (h.with_next _) hk.2
        refine ⟨ih.1, ?_⟩
        rw [sealIf_shape, shapeOk_node]
        refine ⟨?_, ih.2.1⟩
        show nodupKeys (keysOf _) = true
        rw [ih.2.2.2 rfl]; exact hk.1
      | list =>
        simp only [evalVE]
        have ih := evalItems_shape cfg pending items { f with nextId := f.nextId + 1 } f.nextId false
          (if (par.isSome && !sl && aw && !pt && !false) = true then hpart else pt) p (some 0) (h.with_next _) hk.2
        refine ⟨ih.1, ?_⟩
        rw [sealIf_shape, shapeOk_node]
        exact ⟨ih.2.2.1 0 rfl, ih.2.1⟩
      | obj cls =>
        simp only [evalVE]
        have ih := evalItems_shape cfg pending items { f with nextId := f.nextId + 1 } f.nextId true
          (if (par.isSome && !sl && aw && !pt && !true) = true then hpart else pt) p none (h.with_next _) hk.2
        refine ⟨ih.1, ?_⟩
        rw [sealIf_shape, shapeOk_node]
        refine ⟨?_, normObj_shape cls _ (adoptItems_shape _ _ ih.2.1)⟩
        show nodupKeys (keysOf _) = true
        rw [normObj_keys, nodupKeys_iff]; exact clsFields_nodup cls
  theorem evalItems_shape (cfg : Cfg) (pending : Option Nat) : (items : List (Key × VE)) → ∀ (f : Forest) (h : Nat)
      (hobj hpart : Bool) (p : List Key) (pos : Option Nat), ShapeF f → keysDistinctItems items = true →
      ShapeF (evalItems cfg f pending h hobj hpart p pos items).1 ∧
      shapeOkItems (evalItems cfg f pending h hobj hpart p pos items).2 = true ∧
      (∀ n, pos = some n → positional n (keysOf (evalItems cfg f pending h hobj hpart p pos items).2) = true) ∧
      (pos = none → keysOf (evalItems cfg f pending h hobj hpart p pos items).2 = items.map (·.1))
    | [], f, _, _, _, _, _, hf, _ => by
      simp only [evalItems]
      exact ⟨hf, rfl, fun _ _ => rfl, fun _ => rfl⟩
    | (k0, v) :: r, f, h, hobj, hpart, p, pos, hf, hk => by
      simp only [keysDistinctItems, Bool.and_eq_true] at hk
      simp only [evalItems]
      have a := evalVE_shape cfg pending v f (some h) hobj hpart
        (p ++ [match pos with | some n => Key.i n | none => k0]) hf hk.1
      have b := evalItems_shape cfg pending r _ h hobj hpart p (pos.map (· + 1)) a.1 hk.2
      refine ⟨b.1, ?_, ?_, ?_⟩
      · simp only [shapeOkItems, Bool.and_eq_true]; exact ⟨a.2, b.2.1⟩
      · intro n hn
        subst hn
        simp only [keysOf_cons, positional, Bool.and_eq_true, beq_self_eq_true, true_and]
        exact b.2.2.1 (n + 1) rfl
      · intro hn
        subst hn
        simp only [keysOf_cons, List.map_cons]
        rw [b.2.2.2 rfl]
end

/-! ### the write primitives -/

theorem shapeOkItems_setKey (k : Key) (v : Tree) (hv : v.shapeOk = true) : (its : Items) → shapeOkItems its = true →
    shapeOkItems (setKey k v its) = true
  | [], _ => by simp [setKey, shapeOkItems, hv]
  | (k', c) :: r, hs => by
    simp only [shapeOkItems, Bool.and_eq_true] at hs
    unfold setKey
    split
    · simp only [shapeOkItems, Bool.and_eq_true]; exact ⟨hv, hs.2⟩
    · simp only [shapeOkItems, Bool.and_eq_true]; exact ⟨hs.1, shapeOkItems_setKey k v hv r hs.2⟩

theorem keysOf_length (its : Items) : (keysOf its).length = its.length := by simp [keysOf]

theorem positional_append : (n : Nat) → (ks : List Key) → positional n ks = true →
    positional n (ks ++ [Key.i ((n + ks.length : Nat) : Int)]) = true
  | n, [], _ => by simp [positional]
  | n, k :: ks, h => by
    simp only [positional, Bool.and_eq_true] at h
    simp only [List.cons_append, positional, Bool.and_eq_true, List.length_cons]
    refine ⟨h.1, ?_⟩
    have := positional_append (n + 1) ks h.2
    have he : n + 1 + ks.length = n + (ks.length + 1) := by omega
    rw [he] at this; exact this

theorem getKey_shape_some {its : Items} (hs : shapeOkItems its = true) {k : Key} {c : Tree} (h : getKey its k = some c) :
    c.shapeOk = true := by
  have := getKey_shape hs k
  rw [h] at this; exact this

theorem listReplace_shape (cfg : Cfg) (f : Forest) (m : Meta) (its : Items) (index : Int) (pos : Nat) (old : Tree) (ve : VE)
    (hn : NB f) (hs : ShapeF f) (hfind : f.find? m.id = some (.node m its)) (hold : getKey its (Key.i pos) = some old)
    (hk : ve.keysDistinct = true) :
    ∀ g, listReplace cfg f m index pos old ve = some g → ShapeF g := by
  intro g hg
  unfold listReplace at hg
  simp only at hg
  split at hg
  · cases hg
  · next hsv =>
    cases hg
    have hm := evalVE_mono cfg none ve f (some m.id) false m.part (m.path ++ [Key.i index])
    have hv := evalVE_shape cfg none ve f (some m.id) false m.part (m.path ++ [Key.i index]) hs hk
    have hn1 := hn.of_mono hm
    have hf1 := survive f _ hn hm m.id m its hfind hsv
    have hnode := hs.node m.id m its hfind
    apply ShapeF.addRoot
    · apply hv.1.mapAt_at hn1 m.id _ m its hf1
      · unfold storeKey
        rw [keysOk_congr _ (keysOf_setKey_mem _ _ its (mem_keysOf_of_getKey hold))]; exact hnode.1
      · unfold storeKey
        exact shapeOkItems_setKey _ _ (by rw [setPath_shape]; exact hv.2) its hnode.2
    · rw [setParent_shape]; exact getKey_shape_some hnode.2 hold

theorem insert_localShape (cfg : Cfg) (n : Nat) (v : Tree) (hv : v.shapeOk = true) :
    LocalShape (fun m' xs => if cfg.reindexOnMutate = true then reindex m' (insertAt n v xs) else insertAt n v xs) := by
  intro m its _ hs
  have h1 : keysOk m.kind (insertAt n v its) = true := keysOk_renumber _ _
  have h2 : shapeOkItems (insertAt n v its) = true := by
    unfold insertAt
    apply shapeOkItems_renumber
    apply shapeOkItems_append (shapeOkItems_append (shapeOkItems_sublist (List.take_sublist _ _) hs) ?_)
      (shapeOkItems_sublist (List.drop_sublist _ _) hs)
    simp [shapeOkItems, hv]
  split
  · exact ⟨by rw [keysOk_congr _ (keysOf_reindex _ _)]; exact h1, by rw [reindex_shape]; exact h2⟩
  · exact ⟨h1, h2⟩

theorem listInsert_shape (cfg : Cfg) (f : Forest) (m : Meta) (its : Items) (index : Int) (len : Nat) (ve : VE)
    (hs : ShapeF f) (hfind : f.find? m.id = some (.node m its)) (hk : ve.keysDistinct = true) :
    ∀ g, listInsert cfg f m its index len ve = some g → ShapeF g := by
  intro g hg
  unfold listInsert at hg
  simp only at hg
  have hnode := hs.node m.id m its hfind
  split at hg
  · next own hown =>
    split at hg
    · cases hg
    · cases hg
      have hos : own.shapeOk = true := by
        split at hown
        · unfold ownElement at hown
          split at hown
          · cases hf : its.find? (fun kv => kv.2.id? == some _) with
            | none => rw [hf] at hown; cases hown
            | some kv =>
              rw [hf] at hown
              simp only [Option.map_some, Option.some.injEq] at hown
              subst hown
              exact (shapeOkItems_iff its).mp hnode.2 kv (List.mem_of_find?_eq_some hf)
          · cases hown
        · cases hown
      exact (hs.with_next _).mapAt m.id _ (insert_localShape cfg _ _ (clone_shape _ _ _ _ _ _ hos))
  · split at hg
    · cases hg
    · cases hg
      have hv := evalVE_shape cfg none ve f (some m.id) false m.part (m.path ++ [Key.i index]) hs hk
      exact hv.1.mapAt m.id _ (insert_localShape cfg _ _ hv.2)

theorem listAppend_shape (cfg : Cfg) (f : Forest) (m : Meta) (its : Items) (ve : VE)
    (hn : NB f) (hs : ShapeF f) (hfind : f.find? m.id = some (.node m its)) (hkind : m.kind = .list)
    (hk : ve.keysDistinct = true) :
    ∀ g, listAppend cfg f m its.length ve = some g → ShapeF g := by
  intro g hg
  unfold listAppend at hg
  simp only at hg
  split at hg
  · cases hg
  · next hsv =>
    cases hg
    have hm := evalVE_mono cfg none ve f (some m.id) false m.part (m.path ++ [Key.i (its.length : Int)])
    have hv := evalVE_shape cfg none ve f (some m.id) false m.part (m.path ++ [Key.i (its.length : Int)]) hs hk
    have hn1 := hn.of_mono hm
    have hf1 := survive f _ hn hm m.id m its hfind hsv
    have hnode := hs.node m.id m its hfind
    apply hv.1.mapAt_at hn1 m.id _ m its hf1
    · rw [hkind] at hnode ⊢
      unfold keysOk at hnode ⊢
      simp only at hnode ⊢
      rw [keysOf_append]
      have := positional_append 0 (keysOf its) hnode.1
      rw [keysOf_length, Nat.zero_add] at this
      exact this
    · apply shapeOkItems_append hnode.2
      simp only [shapeOkItems, Bool.and_true]
      rw [setPath_shape]; exact hv.2

theorem rawSetList_shape (cfg : Cfg) (f : Forest) (m : Meta) (its : Items) (key : Int) (ins : Bool) (ve : VE)
    (hn : NB f) (hs : ShapeF f) (hfind : f.find? m.id = some (.node m its)) (hk : ve.keysDistinct = true) :
    ∀ r, rawSetList cfg f m its key ins ve = .ok r → ShapeF r.1 := by
  intro r hr
  have hkind := rawSetList_kind cfg f m its key ins ve r hr
  rcases rawSetList_cases cfg f m its key ins ve r hr with rfl | ⟨i, p, old, hold, h⟩ | ⟨i, l, h⟩ | h
  · exact hs
  · exact listReplace_shape cfg f m its i p old ve hn hs hfind hold hk _ h
  · exact listInsert_shape cfg f m its i l ve hs hfind hk _ h
  · exact listAppend_shape cfg f m its ve hn hs hfind hkind hk _ h

theorem keysOk_nonlist {kind : Kind} (hk : kind ≠ .list) (its : Items) : keysOk kind its = nodupKeys (keysOf its) := by
  cases kind with
  | list => exact absurd rfl hk
  | dict => rfl
  | obj c => rfl

theorem dictDetached_shape {its : Items} (hs : shapeOkItems its = true) (key : Key) :
    ∀ t ∈ (dictDetached its key).toList, t.shapeOk = true := by
  intro t ht
  unfold dictDetached at ht
  simp only [Option.mem_toList] at ht
  split at ht
  · next om oits hold =>
    cases ht
    rw [setPath_shape, setParent_shape]; exact getKey_shape_some hs hold
  · cases ht

theorem dictErase_shape (f : Forest) (m : Meta) (its : Items) (key : Key) (hn : NB f) (hs : ShapeF f)
    (hfind : f.find? m.id = some (.node m its)) (hkind : m.kind ≠ .list) : ShapeF (dictErase f m its key) := by
  unfold dictErase
  have hnode := hs.node m.id m its hfind
  apply ShapeF.addRoots
  · apply hs.mapAt_at hn m.id _ m its hfind
    · rw [keysOk_nonlist hkind] at hnode ⊢
      exact nodupKeys_sublist (eraseKey_sublist key its) hnode.1
    · exact shapeOkItems_sublist (eraseKey_sublist key its) hnode.2
  · exact dictDetached_shape hnode.2 key

theorem dictStoreCore_shape (cfg : Cfg) (f : Forest) (m : Meta) (its : Items) (key : Key) (ve : VE)
    (hn : NB f) (hs : ShapeF f) (hfind : f.find? m.id = some (.node m its)) (hkind : m.kind ≠ .list)
    (hk : ve.keysDistinct = true) :
    ∀ g, dictStoreCore cfg f m its key ve = some g → ShapeF g := by
  intro g hg
  unfold dictStoreCore at hg
  simp only at hg
  split at hg
  · cases hg
  next hsv =>
  cases hg
  have hm := evalVE_mono cfg ((dictDetached its key).bind Tree.id?) ve f (some m.id) (isObjKind m.kind) m.part (m.path ++ [key])
  have hv := evalVE_shape cfg ((dictDetached its key).bind Tree.id?) ve f (some m.id) (isObjKind m.kind) m.part
    (m.path ++ [key]) hs hk
  have hn1 := hn.of_mono hm
  have hf1 := survive f _ hn hm m.id m its hfind hsv
  have hnode := hs.node m.id m its hfind
  have h3 : ShapeF ((evalVE cfg f ((dictDetached its key).bind Tree.id?) (some m.id) (isObjKind m.kind) m.part
      (m.path ++ [key]) ve).1.mapAt m.id (storeKey key key (adoptPartial (isObjKind m.kind) m.part
        (evalVE cfg f ((dictDetached its key).bind Tree.id?) (some m.id) (isObjKind m.kind) m.part
      (m.path ++ [key]) ve).2))).clearConsumed := by
    apply ShapeF.clearConsumed
    apply hv.1.mapAt_at hn1 m.id _ m its hf1
    · unfold storeKey
      rw [keysOk_nonlist hkind] at hnode ⊢
      exact nodupKeys_setKey _ _ its hnode.1
    · unfold storeKey
      exact shapeOkItems_setKey _ _ (by rw [setPath_shape, adopt_shape]; exact hv.2) its hnode.2
  split
  · exact h3
  · exact ShapeF.addRoots _ h3 (dictDetached_shape hnode.2 key)

theorem dictStore_shape (cfg : Cfg) (f : Forest) (m : Meta) (its : Items) (key : Key) (ve : VE)
    (hn : NB f) (hs : ShapeF f) (hfind : f.find? m.id = some (.node m its)) (hkind : m.kind ≠ .list)
    (hk : ve.keysDistinct = true) :
    ∀ g, dictStore cfg f m its key ve = some g → ShapeF g := by
  intro g hg
  unfold dictStore at hg
  exact dictStoreCore_shape cfg f.clearConsumed m its key ve ⟨hn.nodup, hn.bound⟩ hs.clearConsumed hfind hkind hk g hg

theorem rawSetDict_shape (cfg : Cfg) (f : Forest) (m : Meta) (its : Items) (key : Key) (ve : VE)
    (hn : NB f) (hs : ShapeF f) (hfind : f.find? m.id = some (.node m its)) (hkind : m.kind ≠ .list)
    (hk : ve.keysDistinct = true) :
    ∀ r, rawSetDict cfg f m its key ve = .ok r → ShapeF r.1 := by
  intro r hr
  rcases rawSetDict_cases cfg f m its key ve r hr with rfl | rfl | h
  · exact hs
  · exact dictErase_shape f m its key hn hs hfind hkind
  · refine dictStore_shape cfg f m its key _ hn hs hfind hkind ?_ _ h
    split
    · rfl
    · exact hk

theorem rawSet_shape (cfg : Cfg) (f : Forest) (t : Nat) (key : Key) (ins : Bool) (ve : VE) (hn : NB f) (hs : ShapeF f)
    (hk : ve.keysDistinct = true) :
    ∀ r, rawSet cfg f t key ins ve = .ok r → ShapeF r.1 := by
  intro r hr
  unfold rawSet at hr
  split at hr
  · next m its hfind =>
    have hid := Forest.find?_id f t m its hfind
    have hfind' : f.find? m.id = some (.node m its) := by rw [hid]; exact hfind
    cases hkind : m.kind with
    | list =>
      cases key with
      | i idx => simp only [hkind] at hr; exact rawSetList_shape cfg f m its idx ins ve hn hs hfind' hk r hr
      | s n => simp only [hkind] at hr; cases hr
    | dict =>
      simp only [hkind] at hr
      exact rawSetDict_shape cfg f m its key ve hn hs hfind' (by rw [hkind]; exact fun h => Kind.noConfusion h) hk r hr
    | obj c =>
      simp only [hkind] at hr
      exact rawSetDict_shape cfg f m its key ve hn hs hfind' (by rw [hkind]; exact fun h => Kind.noConfusion h) hk r hr
  · cases hr

end Pg.Sym
