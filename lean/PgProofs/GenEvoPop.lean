/- C15 helper lemmas: Evolution recovers its population (repaired source), for all runs.
   Key fact: the fed-back entries of a history, stably sorted by feedback sequence number, are
   exactly the entries in the order their feedback arrived (uniqueness of sorted permutations). -/
import PgProofs.GenEvo
import Mathlib.Data.List.Sort
namespace Pg.C15
open List

def fedOf (h : Hist) : Hist := h.filter (fun e => e.2.isSome)

def leFb (a b : Item × Option Int) : Prop := keyLe (fbKey a) (fbKey b) = true

theorem keyLe_total (a b : Nat × Nat) : keyLe a b = true ∨ keyLe b a = true := by
  simp only [keyLe, Bool.or_eq_true, decide_eq_true_eq, Bool.and_eq_true]; omega

theorem keyLe_trans {a b c : Nat × Nat} (h1 : keyLe a b = true) (h2 : keyLe b c = true) : keyLe a c = true := by
  simp only [keyLe, Bool.or_eq_true, decide_eq_true_eq, Bool.and_eq_true] at *; omega

theorem keyLe_antisymm {a b : Nat × Nat} (h1 : keyLe a b = true) (h2 : keyLe b a = true) : a = b := by
  simp only [keyLe, Bool.or_eq_true, decide_eq_true_eq, Bool.and_eq_true] at *
  apply Prod.ext <;> omega

theorem keyLt_le {a b : Nat × Nat} (h : keyLt a b = true) : keyLe a b = true := by
  simp only [keyLe, keyLt, Bool.or_eq_true, decide_eq_true_eq, Bool.and_eq_true] at *; omega

theorem not_keyLt_le {a b : Nat × Nat} (h : ¬ keyLt a b = true) : keyLe b a = true := by
  simp only [keyLe, keyLt, Bool.or_eq_true, decide_eq_true_eq, Bool.and_eq_true] at *; omega

theorem perm_insertSorted (x : Item × Option Int) (h : Hist) : insertSorted x h ~ x :: h := by
  induction h with
  | nil => exact Perm.refl _
  | cons y ys ih =>
    simp only [insertSorted]
    split
    · exact (Perm.cons y ih).trans (Perm.swap x y ys)
    · exact Perm.refl _

theorem perm_sortByFeedback (h : Hist) : sortByFeedback h ~ h := by
  induction h with
  | nil => exact Perm.refl _
  | cons x xs ih => exact (perm_insertSorted x _).trans (Perm.cons x ih)

theorem sorted_insertSorted (x : Item × Option Int) (h : Hist) (hs : h.Pairwise leFb) :
    (insertSorted x h).Pairwise leFb := by
  induction h with
  | nil => simp [insertSorted]
  | cons y ys ih =>
    rw [pairwise_cons] at hs
    simp only [insertSorted]
    split
    · rename_i hlt
      have hle : leFb y x := keyLt_le hlt
      rw [pairwise_cons]
      refine ⟨?_, ih hs.2⟩
      intro e he
      rcases (mem_insertSorted x e ys).mp he with rfl | he
      · exact hle
      · exact hs.1 e he
    · rename_i hlt
      have hxy : leFb x y := not_keyLt_le hlt
      rw [pairwise_cons]
      refine ⟨?_, pairwise_cons.mpr hs⟩
      intro e he
      rcases mem_cons.mp he with rfl | he
      · exact hxy
      · exact keyLe_trans hxy (hs.1 e he)

theorem sorted_sortByFeedback (h : Hist) : (sortByFeedback h).Pairwise leFb := by
  induction h with
  | nil => simp [sortByFeedback]
  | cons x xs ih => exact sorted_insertSorted x _ ih

/-- Uniqueness: a sorted list with pairwise distinct keys that is a permutation of the fed-back
entries IS the fed-back part of the sorted history. -/
theorem fedOf_sort_eq (h l : Hist) (hperm : fedOf h ~ l) (hsorted : l.Pairwise leFb)
    (hinj : ∀ a ∈ l, ∀ b ∈ l, fbKey a = fbKey b → a = b) : fedOf (sortByFeedback h) = l := by
  have hp : fedOf (sortByFeedback h) ~ l := ((perm_sortByFeedback h).filter _).trans hperm
  refine Perm.eq_of_pairwise (le := leFb) ?_ ((sorted_sortByFeedback h).filter _) hsorted hp
  intro a b ha hb hab hba
  exact hinj a (hp.subset ha) b hb (keyLe_antisymm hab hba)

theorem fedOf_setAt_perm (h : Hist) (i : Nat) (it : Item) (x : Item × Option Int) (hx : x.2.isSome = true)
    (hi : h[i]? = some (it, none)) : fedOf (setAt h i x) ~ fedOf h ++ [x] := by
  induction h generalizing i with
  | nil => simp at hi
  | cons y ys ih =>
    cases i with
    | zero =>
      simp at hi
      subst hi
      simp only [setAt, fedOf, filter_cons, hx, ↓reduceIte, Option.isSome_none, Bool.false_eq_true]
      exact (perm_append_singleton x _).symm
    | succ n =>
      simp at hi
      have := ih n hi
      simp only [setAt, fedOf, filter_cons] at this ⊢
      split
      · exact Perm.cons y this
      · exact this

theorem fedOf_append_unfed (h : Hist) (it : Item) : fedOf (h ++ [(it, none)]) = fedOf h := by
  simp [fedOf, filter_append]

theorem fedCount_eq_length_fedOf (h : Hist) : fedCount h = (fedOf h).length := rfl

/-! ### the population as a fold over the fed-back entries in feedback order -/

def popStep (env : Env) (acc : List Item × Nat) (it : Item) : List Item × Nat :=
  (env.update (acc.1 ++ [it]) acc.2, acc.2 + 1)

def popOf (env : Env) (start : List Item × Nat) (xs : List Item) : List Item × Nat :=
  xs.foldl (popStep env) start

theorem evoRecoverStep_none (env : Env) (hg : env.q.evoInitGenBump = false) (a : Algo)
    (np nf : Nat) (si : St) (ini : Bool) (g : Nat) (pop pend : List Item) (it : Item)
    (hok : EntryOk (it, none)) :
    ∃ g', evoRecoverStep env a (.evolution np nf si ini g pop pend) (it, none)
      = .ok (.evolution (np + 1) nf si ini g' pop pend) := by
  obtain ⟨⟨hgid, hinit⟩, _⟩ := hok
  obtain ⟨gid, hgid'⟩ := Option.isSome_iff_exists.mp hgid
  obtain ⟨isInit, hinit'⟩ := Option.isSome_iff_exists.mp hinit
  have hgid'' : it.gid = some gid := hgid'
  have hinit'' : it.initial = some isInit := hinit'
  simp only [evoRecoverStep, St.bump, hgid'', hinit'', hg, Bool.false_or]
  split <;> exact ⟨_, rfl⟩

theorem evoRecoverStep_some (env : Env) (hg : env.q.evoInitGenBump = false) (a : Algo)
    (np nf : Nat) (si : St) (ini : Bool) (g : Nat) (pop pend : List Item) (it : Item) (r : Int)
    (hok : EntryOk (it, some r)) :
    ∃ g', evoRecoverStep env a (.evolution np nf si ini g pop pend) (it, some r)
      = .ok (.evolution (np + 1) (nf + 1) si ini g' (env.update (pop ++ [it]) nf) pend) := by
  obtain ⟨⟨hgid, hinit⟩, hfed⟩ := hok
  obtain ⟨gid, hgid'⟩ := Option.isSome_iff_exists.mp hgid
  obtain ⟨isInit, hinit'⟩ := Option.isSome_iff_exists.mp hinit
  have hgid'' : it.gid = some gid := hgid'
  have hinit'' : it.initial = some isInit := hinit'
  obtain ⟨hfb, hrw⟩ := hfed r rfl
  obtain ⟨sq, hsq⟩ := Option.isSome_iff_exists.mp hfb
  have hsq' : it.fbseq = some sq := hsq
  have hrw' : it.reward = some r := hrw
  simp only [evoRecoverStep, St.bump, hgid'', hinit'', hg, Bool.false_or, hsq', hrw', ↓reduceIte]
  split <;> exact ⟨_, rfl⟩

theorem evoRecover_loop_pop (env : Env) (hg : env.q.evoInitGenBump = false) (a : Algo)
    (h : Hist) (hok : ∀ e ∈ h, EntryOk e) (np nf : Nat) (si : St) (ini : Bool) (g : Nat) (pop pend : List Item) :
    ∃ g', foldE (evoRecoverStep env a) (.evolution np nf si ini g pop pend) h
      = .ok (.evolution (np + h.length) (popOf env (pop, nf) ((fedOf h).map (·.1))).2 si ini g'
              (popOf env (pop, nf) ((fedOf h).map (·.1))).1 pend) := by
  induction h generalizing np nf g pop with
  | nil => exact ⟨g, by simp [foldE, fedOf, popOf]⟩
  | cons e h ih =>
    obtain ⟨it, r⟩ := e
    have hrest : ∀ e ∈ h, EntryOk e := fun e he => hok e (mem_cons_of_mem _ he)
    cases r with
    | none =>
      obtain ⟨g1, h1⟩ := evoRecoverStep_none env hg a np nf si ini g pop pend it (hok _ mem_cons_self)
      obtain ⟨g', hh⟩ := ih hrest (np + 1) nf g1 pop
      refine ⟨g', ?_⟩
      simp only [foldE, h1, hh, length_cons]
      have : fedOf ((it, none) :: h) = fedOf h := by simp [fedOf]
      rw [this]
      congr 2; omega
    | some r =>
      obtain ⟨g1, h1⟩ := evoRecoverStep_some env hg a np nf si ini g pop pend it r (hok _ mem_cons_self)
      obtain ⟨g', hh⟩ := ih hrest (np + 1) (nf + 1) g1 (env.update (pop ++ [it]) nf)
      refine ⟨g', ?_⟩
      simp only [foldE, h1, hh, length_cons]
      have : fedOf ((it, some r) :: h) = (it, some r) :: fedOf h := by simp [fedOf]
      rw [this]
      simp only [map_cons, popOf, foldl_cons, popStep]
      congr 2; omega

/-! ### live invariant: the population is the fold over the sorted fed-back entries -/

def FbBound (h : Hist) (n : Nat) : Prop := ∀ e ∈ fedOf h, ∃ s, e.1.fbseq = some s ∧ s ≤ n

def FbInj (h : Hist) : Prop := ∀ a ∈ fedOf h, ∀ b ∈ fedOf h, a.1.fbseq = b.1.fbseq → a = b

def EvoPopInv (env : Env) (l : Live) : Prop :=
  ∃ si ini g pop pend,
    l.st = .evolution l.hist.length (fedCount l.hist) si ini g pop pend
    ∧ (∀ it ∈ pend, ItemOk it)
    ∧ (∀ e ∈ l.hist, EntryOk e)
    ∧ popOf env ([], 0) ((fedOf (sortByFeedback l.hist)).map (·.1)) = (pop, fedCount l.hist)
    ∧ FbBound l.hist (fedCount l.hist)
    ∧ FbInj l.hist

theorem mem_fedOf_sort {h : Hist} {a : Item × Option Int} (ha : a ∈ fedOf (sortByFeedback h)) : a ∈ fedOf h :=
  ((perm_sortByFeedback h).filter _).subset ha

theorem key_inj_of (h : Hist) (n : Nat) (hb : FbBound h n) (hi : FbInj h) :
    ∀ a ∈ fedOf (sortByFeedback h), ∀ b ∈ fedOf (sortByFeedback h), fbKey a = fbKey b → a = b := by
  intro a ha b hb' hk
  have ha' := mem_fedOf_sort ha
  have hb'' := mem_fedOf_sort hb'
  obtain ⟨sa, hsa, _⟩ := hb a ha'
  obtain ⟨sb, hsb, _⟩ := hb b hb''
  apply hi a ha' b hb''
  simp only [fbKey, hsa, hsb, Prod.mk.injEq, true_and] at hk
  rw [hsa, hsb, hk]

theorem evoPopInv_step (env : Env) (init : Algo) (hb : IsBase init) (initSize : Option Nat) (l : Live) (e : Event)
    (hl : EvoPopInv env l) : EvoPopInv env (step env (.evolution init initSize) l e) := by
  obtain ⟨st, hist⟩ := l
  obtain ⟨si, ini, g, pop, pend, hst, hpend, hent, hpop, hbound, hinj⟩ := hl
  simp only at hst hent hpop hbound hinj
  subst hst
  cases e with
  | propose =>
    have hp := propose_evolution_ok env init initSize hist.length (fedCount hist) si ini g pop pend hpend
    simp only [step]
    cases hr : propose env (.evolution init initSize) (.evolution hist.length (fedCount hist) si ini g pop pend) with
    | mk r s' =>
      rw [hr] at hp
      cases r with
      | error e =>
        obtain ⟨si', ini', g', pend', hs', hp'⟩ := hp
        exact ⟨si', ini', g', pop, pend', hs', hp', hent, hpop, hbound, hinj⟩
      | ok it =>
        obtain ⟨hit, si', ini', g', pend', hs', hp'⟩ := hp
        have hfc : fedCount (hist ++ [(it, none)]) = fedCount hist := by
          rw [fedCount_append]; simp [fedCount]
        have hfo : fedOf (hist ++ [(it, none)]) = fedOf hist := fedOf_append_unfed hist it
        have hsort : fedOf (sortByFeedback (hist ++ [(it, none)])) = fedOf (sortByFeedback hist) := by
          apply fedOf_sort_eq
          · rw [hfo]; exact ((perm_sortByFeedback hist).filter _).symm
          · exact (sorted_sortByFeedback hist).filter _
          · exact key_inj_of hist _ hbound hinj
        refine ⟨si', ini', g', pop, pend', ?_, hp', ?_, ?_, ?_, ?_⟩
        · simp only [hs', length_append, length_singleton, hfc]
        · intro e he
          simp only [mem_append, mem_singleton] at he
          rcases he with he | rfl
          · exact hent e he
          · exact ⟨hit, fun r hr => by simp at hr⟩
        · simp only [hsort, hfc]; exact hpop
        · simp only [FbBound, hfo, hfc]; exact hbound
        · simp only [FbInj, hfo]; exact hinj
  | feedback i r =>
    simp only [step]
    cases hi : hist[i]? with
    | none => exact ⟨si, ini, g, pop, pend, rfl, hpend, hent, hpop, hbound, hinj⟩
    | some e =>
      obtain ⟨it, ro⟩ := e
      cases ro with
      | some _ => exact ⟨si, ini, g, pop, pend, rfl, hpend, hent, hpop, hbound, hinj⟩
      | none =>
        have hmem : (it, none) ∈ hist := mem_of_getElem? hi
        obtain ⟨hitok, _⟩ := hent _ hmem
        simp only
        rcases feedback_evolution_form env init hb initSize hist.length (fedCount hist) si ini g pop pend it
            (it.reward.getD r) hitok with ⟨e, he⟩ | ⟨it2, si', ini', g', hf, hseq, hrew, hgid, hinit, _⟩
        · rw [he]
          exact ⟨si, ini, g, pop, pend, rfl, hpend, hent, hpop, hbound, hinj⟩
        · rw [hf]
          simp only
          have hx : ((it2, some (it.reward.getD r)) : Item × Option Int).2.isSome = true := rfl
          have hP := fedOf_setAt_perm hist i it (it2, some (it.reward.getD r)) hx hi
          have hfc := fedCount_setAt hist i it it2 (it.reward.getD r) hi
          have hle : ∀ a ∈ fedOf (sortByFeedback hist), leFb a (it2, some (it.reward.getD r)) := by
            intro a ha
            obtain ⟨s, hs, hsn⟩ := hbound a (mem_fedOf_sort ha)
            simp only [leFb, fbKey, hs, hseq, keyLe, Nat.lt_irrefl, decide_false, true_and, Bool.false_or,
              decide_eq_true_eq, Bool.and_eq_true]
            omega
          have hsort : fedOf (sortByFeedback (setAt hist i (it2, some (it.reward.getD r))))
              = fedOf (sortByFeedback hist) ++ [(it2, some (it.reward.getD r))] := by
            apply fedOf_sort_eq
            · exact hP.trans (Perm.append_right _ ((perm_sortByFeedback hist).filter _).symm)
            · rw [pairwise_append]
              exact ⟨(sorted_sortByFeedback hist).filter _, pairwise_singleton _ _,
                fun a ha b hb => by rw [mem_singleton.mp hb]; exact hle a ha⟩
            · intro a ha b hb hk
              rw [mem_append, mem_singleton] at ha hb
              rcases ha with ha | rfl <;> rcases hb with hb | rfl
              · exact key_inj_of hist _ hbound hinj a ha b hb hk
              · obtain ⟨s, hs, hsn⟩ := hbound a (mem_fedOf_sort ha)
                simp only [fbKey, hs, hseq, Prod.mk.injEq, true_and] at hk
                omega
              · obtain ⟨s, hs, hsn⟩ := hbound b (mem_fedOf_sort hb)
                simp only [fbKey, hs, hseq, Prod.mk.injEq, true_and] at hk
                omega
              · rfl
          refine ⟨si', ini', g', env.update (pop ++ [it2]) (fedCount hist), pend, ?_, hpend, ?_, ?_, ?_, ?_⟩
          · simp only [length_setAt, hfc]
          · intro e he
            rcases mem_setAt _ _ _ _ he with rfl | he
            · refine ⟨⟨?_, ?_⟩, fun r' hr' => ?_⟩
              · show it2.gid.isSome = true
                rw [hgid]; exact hitok.1
              · show it2.initial.isSome = true
                rw [hinit]; exact hitok.2
              · simp only [Option.some.injEq] at hr'
                subst hr'
                exact ⟨by show it2.fbseq.isSome = true; rw [hseq]; rfl, hrew⟩
            · exact hent e he
          · rw [hsort, hfc, map_append, popOf, foldl_append]
            have : foldl (popStep env) ([], 0) (map (·.1) (fedOf (sortByFeedback hist))) = (pop, fedCount hist) := hpop
            rw [this]
            rfl
          · intro e he
            rw [hfc]
            have := hP.subset he
            rw [mem_append, mem_singleton] at this
            rcases this with h | rfl
            · obtain ⟨s, hs, hsn⟩ := hbound e h
              exact ⟨s, hs, by omega⟩
            · exact ⟨_, hseq, Nat.le_refl _⟩
          · intro a ha b hb hk
            have ha' := hP.subset ha
            have hb' := hP.subset hb
            rw [mem_append, mem_singleton] at ha' hb'
            rcases ha' with ha' | rfl <;> rcases hb' with hb' | rfl
            · exact hinj a ha' b hb' hk
            · obtain ⟨s, hs, hsn⟩ := hbound a ha'
              rw [hs] at hk
              have : (it2, some (it.reward.getD r)).1.fbseq = some (fedCount hist + 1) := hseq
              rw [this] at hk
              simp only [Option.some.injEq] at hk
              omega
            · obtain ⟨s, hs, hsn⟩ := hbound b hb'
              rw [hs] at hk
              have : (it2, some (it.reward.getD r)).1.fbseq = some (fedCount hist + 1) := hseq
              rw [this] at hk
              simp only [Option.some.injEq] at hk
              omega
            · rfl

theorem live_evolution_pop (env : Env) (init : Algo) (hb : IsBase init) (initSize : Option Nat) (run : List Event) :
    EvoPopInv env (runLive env (.evolution init initSize) run) := by
  apply runLive_inv env (.evolution init initSize) (EvoPopInv env)
  · refine ⟨_, _, _, _, _, rfl, fun it h => by simp at h, fun e h => by simp at h, rfl, ?_, ?_⟩
    · intro e he; simp [fedOf] at he
    · intro a ha; simp [fedOf] at ha
  · exact fun l e hl => evoPopInv_step env init hb initSize l e hl

/-- `Evolution.recover` (repaired source, base initialiser) on ANY well-labelled history. -/
theorem recover_evolution_of_ok (env : Env) (hg : env.q.evoInitGenBump = false) (ho : env.q.evoProposalOrder = false)
    (init : Algo) (hb : IsBase init) (initSize : Option Nat) (h : Hist) (hok : ∀ e ∈ h, EntryOk e) :
    ∃ si' ini' g', recover env (.evolution init initSize) (setup (.evolution init initSize)) h
      = .ok (.evolution h.length (popOf env ([], 0) ((fedOf (sortByFeedback h)).map (·.1))).2 si' ini' g'
              (popOf env ([], 0) ((fedOf (sortByFeedback h)).map (·.1))).1 []) := by
  obtain ⟨g', hloop⟩ := evoRecover_loop_pop env hg (.evolution init initSize) (sortByFeedback h)
    (fun e he => hok e ((mem_sortByFeedback e _).mp he)) 0 0 (setup init) false 0 [] []
  have htot : ∃ si', recover env init (setup init) (h.filter isInitFed) = .ok si' := by
    rcases hb with rfl | ⟨seed, sd, rfl⟩
    · simp only [recover, setup, baseRecover_sweeping]; exact ⟨_, rfl⟩
    · simp only [recover, setup, baseRecover_random]; exact ⟨_, rfl⟩
  obtain ⟨si', hsi'⟩ := htot
  simp only [recover, ho, setup, hloop, hsi', Bool.false_eq_true, ↓reduceIte, length_sortByFeedback, Nat.zero_add]
  exact ⟨_, _, _, rfl⟩

end Pg.C15
