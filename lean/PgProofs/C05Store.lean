/- Helper lemmas for the C05 store theorems (flat directory: single-component keys). -/
import PgModel.C05Store
namespace Pg.C05

/-! ### Insertion-ordered dict -/

theorem dget_dset_same (es : Dir) (x : Name) (n : Node) : dget (dset es x n) x = some n := by
  induction es with
  | nil => simp [dset, dget]
  | cons p r ih =>
    obtain ⟨y, m⟩ := p
    by_cases h : y = x
    · simp [dset, dget, h]
    · simp [dset, dget, h, ih]

theorem dget_dset_other (es : Dir) (x y : Name) (n : Node) (hxy : x ≠ y) :
    dget (dset es x n) y = dget es y := by
  induction es with
  | nil => simp [dset, dget, hxy]
  | cons p r ih =>
    obtain ⟨z, m⟩ := p
    by_cases h : z = x
    · subst h; simp [dset, dget, hxy]
    · by_cases h2 : z = y
      · subst h2; simp [dset, dget, h]
      · simp [dset, dget, h, h2, ih]

/-! ### Lines -/

theorem linesOf_append (a b : List (List Char)) : linesOf (a ++ b) = linesOf a ++ linesOf b := by
  induction a with
  | nil => rfl
  | cons r rs ih => simp [linesOf, ih]

theorem dropWhile_nl_of_head (l : List Char) (h : ∀ c ∈ l.head?, c ≠ '\n') :
    l.dropWhile (· = '\n') = l := by
  cases l with
  | nil => rfl
  | cons c cs =>
    have : c ≠ '\n' := h c (by simp)
    simp [List.dropWhile, this]

theorem rstripNl_id (r : List Char) (h : '\n' ∉ r) : rstripNl r = r := by
  unfold rstripNl
  rw [dropWhile_nl_of_head, List.reverse_reverse]
  intro c hc
  have : c ∈ r.reverse := List.mem_of_mem_head? hc
  rw [List.mem_reverse] at this
  intro e; subst e; exact h this

theorem readLines_line (r rest : List Char) (h : '\n' ∉ r) :
    readLines (r ++ '\n' :: rest) = r :: readLines rest := by
  induction r with
  | nil => simp [readLines]
  | cons c cs ih =>
    have hc : c ≠ '\n' := fun e => h (by simp [e])
    have hcs : '\n' ∉ cs := fun e => h (List.mem_cons_of_mem _ e)
    simp only [List.cons_append, readLines, if_neg hc, ih hcs]

theorem readLines_linesOf (rs : List (List Char)) (h : ∀ r ∈ rs, '\n' ∉ r) :
    readLines (linesOf rs) = rs := by
  induction rs with
  | nil => rfl
  | cons r rs ih =>
    have hr := h r (List.mem_cons_self ..)
    simp only [linesOf, rstripNl_id r hr]
    rw [readLines_line r _ hr, ih (fun q hq => h q (List.mem_cons_of_mem _ hq))]

end Pg.C05

namespace Pg.C05

/-! ### Abstract store over a flat directory -/

/-- The abstract store: file name ↦ content. -/
abbrev Abs := Name → Option (List Char)

def absOf (root : Dir) : Abs := fun x =>
  match dget root x with
  | some (.file c) => some c
  | _ => none

def upd (a : Abs) (x : Name) (c : List Char) : Abs := fun y => if x = y then some c else a y

/-- The root holds files only. -/
def Flat (root : Dir) : Prop := ∀ x sub, dget root x ≠ some (.dir sub)

/-- `p` denotes a file directly under the mount point, and the three ways the code derives a
location from the path string agree (`_locate(path)`, `_parent_and_name(path)`, `dirname(path)`). -/
def FlatOK (cfg : FsCfg) (p : Path) : Bool :=
  key cfg p == [nameStr p] && (key cfg (parentStr p)).isEmpty && (key cfg (dirname p)).isEmpty

theorem FlatOK_key {cfg : FsCfg} {p : Path} (h : FlatOK cfg p = true) : key cfg p = [nameStr p] := by
  simp only [FlatOK, Bool.and_eq_true, beq_iff_eq] at h; exact h.1.1

theorem FlatOK_parent {cfg : FsCfg} {p : Path} (h : FlatOK cfg p = true) : key cfg (parentStr p) = [] := by
  simp only [FlatOK, Bool.and_eq_true, List.isEmpty_iff] at h; exact h.1.2

theorem FlatOK_dirname {cfg : FsCfg} {p : Path} (h : FlatOK cfg p = true) : key cfg (dirname p) = [] := by
  simp only [FlatOK, Bool.and_eq_true, List.isEmpty_iff] at h; exact h.2

theorem locate_one (root : Dir) (x : Name) : locate (.dir root) [x] = .ok (dget root x) := by
  simp only [locate]
  cases dget root x <;> simp [locate]

theorem absOf_dset (root : Dir) (x : Name) (c : List Char) :
    absOf (dset root x (.file c)) = upd (absOf root) x c := by
  funext y
  unfold absOf upd
  by_cases h : x = y
  · subst h; simp [dget_dset_same]
  · simp [dget_dset_other root x y _ h, h]

theorem Flat_dset (root : Dir) (x : Name) (c : List Char) (h : Flat root) :
    Flat (dset root x (.file c)) := by
  intro y sub
  by_cases hxy : x = y
  · subst hxy; simp [dget_dset_same]
  · rw [dget_dset_other root x y _ hxy]; exact h y sub

theorem Flat_nil : Flat [] := by intro x sub; simp [dget]

theorem mkdirsApi_flat (cfg : FsCfg) (root : Dir) (p : Path) (h : FlatOK cfg p = true) :
    mkdirsApi cfg root (dirname p) = .ok root := by
  unfold mkdirsApi
  rw [FlatOK_dirname h]
  split <;> simp [mkdirsAt]

/-- New content of a file after `writefile(..., mode)`. -/
def newContent (a : Abs) (x : Name) (content : List Char) : Mode → List Char
  | .w => content
  | .a => (a x).getD [] ++ content

theorem writeFile_flat (cfg : FsCfg) (root : Dir) (p : Path) (content : List Char) (mode : Mode)
    (hflat : Flat root) (hp : FlatOK cfg p = true) (ht : cfg.truncateOnW = true)
    (ha : cfg.appendAtEnd = true) :
    writeFile cfg root p content mode =
      .ok (dset root (nameStr p) (.file (newContent (absOf root) (nameStr p) content mode))) := by
  unfold writeFile
  rw [FlatOK_key hp, FlatOK_parent hp, locate_one]
  have hroot : locate (.dir root) [] = .ok (some (.dir root)) := rfl
  cases hd : dget root (nameStr p) with
  | none =>
    cases mode <;> simp [hd, ht, ha, hroot, setAt, newContent, absOf]
  | some n =>
    cases n with
    | dir sub => exact absurd hd (hflat _ sub)
    | file c =>
      cases mode
      · simp [hd, ht, ha, hroot, setAt, newContent, absOf]
      · simp [hd, ht, ha, updFile, newContent, absOf]

theorem readFile_flat (cfg : FsCfg) (root : Dir) (p : Path) (hflat : Flat root)
    (hp : FlatOK cfg p = true) :
    readFile cfg root p = match absOf root (nameStr p) with
      | some c => .ok c
      | none => .error .notFound := by
  unfold readFile
  rw [FlatOK_key hp, locate_one]
  cases hd : dget root (nameStr p) with
  | none => simp [absOf, hd]
  | some n =>
    cases n with
    | dir sub => exact absurd hd (hflat _ sub)
    | file c => simp [absOf, hd]

end Pg.C05

namespace Pg.C05

/-! ### Appending to a file that ends in a newline -/

/-- The file is empty or ends in a newline (what every `LineSequence` session leaves behind). -/
def Terminated (c : List Char) : Prop := c = [] ∨ ∃ c', c = c' ++ ['\n']

theorem readLines_ne_nil (a : List Char) (h : a ≠ []) : readLines a ≠ [] := by
  cases a with
  | nil => exact absurd rfl h
  | cons c cs =>
    simp only [readLines]
    split
    · simp
    · split <;> simp

theorem readLines_split (a rest : List Char) :
    readLines (a ++ '\n' :: rest) = readLines (a ++ ['\n']) ++ readLines rest := by
  induction a with
  | nil => simp [readLines]
  | cons x a ih =>
    by_cases hx : x = '\n'
    · subst hx
      simp only [List.cons_append, readLines, if_true, ih, List.cons_append]
    · simp only [List.cons_append, readLines, if_neg hx, ih]
      have hne := readLines_ne_nil (a ++ ['\n']) (by simp)
      cases hr : readLines (a ++ ['\n']) with
      | nil => exact absurd hr hne
      | cons l ls => simp

theorem readLines_append_terminated (c rest : List Char) (h : Terminated c) :
    readLines (c ++ rest) = readLines c ++ readLines rest := by
  rcases h with rfl | ⟨c', rfl⟩
  · simp [readLines]
  · have := readLines_split c' rest
    simp only [List.append_assoc, List.cons_append, List.nil_append] at this ⊢
    exact this

theorem linesOf_terminated (rs : List (List Char)) : Terminated (linesOf rs) := by
  induction rs with
  | nil => exact .inl rfl
  | cons r rs ih =>
    rcases ih with h | ⟨c', h⟩
    · right; exact ⟨rstripNl r, by simp [linesOf, h]⟩
    · right; exact ⟨rstripNl r ++ '\n' :: c', by simp [linesOf, h]⟩

theorem terminated_append (a b : List Char) (ha : Terminated a) (hb : Terminated b) : Terminated (a ++ b) := by
  rcases hb with rfl | ⟨b', rfl⟩
  · simpa using ha
  · right; exact ⟨a ++ b', by simp⟩

end Pg.C05
