/-
  C02: one `update` / `rebind` / constructor call that names a key more than once. pg merges the
  arguments into one dict first (`mergePairs`) and then assigns entry by entry; Python assigns entry by
  entry. Without `MISSING` among the values the two agree for every argument list.
-/
import PgProofs.ContainerDictBase
import Mathlib.Data.List.Induction
namespace Pg.C02

def Key.norm : Key → Sum String Int
  | .s n => .inl n
  | .i j => .inr j
  | .b v => .inr (if v then 1 else 0)

theorem eqv_iff (a c : Key) : a.eqv c = true ↔ a.norm = c.norm := by
  cases a <;> cases c <;> simp [Key.eqv, Key.num?, Key.norm]

theorem eqv_symm {a c : Key} (h : a.eqv c = true) : c.eqv a = true :=
  (eqv_iff c a).mpr ((eqv_iff a c).mp h).symm

theorem eqv_trans {a c d : Key} (h1 : a.eqv c = true) (h2 : c.eqv d = true) : a.eqv d = true :=
  (eqv_iff a d).mpr (((eqv_iff a c).mp h1).trans ((eqv_iff c d).mp h2))

theorem eqv_congr_right {a c d : Key} (h : c.eqv d = true) : a.eqv c = a.eqv d := by
  cases h1 : a.eqv c with
  | true => exact (eqv_trans h1 h).symm
  | false =>
    cases h2 : a.eqv d with
    | false => rfl
    | true => rw [eqv_trans h2 (eqv_symm h)] at h1; cases h1

/-- Overwrite the value of every entry whose key is `k`. -/
def upd (k : Key) (v : Val) (p : Key × Val) : Key × Val := if p.1.eqv k then (p.1, v) else p

/-- The fold of plain item assignments. -/
def setFold (kvs ps : List (Key × Val)) : List (Key × Val) :=
  ps.foldl (fun acc p => dictSet acc p.1 p.2) kvs

theorem hasKey_append (A B : List (Key × Val)) (k : Key) : hasKey (A ++ B) k = (hasKey A k || hasKey B k) := by
  simp [hasKey]

theorem dictSet_has {X : List (Key × Val)} {k : Key} (v : Val) (h : hasKey X k = true) :
    dictSet X k v = X.map (upd k v) := by
  unfold dictSet; simp only [h, if_true]; rfl

theorem map_upd_nokey {X : List (Key × Val)} {k : Key} (v : Val) (h : hasKey X k = false) :
    X.map (upd k v) = X := by
  unfold hasKey at h
  rw [List.any_eq_false] at h
  conv => rhs; rw [← List.map_id X]
  apply List.map_congr_left
  intro p hp
  have := h p hp
  simp only [upd]
  simp_all

theorem hasKey_map_upd (X : List (Key × Val)) (j k : Key) (w : Val) :
    hasKey (X.map (upd j w)) k = hasKey X k := by
  unfold hasKey
  rw [List.any_map]
  congr 1
  funext p
  simp only [Function.comp, upd]
  split <;> rfl

theorem hasKey_dictSet (X : List (Key × Val)) (j k : Key) (w : Val) :
    hasKey (dictSet X j w) k = (hasKey X k || j.eqv k) := by
  cases h : hasKey X j with
  | true =>
    rw [dictSet_has w h, hasKey_map_upd]
    cases hk : hasKey X k with
    | true => simp
    | false =>
      simp only [Bool.false_or]
      cases hjk : j.eqv k with
      | false => rfl
      | true =>
        -- X has j, j ~ k, so X has k: contradiction
        exfalso
        unfold hasKey at h hk
        rw [List.any_eq_true] at h
        rw [List.any_eq_false] at hk
        obtain ⟨p, hp, hpj⟩ := h
        have := hk p hp
        rw [eqv_trans hpj hjk] at this
        simp at this
  | false =>
    rw [dictSet_nokey w h, hasKey_append]
    simp [hasKey]

theorem hasKey_setFold_mono {X acc : List (Key × Val)} {k : Key} (h : hasKey X k = true) :
    hasKey (setFold X acc) k = true := by
  induction acc generalizing X with
  | nil => exact h
  | cons q acc ih =>
    simp only [setFold, List.foldl_cons]
    exact ih (by rw [hasKey_dictSet, h]; rfl)

theorem hasKey_setFold_of_acc {X acc : List (Key × Val)} {k : Key} (h : hasKey acc k = true) :
    hasKey (setFold X acc) k = true := by
  induction acc generalizing X with
  | nil => simp [hasKey] at h
  | cons q acc ih =>
    simp only [setFold, List.foldl_cons]
    have hq : hasKey (q :: acc) k = (q.1.eqv k || hasKey acc k) := by simp [hasKey]
    rw [hq] at h
    cases hqk : q.1.eqv k with
    | true => exact hasKey_setFold_mono (by rw [hasKey_dictSet, hqk]; simp)
    | false => rw [hqk] at h; exact ih (by simpa using h)

theorem upd_upd_same {j k : Key} (hjk : j.eqv k = true) (w v : Val) (p : Key × Val) :
    upd k v (upd j w p) = upd j v p := by
  have hc := eqv_congr_right (a := p.1) hjk
  by_cases h : p.1.eqv j = true
  · have hk : p.1.eqv k = true := by rw [← hc]; exact h
    simp [upd, h, hk]
  · have hk : ¬ p.1.eqv k = true := by rw [← hc]; exact h
    simp [upd, h, hk]

/-- Assigning `j` and then the same key again: only the second value counts (the key object stays). -/
theorem dictSet_overwrite (X : List (Key × Val)) {j k : Key} (hjk : j.eqv k = true) (w v : Val) :
    dictSet (dictSet X j w) k v = dictSet X j v := by
  have hk : hasKey (dictSet X j w) k = true := by rw [hasKey_dictSet, hjk]; simp
  rw [dictSet_has v hk]
  cases h : hasKey X j with
  | true =>
    rw [dictSet_has w h, dictSet_has v h, List.map_map]
    apply List.map_congr_left
    intro p _
    exact upd_upd_same hjk w v p
  | false =>
    rw [dictSet_nokey w h, dictSet_nokey v h, List.map_append]
    have hxk : hasKey X k = false := by
      cases hx : hasKey X k with
      | false => rfl
      | true =>
        exfalso
        unfold hasKey at h hx
        rw [List.any_eq_true] at hx
        rw [List.any_eq_false] at h
        obtain ⟨p, hp, hpk⟩ := hx
        have := h p hp
        rw [eqv_trans hpk (eqv_symm hjk)] at this
        simp at this
    rw [map_upd_nokey v hxk]
    simp [upd, hjk]

/-- Two names of one present key address the same entries. -/
theorem dictSet_key_congr {X : List (Key × Val)} {j k : Key} (hjk : j.eqv k = true) (v : Val)
    (h : hasKey X k = true) : dictSet X k v = dictSet X j v := by
  have hj : hasKey X j = true := by
    unfold hasKey at h ⊢
    rw [List.any_eq_true] at h ⊢
    obtain ⟨p, hp, hpk⟩ := h
    exact ⟨p, hp, eqv_trans hpk (eqv_symm hjk)⟩
  rw [dictSet_has v h, dictSet_has v hj]
  apply List.map_congr_left
  intro p _
  simp only [upd]
  rw [eqv_congr_right (a := p.1) hjk]

theorem upd_comm {j k : Key} (hjk : j.eqv k = false) (w v : Val) (p : Key × Val) :
    upd j w (upd k v p) = upd k v (upd j w p) := by
  by_cases h1 : p.1.eqv k = true <;> by_cases h2 : p.1.eqv j = true
  · exfalso
    have := eqv_trans (eqv_symm h2) h1
    rw [hjk] at this; cases this
  · simp [upd, h1, h2]
  · simp [upd, h1, h2]
  · simp [upd, h1, h2]

/-- Assignments to different keys commute as soon as the first key is already present (no new
position is created for it). -/
theorem dictSet_comm {X : List (Key × Val)} {j k : Key} (hjk : j.eqv k = false) (w v : Val)
    (h : hasKey X k = true) :
    dictSet (dictSet X k v) j w = dictSet (dictSet X j w) k v := by
  have hk' : hasKey (dictSet X j w) k = true := by rw [hasKey_dictSet, h]; rfl
  rw [dictSet_has v h, dictSet_has v hk']
  cases hj : hasKey X j with
  | true =>
    have hj' : hasKey (X.map (upd k v)) j = true := by rw [hasKey_map_upd]; exact hj
    rw [dictSet_has w hj', dictSet_has w hj, List.map_map, List.map_map]
    apply List.map_congr_left
    intro p _
    exact upd_comm hjk w v p
  | false =>
    have hj' : hasKey (X.map (upd k v)) j = false := by rw [hasKey_map_upd]; exact hj
    rw [dictSet_nokey w hj', dictSet_nokey w hj, List.map_append]
    simp [upd, hjk]

theorem setFold_append (X A B : List (Key × Val)) : setFold X (A ++ B) = setFold (setFold X A) B := by
  simp [setFold, List.foldl_append]

/-- Changing a value inside the argument list = changing it in the result, for a key the list
already names. -/
theorem setFold_dictSet (kvs acc : List (Key × Val)) (k : Key) (v : Val) :
    setFold kvs (dictSet acc k v) = dictSet (setFold kvs acc) k v := by
  induction acc using List.reverseRecOn with
  | nil => rfl
  | append_singleton acc q ih =>
    cases hq : q.1.eqv k with
    | true =>
      have hk : hasKey (acc ++ [q]) k = true := by rw [hasKey_append]; simp [hasKey, hq]
      rw [dictSet_has v hk, List.map_append, setFold_append, setFold_append]
      have e1 : [q].map (upd k v) = [(q.1, v)] := by simp [upd, hq]
      rw [e1]
      show dictSet (setFold kvs (acc.map (upd k v))) q.1 v = dictSet (dictSet (setFold kvs acc) q.1 q.2) k v
      rw [dictSet_overwrite _ hq]
      cases ha : hasKey acc k with
      | false => rw [map_upd_nokey v ha]
      | true =>
        rw [← dictSet_has v ha, ih]
        have hx : hasKey (setFold kvs acc) k = true := hasKey_setFold_of_acc ha
        rw [dictSet_overwrite _ (eqv_symm hq)]
        exact dictSet_key_congr hq v hx
    | false =>
      cases ha : hasKey acc k with
      | false =>
        have hk : hasKey (acc ++ [q]) k = false := by rw [hasKey_append, ha]; simp [hasKey, hq]
        rw [dictSet_nokey v hk, setFold_append]
        rfl
      | true =>
        have hk : hasKey (acc ++ [q]) k = true := by rw [hasKey_append, ha]; rfl
        rw [dictSet_has v hk, List.map_append, setFold_append, setFold_append]
        have e1 : [q].map (upd k v) = [q] := by simp [upd, hq]
        rw [e1, ← dictSet_has v ha, ih]
        show dictSet (dictSet (setFold kvs acc) k v) q.1 q.2 = dictSet (dictSet (setFold kvs acc) q.1 q.2) k v
        exact dictSet_comm hq q.2 v (hasKey_setFold_of_acc ha)

theorem setFold_merge (kvs acc ps : List (Key × Val)) :
    setFold kvs (setFold acc ps) = setFold (setFold kvs acc) ps := by
  induction ps generalizing acc with
  | nil => rfl
  | cons p ps ih =>
    simp only [setFold, List.foldl_cons] at ih ⊢
    rw [ih (dictSet acc p.1 p.2)]
    have := setFold_dictSet kvs acc p.1 p.2
    simp only [setFold] at this
    rw [this]

/-- Merging the arguments first changes nothing for plain assignments. -/
theorem setFold_mergePairs (kvs ps : List (Key × Val)) :
    setFold kvs (PgDict.mergePairs ps) = setFold kvs ps :=
  setFold_merge kvs [] ps

/-! Without `MISSING` the write primitive and the reference assignment are plain assignments. -/

theorem assignAll_eq_setFold {kvs ps : List (Key × Val)} (h : ∀ p ∈ ps, p.2.isMissing = false) :
    PyDict.assignAll kvs ps = setFold kvs ps := by
  induction ps generalizing kvs with
  | nil => rfl
  | cons p ps ih =>
    obtain ⟨k, v⟩ := p
    have hv : v.isMissing = false := h (k, v) List.mem_cons_self
    simp only [PyDict.assignAll, PyDict.assign, hv, Bool.false_eq_true, if_false, setFold, List.foldl_cons]
    exact ih (fun q hq => h q (List.mem_cons_of_mem _ hq))

theorem mem_dictSet_val {X : List (Key × Val)} {k : Key} {v : Val} {p : Key × Val}
    (hp : p ∈ dictSet X k v) : p.2 = v ∨ ∃ q ∈ X, q.2 = p.2 := by
  unfold dictSet at hp
  split at hp
  · rw [List.mem_map] at hp
    obtain ⟨q, hq, he⟩ := hp
    split at he
    · subst he; exact Or.inl rfl
    · subst he; exact Or.inr ⟨q, hq, rfl⟩
  · rcases List.mem_append.mp hp with h | h
    · exact Or.inr ⟨p, h, rfl⟩
    · simp at h; subst h; exact Or.inl rfl

theorem mergePairs_vals {ps : List (Key × Val)} {P : Val → Prop} (h : ∀ p ∈ ps, P p.2) :
    ∀ p ∈ PgDict.mergePairs ps, P p.2 := by
  unfold PgDict.mergePairs
  have : ∀ acc : List (Key × Val), (∀ p ∈ acc, P p.2) →
      ∀ p ∈ ps.foldl (fun acc p => dictSet acc p.1 p.2) acc, P p.2 := by
    induction ps with
    | nil => intro acc ha; exact ha
    | cons q ps ih =>
      intro acc ha
      simp only [List.foldl_cons]
      apply ih (fun p hp => h p (List.mem_cons_of_mem _ hp))
      intro p hp
      rcases mem_dictSet_val hp with h1 | ⟨r, hr, he⟩
      · rw [h1]; exact h q List.mem_cons_self
      · rw [← he]; exact ha r hr
  exact this [] (by intro p hp; cases hp)

/-- `update` / `rebind` / construction with arbitrary repetition of keys, no `MISSING` among the
values: pg (merge, then assign) = Python (assign in order). -/
theorem setAll_mergePairs {kvs ps : List (Key × Val)} (hm : ∀ p ∈ ps, p.2.isMissing = false)
    (hf : ∀ p ∈ ps, missingFree p.2 = true) :
    PgDict.setAll kvs (PgDict.mergePairs ps) = PyDict.assignAll kvs ps := by
  rw [setAll_eq_assignAll (mergePairs_vals (P := fun v => missingFree v = true) hf)]
  rw [assignAll_eq_setFold (mergePairs_vals (P := fun v => v.isMissing = false) hm)]
  rw [assignAll_eq_setFold hm]
  exact setFold_mergePairs kvs ps

end Pg.C02
